"""C02 translator (G): the opcode switch of sexp_apply (vm.c)  ->  coq/Gen/C02_VmTop.v

Question answered per opcode: when a call that may allocate (= may run a collection) is reached, is every
live slot of the VM stack below the stack top *published in the context* (`sexp_context_top(ctx) = top`)?
The marker scans a thread's stack only up to the published top (Stack type: slot count = `top`,
sexp.c `_sexp_type_specs[]`), so an opcode that allocates with `top` above the published value loses
its newest operands, and one that never publishes inherits whatever an earlier opcode left.

Sources (all from the scratch build = $VERIF_REPO's working tree, with the build's own -D/-I flags):
 * may-allocate set: LLVM IR (`clang -O0 -S -emit-llvm`) of gc.c sexp.c bignum.c vm.c eval.c simplify.c
   opcodes.c gc_heap.c -> call graph -> every function from which sexp_alloc is reachable; a call through a
   function pointer counts as allocating (foreign functions, port procedures).
 * the switch: clang's JSON AST of sexp_apply (macros expanded, #if resolved as compiled).  Every case /
   label of the switch body becomes a *segment*; its statements are translated into the item language of
   coq/C02/VmTop.v:
       sexp_context_top(ctx) = top [+/- k]   IPub k        (published = top + k)
       top++ / top-- / top += k / _PUSH/_POP  ITop d
       top -= <non constant>                  ITopDown      (amount assumed >= 0: listed as assumption)
       top = sexp_context_top(ctx)            IReload
       top = <anything else>                  ITopUnknown
       stack[top + k] = e                     <items of e>; IStore k      (the calls inside e run BEFORE the store)
       stack[top++] = e  (_PUSH)              <items of e>; IStore 0; ITop 1
       f(.., stack[top + k], ..), f allocating  IArg k   (before the ICall: the slot's value is handed to a callee that allocates)
       f(...) with f in the may-allocate set  ICall "f"
       if / ?: / && / ||                      IIf a b       (either branch)
       nested switch                          IBlock [IIf ...]  (a break inside leaves the block)
       for / while / do                       ILoop body    (any number of iterations; break/continue = IBreak)
       break (of the segment) / goto / return IStop
   A segment starts in the state "relation of local and published top unknown (the previous opcode may have moved top
   without publishing); every slot below the local top and below the published top has been written" and must
   re-establish the second half at every exit.
   Two-sided check (round 3): at every allocating call  local top <= published top  (no LOST root: the marker scans
   every live operand)  and  published top <= written end  (no STALE root: the marker scans no slot that this opcode
   has not written; the sexp_raise defect fixed in e9f05cd).
   Fails closed: an AST node kind outside the handled set raises.
The verified checker `seg_ok` (coq/C02/VmTop.v, theorem vm_top_checker_sound) is run by vm_compute on the
generated table: obligation `alloc_ops_publish_top` in coq/C02/VmTopCheck.v.
"""
import os, re, subprocess, json

UNITS = ["gc", "sexp", "bignum", "vm", "eval", "simplify", "opcodes", "gc_heap"]


class Unsupported(Exception):
    pass


def build_flags(d):
    log = open(os.path.join(d, ".build.log")).read()
    m = re.search(r"^(\S+) -c (.*) -o vm\.o vm\.c$", log, re.M)
    if not m:
        raise Unsupported("no compile line for vm.c in the build log")
    return [f for f in m.group(2).split() if f.startswith(("-D", "-I", "-U"))]


def may_allocate(d, flags, work):
    """names of the functions of the core library from which sexp_alloc is reachable"""
    calls, defined, indirect = {}, set(), set()
    for u in UNITS:
        if not os.path.exists(os.path.join(d, u + ".c")):
            raise Unsupported("compile unit %s.c missing" % u)
        ll = os.path.join(work, "vmtop-%s.ll" % u)
        r = subprocess.run(["clang", "-O0", "-S", "-emit-llvm", "-w"] + flags + ["-o", ll, u + ".c"], cwd=d, capture_output=True, text=True, timeout=300)
        if r.returncode != 0:
            raise Unsupported("clang -emit-llvm %s.c failed: %s" % (u, r.stderr[-400:]))
        cur = None
        for l in open(ll):
            m = re.match(r"define .*?@([\w.]+)\(", l)
            if m:
                cur = m.group(1)
                defined.add(cur)
                calls.setdefault(cur, set())
                continue
            if l.startswith("}"):
                cur = None
                continue
            if cur and re.search(r"\b(call|invoke)\b", l):
                m = re.search(r"@([\w.]+)\(", l)
                if m:
                    calls[cur].add(m.group(1))
                elif " asm " not in l:
                    indirect.add(cur)
        os.unlink(ll)
    if "sexp_alloc" not in defined or "sexp_apply" not in defined:
        raise Unsupported("sexp_alloc / sexp_apply not found in the IR")
    A = {"sexp_alloc"} | indirect
    changed = True
    while changed:
        changed = False
        for f, cs in calls.items():
            if f not in A and cs & A:
                A.add(f)
                changed = True
    return A, defined


# ------------------------------------------------------------------------------------------ AST
def load_apply_ast(d, flags, work):
    p = os.path.join(work, "vmtop-apply.json")
    with open(p, "w") as fh:
        r = subprocess.run(["clang", "-fsyntax-only", "-w"] + flags + ["-Xclang", "-ast-dump=json", "-Xclang", "-ast-dump-filter=sexp_apply", "vm.c"],
                           cwd=d, stdout=fh, stderr=subprocess.PIPE, text=True, timeout=300)
    if r.returncode != 0:
        raise Unsupported("clang ast-dump of vm.c failed: %s" % r.stderr[-400:])
    s = open(p).read()
    os.unlink(p)
    dec, i, fn = json.JSONDecoder(), 0, None
    while i < len(s):
        while i < len(s) and s[i].isspace():
            i += 1
        if i >= len(s):
            break
        o, i = dec.raw_decode(s, i)
        if o.get("kind") == "FunctionDecl" and o.get("name") == "sexp_apply" and any(c.get("kind") == "CompoundStmt" for c in o.get("inner", [])):
            fn = o
    if fn is None:
        raise Unsupported("definition of sexp_apply not found in the AST")
    return fn


WRAP = {"ParenExpr", "ImplicitCastExpr", "CStyleCastExpr", "ConstantExpr"}


def strip(n):
    while n.get("kind") in WRAP and n.get("inner"):
        n = n["inner"][-1]
    return n


def is_var(n, name):
    n = strip(n)
    return n.get("kind") == "DeclRefExpr" and n.get("referencedDecl", {}).get("name") == name


def mentions(n, pred):
    if pred(n):
        return True
    return any(mentions(c, pred) for c in n.get("inner", []))


def is_ctx_top(n):
    """sexp_context_top(ctx): (((ctx)->value.context.stack)->value.stack.top)"""
    n = strip(n)
    if not (n.get("kind") == "MemberExpr" and n.get("name") == "top"):
        return False
    has_stack = mentions(n, lambda x: x.get("kind") == "MemberExpr" and x.get("name") == "stack" and mentions(x, lambda y: y.get("kind") == "MemberExpr" and y.get("name") == "context"))
    has_ctx = mentions(n, lambda x: x.get("kind") == "DeclRefExpr" and x.get("referencedDecl", {}).get("name") == "ctx")
    return has_stack and has_ctx


def int_const(n):
    n = strip(n)
    if n.get("kind") == "IntegerLiteral":
        return int(n["value"])
    if n.get("kind") == "UnaryOperator" and n.get("opcode") == "-":
        v = int_const(n["inner"][0])
        return None if v is None else -v
    return None


def top_plus(n):
    """n = top | top + k | top - k  ->  k, else None"""
    n = strip(n)
    if is_var(n, "top"):
        return 0
    if n.get("kind") == "BinaryOperator" and n.get("opcode") in ("+", "-"):
        a, b = n["inner"]
        k = int_const(b)
        if is_var(a, "top") and k is not None:
            return k if n["opcode"] == "+" else -k
    return None


def below_top(n):
    """n = top - v1 - c1 - v2 ... (only subtractions of integer constants and of variables): the sum of the constants
    (negated), else None"""
    n = strip(n)
    if is_var(n, "top"):
        return 0
    if n.get("kind") == "BinaryOperator" and n.get("opcode") in ("-", "+"):
        a, b = n["inner"]
        base = below_top(a)
        if base is None:
            return None
        c = int_const(b)
        if c is not None:
            return base - c if n["opcode"] == "-" else base + c
        if n["opcode"] == "-" and strip(b).get("kind") == "DeclRefExpr":
            return base
    return None


class Walker:
    def __init__(self, alloc, defined):
        self.alloc, self.defined = alloc, defined
        self.assumptions = []
        self.unknown_callees = set()
        self.nest = []           # per enclosing loop: number of nested switches entered inside it
        self.preserved = set()   # locals of sexp_apply registered with sexp_gc_preserve

    def stable_value(self, b):
        """the stored value needs no root of its own: an immediate built from an integer ((sexp)(integer expression):
        SEXP_ONE, sexp_make_fixnum(..), SEXP_VOID ...) or the value of a local that sexp_apply registers with sexp_gc_preserve"""
        n = b
        while n.get("kind") in ("ParenExpr", "ImplicitCastExpr", "ConstantExpr") and n.get("inner"):
            n = n["inner"][-1]
        if n.get("kind") == "CStyleCastExpr" and n.get("inner"):
            t = n["inner"][-1].get("type", {})
            q = (t.get("desugaredQualType") or t.get("qualType") or "").replace("const ", "").strip()
            if q in ("long", "unsigned long", "int", "unsigned int", "char", "unsigned char", "long long", "unsigned long long"):
                return True
            return self.stable_value(n["inner"][-1])
        if n.get("kind") == "DeclRefExpr" and n.get("referencedDecl", {}).get("name") in self.preserved:
            return True
        return False

    def stack_store(self, a, b=None):
        """a = left side of an assignment.  stack[top + k] -> [store k]; stack[top++] -> [store 0; top 1];
        stack[--top] -> [top -1; store 0]; any other subscript of `stack` that mentions top -> no information
        (a store that is not recorded can only make the check stricter); else None"""
        a = strip(a)
        if a.get("kind") != "ArraySubscriptExpr":
            return None
        base, idx = a["inner"]
        if not is_var(base, "stack"):
            return None
        stb = 1 if (b is not None and self.stable_value(b)) else 0
        k = top_plus(idx)
        if k is not None:
            return [("store", k, stb)]
        si = strip(idx)
        if si.get("kind") == "UnaryOperator" and si.get("opcode") in ("++", "--") and is_var(si["inner"][0], "top"):
            dlt = 1 if si["opcode"] == "++" else -1
            return [("store", 0, stb), ("top", dlt)] if si.get("isPostfix") else [("top", dlt), ("store", 0, stb)]
        bt = below_top(idx)
        if bt is not None and bt <= -1:
            self.assumptions.append("in stack[top - <variable> - c] the variable part is non-negative (the slot lies below the local top)")
            return self.expr(idx) + [("store", -1, stb)]
        if mentions(idx, lambda x: x.get("kind") == "DeclRefExpr" and x.get("referencedDecl", {}).get("name") == "top") and not stb:
            raise Unsupported("store of a non-immediate value into stack[<expression of top that is not top + constant>]")
        return self.expr(idx)

    # ---- expressions: returns list of items (evaluation order: operands, then the operation)
    def expr(self, n):
        k = n.get("kind")
        if k is None:
            return []
        inner = n.get("inner", [])
        if k in ("BinaryOperator", "CompoundAssignOperator"):
            op = n.get("opcode")
            a, b = inner
            if op == "=":
                if is_ctx_top(a):
                    sb = strip(b)
                    if sb.get("kind") == "UnaryOperator" and sb.get("opcode") in ("++", "--") and is_var(sb["inner"][0], "top"):
                        dlt = 1 if sb["opcode"] == "++" else -1        # sexp_context_top(ctx) = --top;  /  = top--;
                        return [("pub", 0), ("top", dlt)] if sb.get("isPostfix") else [("top", dlt), ("pub", 0)]
                    d = top_plus(b)
                    its = self.expr(b)
                    return its + ([("pub", d)] if d is not None else [("pubunknown",)])
                if is_var(a, "top"):
                    its = self.expr(b)
                    if is_ctx_top(b):
                        return its + [("reload",)]
                    return its + [("topunknown",)]
                st = self.stack_store(a, b)
                if st is not None:
                    return self.expr(b) + st
                return self.expr(b) + self.expr(a)
            if op in ("+=", "-=") and is_var(a, "top"):
                its = self.expr(b)
                c = int_const(b)
                if c is not None:
                    return its + [("top", c if op == "+=" else -c)]
                if op == "-=":
                    self.assumptions.append("top -= <non-constant amount> is a decrease")
                    return its + [("topdown",)]
                return its + [("topunknown",)]
            if op in ("&&", "||"):
                ra, rb = self.expr(a), self.expr(b)
                return ra + ([("if", rb, [])] if rb else [])
            if op == ",":
                return self.expr(a) + self.expr(b)
            if is_var(a, "top") and op.endswith("=") and op not in ("==", "!=", "<=", ">="):
                return self.expr(b) + [("topunknown",)]
            return self.expr(a) + self.expr(b)
        if k == "UnaryOperator":
            op = n.get("opcode")
            if op in ("++", "--") and is_var(inner[0], "top"):
                return [("top", 1 if op == "++" else -1)]
            if op == "&" and is_var(inner[0], "top"):
                raise Unsupported("address of top taken")
            return self.expr(inner[0])
        if k == "ConditionalOperator":
            c, a, b = inner
            ra, rb = self.expr(a), self.expr(b)
            return self.expr(c) + ([("if", ra, rb)] if (ra or rb) else [])
        if k == "CallExpr":
            callee, args = inner[0], inner[1:]
            its = []
            for a in args:
                its += self.expr(a)
            c = strip(callee)
            direct = c.get("kind") == "DeclRefExpr" and c.get("referencedDecl", {}).get("kind") == "FunctionDecl"
            if not direct or c["referencedDecl"]["name"] in self.alloc:
                # the callee allocates before it stores its arguments: a stack slot passed by value must be one the marker scans
                for a in args:
                    sa = strip(a)
                    if sa.get("kind") == "ArraySubscriptExpr" and is_var(sa["inner"][0], "stack"):
                        k = top_plus(sa["inner"][1])
                        if k is None:
                            bt = below_top(sa["inner"][1])
                            if bt is not None and bt <= -1:
                                k = -1
                                self.assumptions.append("in stack[top - <variable> - c] the variable part is non-negative (the slot lies below the local top)")
                        if k is not None:
                            its.append(("arg", k))
            if direct:
                name = c["referencedDecl"]["name"]
                if name in self.alloc:
                    its.append(("call", name))
                elif name not in self.defined:
                    self.unknown_callees.add(name)       # libc etc.: listed in the evidence
            else:
                its += self.expr(callee)
                its.append(("call", "(indirect)"))
            return its
        if k in ("DeclRefExpr", "IntegerLiteral", "CharacterLiteral", "StringLiteral", "FloatingLiteral", "UnaryExprOrTypeTraitExpr", "OffsetOfExpr"):
            return []
        if k in WRAP or k in ("MemberExpr", "ArraySubscriptExpr", "StmtExpr", "InitListExpr", "CompoundLiteralExpr", "VAArgExpr", "PredefinedExpr", "ImplicitValueInitExpr"):
            its = []
            for c in inner:
                its += self.expr(c) if c.get("kind", "").endswith(("Expr", "Operator", "Literal")) else self.stmt(c)
            return its
        raise Unsupported("expression kind %s" % k)

    # ---- statements
    def stmt(self, n, breaks_stop=True):
        k = n.get("kind")
        inner = n.get("inner", [])
        if k is None or k == "NullStmt":
            return []
        if k == "CompoundStmt":
            its = []
            for c in inner:
                its += self.stmt(c, breaks_stop)
            return its
        if k == "IfStmt":
            cond, then = inner[0], inner[1]
            els = inner[2] if len(inner) > 2 else None
            return self.expr(cond) + [("if", self.stmt(then, breaks_stop), self.stmt(els, breaks_stop) if els else [])]
        if k == "ForStmt":
            init, _cv, cond, inc, body = inner
            its = self.stmt(init, breaks_stop) if init.get("kind") else []
            self.nest.append(0)
            loop = (self.expr(cond) if cond.get("kind") else []) + self.stmt(body, False) + (self.expr(inc) if inc.get("kind") else [])
            self.nest.pop()
            return its + [("loop", loop)]
        if k == "WhileStmt":
            cond, body = inner[0], inner[-1]
            self.nest.append(0)
            loop = self.expr(cond) + self.stmt(body, False)
            self.nest.pop()
            return [("loop", loop)]
        if k == "DoStmt":
            body, cond = inner
            self.nest.append(0)
            loop = self.stmt(body, False) + self.expr(cond)
            self.nest.pop()
            return [("loop", loop)]
        if k == "SwitchStmt":
            # a nested switch: every case is an alternative entered from the state before the switch; fall-through is
            # covered by also offering every suffix (cases in order) as an alternative
            cond, body = inner[0], inner[-1]
            alts, cur = [], None
            if self.nest:
                self.nest[-1] += 1
            for c in body.get("inner", []):
                while c.get("kind") in ("CaseStmt", "DefaultStmt"):
                    cur = []
                    alts.append(cur)
                    c = c["inner"][-1]
                if cur is None:
                    raise Unsupported("statement before the first case of a nested switch")
                piece = self.stmt(c, False)
                for a in alts:
                    a += piece                   # fall-through: earlier cases run this one's code too (over-approximation)
            if self.nest:
                self.nest[-1] -= 1
            its = self.expr(cond)
            node = []
            for a in reversed(alts):
                node = [("if", a, node)]
            return its + [("block", node)]
        if k in ("CaseStmt", "DefaultStmt"):
            raise Unsupported("case label nested inside a statement of the opcode switch")
        if k == "LabelStmt":
            raise Unsupported("label nested inside a compound statement")
        if k == "BreakStmt":
            return [("stop",)] if breaks_stop else [("loopbreak",)]
        if k == "ContinueStmt":
            if self.nest and self.nest[-1] > 0:
                raise Unsupported("continue inside a nested switch of a loop")
            return [("loopbreak",)]
        if k in ("GotoStmt", "ReturnStmt"):
            its = []
            for c in inner:
                its += self.expr(c)
            return its + [("stop",)]
        if k == "DeclStmt":
            its = []
            for dcl in inner:
                for c in dcl.get("inner", []):
                    if c.get("kind", "").endswith(("Expr", "Operator", "Literal")):
                        its += self.expr(c)
            return its
        if k.endswith(("Expr", "Operator", "Literal")):
            return self.expr(n)
        if k == "GCCAsmStmt":
            return []
        raise Unsupported("statement kind %s" % k)


def segments(fn, alloc, defined):
    """[(names, items)] for the opcode switch of sexp_apply: one segment per run of case labels / C label"""
    sw = []

    def find(n):
        if n.get("kind") == "SwitchStmt":
            sw.append(n)
            return
        for c in n.get("inner", []):
            find(c)
    find(fn)
    if len(sw) != 1:
        raise Unsupported("expected exactly one top-level switch in sexp_apply, found %d" % len(sw))
    cond = strip(sw[0]["inner"][0])
    body = sw[0]["inner"][-1]
    if body.get("kind") != "CompoundStmt":
        raise Unsupported("switch body is not a compound statement")
    w = Walker(alloc, defined)

    def preserved(n):
        # sexp_gc_preserve(ctx, x, y) expands to  (y).var = &(x);  ...
        if n.get("kind") == "BinaryOperator" and n.get("opcode") == "=":
            a, b = n["inner"]
            a, b = strip(a), strip(b)
            if a.get("kind") == "MemberExpr" and a.get("name") == "var" and b.get("kind") == "UnaryOperator" and b.get("opcode") == "&":
                v = strip(b["inner"][0])
                if v.get("kind") == "DeclRefExpr":
                    w.preserved.add(v["referencedDecl"]["name"])
        for c in n.get("inner", []):
            preserved(c)
    preserved(fn)
    segs, cur = [], None
    for st in body["inner"]:
        names = []
        while st.get("kind") in ("CaseStmt", "DefaultStmt", "LabelStmt"):
            if st["kind"] == "CaseStmt":
                c = strip(st["inner"][0])
                nm = c.get("referencedDecl", {}).get("name")
                if not nm:
                    raise Unsupported("case label is not an enum constant")
                names.append(nm)
            elif st["kind"] == "DefaultStmt":
                names.append("default")
            else:
                names.append("label:" + st.get("name", "?"))
            st = st["inner"][-1]
        if names:
            # the statements of the previous segment may fall through into this one: the previous segment gets this
            # segment's items appended lazily (see below) unless it ended in a stop
            cur = dict(names=names, items=[])
            segs.append(cur)
        if cur is None:
            raise Unsupported("statement before the first case")
        cur["items"] += w.stmt(st, True)
    return segs, w


def ends_stopped(items):
    """True when every path through items ends in a stop (no fall through)"""
    for it in reversed(items):
        if it[0] == "stop":
            return True
        if it[0] == "if":
            return ends_stopped(it[1]) and ends_stopped(it[2])
        return False                          # loops (zero iterations) and nested switches (no case taken) can fall through
    return False


# ------------------------------------------------------------------------------------------ python mirror of the checker
# abstract state: None (unreachable) | (rel, hi, wp, fe)
#   rel  STALE | LE (top <= published) | int d (top = published + d)
#   hi   lower bound of  written_end - top        (slots top .. top+hi-1 are written)
#   wp   lower bound of  written_end - published  (>= 0: the marker scans only written slots)
#   fe   None, or upper bound of  fresh_end - top  where fresh_end = 1 + the highest slot into which this opcode has stored
#        a value that is neither an immediate nor a registered local (None: no such store yet)
STALE, LE = "stale", "le"
START = (STALE, 0, 0, None)


def join_rel(a, b):
    if a == STALE or b == STALE:
        return STALE
    if a == LE or b == LE:
        return LE if (a == LE or a <= 0) and (b == LE or b <= 0) else STALE
    return a if a == b else (LE if a <= 0 and b <= 0 else STALE)


PINF = "inf"     # fe: nothing known (None = no fresh store yet = -infinity)


def fmax(a, b):
    if a == PINF or b == PINF:
        return PINF
    return b if a is None else (a if b is None else max(a, b))


def fadd(a, d):
    return a if (a is None or a == PINF) else a + d


def join(a, b):
    if a is None:
        return b
    if b is None:
        return a
    return (join_rel(a[0], b[0]), min(a[1], b[1]), min(a[2], b[2]), fmax(a[3], b[3]))


def safe_rel(r):
    return r == LE or (r != STALE and r <= 0)


def fresh_ok(rel, fe):
    """no freshly stored slot at or above the published top"""
    if fe is None:
        return True
    if fe == PINF:
        return False
    if rel == LE:
        return fe <= 0
    return rel != STALE and rel + fe <= 0


def run_items(items, st, bad):
    """returns (fall-through state, join of the states at IBreak); appends (callee or exit, why, state) to bad"""
    brk = None
    for it in items:
        if st is None:
            return None, brk
        k = it[0]
        rel, hi, wp, fe = st
        if k == "pub":
            st = (-it[1], hi, hi - it[1], fe)
        elif k == "pubunknown":
            bad.append(("(publish)", "the published top is set to something that is not top + constant", st))
            st = (STALE, hi, wp, fe)
        elif k == "reload":
            st = (0, wp, wp, fadd(fe, rel) if isinstance(rel, int) else (fe if rel == LE or fe is None else PINF))
        elif k == "top":
            d = it[1]
            nrel = STALE if rel == STALE else ((LE if d <= 0 else STALE) if rel == LE else rel + d)
            st = (nrel, hi - d, wp, fadd(fe, -d))
        elif k == "topdown":
            st = (STALE if rel == STALE else (LE if safe_rel(rel) else STALE), hi, wp, None if fe is None else PINF)
        elif k == "topunknown":
            st = (STALE, 0, wp, None)
        elif k == "store":
            nhi = hi + 1 if it[1] == hi else hi
            nfe = fe if it[2] else fmax(fe, it[1] + 1)
            st = (rel, nhi, max(wp, nhi + rel) if isinstance(rel, int) else wp, nfe)
        elif k == "arg":
            if not ((isinstance(rel, int) and it[1] + rel < 0) or (rel == LE and it[1] < 0)):
                bad.append(("(argument stack[top%+d])" % it[1], "lost-arg", st))
        elif k == "call":
            if not safe_rel(rel):
                bad.append((it[1], "lost", st))
            elif wp < 0:
                bad.append((it[1], "stale", st))
            elif not fresh_ok(rel, fe):
                bad.append((it[1], "lost-store", st))
        elif k == "if":
            fa, ba = run_items(it[1], st, bad)
            fb, bb = run_items(it[2], st, bad)
            st, brk = join(fa, fb), join(brk, join(ba, bb))
        elif k == "block":
            f, bk = run_items(it[1], st, bad)
            st = join(f, bk)
        elif k == "loop":
            def rnd(inv):
                f, bk = run_items(it[1], inv, [])
                return join(inv, join(f, bk))
            inv = rnd(rnd(rnd(st)))
            if rnd(inv) != inv:                  # widen the fresh end, one more round
                inv = rnd((inv[0], inv[1], inv[2], PINF))
            if rnd(inv) != inv:
                bad.append(("(loop)", "no stable loop invariant after 3 rounds", inv))
            run_items(it[1], inv, bad)
            st = inv
        elif k == "stop":
            if hi < 0 or wp < 0:
                bad.append(("(exit)", "exit", st))
            return None, brk
        elif k == "loopbreak":
            return None, join(brk, st)
        else:
            raise Unsupported("item " + k)
    return st, brk


def check_segment(items):
    bad = []
    f, bk = run_items(items, START, bad)
    for st in (f, bk):
        if st is not None and (st[1] < 0 or st[2] < 0):
            bad.append(("(exit)", "exit", st))
    return bad


def why_text(b):
    callee, why, st = b
    rel, hi, wp, fe = st
    if why == "lost-arg":
        return "%s of the next allocating call is a stack slot at or above the published top (relation of local and published top: %s): the callee allocates before it stores the argument, a collection there does not scan the slot (LOST root)" % (callee, rel)
    if why == "lost-store":
        return "%s is reached while a slot into which this opcode stored a heap value (neither an immediate nor a registered local) lies at or above the published top (fresh end - local top <= %s, local top %s published top): a collection there does not scan it (LOST root)" % (
            callee, fe, ("= %+d +" % rel) if isinstance(rel, int) else "<=")
    if why == "lost":
        return "%s is reached with the local stack top not known to be <= the published top (relation %s): a collection there does not scan the newest stack slots (LOST root)" % (callee, rel)
    if why == "stale":
        return "%s is reached with the published top %d slot(s) above the end of the slots written by this opcode (local top %s published, %d slot(s) written at or above it): a collection there marks a word left by an earlier frame (STALE root)" % (
            callee, -wp, ("= %+d relative to the" % rel) if isinstance(rel, int) else "<= the", hi)
    if why == "exit":
        return "the opcode can end with an unwritten slot below the local top (written end - top >= %d) or below the published top (written end - published >= %d): the next opcode would scan / use it" % (hi, wp)
    return "%s: %s" % (callee, why)


# ------------------------------------------------------------------------------------------ Coq output
def coq_items(items):
    out = []
    for it in items:
        k = it[0]
        if k == "pub":
            out.append("IPub (%d)" % it[1])
        elif k == "pubunknown":
            out.append("IPubUnknown")
        elif k == "reload":
            out.append("IReload")
        elif k == "top":
            out.append("ITop (%d)" % it[1])
        elif k == "topdown":
            out.append("ITopDown")
        elif k == "topunknown":
            out.append("ITopUnknown")
        elif k == "call":
            out.append('ICall "%s"' % it[1])
        elif k == "if":
            out.append("IIf (%s) (%s)" % (coq_items(it[1]), coq_items(it[2])))
        elif k == "loop":
            out.append("ILoop (%s)" % coq_items(it[1]))
        elif k == "store":
            out.append("IStore (%d) %s" % (it[1], "true" if it[2] else "false"))
        elif k == "arg":
            out.append("IArg (%d)" % it[1])
        elif k == "block":
            out.append("IBlock (%s)" % coq_items(it[1]))
        elif k == "stop":
            out.append("IStop")
        elif k == "loopbreak":
            out.append("IBreak")
    return "[" + "; ".join(out) + "]"


def count_calls(items):
    n = 0
    for it in items:
        if it[0] == "call":
            n += 1
        elif it[0] == "if":
            n += count_calls(it[1]) + count_calls(it[2])
        elif it[0] in ("loop", "block"):
            n += count_calls(it[1])
    return n


def count_kind(items, kind):
    n = 0
    for it in items:
        if it[0] == kind:
            n += 1
        elif it[0] == "if":
            n += count_kind(it[1], kind) + count_kind(it[2], kind)
        elif it[0] in ("loop", "block"):
            n += count_kind(it[1], kind)
    return n


def analyse(d, work):
    flags = build_flags(d)
    alloc, defined = may_allocate(d, flags, work)
    fn = load_apply_ast(d, flags, work)
    segs, w = segments(fn, alloc, defined)
    # fall-through: a segment that can run off its end continues with the next one
    full = []
    for i, s in enumerate(segs):
        items = list(s["items"])
        j = i
        while not ends_stopped(items) and j + 1 < len(segs):
            j += 1
            items = items + segs[j]["items"]
        full.append(dict(names=s["names"], items=items, own=s["items"]))
    return full, w, alloc


def regen(ctx, d):
    work = os.path.join(os.path.dirname(d), "tmp_c02_work")
    os.makedirs(work, exist_ok=True)
    full, w, alloc = analyse(d, work)
    lines = ["(* generated by gen/c02_vmtop.py from vm.c (opcode switch of sexp_apply) of the scratch build; do not edit *)",
             "From Coq Require Import ZArith List String.", "From ChibiV Require Import C02.VmTop.",
             "Import ListNotations.", "Open Scope Z_scope.", "Open Scope string_scope.", "",
             "Definition vm_segments : list (string * list item) := ["]
    rows = []
    for s in full:
        rows.append('  ("%s", %s)' % ("/".join(s["names"]), coq_items(s["items"])))
    lines.append(";\n".join(rows))
    lines.append("].")
    ctx.gen("C02_VmTop", "\n".join(lines) + "\n")
    res = []
    for s in full:
        bad = check_segment(s["items"])
        res.append(dict(names=s["names"], calls=count_calls(s["own"]), bad=bad, stores=count_kind(s["own"], "store")))
    return dict(segments=res, assumptions=sorted(set(w.assumptions)), external=sorted(w.unknown_callees), may_allocate=len(alloc))


if __name__ == "__main__":
    import sys
    full, w, alloc = analyse(sys.argv[1], sys.argv[2])
    nbad = 0
    for s in full:
        bad = check_segment(s["items"])
        nc = count_calls(s["own"])
        if bad or "-v" in sys.argv:
            print("/".join(s["names"]), "calls=%d" % nc, "BAD %s" % [(b[0], b[1], b[2]) for b in bad] if bad else "ok")
            if "-vv" in sys.argv:
                print("    ", coq_items(s["items"]))
            nbad += bool(bad)
    print(len(full), "segments,", sum(1 for s in full if count_calls(s["own"])), "with allocating calls,", nbad, "bad;", "assumptions:", sorted(set(w.assumptions)), "external:", sorted(w.unknown_callees))
