"""C02 translator (G): the opcode switch of sexp_apply (vm.c)  ->  coq/Gen/C02_VmTop.v

Question answered per opcode: when a call that may allocate (= may run a collection) is reached, is every
live slot of the VM stack below the stack top *published in the context* (`sexp_context_top(ctx) = top`)?
The marker scans a thread's stack only up to the published top (Stack type: slot count = `top`,
sexp.c `_sexp_type_specs[]`), so an opcode that allocates with `top` above the published value loses
its newest operands, and one that never publishes inherits whatever an earlier opcode left.

Sources (all from the scratch build = $VERIF_REPO's working tree, with the build's own -D/-I flags):
 * may-allocate set: LLVM IR (`clang -O0 -S -emit-llvm`) of gc.c sexp.c bignum.c vm.c eval.c simplify.c
   opcodes.c gc_heap.c -> call graph -> every function from which sexp_alloc is reachable; a call through a
   function pointer counts as allocating (foreign functions, port procedures).
 * the switch: clang's JSON AST of sexp_apply (macros expanded, #if resolved as compiled).  Every case /
   label of the switch body becomes a *segment*; its statements are translated into the item language of
   coq/C02/VmTop.v:
       sexp_context_top(ctx) = top [+/- k]   IPub k        (published = top + k)
       top++ / top-- / top += k / _PUSH/_POP  ITop d
       top -= <non constant>                  ITopDown      (amount assumed >= 0: listed as assumption)
       top = sexp_context_top(ctx)            IReload
       top = <anything else>                  ITopUnknown
       f(...) with f in the may-allocate set  ICall "f"
       if / ?: / && / ||  / switch            IIf a b       (either branch)
       for / while / do                       ILoop body    (any number of iterations)
       break (of the segment) / goto / return IStop
   A segment starts in the state "nothing known" (the previous opcode may have moved top without publishing).
   Fails closed: an AST node kind outside the handled set raises.
The verified checker `seg_ok` (coq/C02/VmTop.v, theorem vm_top_checker_sound) is run by vm_compute on the
generated table: obligation `alloc_ops_publish_top` in coq/C02/VmTopCheck.v.
"""
import os, re, subprocess, json

UNITS = ["gc", "sexp", "bignum", "vm", "eval", "simplify", "opcodes", "gc_heap"]


class Unsupported(Exception):
    pass


def build_flags(d):
    log = open(os.path.join(d, ".build.log")).read()
    m = re.search(r"^(\S+) -c (.*) -o vm\.o vm\.c$", log, re.M)
    if not m:
        raise Unsupported("no compile line for vm.c in the build log")
    return [f for f in m.group(2).split() if f.startswith(("-D", "-I", "-U"))]


def may_allocate(d, flags, work):
    """names of the functions of the core library from which sexp_alloc is reachable"""
    calls, defined, indirect = {}, set(), set()
    for u in UNITS:
        if not os.path.exists(os.path.join(d, u + ".c")):
            raise Unsupported("compile unit %s.c missing" % u)
        ll = os.path.join(work, "vmtop-%s.ll" % u)
        r = subprocess.run(["clang", "-O0", "-S", "-emit-llvm", "-w"] + flags + ["-o", ll, u + ".c"], cwd=d, capture_output=True, text=True, timeout=300)
        if r.returncode != 0:
            raise Unsupported("clang -emit-llvm %s.c failed: %s" % (u, r.stderr[-400:]))
        cur = None
        for l in open(ll):
            m = re.match(r"define .*?@([\w.]+)\(", l)
            if m:
                cur = m.group(1)
                defined.add(cur)
                calls.setdefault(cur, set())
                continue
            if l.startswith("}"):
                cur = None
                continue
            if cur and re.search(r"\b(call|invoke)\b", l):
                m = re.search(r"@([\w.]+)\(", l)
                if m:
                    calls[cur].add(m.group(1))
                elif " asm " not in l:
                    indirect.add(cur)
        os.unlink(ll)
    if "sexp_alloc" not in defined or "sexp_apply" not in defined:
        raise Unsupported("sexp_alloc / sexp_apply not found in the IR")
    A = {"sexp_alloc"} | indirect
    changed = True
    while changed:
        changed = False
        for f, cs in calls.items():
            if f not in A and cs & A:
                A.add(f)
                changed = True
    return A, defined


# ------------------------------------------------------------------------------------------ AST
def load_apply_ast(d, flags, work):
    p = os.path.join(work, "vmtop-apply.json")
    with open(p, "w") as fh:
        r = subprocess.run(["clang", "-fsyntax-only", "-w"] + flags + ["-Xclang", "-ast-dump=json", "-Xclang", "-ast-dump-filter=sexp_apply", "vm.c"],
                           cwd=d, stdout=fh, stderr=subprocess.PIPE, text=True, timeout=300)
    if r.returncode != 0:
        raise Unsupported("clang ast-dump of vm.c failed: %s" % r.stderr[-400:])
    s = open(p).read()
    os.unlink(p)
    dec, i, fn = json.JSONDecoder(), 0, None
    while i < len(s):
        while i < len(s) and s[i].isspace():
            i += 1
        if i >= len(s):
            break
        o, i = dec.raw_decode(s, i)
        if o.get("kind") == "FunctionDecl" and o.get("name") == "sexp_apply" and any(c.get("kind") == "CompoundStmt" for c in o.get("inner", [])):
            fn = o
    if fn is None:
        raise Unsupported("definition of sexp_apply not found in the AST")
    return fn


WRAP = {"ParenExpr", "ImplicitCastExpr", "CStyleCastExpr", "ConstantExpr"}


def strip(n):
    while n.get("kind") in WRAP and n.get("inner"):
        n = n["inner"][-1]
    return n


def is_var(n, name):
    n = strip(n)
    return n.get("kind") == "DeclRefExpr" and n.get("referencedDecl", {}).get("name") == name


def mentions(n, pred):
    if pred(n):
        return True
    return any(mentions(c, pred) for c in n.get("inner", []))


def is_ctx_top(n):
    """sexp_context_top(ctx): (((ctx)->value.context.stack)->value.stack.top)"""
    n = strip(n)
    if not (n.get("kind") == "MemberExpr" and n.get("name") == "top"):
        return False
    has_stack = mentions(n, lambda x: x.get("kind") == "MemberExpr" and x.get("name") == "stack" and mentions(x, lambda y: y.get("kind") == "MemberExpr" and y.get("name") == "context"))
    has_ctx = mentions(n, lambda x: x.get("kind") == "DeclRefExpr" and x.get("referencedDecl", {}).get("name") == "ctx")
    return has_stack and has_ctx


def int_const(n):
    n = strip(n)
    if n.get("kind") == "IntegerLiteral":
        return int(n["value"])
    if n.get("kind") == "UnaryOperator" and n.get("opcode") == "-":
        v = int_const(n["inner"][0])
        return None if v is None else -v
    return None


def top_plus(n):
    """n = top | top + k | top - k  ->  k, else None"""
    n = strip(n)
    if is_var(n, "top"):
        return 0
    if n.get("kind") == "BinaryOperator" and n.get("opcode") in ("+", "-"):
        a, b = n["inner"]
        k = int_const(b)
        if is_var(a, "top") and k is not None:
            return k if n["opcode"] == "+" else -k
    return None


class Walker:
    def __init__(self, alloc, defined):
        self.alloc, self.defined = alloc, defined
        self.assumptions = []
        self.unknown_callees = set()

    # ---- expressions: returns list of items (evaluation order: operands, then the operation)
    def expr(self, n):
        k = n.get("kind")
        if k is None:
            return []
        inner = n.get("inner", [])
        if k in ("BinaryOperator", "CompoundAssignOperator"):
            op = n.get("opcode")
            a, b = inner
            if op == "=":
                if is_ctx_top(a):
                    sb = strip(b)
                    if sb.get("kind") == "UnaryOperator" and sb.get("opcode") in ("++", "--") and is_var(sb["inner"][0], "top"):
                        dlt = 1 if sb["opcode"] == "++" else -1        # sexp_context_top(ctx) = --top;  /  = top--;
                        return [("pub", 0), ("top", dlt)] if sb.get("isPostfix") else [("top", dlt), ("pub", 0)]
                    d = top_plus(b)
                    its = self.expr(b)
                    return its + ([("pub", d)] if d is not None else [("pubunknown",)])
                if is_var(a, "top"):
                    its = self.expr(b)
                    if is_ctx_top(b):
                        return its + [("reload",)]
                    return its + [("topunknown",)]
                return self.expr(b) + self.expr(a)
            if op in ("+=", "-=") and is_var(a, "top"):
                its = self.expr(b)
                c = int_const(b)
                if c is not None:
                    return its + [("top", c if op == "+=" else -c)]
                if op == "-=":
                    self.assumptions.append("top -= <non-constant amount> is a decrease")
                    return its + [("topdown",)]
                return its + [("topunknown",)]
            if op in ("&&", "||"):
                ra, rb = self.expr(a), self.expr(b)
                return ra + ([("if", rb, [])] if rb else [])
            if op == ",":
                return self.expr(a) + self.expr(b)
            if is_var(a, "top") and op.endswith("=") and op not in ("==", "!=", "<=", ">="):
                return self.expr(b) + [("topunknown",)]
            return self.expr(a) + self.expr(b)
        if k == "UnaryOperator":
            op = n.get("opcode")
            if op in ("++", "--") and is_var(inner[0], "top"):
                return [("top", 1 if op == "++" else -1)]
            if op == "&" and is_var(inner[0], "top"):
                raise Unsupported("address of top taken")
            return self.expr(inner[0])
        if k == "ConditionalOperator":
            c, a, b = inner
            ra, rb = self.expr(a), self.expr(b)
            return self.expr(c) + ([("if", ra, rb)] if (ra or rb) else [])
        if k == "CallExpr":
            callee, args = inner[0], inner[1:]
            its = []
            for a in args:
                its += self.expr(a)
            c = strip(callee)
            if c.get("kind") == "DeclRefExpr" and c.get("referencedDecl", {}).get("kind") == "FunctionDecl":
                name = c["referencedDecl"]["name"]
                if name in self.alloc:
                    its.append(("call", name))
                elif name not in self.defined:
                    self.unknown_callees.add(name)       # libc etc.: listed in the evidence
            else:
                its += self.expr(callee)
                its.append(("call", "(indirect)"))
            return its
        if k in ("DeclRefExpr", "IntegerLiteral", "CharacterLiteral", "StringLiteral", "FloatingLiteral", "UnaryExprOrTypeTraitExpr", "OffsetOfExpr"):
            return []
        if k in WRAP or k in ("MemberExpr", "ArraySubscriptExpr", "StmtExpr", "InitListExpr", "CompoundLiteralExpr", "VAArgExpr", "PredefinedExpr", "ImplicitValueInitExpr"):
            its = []
            for c in inner:
                its += self.expr(c) if c.get("kind", "").endswith(("Expr", "Operator", "Literal")) else self.stmt(c)
            return its
        raise Unsupported("expression kind %s" % k)

    # ---- statements
    def stmt(self, n, breaks_stop=True):
        k = n.get("kind")
        inner = n.get("inner", [])
        if k is None or k == "NullStmt":
            return []
        if k == "CompoundStmt":
            its = []
            for c in inner:
                its += self.stmt(c, breaks_stop)
            return its
        if k == "IfStmt":
            cond, then = inner[0], inner[1]
            els = inner[2] if len(inner) > 2 else None
            return self.expr(cond) + [("if", self.stmt(then, breaks_stop), self.stmt(els, breaks_stop) if els else [])]
        if k == "ForStmt":
            init, _cv, cond, inc, body = inner
            its = self.stmt(init, breaks_stop) if init.get("kind") else []
            loop = (self.expr(cond) if cond.get("kind") else []) + self.stmt(body, False) + (self.expr(inc) if inc.get("kind") else [])
            return its + [("loop", loop)]
        if k == "WhileStmt":
            cond, body = inner[0], inner[-1]
            return [("loop", self.expr(cond) + self.stmt(body, False))]
        if k == "DoStmt":
            body, cond = inner
            return [("loop", self.stmt(body, False) + self.expr(cond))]
        if k == "SwitchStmt":
            # a nested switch: every case is an alternative entered from the state before the switch; fall-through is
            # covered by also offering every suffix (cases in order) as an alternative
            cond, body = inner[0], inner[-1]
            alts, cur = [], None
            for c in body.get("inner", []):
                while c.get("kind") in ("CaseStmt", "DefaultStmt"):
                    cur = []
                    alts.append(cur)
                    c = c["inner"][-1]
                if cur is None:
                    raise Unsupported("statement before the first case of a nested switch")
                piece = self.stmt(c, False)
                for a in alts:
                    a += piece                   # fall-through: earlier cases run this one's code too (over-approximation)
            its = self.expr(cond)
            node = []
            for a in reversed(alts):
                node = [("if", a, node)]
            return its + node
        if k in ("CaseStmt", "DefaultStmt"):
            raise Unsupported("case label nested inside a statement of the opcode switch")
        if k == "LabelStmt":
            raise Unsupported("label nested inside a compound statement")
        if k == "BreakStmt":
            return [("stop",)] if breaks_stop else [("loopbreak",)]
        if k == "ContinueStmt":
            return [("loopbreak",)]
        if k in ("GotoStmt", "ReturnStmt"):
            its = []
            for c in inner:
                its += self.expr(c)
            return its + [("stop",)]
        if k == "DeclStmt":
            its = []
            for dcl in inner:
                for c in dcl.get("inner", []):
                    if c.get("kind", "").endswith(("Expr", "Operator", "Literal")):
                        its += self.expr(c)
            return its
        if k.endswith(("Expr", "Operator", "Literal")):
            return self.expr(n)
        if k == "GCCAsmStmt":
            return []
        raise Unsupported("statement kind %s" % k)


def segments(fn, alloc, defined):
    """[(names, items)] for the opcode switch of sexp_apply: one segment per run of case labels / C label"""
    sw = []

    def find(n):
        if n.get("kind") == "SwitchStmt":
            sw.append(n)
            return
        for c in n.get("inner", []):
            find(c)
    find(fn)
    if len(sw) != 1:
        raise Unsupported("expected exactly one top-level switch in sexp_apply, found %d" % len(sw))
    cond = strip(sw[0]["inner"][0])
    body = sw[0]["inner"][-1]
    if body.get("kind") != "CompoundStmt":
        raise Unsupported("switch body is not a compound statement")
    w = Walker(alloc, defined)
    segs, cur = [], None
    for st in body["inner"]:
        names = []
        while st.get("kind") in ("CaseStmt", "DefaultStmt", "LabelStmt"):
            if st["kind"] == "CaseStmt":
                c = strip(st["inner"][0])
                nm = c.get("referencedDecl", {}).get("name")
                if not nm:
                    raise Unsupported("case label is not an enum constant")
                names.append(nm)
            elif st["kind"] == "DefaultStmt":
                names.append("default")
            else:
                names.append("label:" + st.get("name", "?"))
            st = st["inner"][-1]
        if names:
            # the statements of the previous segment may fall through into this one: the previous segment gets this
            # segment's items appended lazily (see below) unless it ended in a stop
            cur = dict(names=names, items=[])
            segs.append(cur)
        if cur is None:
            raise Unsupported("statement before the first case")
        cur["items"] += w.stmt(st, True)
    return segs, w


def ends_stopped(items):
    """True when every path through items ends in a stop (no fall through)"""
    for it in reversed(items):
        if it[0] == "stop":
            return True
        if it[0] == "if":
            return ends_stopped(it[1]) and ends_stopped(it[2])
        return False
    return False


# ------------------------------------------------------------------------------------------ python mirror of the checker
STALE, LE = "stale", "le"


def join(a, b):
    if a is None:
        return b
    if b is None:
        return a
    if a == STALE or b == STALE:
        return STALE
    if a == LE or b == LE:
        return LE if (a == LE or a <= 0) and (b == LE or b <= 0) else STALE
    return a if a == b else (LE if a <= 0 and b <= 0 else STALE)


def run_items(items, st, bad):
    """st: None (unreachable) | STALE | LE (top <= published) | int d (top = published + d).  returns the fall-through state"""
    for it in items:
        if st is None:
            return None
        k = it[0]
        if k == "pub":
            st = -it[1]
        elif k == "pubunknown":
            st = STALE
        elif k == "reload":
            st = 0
        elif k == "top":
            st = st if st in (STALE, LE) and it[1] <= 0 or st == STALE else (STALE if st == LE else st + it[1])
        elif k == "topdown":
            st = STALE if st == STALE else (LE if (st == LE or st <= 0) else STALE)
        elif k == "topunknown":
            st = STALE
        elif k == "call":
            if st == STALE or (st != LE and st > 0):
                bad.append((it[1], st))
        elif k == "if":
            st = join(run_items(it[1], st, bad), run_items(it[2], st, bad))
        elif k == "loop":
            inv = st
            for _ in range(8):
                out = run_items([x for x in it[1]], inv, [])
                new = join(inv, out)
                if new == inv:
                    break
                inv = new
            else:
                inv = STALE
            run_items(it[1], inv, bad)
            st = inv
        elif k in ("stop", "loopbreak"):
            return None if k == "stop" else st      # a loop break leaves the loop: state joins the invariant (over-approximated: loop exit = inv)
        else:
            raise Unsupported("item " + k)
    return st


# ------------------------------------------------------------------------------------------ Coq output
def coq_items(items):
    out = []
    for it in items:
        k = it[0]
        if k == "pub":
            out.append("IPub (%d)" % it[1])
        elif k == "pubunknown":
            out.append("IPubUnknown")
        elif k == "reload":
            out.append("IReload")
        elif k == "top":
            out.append("ITop (%d)" % it[1])
        elif k == "topdown":
            out.append("ITopDown")
        elif k == "topunknown":
            out.append("ITopUnknown")
        elif k == "call":
            out.append('ICall "%s"' % it[1])
        elif k == "if":
            out.append("IIf (%s) (%s)" % (coq_items(it[1]), coq_items(it[2])))
        elif k == "loop":
            out.append("ILoop (%s)" % coq_items(it[1]))
        elif k == "stop":
            out.append("IStop")
        elif k == "loopbreak":
            out.append("IBreak")
    return "[" + "; ".join(out) + "]"


def count_calls(items):
    n = 0
    for it in items:
        if it[0] == "call":
            n += 1
        elif it[0] == "if":
            n += count_calls(it[1]) + count_calls(it[2])
        elif it[0] == "loop":
            n += count_calls(it[1])
    return n


def analyse(d, work):
    flags = build_flags(d)
    alloc, defined = may_allocate(d, flags, work)
    fn = load_apply_ast(d, flags, work)
    segs, w = segments(fn, alloc, defined)
    # fall-through: a segment that can run off its end continues with the next one
    full = []
    for i, s in enumerate(segs):
        items = list(s["items"])
        j = i
        while not ends_stopped(items) and j + 1 < len(segs):
            j += 1
            items = items + segs[j]["items"]
        full.append(dict(names=s["names"], items=items, own=s["items"]))
    return full, w, alloc


def regen(ctx, d):
    work = os.path.join(os.path.dirname(d), "tmp_c02_work")
    os.makedirs(work, exist_ok=True)
    full, w, alloc = analyse(d, work)
    lines = ["(* generated by gen/c02_vmtop.py from vm.c (opcode switch of sexp_apply) of the scratch build; do not edit *)",
             "From Coq Require Import ZArith List String.", "From ChibiV Require Import C02.VmTop.",
             "Import ListNotations.", "Open Scope Z_scope.", "Open Scope string_scope.", "",
             "Definition vm_segments : list (string * list item) := ["]
    rows = []
    for s in full:
        rows.append('  ("%s", %s)' % ("/".join(s["names"]), coq_items(s["items"])))
    lines.append(";\n".join(rows))
    lines.append("].")
    ctx.gen("C02_VmTop", "\n".join(lines) + "\n")
    res = []
    for s in full:
        bad = []
        run_items(s["items"], STALE, bad)
        res.append(dict(names=s["names"], calls=count_calls(s["own"]), bad=bad))
    return dict(segments=res, assumptions=sorted(set(w.assumptions)), external=sorted(w.unknown_callees), may_allocate=len(alloc))


if __name__ == "__main__":
    import sys
    full, w, alloc = analyse(sys.argv[1], sys.argv[2])
    nbad = 0
    for s in full:
        bad = []
        run_items(s["items"], STALE, bad)
        nc = count_calls(s["own"])
        if bad or "-v" in sys.argv:
            print("/".join(s["names"]), "calls=%d" % nc, "BAD %s" % bad if bad else "ok")
            nbad += bool(bad)
    print(len(full), "segments,", sum(1 for s in full if count_calls(s["own"])), "with allocating calls,", nbad, "bad;", "assumptions:", sorted(set(w.assumptions)), "external:", sorted(w.unknown_callees))
