"""C01 translator (G): vm.c opcode switch  ->  coq/Gen/C01_VmGuards.v

Source: the `switch (*ip++)` of sexp_apply in vm.c of the scratch build (= $VERIF_REPO's working
tree), preprocessed with `gcc -E -fdirectives-only` and the build's own -D flags, so that #if
branches are resolved exactly as compiled while macros (_ARG1, sexp_raise, sexp_vector_ref ...)
stay unexpanded.

For every `case SEXP_OP_X:` whose body uses one of the modelled accessors (vector / bytes / string
/ pair data and header fields, make-vector) on the stack operands, the body is translated
statement by statement into the item language of coq/C01/Model.v:
    if (COND) sexp_raise(msg, ..); [else if ...]     ->  IGuard g ...   (g = condition to CONTINUE)
    i = sexp_unbox_fixnum(_ARGk);                     ->  (binding of the local i)
    ... sexp_vector_ref(_ARG1, _ARG2) ...             ->  IAccess (AVecData A1 (IFix A2))
    _ARGk = e;                                        ->  accesses of e, then IAssign Ak
    top--; top -= n;                                  ->  ITop
Anything else inside such a case becomes IAccess AUnknown, which the verified checker rejects:
the translator fails closed.  Cases that use the accessors but are outside the subset are listed
in SKIP with the reason (they are NOT covered by the theorem); a new case that uses the accessors
and is neither translatable nor listed makes the table contain AUnknown.
"""
import os, re, subprocess, hashlib

# ----------------------------------------------------------------------------- configuration
PREDS = {"sexp_fixnump": "PFixnum", "sexp_string_cursorp": "PCursor", "sexp_charp": "PChar",
         "sexp_pairp": "PPair", "sexp_vectorp": "PVector", "sexp_bytesp": "PBytes", "sexp_stringp": "PString",
         "sexp_iportp": "PIPort", "sexp_oportp": "POPort"}
UNBOX = {"sexp_unbox_fixnum": "IFix", "sexp_unbox_string_cursor": "ICur", "sexp_unbox_character": "IChr"}
LENS = {"sexp_vector_length": ("LVec", "PVector"), "sexp_bytes_length": ("LBytes", "PBytes"),
        "sexp_string_size": ("LStr", "PString")}
# accessor macro -> (kind, position of the object operand, position of the index operand or None)
ACCESS = {
    "sexp_vector_ref": ("AVecData", 0, 1, "IFix"), "sexp_vector_set": ("AVecData", 0, 1, "IFix"),
    "sexp_bytes_ref": ("ABytesData", 0, 1, "IFix"), "sexp_bytes_set": ("ABytesData", 0, 1, "IFix"),
    "sexp_string_cursor_ref": ("AStrByte", 1, 2, "ICur"), "sexp_string_set": ("AStrByte", 1, 2, "ICur"),
    "sexp_string_cursor_set": ("AStrByte", 1, 2, "ICur"),
    "sexp_string_cursor_next": ("AStrByteT", 0, 1, "ICur"), "sexp_string_cursor_prev": ("AStrPrev", 0, 1, "ICur"),
    "sexp_vector_length": ("AField PVector", 0, None, None), "sexp_bytes_length": ("AField PBytes", 0, None, None),
    "sexp_string_size": ("AField PString", 0, None, None), "sexp_string_length": ("AField PString", 0, None, None),
    "sexp_car": ("AField PPair", 0, None, None), "sexp_cdr": ("AField PPair", 0, None, None),
    "sexp_immutablep": ("APtr", 0, None, None),
    "sexp_make_vector": ("AAlloc", None, 1, "IFix"),
    # port fields and the buffer / stream primitives that take the port itself: the operand must be a port of the kind the
    # opcode tested ("APort": AField PIPort / POPort according to the guard seen for that operand)
    "sexp_port_openp": ("APort", 0, None, None), "sexp_port_stream": ("APort", 0, None, None), "sexp_port_line": ("APort", 0, None, None),
    "sexp_read_char": ("APort", 1, None, None), "sexp_push_char": ("APort", 2, None, None),
    "sexp_read_utf8_char": ("APort", 1, None, None), "sexp_push_utf8_char": ("APort", 2, None, None),
    "sexp_write_char": ("APort", 2, None, None), "sexp_write_utf8_char": ("APort", 2, None, None),
    "sexp_poll_input": ("APort", 1, None, None), "sexp_poll_output": ("APort", 1, None, None),
}
# unboxing / boxing of characters: puts the char <-> integer opcodes in scope (no heap access, but an unboxed operand used
# as a value must have been type-tested)
SCOPE_EXTRA = {"sexp_unbox_character", "sexp_make_character"}
# opcode bodies with nested branches: translated PATH BY PATH (every path through the body is one table entry)
MULTIPATH = {"SEXP_OP_WRITE_CHAR", "SEXP_OP_READ_CHAR", "SEXP_OP_PEEK_CHAR"}
SCALARS = {"i", "j", "k", "errno", "fuel", "tmp1", "tmp2"}          # C locals assigned by value in the multi-path bodies
VALUE_IDS = {"EOF", "errno", "EAGAIN", "fuel", "ip", "tmp1", "tmp2", "k"}
# raw data accessors: never translatable; their presence puts a case in scope
RAW = {"sexp_vector_data", "sexp_bytes_data", "sexp_string_data", "sexp_string_bytes", "sexp_string_offset",
       "sexp_caar", "sexp_cadr", "sexp_cdar", "sexp_cddr"}
# calls that touch no heap object through their operands (immediates, predicates with their own
# pointer test, allocation of fresh objects from plain values)
PURE = set(PREDS) | set(UNBOX) | {
    "sexp_make_fixnum", "sexp_make_string_cursor", "sexp_make_boolean", "sexp_make_character",
    "sexp_unbox_character", "sexp_cons", "sexp_list1", "sexp_list2", "sexp_nullp", "sexp_symbolp",
    "sexp_exceptionp", "sexp_not", "sexp_toupper", "sexp_tolower",
    # take their operands by value (FILE*, procedure, port handed on to the scheduler)
    "ferror", "clearerr", "sexp_applicablep", "sexp_global", "sexp_apply2"}
IGNORED_STMTS = {"sexp_check_exception", "_ALIGN_IP"}
# cases that use the accessors but are outside the translated subset: name -> why
SKIP = {
    "SEXP_OP_NOOP": "carries the call_error_handler label: exception bookkeeping, not an operand access",
    "SEXP_OP_RAISE": "handler lookup walks the parameter list of the context (pair tests inline)",
    "SEXP_OP_RESUMECC": "continuation resume: restores a saved stack (C05/C06)",
    "SEXP_OP_CALLCC": "continuation capture (C06)",
    "SEXP_OP_APPLY1": "walks the argument list with sexp_pairp-guarded loops onto the stack (stack model, part 3)",
    "SEXP_OP_TAIL_CALL": "frame shuffling on the stack (C05)",
    "SEXP_OP_CALL": "make_call protocol: rest-list construction, frame push (stack model, part 3)",
    "SEXP_OP_GLOBAL_REF": "car/cdr of a bytecode literal cell (_WORD0), not of a stack operand",
    "SEXP_OP_GLOBAL_KNOWN_REF": "cdr of a bytecode literal cell (_WORD0)",
    "SEXP_OP_PARAMETER_REF": "walks the context's parameter alist under sexp_pairp tests",
    "SEXP_OP_CLOSURE_REF": "vector-ref of the closure vector cp with a compiler-generated index",
    "SEXP_OP_SLOTN_REF": "record slot by run-time index: loops and nested branches; bound comes from the type object",
    "SEXP_OP_SLOTN_SET": "record slot by run-time index: loops and nested branches; bound comes from the type object",
    "SEXP_OP_SLOT_REF": "record slot: type id and slot index are instruction operands written by the compiler, not stack values",
    "SEXP_OP_SLOT_SET": "record slot: type id and slot index are instruction operands written by the compiler, not stack values",
    "SEXP_OP_LT": "numeric tower dispatch (flonum/bignum/ratio fields under their own type tests; C04/C09)",
    "SEXP_OP_LE": "numeric tower dispatch (flonum/bignum/ratio fields under their own type tests; C04/C09)",
    "SEXP_OP_EQN": "numeric tower dispatch (flonum/bignum/ratio fields under their own type tests; C04/C09)",
    "SEXP_OP_WRITE_STRING": "port buffer arithmetic (I/O, outside part 1)",
    "SEXP_OP_FORCE": "promise fields (typed by sexp_promisep)",
    "SEXP_OP_FCALLN": "foreign call with argument vector",
    "SEXP_OP_DONE": "end of run",
    "SEXP_OP_RET": "frame pop (stack model, part 3)",
}


class Unsupported(Exception):
    pass


# ----------------------------------------------------------------------------- preprocessing
def _build_flags(d):
    """-D/-I flags of the build's own compile line for vm.c"""
    log = open(os.path.join(d, ".build.log")).read()
    m = re.search(r"^(\S+) -c (.*) -o vm\.o vm\.c$", log, re.M)
    if not m:
        raise Unsupported("no compile line for vm.c in the build log")
    return [f for f in m.group(2).split() if f.startswith(("-D", "-I", "-U"))]


def preprocess(d):
    flags = _build_flags(d)
    r = subprocess.run(["gcc", "-E", "-fdirectives-only", "-P"] + flags + ["vm.c"], cwd=d,
                       capture_output=True, text=True, timeout=120)
    if r.returncode != 0:
        raise Unsupported("directives-only preprocessing of vm.c failed: " + r.stderr[-500:])
    return r.stdout


def strip_comments(s):
    return re.sub(r"/\*.*?\*/", " ", s, flags=re.S)


def switch_body(txt):
    m = re.search(r"^sexp sexp_apply \(sexp ctx, sexp proc, sexp args\) \{", txt, re.M)
    if not m:
        raise Unsupported("sexp_apply not found")
    k = txt.find("switch (*ip++) {", m.end())
    if k < 0:
        raise Unsupported("opcode switch not found")
    i = txt.index("{", k)
    depth, j = 0, i
    while j < len(txt):
        c = txt[j]
        if c == '"':
            j = _skip_string(txt, j)
            continue
        if c == "'":
            j = txt.index("'", j + 2) + 1 if txt[j + 1] == "\\" else j + 3
            continue
        if c == "{":
            depth += 1
        elif c == "}":
            depth -= 1
            if depth == 0:
                return txt[i + 1:j]
        j += 1
    raise Unsupported("unbalanced switch body")


def _skip_string(txt, j):
    j += 1
    while txt[j] != '"':
        j += 2 if txt[j] == "\\" else 1
    return j + 1


# ----------------------------------------------------------------------------- tokens
TOK = re.compile(r"""\s*(?:
    (?P<id>[A-Za-z_][A-Za-z_0-9]*) | (?P<num>0[xX][0-9a-fA-F]+[uUlL]*|\d+[uUlL]*) |
    (?P<str>"(?:\\.|[^"\\])*") | (?P<chr>'(?:\\.|[^'\\])+') |
    (?P<op><<=|>>=|->|\+\+|--|<<|>>|<=|>=|==|!=|&&|\|\||\+=|-=|\*=|/=|%=|&=|\|=|\^=|[-+*/%<>=!&|^~?:;,.(){}\[\]])
    )""", re.X)


def tokenize(s):
    out, i = [], 0
    s = s.rstrip()
    while i < len(s):
        m = TOK.match(s, i)
        if not m:
            if s[i:].strip() == "":
                break
            raise Unsupported("cannot tokenize near %r" % s[i:i + 30])
        i = m.end()
        k = m.lastgroup
        out.append((k, m.group(k)))
    return out


def split_cases(body):
    """[(labels, tokens)] : the switch body cut at `case X:` / `default:` labels of nesting depth 0"""
    toks = tokenize(strip_comments(body))
    cases, cur_labels, cur, depth, i = [], [], [], 0, 0
    pending = []
    while i < len(toks):
        k, v = toks[i]
        if depth == 0 and k == "id" and v == "case" and toks[i + 2] == ("op", ":"):
            if cur:
                cases.append((cur_labels, cur))
                cur_labels, cur = [], []
            cur_labels.append(toks[i + 1][1])
            i += 3
            continue
        if depth == 0 and k == "id" and v == "default" and toks[i + 1] == ("op", ":"):
            if cur:
                cases.append((cur_labels, cur))
                cur_labels, cur = [], []
            cur_labels.append("default")
            i += 2
            continue
        if v in ("{", "(", "["):
            depth += 1
        elif v in ("}", ")", "]"):
            depth -= 1
        cur.append(toks[i])
        i += 1
    if cur:
        cases.append((cur_labels, cur))
    return cases


# ----------------------------------------------------------------------------- mini C parser
TYPES = {"sexp_sint_t", "sexp_uint_t", "int", "long", "unsigned", "char", "sexp", "sexp_lsint_t", "double", "float"}
BINPREC = [["||"], ["&&"], ["|"], ["^"], ["&"], ["==", "!="], ["<", "<=", ">", ">="], ["<<", ">>"], ["+", "-"], ["*", "/", "%"]]
ASSIGN = {"=", "+=", "-=", "*=", "/=", "%=", "&=", "|=", "^=", "<<=", ">>="}


class P:
    def __init__(self, toks):
        self.t, self.i = toks, 0

    def peek(self, k=0):
        return self.t[self.i + k][1] if self.i + k < len(self.t) else None

    def kind(self, k=0):
        return self.t[self.i + k][0] if self.i + k < len(self.t) else None

    def next(self):
        v = self.t[self.i]
        self.i += 1
        return v

    def expect(self, v):
        if self.peek() != v:
            raise Unsupported("expected %r, found %r" % (v, self.peek()))
        self.i += 1

    # statements
    def stmts(self, until=None):
        out = []
        while self.i < len(self.t) and self.peek() != until:
            out.append(self.stmt())
        return out

    def stmt(self):
        v, k = self.peek(), self.kind()
        if v == "{":
            self.next()
            b = self.stmts("}")
            self.expect("}")
            return ("block", b)
        if k == "id" and v == "if":
            self.next()
            self.expect("(")
            c = self.expr()
            self.expect(")")
            th = self.stmt()
            el = None
            if self.kind() == "id" and self.peek() == "else":
                self.next()
                el = self.stmt()
            return ("if", c, th, el)
        if k == "id" and v in ("for", "while", "switch", "do"):
            raise Unsupported("loop/switch statement '%s'" % v)
        if k == "id" and v in ("break", "continue"):
            self.next()
            self.expect(";")
            return (v,)
        if k == "id" and v == "goto":
            self.next()
            n = self.next()[1]
            self.expect(";")
            return ("goto", n)
        if k == "id" and self.peek(1) == ":" and v not in ("default",):
            self.next()
            self.next()
            return ("label", v)
        if v == ";":
            self.next()
            return ("empty",)
        e = self.expr(comma=True)
        self.expect(";")
        return ("expr", e)

    # expressions
    def expr(self, comma=False):
        e = self.assign()
        while comma and self.peek() == ",":
            self.next()
            e = ("comma", e, self.assign())
        return e

    def assign(self):
        lhs = self.cond()
        if self.peek() in ASSIGN:
            op = self.next()[1]
            return ("assign", op, lhs, self.assign())
        return lhs

    def cond(self):
        c = self.binary(0)
        if self.peek() == "?":
            self.next()
            a = self.expr()
            self.expect(":")
            return ("cond", c, a, self.cond())
        return c

    def binary(self, lvl):
        if lvl == len(BINPREC):
            return self.unary()
        a = self.binary(lvl + 1)
        while self.kind() == "op" and self.peek() in BINPREC[lvl]:
            op = self.next()[1]
            a = ("bin", op, a, self.binary(lvl + 1))
        return a

    def unary(self):
        v = self.peek()
        if self.kind() == "op" and v in ("!", "-", "+", "~", "*", "&", "++", "--"):
            self.next()
            return ("un", v, self.unary())
        if v == "(" and self.kind(1) == "id" and self.peek(1) in TYPES:
            # cast
            j = self.i + 1
            ty = []
            while self.t[j][1] != ")":
                ty.append(self.t[j][1])
                j += 1
            if all(x in TYPES or x == "*" for x in ty):
                self.i = j + 1
                return ("cast", " ".join(ty), self.unary())
        return self.postfix()

    def postfix(self):
        k, v = self.next()
        if k == "num":
            e = ("num", int(re.sub(r"[uUlL]+$", "", v), 0))
        elif k == "str":
            e = ("str", v)
        elif k == "chr":
            e = ("chr", v)
        elif k == "id":
            e = ("id", v)
        elif v == "(":
            e = self.expr(comma=True)
            self.expect(")")
        else:
            raise Unsupported("unexpected token %r" % v)
        while True:
            v = self.peek()
            if v == "(" and e[0] == "id":
                self.next()
                args = []
                if self.peek() != ")":
                    args.append(self.assign())
                    while self.peek() == ",":
                        self.next()
                        args.append(self.assign())
                self.expect(")")
                e = ("call", e[1], args)
            elif v == "[":
                self.next()
                ix = self.expr()
                self.expect("]")
                e = ("idx", e, ix)
            elif v in ("->", "."):
                self.next()
                e = ("member", e, self.next()[1])
            elif v in ("++", "--"):
                self.next()
                e = ("post", v, e)
            else:
                return e


# ----------------------------------------------------------------------------- translation
def names_in(tokens):
    return {v for k, v in tokens if k == "id"}


def argno(e):
    e = strip(e)
    if e[0] == "id":
        m = re.fullmatch(r"_ARG([1-6])", e[1])
        if m:
            return "A" + m.group(1)
    return None


def strip(e):
    while e[0] == "cast":
        e = e[2]
    return e


class CaseTr:
    def __init__(self, name):
        self.name = name
        self.items = []          # coq item strings
        self.msgs = []           # message per emitted guard
        self.env = {}            # local integer variable -> iexp string
        self.moved = False       # an IAssign/ITop was emitted: later guards unsupported
        self.port_kind = {}      # operand -> PIPort / POPort, from the guards seen
        self.multi = False

    def unknown(self, why):
        self.items.append("IAccess AUnknown (* %s *)" % why.replace("*)", "* )"))

    # -- index / bound expressions
    def iexp(self, e):
        e = strip(e)
        if e[0] == "id" and e[1] in self.env:
            return self.env[e[1]]
        if e[0] == "call" and e[1] in UNBOX and len(e[2]) == 1 and argno(e[2][0]):
            return "(%s %s)" % (UNBOX[e[1]], argno(e[2][0]))
        raise Unsupported("index expression")

    def lexp(self, e):
        e = strip(e)
        if e[0] == "num":
            return "(LConst %d)" % e[1]
        if e[0] == "call" and e[1] in LENS and len(e[2]) == 1 and argno(e[2][0]):
            return "(%s %s)" % (LENS[e[1]][0], argno(e[2][0]))
        raise Unsupported("bound expression")

    # -- conditions: list of guards under which execution continues
    def cont_of(self, e, positive):
        """guards equivalent to e (positive) or to !e (not positive), as a conjunction"""
        e = strip(e)
        if e[0] == "un" and e[1] == "!":
            return self.cont_of(e[2], not positive)
        if e[0] == "bin" and e[1] == "&&" and positive:
            return self.cont_of(e[2], True) + self.cont_of(e[3], True)
        if e[0] == "bin" and e[1] == "||" and not positive:
            return self.cont_of(e[2], False) + self.cont_of(e[3], False)
        if e[0] == "call" and e[1] in PREDS and len(e[2]) == 1 and argno(e[2][0]) and positive:
            if PREDS[e[1]] in ("PIPort", "POPort"):
                self.port_kind[argno(e[2][0])] = PREDS[e[1]]
            return ["GIs %s %s" % (PREDS[e[1]], argno(e[2][0]))]
        if e[0] == "call" and e[1] == "sexp_immutablep" and len(e[2]) == 1 and argno(e[2][0]) and not positive:
            return ["GMutable %s" % argno(e[2][0])]
        if e[0] == "bin" and e[1] in ("<", "<=", ">", ">="):
            op = e[1]
            if not positive:
                op = {"<": ">=", "<=": ">", ">": "<=", ">=": "<"}[op]
            c = {"<": "CLt", "<=": "CLe", ">": "CGt", ">=": "CGe"}[op]
            return ["GCmp %s %s %s" % (self.iexp(e[2]), c, self.lexp(e[3]))]
        raise Unsupported("condition")

    # -- accesses inside an expression (innermost first)
    def accesses(self, e):
        e = strip(e)
        k = e[0]
        if k in ("num", "str", "chr"):
            return
        if k == "id":
            if e[1] in ("top", "ctx", "self", "i", "j") or argno(e) or e[1].startswith("SEXP_") or (self.multi and e[1] in VALUE_IDS):
                return
            raise Unsupported("identifier %s" % e[1])
        if k == "call":
            f, args = e[1], e[2]
            if f in ACCESS:
                kind, op, ip, ik = ACCESS[f]
                if kind == "APort":
                    a = argno(args[op])
                    if not a or a not in self.port_kind:
                        raise Unsupported("%s on an operand that no port guard names" % f)
                    kind = "AField " + self.port_kind[a]
                parts = [kind]
                if op is not None:
                    a = argno(args[op])
                    if not a:
                        raise Unsupported("%s on something that is not a stack operand" % f)
                    parts.append(a)
                if ip is not None:
                    a = argno(args[ip])
                    if not a:
                        raise Unsupported("%s indexed by something that is not a stack operand" % f)
                    parts.append("(%s %s)" % (ik, a))
                for n, x in enumerate(args):
                    if n not in (op, ip):
                        self.accesses(x)
                self.items.append("IAccess (%s)" % " ".join(parts))
                return
            if f in UNBOX and len(args) == 1 and argno(args[0]):
                # an unboxed operand used as a value: the operand must have been tested
                self.items.append("IAccess (AUnbox (%s %s))" % (UNBOX[f], argno(args[0])))
                return
            if f in PURE:
                for x in args:
                    self.accesses(x)
                return
            raise Unsupported("call of %s" % f)
        if k in ("un",):
            if e[1] in ("*", "&", "++", "--"):
                raise Unsupported("pointer operator")
            return self.accesses(e[2])
        if k == "bin":
            self.accesses(e[2])
            self.accesses(e[3])
            return
        if k == "cond":
            if not self.multi:
                raise Unsupported("conditional expression")
            for x in e[1:]:
                self.accesses(x)
            return
        if k == "post" and self.multi:
            return self.accesses(e[2])
        raise Unsupported("expression form %s" % k)

    # -- statements
    def is_raise(self, s):
        if s[0] == "block" and len(s[1]) == 1:
            s = s[1][0]
        if s[0] == "expr" and s[1][0] == "call" and s[1][1] == "sexp_raise":
            m = s[1][2][0]
            return m[1][1:-1] if m[0] == "str" else "?"
        return None

    def stmt(self, s):
        k = s[0]
        if k in ("break", "empty"):
            return
        if k == "block":
            for x in s[1]:
                self.stmt_safe(x)
            return
        if k == "if":
            msg = self.is_raise(s[2])
            if msg is None:
                return self.when(s)
            if self.moved:
                raise Unsupported("guard after an operand update")
            gs = self.cont_of(s[1], False)
            for g in gs:
                self.items.append("IGuard (%s)" % g)
                self.msgs.append(msg)
            if s[3] is not None:
                self.stmt(s[3])
            return
        if k == "expr":
            return self.expr_stmt(s[1])
        raise Unsupported("statement form %s" % k)

    def when(self, s):
        """if (g) _ARGk = e1; else _ARGk = e2;   with accesses only in e1   ->   IWhen g [accesses of e1]; IAssign Ak"""
        def assign_of(st):
            if st[0] == "block" and len(st[1]) == 1:
                st = st[1][0]
            if st[0] == "expr" and st[1][0] == "assign" and st[1][1] == "=" and argno(st[1][2]):
                return argno(st[1][2]), st[1][3]
            raise Unsupported("if whose branches are not single operand assignments")
        gs = self.cont_of(s[1], True)
        if len(gs) != 1:
            raise Unsupported("branch condition is not a single comparison")
        a1, rhs1 = assign_of(s[2])
        saved = self.items
        try:
            self.items = []
            self.accesses(rhs1)
            xs = self.items
            if s[3] is not None:
                a2, rhs2 = assign_of(s[3])
                if a2 != a1:
                    raise Unsupported("branches assign different operands")
                self.items = []
                self.accesses(rhs2)
                if self.items:
                    raise Unsupported("else-branch performs accesses")
        finally:
            self.items = saved
        self.items.append("IWhen (%s) [%s]" % (gs[0], "; ".join(x[len("IAccess "):] for x in xs)))
        self.items.append("IAssign %s" % a1)
        self.moved = True
        self.env = {v: x for v, x in self.env.items() if a1 not in x}

    def expr_stmt(self, e):
        if e[0] == "call" and e[1] in IGNORED_STMTS:
            return
        if e[0] == "post" and e[2] == ("id", "top") or e[0] == "un" and e[1] in ("++", "--") and e[2] == ("id", "top"):
            return self.top()
        if e[0] == "assign":
            op, lhs, rhs = e[1], e[2], e[3]
            if lhs == ("id", "top"):
                return self.top()
            if lhs == ("call", "sexp_context_top", [("id", "ctx")]) and rhs == ("id", "top") and op == "=":
                return
            if lhs == ("id", "ip"):
                return
            if self.multi and lhs[0] == "id" and lhs[1] in SCALARS and op == "=":
                self.env.pop(lhs[1], None)
                self.accesses(rhs)
                return
            if lhs[0] == "id" and lhs[1] in ("i", "j") and op == "=":
                try:
                    self.env[lhs[1]] = self.iexp(rhs)
                except Unsupported:
                    self.env.pop(lhs[1], None)
                    self.accesses(rhs)
                return
            a = argno(lhs)
            if a and op == "=":
                self.accesses(rhs)
                self.items.append("IAssign %s" % a)
                self.moved = True
                self.env = {v: x for v, x in self.env.items() if a not in x}
                return
            if lhs[0] == "call" and lhs[1] in ("sexp_car", "sexp_cdr") and op == "=":
                self.accesses(rhs)
                self.accesses(lhs)
                return
            raise Unsupported("assignment target")
        if e[0] == "call":
            return self.accesses(e)
        if self.multi and e[0] == "post" and e[2] == ("id", "ip"):
            return
        if self.multi and e[0] == "post" and e[2][0] == "call":
            return self.accesses(e[2])
        raise Unsupported("expression statement")

    def top(self):
        self.items.append("ITop")
        self.moved = True
        self.env = {}

    def acc_safe(self, e):
        n = len(self.items)
        try:
            self.accesses(e)
        except Unsupported as u:
            del self.items[n:]
            self.unknown(str(u))

    def stmt_safe(self, s):
        n = len(self.items), len(self.msgs)
        try:
            self.stmt(s)
        except Unsupported as u:
            del self.items[n[0]:]
            del self.msgs[n[1]:]
            self.unknown(str(u))


def expand_paths(name, stmts, limit=48):
    """every path through a body with nested branches, each translated as a straight-line item list.  A branch whose
    condition is not a translatable guard forks (both sides are followed, the condition's own accesses first); break /
    goto end a path; `if (c) raise` with an untranslatable c just drops the raising side (no fact is recorded)."""
    import copy
    first = CaseTr(name)
    first.multi = True
    work, done = [(first, list(stmts))], []
    while work:
        tr, rest = work.pop()
        if len(work) + len(done) > limit:
            raise Unsupported("more than %d paths" % limit)
        if not rest:
            tr.unknown("a path falls through into the next case")
            done.append(tr)
            continue
        s, rest = rest[0], rest[1:]
        k = s[0]
        if k == "block":
            work.append((tr, list(s[1]) + rest))
        elif k in ("break", "goto") or tr.is_raise(s) is not None:      # an unconditional sexp_raise leaves the body as well
            done.append(tr)
        elif k == "if":
            msg = tr.is_raise(s[2])
            n = len(tr.items), len(tr.msgs)
            if msg is not None:
                try:
                    if tr.moved:
                        raise Unsupported("guard after an operand update")
                    gs = tr.cont_of(s[1], False)
                    for g in gs:
                        tr.items.append("IGuard (%s)" % g)
                        tr.msgs.append(msg)
                except Unsupported:
                    del tr.items[n[0]:]
                    del tr.msgs[n[1]:]
                    tr.acc_safe(s[1])         # the accesses of the condition itself
                work.append((tr, ([s[3]] if s[3] is not None else []) + rest))
            else:
                tr.acc_safe(s[1])
                t2 = copy.deepcopy(tr)
                work.append((tr, [s[2]] + rest))
                work.append((t2, ([s[3]] if s[3] is not None else []) + rest))
        else:
            tr.stmt_safe(s)
            work.append((tr, rest))
    return done


def translate(d):
    """returns dict(coq=text, names=[...], msgs={name: [...]}, skipped={...}, untouched=[...], sha=...)"""
    txt = preprocess(d)
    body = switch_body(txt)
    cases = split_cases(body)
    scope_names = set(ACCESS) | RAW | SCOPE_EXTRA
    entries, names, msgs, skipped, untouched = [], [], {}, {}, []
    seen = set()
    for labels, toks in cases:
        if not labels:
            continue
        name = labels[0]
        for l in labels:
            if l in seen:
                raise Unsupported("duplicate case label %s" % l)
            seen.add(l)
        used = names_in(toks) & scope_names
        if not used:
            untouched.extend(labels)
            continue
        if any(l in SKIP for l in labels):
            for l in labels:
                skipped[l] = SKIP.get(l, SKIP[[x for x in labels if x in SKIP][0]])
            continue
        tr = CaseTr(name)
        try:
            stmts = P(toks).stmts()
        except Unsupported as u:
            stmts = None
            tr.unknown("parse: %s" % u)
        if stmts is not None and name in MULTIPATH:
            try:
                paths = expand_paths(name, stmts)
            except Unsupported as u:
                paths = [tr]
                tr.unknown("paths: %s" % u)
            paths.sort(key=lambda t: (-len(t.msgs), len(t.items)))
            for n_, t_ in enumerate(paths):
                l = name if n_ == 0 else "%s#%d" % (name, n_)
                names.append(l)
                msgs[l] = t_.msgs
                entries.append((l, t_.items))
            continue
        if stmts is not None:
            if not stmts or stmts[-1][0] not in ("break", "goto"):
                tr.unknown("falls through into the next case")
            for s in stmts:
                tr.stmt_safe(s)
        for l in labels:
            names.append(l)
            msgs[l] = tr.msgs
            entries.append((l, tr.items))
    if not entries:
        raise Unsupported("no opcode case uses the modelled accessors: the switch was not recognised")
    sha = hashlib.sha256(body.encode()).hexdigest()[:16]
    lines = ["(* GENERATED by gen/c01_vmguards.py from the opcode switch of vm.c (sha256 of the switch body %s).  Do not edit. *)" % sha,
             "From Coq Require Import ZArith List.", "From ChibiV Require Import C01.Model.", "Import ListNotations.",
             "Local Open Scope Z_scope.", "", "Definition vm_table : list entry := ["]
    for n, (l, items) in enumerate(entries):
        lines.append("  (* %s *) (%d, [%s])%s" % (l, n, ";\n      ".join(items), ";" if n + 1 < len(entries) else ""))
    lines.append("].")
    lines.append("")
    for n, (l, items) in enumerate(entries):
        lines.append("Definition code_%s : Z := %d." % (l.replace("SEXP_OP_", "").replace("#", "_path"), n))
    lines.append("")
    return dict(coq="\n".join(lines), names=names, msgs=msgs, skipped=skipped, untouched=sorted(untouched), sha=sha,
                items={l: it for l, it in entries})


def regen(ctx):
    d = ctx.build("default")
    t = translate(d)
    ctx.gen("C01_VmGuards", t["coq"])
    return t


if __name__ == "__main__":
    import sys
    t = translate(sys.argv[1])
    print(t["coq"])
    print("(* skipped: %s *)" % sorted(t["skipped"]))
    print("(* untouched: %s *)" % t["untouched"])
    for k, v in t["msgs"].items():
        print("(*", k, v, "*)")
