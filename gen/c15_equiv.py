"""C15 (G): translate the cycle-safe slow path of equal? (lib/chibi/equiv.scm) into Gallina over the graph
representation and the combinators of coq/C15/Graph.v.  Emitted on every run as coq/Gen/C15_Equiv.v.

What is translated (compositionally, so an edit of the case analysis, of the order of tests, of the car/cdr order
or of the vector loop changes the generated Fixpoint and re-opens the proofs of coq/C15/GraphProofs.v):
  the inner  (define (equiv? a b) (cond ...))                      -> Fixpoint equiv (fuel) (a b : nat) : M
What is pinned by exact S-expression comparison (fail closed: Unsupported => `broken`), modelled by hand in Graph.v:
  (let ((equivs (make-hash-table eq?))) ...), get-equivs, merge!  -> get_equivs, merge, tab_mem
  the last form (let ((res (equal?/bounded a b D B))) (and res (or (> res 0) (equiv? a b)) #t)) -> equal_top, D, B read

Subset of the translated function (anything else raises Unsupported):
  M-expressions (type M = st -> option bool * st):
    #t #f | (and e ...) | (or e ...) | (cond (t) (t e) ... (else e)) | (if t x y)
    (let ((v (get-equivs n))) e) | (let ((v int)) e) | (let lp ((i int)) e) | (lp int)
    (hash-table-ref tab n (lambda () (merge! tab n) ... e)) | (equiv? n n) | pure tests
    (equal? a b) only as the else clause after clauses testing (pair? a) and (vector? a), a b the parameters
  pure tests: (eq? n n) (pair? n) (vector? n) (= i i) (< i i) (> i i) (<= i i) (>= i i) (not t)
  node expressions n: variable | (car n) | (cdr n) | (vector-ref n i)
  integer expressions i: literal | variable | (- i i) | (+ i i) | (vector-length n)
A named let becomes a local fix on a loop fuel of (vector-length of the first parameter) + 2 iterations.
"""
import os
from gen.c14_import import read_all, Sym, Unsupported

PINNED = {
    "get-equivs": """(define (get-equivs x)
      (or (hash-table-ref/default equivs x #f)
          (let ((tmp (make-hash-table eq?)))
            (hash-table-set! equivs x tmp)
            tmp)))""",
    "merge!": """(define (merge! tab x)
      (hash-table-set! tab x tab)
      (cond ((hash-table-ref/default equivs x #f)
             => (lambda (tab2)
                  (hash-table-walk tab2 (lambda (key value)
                                          (hash-table-set! tab key tab)))))))""",
}


def mangle(s):
    out = "v_"
    for c in s:
        out += c if c.isalnum() else {"-": "_", "?": "_p", "!": "_bang"}.get(c, "_x%02x_" % ord(c))
    return out


def is_sym(e, name=None):
    return isinstance(e, Sym) and (name is None or e == name)


def head(e):
    return e[0] if isinstance(e, list) and e and isinstance(e[0], Sym) else None


class Tr:
    def __init__(self, fname, params):
        self.fname = fname
        self.params = params
        self.loops = 0

    # ---- integers
    def tr_int(self, e, env):
        if isinstance(e, bool):
            raise Unsupported("boolean where an integer is expected")
        if isinstance(e, int):
            return "(%d)%%Z" % e
        if is_sym(e):
            if env.get(e) != "int":
                raise Unsupported("variable %s is not an integer variable" % e)
            return mangle(e)
        h = head(e)
        if h in ("-", "+") and len(e) == 3:
            return "(%s %s %s)%%Z" % (self.tr_int(e[1], env), h, self.tr_int(e[2], env))
        if h == "vector-length" and len(e) == 2:
            return "(vlen g %s)" % self.tr_node(e[1], env)
        raise Unsupported("integer expression %r" % (e,))

    # ---- nodes
    def tr_node(self, e, env):
        if is_sym(e):
            if env.get(e) != "node":
                raise Unsupported("variable %s is not a datum variable" % e)
            return mangle(e)
        h = head(e)
        if h == "car" and len(e) == 2:
            return "(ncar g %s)" % self.tr_node(e[1], env)
        if h == "cdr" and len(e) == 2:
            return "(ncdr g %s)" % self.tr_node(e[1], env)
        if h == "vector-ref" and len(e) == 3:
            return "(vref g %s %s)" % (self.tr_node(e[1], env), self.tr_int(e[2], env))
        raise Unsupported("datum expression %r" % (e,))

    def tr_tab(self, e, env):
        if is_sym(e) and env.get(e) == "tab":
            return mangle(e)
        raise Unsupported("table expression %r" % (e,))

    # ---- pure tests
    def tr_test(self, e, env):
        h = head(e)
        if h == "eq?" and len(e) == 3:
            return "(Nat.eqb %s %s)" % (self.tr_node(e[1], env), self.tr_node(e[2], env))
        if h == "pair?" and len(e) == 2:
            return "(is_pair g %s)" % self.tr_node(e[1], env)
        if h == "vector?" and len(e) == 2:
            return "(is_vector g %s)" % self.tr_node(e[1], env)
        if h in ("=", "<", ">", "<=", ">=") and len(e) == 3:
            op = {"=": "Z.eqb", "<": "Z.ltb", ">": "Z.gtb", "<=": "Z.leb", ">=": "Z.geb"}[h]
            return "(%s %s %s)" % (op, self.tr_int(e[1], env), self.tr_int(e[2], env))
        if h == "not" and len(e) == 2:
            return "(negb %s)" % self.tr_test(e[1], env)
        return None

    # ---- M expressions
    def tr_m(self, e, env, ctx):
        """ctx: dict(loop=(name, fuelvar) or None, else_of=None | set of tests seen in the enclosing cond (only for an else body))"""
        if e is True:
            return "(ret true)"
        if e is False:
            return "(ret false)"
        t = self.tr_test(e, env) if isinstance(e, list) else None
        if t is not None:
            return "(ret %s)" % t
        h = head(e)
        sub = dict(ctx, else_of=None)
        if h in ("and", "or"):
            if len(e) < 2:
                raise Unsupported("empty %s" % h)
            parts = [self.tr_m(x, env, sub) for x in e[1:]]
            out = parts[-1]
            for p in reversed(parts[:-1]):
                out = "(m_%s %s\n %s)" % (h, p, out)
            return out
        if h == "if" and len(e) == 4:
            return "(m_ite %s\n %s\n %s)" % (self.tr_m(e[1], env, sub), self.tr_m(e[2], env, sub), self.tr_m(e[3], env, sub))
        if h == "cond":
            return self.tr_cond(e[1:], env, sub, set())
        if h == "let" and len(e) >= 3 and is_sym(e[1]):
            return self.tr_loop(e, env, sub)
        if h == "let" and len(e) == 3 and isinstance(e[1], list):
            return self.tr_let(e[1], e[2], env, sub)
        if h == "hash-table-ref" and len(e) == 4:
            th = e[3]
            if not (head(th) == "lambda" and th[1] == [] and len(th) >= 3):
                raise Unsupported("hash-table-ref: the third argument must be (lambda () ...)")
            body = self.tr_m(th[-1], env, sub)
            for s in reversed(th[2:-1]):
                if head(s) == "merge!" and len(s) == 3:
                    body = "(m_seq (merge %s %s)\n %s)" % (self.tr_tab(s[1], env), self.tr_node(s[2], env), body)
                else:
                    raise Unsupported("statement %r" % (s,))
            return "(m_tabref %s %s\n %s)" % (self.tr_tab(e[1], env), self.tr_node(e[2], env), body)
        if h == self.fname and len(e) == 3:
            return "(equiv fuel' %s %s)" % (self.tr_node(e[1], env), self.tr_node(e[2], env))
        if ctx.get("loop") and h == ctx["loop"][0] and len(e) == 2:
            return "(%s lf' %s)" % (mangle(ctx["loop"][0]), self.tr_int(e[1], env))
        if h == "equal?" and len(e) == 3:
            seen = ctx.get("else_of")
            a, b = self.params
            if seen is None or e[1] != a or e[2] != b or ("pair?", a) not in seen or ("vector?", a) not in seen:
                raise Unsupported("(equal? ...) of the core is modelled only as the else clause after (pair? %s) and (vector? %s)" % (a, a))
            return "(ret (leaf_equal leq g %s %s))" % (mangle(a), mangle(b))
        raise Unsupported("expression %r" % (e,))

    def tr_cond(self, clauses, env, ctx, seen):
        if not clauses:
            raise Unsupported("cond without else")
        c = clauses[0]
        if not isinstance(c, list) or not c:
            raise Unsupported("cond clause %r" % (c,))
        if is_sym(c[0], "else"):
            if len(c) != 2 or len(clauses) != 1:
                raise Unsupported("else clause %r" % (c,))
            return self.tr_m(c[1], env, dict(ctx, else_of=seen))
        if any(is_sym(x, "=>") for x in c):
            raise Unsupported("=> clause")
        test = self.tr_m(c[0], env, ctx)
        if head(c[0]) in ("pair?", "vector?") and len(c[0]) == 2 and is_sym(c[0][1]):
            seen = seen | {(str(c[0][0]), c[0][1])}
        rest = self.tr_cond(clauses[1:], env, ctx, seen)
        if len(c) == 1:
            return "(m_or %s\n %s)" % (test, rest)
        if len(c) == 2:
            return "(m_ite %s\n %s\n %s)" % (test, self.tr_m(c[1], env, ctx), rest)
        raise Unsupported("cond clause with several expressions")

    def tr_let(self, bindings, body, env, ctx):
        if len(bindings) != 1 or not isinstance(bindings[0], list) or len(bindings[0]) != 2 or not is_sym(bindings[0][0]):
            raise Unsupported("let with other than one binding")
        v, init = bindings[0]
        if head(init) == "get-equivs" and len(init) == 2:
            env2 = dict(env)
            env2[v] = "tab"
            return "(m_let (get_equivs %s) (fun %s =>\n %s))" % (self.tr_node(init[1], env), mangle(v), self.tr_m(body, env2, ctx))
        env2 = dict(env)
        env2[v] = "int"
        return "(let %s := %s in\n %s)" % (mangle(v), self.tr_int(init, env), self.tr_m(body, env2, ctx))

    def tr_loop(self, e, env, ctx):
        name, bindings = e[1], e[2]
        if len(e) != 4 or len(bindings) != 1 or len(bindings[0]) != 2 or not is_sym(bindings[0][0]):
            raise Unsupported("named let with other than one variable / one body expression")
        if ctx.get("loop"):
            raise Unsupported("nested named let")
        v, init = bindings[0]
        env2 = dict(env)
        env2[v] = "int"
        body = self.tr_m(e[3], env2, dict(ctx, loop=(name, "lf'")))
        a = mangle(self.params[0])
        return ("((fix %s (lf : nat) (%s : Z) {struct lf} : M :=\n match lf with O => m_fuel | S lf' =>\n %s\n end) (loop_fuel g %s) %s)"
                % (mangle(name), mangle(v), body, a, self.tr_int(init, env)))


def translate(text):
    forms = [f for (_, _, f) in read_all(text)]
    if len(forms) != 1:
        raise Unsupported("expected exactly one top-level form in equiv.scm, found %d" % len(forms))
    top = forms[0]
    if not (head(top) == "define" and isinstance(top[1], list) and len(top[1]) == 3 and len(top) == 3):
        raise Unsupported("top-level form is not (define (equiv? a b) body)")
    fname, pa, pb = top[1]
    outer = top[2]
    if not (head(outer) == "let" and outer[1] == [[Sym("equivs"), [Sym("make-hash-table"), Sym("eq?")]]] and len(outer) == 6):
        raise Unsupported("body is not (let ((equivs (make-hash-table eq?))) get-equivs merge! equiv? result)")
    d_get, d_merge, d_eq, last = outer[2:]
    for nm, d in (("get-equivs", d_get), ("merge!", d_merge)):
        want = read_all(PINNED[nm])[0][2]
        if d != want:
            raise Unsupported("the definition of %s differs from the pinned text modelled by hand in coq/C15/Graph.v" % nm)
    if not (head(d_eq) == "define" and isinstance(d_eq[1], list) and len(d_eq[1]) == 3 and len(d_eq) == 3 and d_eq[1][0] == fname):
        raise Unsupported("third internal definition is not (define (%s a b) body)" % fname)
    _, a, b = d_eq[1]
    # the result: bounded C pass first
    ok = (head(last) == "let" and len(last) == 3 and len(last[1]) == 1 and last[1][0][0] == "res"
          and head(last[1][0][1]) == "equal?/bounded" and last[1][0][1][1:3] == [pa, pb] and len(last[1][0][1]) == 5
          and all(isinstance(x, int) and not isinstance(x, bool) for x in last[1][0][1][3:5])
          and last[2] == [Sym("and"), Sym("res"), [Sym("or"), [Sym(">"), Sym("res"), 0], [fname, pa, pb]], True])
    if not ok:
        raise Unsupported("the result expression is not (let ((res (equal?/bounded a b D B))) (and res (or (> res 0) (equiv? a b)) #t))")
    depth, bound = last[1][0][1][3:5]
    tr = Tr(fname, (a, b))
    body = tr.tr_m(d_eq[2], {a: "node", b: "node"}, dict(loop=None, else_of=None))
    return """(** GENERATED by gen/c15_equiv.py from lib/chibi/equiv.scm — do not edit. *)
From Coq Require Import List ZArith Bool Arith.
From ChibiV Require Import C15.Graph.
Import ListNotations.

Definition SLOW_DEPTH : Z := %d.
Definition SLOW_BOUND : Z := %d.

Section Equiv.
Context {L : Type}.
Variable leq : L -> L -> bool.
Variable g : list (node L).

(** the inner (define (equiv? %s %s) ...) of equiv.scm; fuel = nesting depth of calls *)
Fixpoint equiv (fuel : nat) (%s %s : nat) {struct fuel} : M :=
 match fuel with O => m_fuel | S fuel' =>
 %s
 end.

(** (let ((res (equal?/bounded a b D B))) (and res (or (> res 0) (equiv? a b)) #t)):
    res = None stands for #f.  The answer is None only if the model's fuel is exhausted. *)
Definition equal_top (res : option Z) (a b : nat) : option bool :=
  match res with
  | None => Some false
  | Some r => if Z.gtb r 0 then Some true else fst (equiv (equiv_fuel g) a b [])
  end.
End Equiv.
""" % (depth, bound, a, b, mangle(a), mangle(b), body)


def regen(ctx, repo=None):
    from vlib import build as B
    path = os.path.join(repo or B.REPO, "lib", "chibi", "equiv.scm")
    try:
        text = translate(open(path).read())
    except Unsupported as e:
        ctx.broken("gen:C15_Equiv", "lib/chibi/equiv.scm left the translator's subset: %s" % e)
        return False
    ctx.gen("C15_Equiv", text)
    return True


if __name__ == "__main__":
    import sys
    print(translate(open(sys.argv[1]).read()))
