"""C16 (G): what the collector model assumes about types and phase order, regenerated from the scratch build.

A C probe linked against the build's libchibi-scheme makes a context and prints, for every entry of the
RUNNING type table: tag, field_len_base/off/scale (strong slots), weak_base, weak_len_base/off/scale,
weak_len_extra, field_base, and which finaliser (port / fileno / other / none) the type has.  From gc.c (text,
whitespace-insensitive, comments stripped, the verification-hook blocks removed) the order of the phases in
sexp_gc and the first statement of sexp_reset_weak_references after the early return are read.
Generated: coq/Gen/C16_Layout.v (weak_types, finalised_types, gc_phases).  coq/C16/LayoutCheck.v proves by
reflexivity that they are what coq/C16/Model.v mirrors.  Fails closed (raises) on anything it cannot read."""
import os, re, subprocess

PROBE = r"""
#include <stdio.h>
#include <chibi/eval.h>
extern sexp sexp_finalize_fileno (sexp ctx, sexp self, sexp_sint_t n, sexp fileno);
int main (void) {
  sexp ctx = sexp_make_eval_context(NULL, NULL, NULL, 0, 0);
  int i, n = sexp_context_num_types(ctx);
  for (i = 0; i < n; i++) {
    sexp t = sexp_type_by_index(ctx, i);
    const char *fin = "none";
    if (!t || !sexp_typep(t)) continue;
    if (sexp_type_finalize(t) == (sexp_proc2)sexp_finalize_port) fin = "port";
    else if (sexp_type_finalize(t) == (sexp_proc2)sexp_finalize_fileno) fin = "fileno";
    else if (sexp_type_finalize(t)) fin = "other";
    printf("T %d %d %d %d %d %d %d %d %d %d %s\n", (int)sexp_type_tag(t),
           (int)sexp_type_field_base(t), (int)sexp_type_field_len_base(t), (int)sexp_type_field_len_off(t), (int)sexp_type_field_len_scale(t),
           (int)sexp_type_weak_base(t), (int)sexp_type_weak_len_base(t), (int)sexp_type_weak_len_off(t), (int)sexp_type_weak_len_scale(t),
           (int)sexp_type_weak_len_extra(t), fin);
  }
  printf("E %d %d %d\n", (int)SEXP_EPHEMERON, (int)SEXP_IPORT, (int)SEXP_FILENO);
#ifndef SEXP_USE_UNIFY_FILENOS_BY_NUMBER
#define SEXP_USE_UNIFY_FILENOS_BY_NUMBER 0
#endif
  printf("C %d %d %d %d\n", (int)SEXP_USE_WEAK_REFERENCES, (int)SEXP_USE_FINALIZERS, (int)SEXP_USE_CONSERVATIVE_GC, (int)SEXP_USE_UNIFY_FILENOS_BY_NUMBER);
  return 0;
}
"""

PHASES = [("mark", "sexp_mark(ctx,ctx);"), ("weak", "sexp_reset_weak_references(ctx);"),
          ("finalize", "finalized=sexp_finalize(ctx);"), ("sweep", "res=sexp_sweep(ctx,sum_freed);")]


def squeeze(src):
    src = re.sub(r"/\*.*?\*/", "", src, flags=re.S)
    # drop the add-only verification hook blocks
    src = re.sub(r"#if SEXP_USE_VERIF_HOOKS.*?#endif[^\n]*\n", "", src, flags=re.S)
    return re.sub(r"\s+", "", src)


def function_body(sq, header):
    i = sq.find(header)
    if i < 0:
        raise RuntimeError("gen/c16_layout: cannot find %s in gc.c" % header)
    j = sq.index("{", i)
    depth, k = 0, j
    while True:
        if sq[k] == "{":
            depth += 1
        elif sq[k] == "}":
            depth -= 1
            if depth == 0:
                return sq[j:k + 1]
        k += 1


def probe(d):
    c = os.path.join(d, "verif_c16_probe.c")
    exe = os.path.join(d, "verif_c16_probe")
    open(c, "w").write(PROBE)
    r = subprocess.run(["cc", "-DSEXP_USE_VERIF_HOOKS=1", "-I" + os.path.join(d, "include"), "-o", exe, c, "-L" + d, "-Wl,-rpath," + d,
                        "-lchibi-scheme", "-lm", "-ldl"], capture_output=True, text=True)
    if r.returncode != 0:
        raise RuntimeError("gen/c16_layout: probe does not compile: " + r.stderr[-1500:])
    env = dict(os.environ, LD_LIBRARY_PATH=d, CHIBI_MODULE_PATH=os.path.join(d, "lib"), CHIBI_IGNORE_SYSTEM_PATH="1")
    out = subprocess.run([exe], capture_output=True, text=True, timeout=60, env=env)
    if out.returncode != 0:
        raise RuntimeError("gen/c16_layout: probe failed: " + out.stderr[-500:])
    types, consts, conf = [], None, None
    for line in out.stdout.split("\n"):
        f = line.split()
        if not f:
            continue
        if f[0] == "T":
            types.append([int(x) for x in f[1:11]] + [f[11]])
        elif f[0] == "E":
            consts = [int(x) for x in f[1:]]
        elif f[0] == "C":
            conf = [int(x) for x in f[1:]]
    if not types or consts is None or conf is None:
        raise RuntimeError("gen/c16_layout: probe output not understood")
    if conf != [1, 1, 0, 0]:
        raise RuntimeError("gen/c16_layout: configuration outside the model (weak refs, finalizers, conservative gc, unify filenos by number) = %s" % conf)
    sq = squeeze(open(os.path.join(d, "gc.c")).read())
    body = function_body(sq, "sexpsexp_gc(sexpctx,size_t*sum_freed)")
    pos = []
    for name, text in PHASES:
        if body.count(text) != 1:
            raise RuntimeError("gen/c16_layout: sexp_gc no longer contains exactly one '%s'" % text)
        pos.append((body.index(text), name))
    order = [n for _, n in sorted(pos)]
    wbody = function_body(sq, "intsexp_reset_weak_references(sexpctx)")
    pre = "if(sexp_not(sexp_global(ctx,SEXP_G_WEAK_OBJECTS_PRESENT)))return0;"
    if pre not in wbody:
        raise RuntimeError("gen/c16_layout: sexp_reset_weak_references lost its early return")
    after = wbody[wbody.index(pre) + len(pre):]
    extras_first = after.startswith("sexp_mark_weak_extras(ctx);")
    return dict(types=types, consts=consts, order=order, extras_first=extras_first, scan=scan_skeleton(sq), closefd=close_fd_facts(d), r3=round3_facts(d))


# ---- the control skeleton of sexp_mark_weak_extras (the ephemeron scan): what coq/C16/Model.v eph_loop / eph_pass /
# eph_visit / mark_extras mirror.  Read from the squeezed text of the function; every piece is recognised literally.
SCAN_PIECES = [
    # (name, text that must occur exactly once in the body)
    ("walk_heaps", "for(h=sexp_context_heap(ctx);h;h=h->next){p=sexp_heap_first_block(h);q=h->free_list;end=sexp_heap_end(h);while(p<end){"),
    ("skip_free", "for(r=q->next;r&&((char*)r<(char*)p);q=r,r=r->next);if((char*)r==(char*)p){p=(sexp)(((char*)p)+r->size);continue;}"),
    ("visit_marked_weak", "if(sexp_valid_object_p(ctx,p)&&sexp_markedp(p)){t=sexp_object_type(ctx,p);if(sexp_type_weak_base(t)>0&&sexp_type_weak_len_extra(t)>0){"),
    ("live_test", "live_p=0;v=(sexp*)((char*)p+sexp_type_weak_base(t));len=sexp_type_num_weak_slots_of_object(t,p);"
                  "for(i=0;i<len;i++)if(!(v[i]&&sexp_pointerp(v[i])&&!sexp_markedp(v[i])))live_p=1;"),
    ("mark_extras", "if(live_p){len+=sexp_type_weak_len_extra(t);for(;i<len;i++){if(v[i]&&sexp_pointerp(v[i])&&!sexp_markedp(v[i])){sexp_mark(ctx,v[i]);"),
    ("advance", "p=(sexp)(((char*)p)+sexp_heap_align(sexp_allocated_bytes(ctx,p)));"),
]
RERUN_ATOMS = {"sexp_markedp(v[i])": 1}       # conjuncts of the condition under which another pass is requested


def scan_skeleton(sq):
    body = function_body(sq, "staticvoidsexp_mark_weak_extras(sexpctx)")
    m = re.match(r"^\{inti,len,live_p,changed_p;sexp_heaph;sexpp,t,end,\*v;sexp_free_listq,r;do\{changed_p=0;(.*)\}while\(([^;]*)\);\}$", body)
    loop = 1 if (m and m.group(2) == "changed_p") else 0
    inner = m.group(1) if m else body
    pieces = [1 if inner.count(text) == 1 else 0 for _, text in SCAN_PIECES]
    sets = re.findall(r"changed_p=([^;]*);", inner)
    conds = re.findall(r"sexp_mark\(ctx,v\[i\]\);if\(((?:[^()]|\((?:[^()]|\([^()]*\))*\))*)\)changed_p=1;", inner)
    if len(sets) != 1 or sets[0] != "1" or len(conds) != 1:
        rerun = [0]
        cond_text = "changed_p is assigned %d times in the walk" % len(sets)
    else:
        cond_text = conds[0]
        rerun = [RERUN_ATOMS.get(c, 0) for c in _conjuncts(cond_text)]
    # nothing else in the function: remove the recognised pieces and the rerun statement, only closing braces may remain
    rest = inner
    for _, text in SCAN_PIECES:
        rest = rest.replace(text, "", 1)
    rest = re.sub(r"if\(((?:[^()]|\((?:[^()]|\([^()]*\))*\))*)\)changed_p=1;", "", rest, count=1)
    nothing_else = 1 if re.fullmatch(r"\}*", rest) else 0
    return dict(loop=loop, pieces=pieces, rerun=rerun, cond_text=cond_text, nothing_else=nothing_else)


def _conjuncts(t):
    out, depth, cur = [], 0, ""
    i = 0
    while i < len(t):
        c = t[i]
        if c == "(":
            depth += 1
        elif c == ")":
            depth -= 1
        if depth == 0 and t.startswith("&&", i):
            out.append(cur)
            cur = ""
            i += 2
            continue
        cur += c
        i += 1
    out.append(cur)
    return out


def close_fd_facts(d):
    """lib/chibi/filesystem.stub: how (close-file-descriptor x) is bound.  Model (History.v OCloseFd): on a fileno object
    it clears sexp_fileno_openp before close(fd), so that the object's finaliser does not close the number again."""
    src = open(os.path.join(d, "lib", "chibi", "filesystem.stub")).read()
    code = re.sub(r"^\s*;.*$", "", src, flags=re.M)
    sqz = re.sub(r"\s+", "", re.sub(r"/\*.*?\*/", "", code, flags=re.S))
    m = re.search(r'\(define-cerrno\(close-file-descriptor"([A-Za-z0-9_]+)"\)\(([a-z]+)\)\)', sqz)
    if not m:
        raise RuntimeError("gen/c16_layout: cannot find the binding of close-file-descriptor in filesystem.stub")
    fn = m.group(1)
    marks = 0
    if fn != "close":
        i = sqz.find("int" + fn + "(sexpx){")
        if i >= 0:
            body = function_body(sqz[i:], "int" + fn + "(sexpx)")
            k = body.find("if(sexp_filenop(x)){")
            if k >= 0:
                branch = function_body(body[k:], "if(sexp_filenop(x))")
                if branch in ("{fd=sexp_fileno_fd(x);sexp_fileno_openp(x)=0;}", "{sexp_fileno_openp(x)=0;fd=sexp_fileno_fd(x);}") \
                        and body.count("returnclose(fd);") == 1:
                    marks = 1          # unconditionally: any guard around the assignment is outside the recognised text
    return dict(fn=fn, marks=marks)



# ---- round 3: finalisers, the weak-reset and finaliser heap walks, the gate of the weak pass, collect-and-retry.
# Each is the squeezed text (comments, white space and verification-hook blocks removed) of a whole function body as
# coq/C16/Model.v / History.v mirror it; 1 = the function in $VERIF_REPO reads exactly like that.
PIN_FINALIZE_FILENO = ("sexpsexp_finalize_fileno(sexpctx,sexpself,sexp_sint_tn,sexpfileno)",
    "{if(sexp_fileno_openp(fileno)&&!sexp_fileno_no_closep(fileno)){sexp_fileno_openp(fileno)=0;close(sexp_fileno_fd(fileno));}returnSEXP_VOID;}")
# Model.finalize_port: only an OPEN port acts; flush; if its fileno object is open: [shutdown(2) when the port has the
# shutdown flag: releases nothing], unless no_closep count-- and sexp_finalize_fileno exactly when the count reaches 0;
# fclose of the stream unless no_closep.
PIN_FINALIZE_PORT = ("sexpsexp_finalize_port(sexpctx,sexpself,sexp_sint_tn,sexpport)",
    "{sexpres=SEXP_VOID;if(sexp_port_openp(port)){sexp_port_openp(port)=0;if(sexp_oportp(port))sexp_flush_forced(ctx,port);"
    "#ifndefPLAN9if(sexp_filenop(sexp_port_fd(port))&&sexp_fileno_openp(sexp_port_fd(port))){"
    "if(sexp_port_shutdownp(port)){if(sexp_iportp(port))shutdown(sexp_port_fileno(port),sexp_oportp(port)?SHUT_RDWR:SHUT_RD);"
    "if(sexp_oportp(port))shutdown(sexp_port_fileno(port),SHUT_WR);}"
    "if(!sexp_port_no_closep(port)){if(--sexp_fileno_count(sexp_port_fd(port))==0)sexp_finalize_fileno(ctx,self,n,sexp_port_fd(port));}}#endif"
    "if(sexp_port_stream(port)&&!sexp_port_no_closep(port))fclose(sexp_port_stream(port));sexp_port_offset(port)=0;sexp_port_size(port)=0;}returnres;}")
# Model.finalize / finalize_one: every non-free chunk of every heap, in address order; unmarked and the type has a finaliser
# => call it (the SEXP_USE_DL second pass only postpones dl objects)
PIN_FINALIZE_WALK = ("sexpsexp_finalize(sexpctx)",
    "{size_tsize;sexpp,t,end;sexp_free_listq,r;sexp_proc2finalizer;sexp_sint_tfinalize_count=0;sexp_heaph=sexp_context_heap(ctx);"
    "#ifSEXP_USE_DLsexp_sint_tfree_dls=0,pass=0;loop:#endiffor(;h;h=h->next){p=sexp_heap_first_block(h);q=h->free_list;end=sexp_heap_end(h);"
    "while(p<end){for(r=q->next;r&&((char*)r<(char*)p);q=r,r=r->next);if((char*)r==(char*)p){p=(sexp)(((char*)p)+r->size);continue;}"
    "size=sexp_heap_align(sexp_allocated_bytes(ctx,p));if(size==0){returnSEXP_FALSE;}"
    "if(!sexp_markedp(p)){t=sexp_object_type(ctx,p);finalizer=sexp_type_finalize(t);if(finalizer){finalize_count++;"
    "#ifSEXP_USE_DLif(sexp_type_tag(t)==SEXP_DL&&pass<=0)free_dls=1;else#endiffinalizer(ctx,NULL,1,p);}}p=(sexp)(((char*)p)+size);}}"
    "#ifSEXP_USE_DLif(free_dls&&pass++<=0)gotoloop;#endifreturnsexp_make_fixnum(finalize_count);}")
# Model.weak_reset / reset_obj, behind the gate and the call of sexp_mark_weak_extras
PIN_WEAK_RESET = ("intsexp_reset_weak_references(sexpctx)",
    "{inti,len,broke,all_reset_p;sexp_heaph;sexpp,t,end,*v;sexp_free_listq,r;"
    "if(sexp_not(sexp_global(ctx,SEXP_G_WEAK_OBJECTS_PRESENT)))return0;sexp_mark_weak_extras(ctx);broke=0;"
    "for(h=sexp_context_heap(ctx);h;h=h->next){p=sexp_heap_first_block(h);q=h->free_list;end=sexp_heap_end(h);"
    "while(p<end){for(r=q->next;r&&((char*)r<(char*)p);q=r,r=r->next);if((char*)r==(char*)p){p=(sexp)(((char*)p)+r->size);continue;}"
    "if(sexp_valid_object_p(ctx,p)&&sexp_markedp(p)){t=sexp_object_type(ctx,p);if(sexp_type_weak_base(t)>0){all_reset_p=1;"
    "v=(sexp*)((char*)p+sexp_type_weak_base(t));len=sexp_type_num_weak_slots_of_object(t,p);"
    "for(i=0;i<len;i++){if(v[i]&&sexp_pointerp(v[i])&&!sexp_markedp(v[i])){v[i]=SEXP_FALSE;sexp_brokenp(p)=1;}else{all_reset_p=0;}}"
    "if(all_reset_p){broke++;len+=sexp_type_weak_len_extra(t);for(;i<len;i++)v[i]=SEXP_FALSE;}}}"
    "p=(sexp)(((char*)p)+sexp_heap_align(sexp_allocated_bytes(ctx,p)));}}"
    "sexp_debug_printf(\"%p(broke%dweakreferences)\",ctx,broke);returnbroke;}")
# History.step OEph + Gate.v: make-ephemeron is the one allocator of weak objects and switches the weak pass on, whatever key
# and value are
PIN_MAKE_EPHEMERON = ("sexpsexp_make_ephemeron_op(sexpctx,sexpself,sexp_sint_tn,sexpkey,sexpvalue)",
    "{sexpres=sexp_alloc_type(ctx,pair,SEXP_EPHEMERON);if(!sexp_exceptionp(res)){sexp_global(ctx,SEXP_G_WEAK_OBJECTS_PRESENT)=SEXP_TRUE;"
    "sexp_ephemeron_key(res)=key;sexp_ephemeron_value(res)=value;}returnres;}")
GATE_INIT = "sexp_global(ctx,SEXP_G_WEAK_OBJECTS_PRESENT)=SEXP_FALSE;"
GATE_SET = "sexp_global(ctx,SEXP_G_WEAK_OBJECTS_PRESENT)=SEXP_TRUE;"
GATE_TEST = "if(sexp_not(sexp_global(ctx,SEXP_G_WEAK_OBJECTS_PRESENT)))return0;"
# eval.c: open-input-file / open-output-file: fopen; on EMFILE (tested directly after the failed fopen) collect once and retry
def _retry(var, mode, what, maker):
    return ("{FILE*%s;intcount=0;sexp_assert_type(ctx,sexp_stringp,SEXP_STRING,path);do{if(count!=0)sexp_gc(ctx,NULL);%s=fopen(sexp_string_data(path),\"%s\");}"
            "while(!%s&&sexp_out_of_file_descriptors()&&!count++);if(!%s)returnsexp_file_exception(ctx,self,\"couldn'topen%sfile\",path);"
            "#ifSEXP_USE_GREEN_THREADSfcntl(fileno(%s),F_SETFL,O_NONBLOCK);#endifreturn%s(ctx,%s,path);}" % (var, var, mode, var, var, what, var, maker, var))
PIN_OPEN_IN = ("sexpsexp_open_input_file_op(sexpctx,sexpself,sexp_sint_tn,sexppath)", _retry("in", "r", "input", "sexp_make_input_port"))
PIN_OPEN_OUT = ("sexpsexp_open_output_file_op(sexpctx,sexpself,sexp_sint_tn,sexppath)", _retry("out", "w", "output", "sexp_make_output_port"))
EMFILE_MACRO = "#definesexp_out_of_file_descriptors()(errno==EMFILE)"


def _pin(sq, pin):
    try:
        return 1 if function_body(sq, pin[0]) == pin[1] else 0
    except (RuntimeError, ValueError, IndexError):
        return 0


def _sources(d):
    """every C source / header / stub of the tree that is compiled into the library or a shipped module"""
    out = []
    for root, dirs, files in os.walk(d):
        dirs[:] = [x for x in dirs if x not in (".git", "tests", "benchmarks", "doc", "build-lib", "contrib", "js", "tools")]
        for f in files:
            if f.endswith((".c", ".h", ".stub")) and not f.startswith("verif_") and not f.startswith("embed_"):
                out.append(os.path.join(root, f))
    return sorted(out)


def round3_facts(d):
    sexp_c = squeeze(open(os.path.join(d, "sexp.c")).read())
    gc_c = squeeze(open(os.path.join(d, "gc.c")).read())
    eval_c = squeeze(open(os.path.join(d, "eval.c")).read())
    sexp_h = squeeze(open(os.path.join(d, "include", "chibi", "sexp.h")).read())
    # every mention of the gate, anywhere: 1 initialised to false (context creation), 2 set by make-ephemeron, 3 the test at the
    # top of the weak pass, 4 its declaration in the globals enum, 0 anything else (another writer / another reader)
    sites, allocs = [], 0
    for f in _sources(d):
        try:
            t = squeeze(open(f, errors="replace").read())
        except OSError:
            continue
        allocs += t.count("sexp_alloc_type(ctx,pair,SEXP_EPHEMERON)") + t.count("sexp_alloc_tagged(ctx,sexp_sizeof(pair),SEXP_EPHEMERON)")
        i = 0
        while True:
            i = t.find("SEXP_G_WEAK_OBJECTS_PRESENT", i)
            if i < 0:
                break
            code = 0
            for c, text in ((1, GATE_INIT), (2, GATE_SET), (3, GATE_TEST)):
                k = text.index("SEXP_G_WEAK_OBJECTS_PRESENT")
                if t[i - k:i - k + len(text)] == text:
                    code = c
            if code == 0 and t[i:i + 28] == "SEXP_G_WEAK_OBJECTS_PRESENT," and f.endswith("sexp.h"):
                code = 4
            sites.append(code)
            i += 1
    return dict(fin_fileno=_pin(sexp_c, PIN_FINALIZE_FILENO), fin_port=_pin(sexp_c, PIN_FINALIZE_PORT), fin_walk=_pin(gc_c, PIN_FINALIZE_WALK),
                weak_reset=_pin(gc_c, PIN_WEAK_RESET), make_eph=_pin(sexp_c, PIN_MAKE_EPHEMERON), gate_sites=sorted(sites), eph_allocs=allocs,
                retry=[_pin(eval_c, PIN_OPEN_IN), _pin(eval_c, PIN_OPEN_OUT), 1 if sexp_h.count(EMFILE_MACRO) == 1 else 0])


PH = {"mark": 1, "weak": 3, "finalize": 4, "sweep": 5}


def coq_text(v):
    # t = [tag, field_base, field_len_base, field_len_off, field_len_scale, weak_base, weak_len_base, weak_len_off, weak_len_scale, weak_len_extra, fin]
    eph, iport, fileno = v["consts"]
    weak = [t for t in v["types"] if t[5] > 0]
    fin = [t for t in v["types"] if t[10] != "none"]
    phases = []
    for n in v["order"]:
        if n == "weak":
            if v["extras_first"]:
                phases.append(2)
            phases.append(3)
        else:
            phases.append(PH[n])
    kind = {"port": 1, "fileno": 2, "other": 3}
    lines = ["(** REGENERATED by gen/c16_layout.py from the scratch build of $VERIF_REPO — do not edit. *)",
             "From Coq Require Import ZArith List.", "Import ListNotations.", "Local Open Scope Z_scope.",
             "(* types with a weak range, from the running type table:",
             "   (tag, strong slots: field_len_base, field_len_scale, key is the first field: weak_base = field_base,",
             "    weak_len_base, weak_len_scale, weak_len_extra) *)",
             "Definition weak_types : list (Z * Z * Z * bool * Z * Z * Z) := ["
             + "; ".join("(%d, %d, %d, %s, %d, %d, %d)" % (t[0], t[2], t[4], "true" if t[5] == t[1] else "false", t[6], t[8], t[9]) for t in weak) + "].",
             "Definition ephemeron_tag : Z := %d." % eph,
             "(* types with a finaliser: (tag, 1 = sexp_finalize_port | 2 = sexp_finalize_fileno | 3 = another) *)",
             "Definition finalised_types : list (Z * Z) := [" + "; ".join("(%d, %d)" % (t[0], kind[t[10]]) for t in fin) + "].",
             "Definition iport_tag : Z := %d." % iport, "Definition fileno_tag : Z := %d." % fileno,
             "(* phases of sexp_gc in source order: 1 mark from the context, 2 sexp_mark_weak_extras, 3 weak reset, 4 finalise, 5 sweep *)",
             "Definition gc_phases : list Z := [" + "; ".join(str(p) for p in phases) + "].",
             "(* sexp_mark_weak_extras, control skeleton read from gc.c:",
             "   scan_loop = 1: do { changed_p = 0; <walk> } while (changed_p);",
             "   scan_pieces: 1 per literal piece found exactly once: " + ", ".join(n for n, _ in SCAN_PIECES) + ";",
             "   scan_rerun: the conjuncts of the condition under which changed_p is set after sexp_mark(ctx, v[i])",
             "     (1 = sexp_markedp(v[i]); 0 = anything else); source text: " + v["scan"]["cond_text"].replace("*)", "* )").replace("(*", "( *"),
             "   scan_nothing_else = 1: the function contains nothing besides these pieces *)",
             "Definition scan_loop : Z := %d." % v["scan"]["loop"],
             "Definition scan_pieces : list Z := [" + "; ".join(str(x) for x in v["scan"]["pieces"]) + "].",
             "Definition scan_rerun : list Z := [" + "; ".join(str(x) for x in v["scan"]["rerun"]) + "].",
             "Definition scan_nothing_else : Z := %d." % v["scan"]["nothing_else"],
             "(* lib/chibi/filesystem.stub: (close-file-descriptor x) is bound to the C function " + v["closefd"]["fn"] + ";",
             "   1 = on a fileno object it clears sexp_fileno_openp and then closes sexp_fileno_fd *)",
             "Definition close_fd_marks_fileno_closed : Z := %d." % v["closefd"]["marks"],
             "(* round 3.  1 = the whole function reads as coq/C16/Model.v mirrors it (squeezed text in gen/c16_layout.py):",
             "   sexp_finalize_fileno, sexp_finalize_port (count--, sexp_finalize_fileno exactly when the count reaches 0; the shutdown",
             "   flag only guards shutdown(2)), the heap walk of sexp_finalize, sexp_reset_weak_references behind its gate *)",
             "Definition finalize_fileno_as_modelled : Z := %d." % v["r3"]["fin_fileno"],
             "Definition finalize_port_as_modelled : Z := %d." % v["r3"]["fin_port"],
             "Definition finalize_walk_as_modelled : Z := %d." % v["r3"]["fin_walk"],
             "Definition weak_reset_walk_as_modelled : Z := %d." % v["r3"]["weak_reset"],
             "(* the gate of the weak pass, SEXP_G_WEAK_OBJECTS_PRESENT: every mention in the C sources, headers and stubs of the tree:",
             "   1 = set to false at context creation, 2 = set to true by sexp_make_ephemeron_op, 3 = the early return of the weak pass,",
             "   4 = the enum entry, 0 = anything else; make_ephemeron_sets_gate = 1: sexp_make_ephemeron_op reads exactly",
             "   alloc; if (!exception) { gate = true; key; value }  (unconditionally: whatever key and value are);",
             "   ephemeron_alloc_sites: how many places allocate an object of the (only) weak type *)",
             "Definition weak_gate_sites : list Z := [" + "; ".join(str(x) for x in v["r3"]["gate_sites"]) + "].",
             "Definition make_ephemeron_sets_gate : Z := %d." % v["r3"]["make_eph"],
             "Definition ephemeron_alloc_sites : Z := %d." % v["r3"]["eph_allocs"],
             "(* eval.c open-input-file / open-output-file: do { if (count) gc; fopen } while (failed && errno == EMFILE && !count++);",
             "   [input op, output op, the macro sexp_out_of_file_descriptors() is (errno == EMFILE)] *)",
             "Definition open_retry_as_modelled : list Z := [" + "; ".join(str(x) for x in v["r3"]["retry"]) + "]."]
    return "\n".join(lines) + "\n"


def regen(ctx, d=None):
    if d is None:
        d = ctx.build("default")
    v = probe(d)
    ctx.gen("C16_Layout", coq_text(v))
    return v


if __name__ == "__main__":
    import sys
    v = probe(sys.argv[1])
    print(coq_text(v))
