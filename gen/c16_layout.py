"""C16 (G): what the collector model assumes about types and phase order, regenerated from the scratch build.

A C probe linked against the build's libchibi-scheme makes a context and prints, for every entry of the
RUNNING type table: tag, field_len_base/off/scale (strong slots), weak_base, weak_len_base/off/scale,
weak_len_extra, field_base, and which finaliser (port / fileno / other / none) the type has.  From gc.c (text,
whitespace-insensitive, comments stripped, the verification-hook blocks removed) the order of the phases in
sexp_gc and the first statement of sexp_reset_weak_references after the early return are read.
Generated: coq/Gen/C16_Layout.v (weak_types, finalised_types, gc_phases).  coq/C16/LayoutCheck.v proves by
reflexivity that they are what coq/C16/Model.v mirrors.  Fails closed (raises) on anything it cannot read."""
import os, re, subprocess

PROBE = r"""
#include <stdio.h>
#include <chibi/eval.h>
extern sexp sexp_finalize_fileno (sexp ctx, sexp self, sexp_sint_t n, sexp fileno);
int main (void) {
  sexp ctx = sexp_make_eval_context(NULL, NULL, NULL, 0, 0);
  int i, n = sexp_context_num_types(ctx);
  for (i = 0; i < n; i++) {
    sexp t = sexp_type_by_index(ctx, i);
    const char *fin = "none";
    if (!t || !sexp_typep(t)) continue;
    if (sexp_type_finalize(t) == (sexp_proc2)sexp_finalize_port) fin = "port";
    else if (sexp_type_finalize(t) == (sexp_proc2)sexp_finalize_fileno) fin = "fileno";
    else if (sexp_type_finalize(t)) fin = "other";
    printf("T %d %d %d %d %d %d %d %d %d %d %s\n", (int)sexp_type_tag(t),
           (int)sexp_type_field_base(t), (int)sexp_type_field_len_base(t), (int)sexp_type_field_len_off(t), (int)sexp_type_field_len_scale(t),
           (int)sexp_type_weak_base(t), (int)sexp_type_weak_len_base(t), (int)sexp_type_weak_len_off(t), (int)sexp_type_weak_len_scale(t),
           (int)sexp_type_weak_len_extra(t), fin);
  }
  printf("E %d %d %d\n", (int)SEXP_EPHEMERON, (int)SEXP_IPORT, (int)SEXP_FILENO);
  printf("C %d %d %d\n", (int)SEXP_USE_WEAK_REFERENCES, (int)SEXP_USE_FINALIZERS, (int)SEXP_USE_CONSERVATIVE_GC);
  return 0;
}
"""

PHASES = [("mark", "sexp_mark(ctx,ctx);"), ("weak", "sexp_reset_weak_references(ctx);"),
          ("finalize", "finalized=sexp_finalize(ctx);"), ("sweep", "res=sexp_sweep(ctx,sum_freed);")]


def squeeze(src):
    src = re.sub(r"/\*.*?\*/", "", src, flags=re.S)
    # drop the add-only verification hook blocks
    src = re.sub(r"#if SEXP_USE_VERIF_HOOKS.*?#endif[^\n]*\n", "", src, flags=re.S)
    return re.sub(r"\s+", "", src)


def function_body(sq, header):
    i = sq.find(header)
    if i < 0:
        raise RuntimeError("gen/c16_layout: cannot find %s in gc.c" % header)
    j = sq.index("{", i)
    depth, k = 0, j
    while True:
        if sq[k] == "{":
            depth += 1
        elif sq[k] == "}":
            depth -= 1
            if depth == 0:
                return sq[j:k + 1]
        k += 1


def probe(d):
    c = os.path.join(d, "verif_c16_probe.c")
    exe = os.path.join(d, "verif_c16_probe")
    open(c, "w").write(PROBE)
    r = subprocess.run(["cc", "-DSEXP_USE_VERIF_HOOKS=1", "-I" + os.path.join(d, "include"), "-o", exe, c, "-L" + d, "-Wl,-rpath," + d,
                        "-lchibi-scheme", "-lm", "-ldl"], capture_output=True, text=True)
    if r.returncode != 0:
        raise RuntimeError("gen/c16_layout: probe does not compile: " + r.stderr[-1500:])
    env = dict(os.environ, LD_LIBRARY_PATH=d, CHIBI_MODULE_PATH=os.path.join(d, "lib"), CHIBI_IGNORE_SYSTEM_PATH="1")
    out = subprocess.run([exe], capture_output=True, text=True, timeout=60, env=env)
    if out.returncode != 0:
        raise RuntimeError("gen/c16_layout: probe failed: " + out.stderr[-500:])
    types, consts, conf = [], None, None
    for line in out.stdout.split("\n"):
        f = line.split()
        if not f:
            continue
        if f[0] == "T":
            types.append([int(x) for x in f[1:11]] + [f[11]])
        elif f[0] == "E":
            consts = [int(x) for x in f[1:]]
        elif f[0] == "C":
            conf = [int(x) for x in f[1:]]
    if not types or consts is None or conf is None:
        raise RuntimeError("gen/c16_layout: probe output not understood")
    if conf != [1, 1, 0]:
        raise RuntimeError("gen/c16_layout: configuration outside the model (weak refs, finalizers, conservative gc) = %s" % conf)
    sq = squeeze(open(os.path.join(d, "gc.c")).read())
    body = function_body(sq, "sexpsexp_gc(sexpctx,size_t*sum_freed)")
    pos = []
    for name, text in PHASES:
        if body.count(text) != 1:
            raise RuntimeError("gen/c16_layout: sexp_gc no longer contains exactly one '%s'" % text)
        pos.append((body.index(text), name))
    order = [n for _, n in sorted(pos)]
    wbody = function_body(sq, "intsexp_reset_weak_references(sexpctx)")
    pre = "if(sexp_not(sexp_global(ctx,SEXP_G_WEAK_OBJECTS_PRESENT)))return0;"
    if pre not in wbody:
        raise RuntimeError("gen/c16_layout: sexp_reset_weak_references lost its early return")
    after = wbody[wbody.index(pre) + len(pre):]
    extras_first = after.startswith("sexp_mark_weak_extras(ctx);")
    return dict(types=types, consts=consts, order=order, extras_first=extras_first, scan=scan_skeleton(sq), closefd=close_fd_facts(d))


# ---- the control skeleton of sexp_mark_weak_extras (the ephemeron scan): what coq/C16/Model.v eph_loop / eph_pass /
# eph_visit / mark_extras mirror.  Read from the squeezed text of the function; every piece is recognised literally.
SCAN_PIECES = [
    # (name, text that must occur exactly once in the body)
    ("walk_heaps", "for(h=sexp_context_heap(ctx);h;h=h->next){p=sexp_heap_first_block(h);q=h->free_list;end=sexp_heap_end(h);while(p<end){"),
    ("skip_free", "for(r=q->next;r&&((char*)r<(char*)p);q=r,r=r->next);if((char*)r==(char*)p){p=(sexp)(((char*)p)+r->size);continue;}"),
    ("visit_marked_weak", "if(sexp_valid_object_p(ctx,p)&&sexp_markedp(p)){t=sexp_object_type(ctx,p);if(sexp_type_weak_base(t)>0&&sexp_type_weak_len_extra(t)>0){"),
    ("live_test", "live_p=0;v=(sexp*)((char*)p+sexp_type_weak_base(t));len=sexp_type_num_weak_slots_of_object(t,p);"
                  "for(i=0;i<len;i++)if(!(v[i]&&sexp_pointerp(v[i])&&!sexp_markedp(v[i])))live_p=1;"),
    ("mark_extras", "if(live_p){len+=sexp_type_weak_len_extra(t);for(;i<len;i++){if(v[i]&&sexp_pointerp(v[i])&&!sexp_markedp(v[i])){sexp_mark(ctx,v[i]);"),
    ("advance", "p=(sexp)(((char*)p)+sexp_heap_align(sexp_allocated_bytes(ctx,p)));"),
]
RERUN_ATOMS = {"sexp_markedp(v[i])": 1}       # conjuncts of the condition under which another pass is requested


def scan_skeleton(sq):
    body = function_body(sq, "staticvoidsexp_mark_weak_extras(sexpctx)")
    m = re.match(r"^\{inti,len,live_p,changed_p;sexp_heaph;sexpp,t,end,\*v;sexp_free_listq,r;do\{changed_p=0;(.*)\}while\(([^;]*)\);\}$", body)
    loop = 1 if (m and m.group(2) == "changed_p") else 0
    inner = m.group(1) if m else body
    pieces = [1 if inner.count(text) == 1 else 0 for _, text in SCAN_PIECES]
    sets = re.findall(r"changed_p=([^;]*);", inner)
    conds = re.findall(r"sexp_mark\(ctx,v\[i\]\);if\(((?:[^()]|\((?:[^()]|\([^()]*\))*\))*)\)changed_p=1;", inner)
    if len(sets) != 1 or sets[0] != "1" or len(conds) != 1:
        rerun = [0]
        cond_text = "changed_p is assigned %d times in the walk" % len(sets)
    else:
        cond_text = conds[0]
        rerun = [RERUN_ATOMS.get(c, 0) for c in _conjuncts(cond_text)]
    # nothing else in the function: remove the recognised pieces and the rerun statement, only closing braces may remain
    rest = inner
    for _, text in SCAN_PIECES:
        rest = rest.replace(text, "", 1)
    rest = re.sub(r"if\(((?:[^()]|\((?:[^()]|\([^()]*\))*\))*)\)changed_p=1;", "", rest, count=1)
    nothing_else = 1 if re.fullmatch(r"\}*", rest) else 0
    return dict(loop=loop, pieces=pieces, rerun=rerun, cond_text=cond_text, nothing_else=nothing_else)


def _conjuncts(t):
    out, depth, cur = [], 0, ""
    i = 0
    while i < len(t):
        c = t[i]
        if c == "(":
            depth += 1
        elif c == ")":
            depth -= 1
        if depth == 0 and t.startswith("&&", i):
            out.append(cur)
            cur = ""
            i += 2
            continue
        cur += c
        i += 1
    out.append(cur)
    return out


def close_fd_facts(d):
    """lib/chibi/filesystem.stub: how (close-file-descriptor x) is bound.  Model (History.v OCloseFd): on a fileno object
    it clears sexp_fileno_openp before close(fd), so that the object's finaliser does not close the number again."""
    src = open(os.path.join(d, "lib", "chibi", "filesystem.stub")).read()
    code = re.sub(r"^\s*;.*$", "", src, flags=re.M)
    sqz = re.sub(r"\s+", "", re.sub(r"/\*.*?\*/", "", code, flags=re.S))
    m = re.search(r'\(define-cerrno\(close-file-descriptor"([A-Za-z0-9_]+)"\)\(([a-z]+)\)\)', sqz)
    if not m:
        raise RuntimeError("gen/c16_layout: cannot find the binding of close-file-descriptor in filesystem.stub")
    fn = m.group(1)
    marks = 0
    if fn != "close":
        i = sqz.find("int" + fn + "(sexpx){")
        if i >= 0:
            body = function_body(sqz[i:], "int" + fn + "(sexpx)")
            k = body.find("if(sexp_filenop(x)){")
            if k >= 0:
                branch = function_body(body[k:], "if(sexp_filenop(x))")
                if branch in ("{fd=sexp_fileno_fd(x);sexp_fileno_openp(x)=0;}", "{sexp_fileno_openp(x)=0;fd=sexp_fileno_fd(x);}") \
                        and body.count("returnclose(fd);") == 1:
                    marks = 1          # unconditionally: any guard around the assignment is outside the recognised text
    return dict(fn=fn, marks=marks)


PH = {"mark": 1, "weak": 3, "finalize": 4, "sweep": 5}


def coq_text(v):
    # t = [tag, field_base, field_len_base, field_len_off, field_len_scale, weak_base, weak_len_base, weak_len_off, weak_len_scale, weak_len_extra, fin]
    eph, iport, fileno = v["consts"]
    weak = [t for t in v["types"] if t[5] > 0]
    fin = [t for t in v["types"] if t[10] != "none"]
    phases = []
    for n in v["order"]:
        if n == "weak":
            if v["extras_first"]:
                phases.append(2)
            phases.append(3)
        else:
            phases.append(PH[n])
    kind = {"port": 1, "fileno": 2, "other": 3}
    lines = ["(** REGENERATED by gen/c16_layout.py from the scratch build of $VERIF_REPO — do not edit. *)",
             "From Coq Require Import ZArith List.", "Import ListNotations.", "Local Open Scope Z_scope.",
             "(* types with a weak range, from the running type table:",
             "   (tag, strong slots: field_len_base, field_len_scale, key is the first field: weak_base = field_base,",
             "    weak_len_base, weak_len_scale, weak_len_extra) *)",
             "Definition weak_types : list (Z * Z * Z * bool * Z * Z * Z) := ["
             + "; ".join("(%d, %d, %d, %s, %d, %d, %d)" % (t[0], t[2], t[4], "true" if t[5] == t[1] else "false", t[6], t[8], t[9]) for t in weak) + "].",
             "Definition ephemeron_tag : Z := %d." % eph,
             "(* types with a finaliser: (tag, 1 = sexp_finalize_port | 2 = sexp_finalize_fileno | 3 = another) *)",
             "Definition finalised_types : list (Z * Z) := [" + "; ".join("(%d, %d)" % (t[0], kind[t[10]]) for t in fin) + "].",
             "Definition iport_tag : Z := %d." % iport, "Definition fileno_tag : Z := %d." % fileno,
             "(* phases of sexp_gc in source order: 1 mark from the context, 2 sexp_mark_weak_extras, 3 weak reset, 4 finalise, 5 sweep *)",
             "Definition gc_phases : list Z := [" + "; ".join(str(p) for p in phases) + "].",
             "(* sexp_mark_weak_extras, control skeleton read from gc.c:",
             "   scan_loop = 1: do { changed_p = 0; <walk> } while (changed_p);",
             "   scan_pieces: 1 per literal piece found exactly once: " + ", ".join(n for n, _ in SCAN_PIECES) + ";",
             "   scan_rerun: the conjuncts of the condition under which changed_p is set after sexp_mark(ctx, v[i])",
             "     (1 = sexp_markedp(v[i]); 0 = anything else); source text: " + v["scan"]["cond_text"].replace("*)", "* )").replace("(*", "( *"),
             "   scan_nothing_else = 1: the function contains nothing besides these pieces *)",
             "Definition scan_loop : Z := %d." % v["scan"]["loop"],
             "Definition scan_pieces : list Z := [" + "; ".join(str(x) for x in v["scan"]["pieces"]) + "].",
             "Definition scan_rerun : list Z := [" + "; ".join(str(x) for x in v["scan"]["rerun"]) + "].",
             "Definition scan_nothing_else : Z := %d." % v["scan"]["nothing_else"],
             "(* lib/chibi/filesystem.stub: (close-file-descriptor x) is bound to the C function " + v["closefd"]["fn"] + ";",
             "   1 = on a fileno object it clears sexp_fileno_openp and then closes sexp_fileno_fd *)",
             "Definition close_fd_marks_fileno_closed : Z := %d." % v["closefd"]["marks"]]
    return "\n".join(lines) + "\n"


def regen(ctx, d=None):
    if d is None:
        d = ctx.build("default")
    v = probe(d)
    ctx.gen("C16_Layout", coq_text(v))
    return v


if __name__ == "__main__":
    import sys
    v = probe(sys.argv[1])
    print(coq_text(v))
