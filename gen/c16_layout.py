"""C16 (G): what the collector model assumes about types and phase order, regenerated from the scratch build.

A C probe linked against the build's libchibi-scheme makes a context and prints, for every entry of the
RUNNING type table: tag, field_len_base/off/scale (strong slots), weak_base, weak_len_base/off/scale,
weak_len_extra, field_base, and which finaliser (port / fileno / other / none) the type has.  From gc.c (text,
whitespace-insensitive, comments stripped, the verification-hook blocks removed) the order of the phases in
sexp_gc and the first statement of sexp_reset_weak_references after the early return are read.
Generated: coq/Gen/C16_Layout.v (weak_types, finalised_types, gc_phases).  coq/C16/LayoutCheck.v proves by
reflexivity that they are what coq/C16/Model.v mirrors.  Fails closed (raises) on anything it cannot read."""
import os, re, subprocess

PROBE = r"""
#include <stdio.h>
#include <chibi/eval.h>
extern sexp sexp_finalize_fileno (sexp ctx, sexp self, sexp_sint_t n, sexp fileno);
int main (void) {
  sexp ctx = sexp_make_eval_context(NULL, NULL, NULL, 0, 0);
  int i, n = sexp_context_num_types(ctx);
  for (i = 0; i < n; i++) {
    sexp t = sexp_type_by_index(ctx, i);
    const char *fin = "none";
    if (!t || !sexp_typep(t)) continue;
    if (sexp_type_finalize(t) == (sexp_proc2)sexp_finalize_port) fin = "port";
    else if (sexp_type_finalize(t) == (sexp_proc2)sexp_finalize_fileno) fin = "fileno";
    else if (sexp_type_finalize(t)) fin = "other";
    printf("T %d %d %d %d %d %d %d %d %d %d %s\n", (int)sexp_type_tag(t),
           (int)sexp_type_field_base(t), (int)sexp_type_field_len_base(t), (int)sexp_type_field_len_off(t), (int)sexp_type_field_len_scale(t),
           (int)sexp_type_weak_base(t), (int)sexp_type_weak_len_base(t), (int)sexp_type_weak_len_off(t), (int)sexp_type_weak_len_scale(t),
           (int)sexp_type_weak_len_extra(t), fin);
  }
  printf("E %d %d %d\n", (int)SEXP_EPHEMERON, (int)SEXP_IPORT, (int)SEXP_FILENO);
  printf("C %d %d %d\n", (int)SEXP_USE_WEAK_REFERENCES, (int)SEXP_USE_FINALIZERS, (int)SEXP_USE_CONSERVATIVE_GC);
  return 0;
}
"""

PHASES = [("mark", "sexp_mark(ctx,ctx);"), ("weak", "sexp_reset_weak_references(ctx);"),
          ("finalize", "finalized=sexp_finalize(ctx);"), ("sweep", "res=sexp_sweep(ctx,sum_freed);")]


def squeeze(src):
    src = re.sub(r"/\*.*?\*/", "", src, flags=re.S)
    # drop the add-only verification hook blocks
    src = re.sub(r"#if SEXP_USE_VERIF_HOOKS.*?#endif[^\n]*\n", "", src, flags=re.S)
    return re.sub(r"\s+", "", src)


def function_body(sq, header):
    i = sq.find(header)
    if i < 0:
        raise RuntimeError("gen/c16_layout: cannot find %s in gc.c" % header)
    j = sq.index("{", i)
    depth, k = 0, j
    while True:
        if sq[k] == "{":
            depth += 1
        elif sq[k] == "}":
            depth -= 1
            if depth == 0:
                return sq[j:k + 1]
        k += 1


def probe(d):
    c = os.path.join(d, "verif_c16_probe.c")
    exe = os.path.join(d, "verif_c16_probe")
    open(c, "w").write(PROBE)
    r = subprocess.run(["cc", "-DSEXP_USE_VERIF_HOOKS=1", "-I" + os.path.join(d, "include"), "-o", exe, c, "-L" + d, "-Wl,-rpath," + d,
                        "-lchibi-scheme", "-lm", "-ldl"], capture_output=True, text=True)
    if r.returncode != 0:
        raise RuntimeError("gen/c16_layout: probe does not compile: " + r.stderr[-1500:])
    env = dict(os.environ, LD_LIBRARY_PATH=d, CHIBI_MODULE_PATH=os.path.join(d, "lib"), CHIBI_IGNORE_SYSTEM_PATH="1")
    out = subprocess.run([exe], capture_output=True, text=True, timeout=60, env=env)
    if out.returncode != 0:
        raise RuntimeError("gen/c16_layout: probe failed: " + out.stderr[-500:])
    types, consts, conf = [], None, None
    for line in out.stdout.split("\n"):
        f = line.split()
        if not f:
            continue
        if f[0] == "T":
            types.append([int(x) for x in f[1:11]] + [f[11]])
        elif f[0] == "E":
            consts = [int(x) for x in f[1:]]
        elif f[0] == "C":
            conf = [int(x) for x in f[1:]]
    if not types or consts is None or conf is None:
        raise RuntimeError("gen/c16_layout: probe output not understood")
    if conf != [1, 1, 0]:
        raise RuntimeError("gen/c16_layout: configuration outside the model (weak refs, finalizers, conservative gc) = %s" % conf)
    sq = squeeze(open(os.path.join(d, "gc.c")).read())
    body = function_body(sq, "sexpsexp_gc(sexpctx,size_t*sum_freed)")
    pos = []
    for name, text in PHASES:
        if body.count(text) != 1:
            raise RuntimeError("gen/c16_layout: sexp_gc no longer contains exactly one '%s'" % text)
        pos.append((body.index(text), name))
    order = [n for _, n in sorted(pos)]
    wbody = function_body(sq, "intsexp_reset_weak_references(sexpctx)")
    pre = "if(sexp_not(sexp_global(ctx,SEXP_G_WEAK_OBJECTS_PRESENT)))return0;"
    if pre not in wbody:
        raise RuntimeError("gen/c16_layout: sexp_reset_weak_references lost its early return")
    after = wbody[wbody.index(pre) + len(pre):]
    extras_first = after.startswith("sexp_mark_weak_extras(ctx);")
    return dict(types=types, consts=consts, order=order, extras_first=extras_first)


PH = {"mark": 1, "weak": 3, "finalize": 4, "sweep": 5}


def coq_text(v):
    # t = [tag, field_base, field_len_base, field_len_off, field_len_scale, weak_base, weak_len_base, weak_len_off, weak_len_scale, weak_len_extra, fin]
    eph, iport, fileno = v["consts"]
    weak = [t for t in v["types"] if t[5] > 0]
    fin = [t for t in v["types"] if t[10] != "none"]
    phases = []
    for n in v["order"]:
        if n == "weak":
            if v["extras_first"]:
                phases.append(2)
            phases.append(3)
        else:
            phases.append(PH[n])
    kind = {"port": 1, "fileno": 2, "other": 3}
    lines = ["(** REGENERATED by gen/c16_layout.py from the scratch build of $VERIF_REPO — do not edit. *)",
             "From Coq Require Import ZArith List.", "Import ListNotations.", "Local Open Scope Z_scope.",
             "(* types with a weak range, from the running type table:",
             "   (tag, strong slots: field_len_base, field_len_scale, key is the first field: weak_base = field_base,",
             "    weak_len_base, weak_len_scale, weak_len_extra) *)",
             "Definition weak_types : list (Z * Z * Z * bool * Z * Z * Z) := ["
             + "; ".join("(%d, %d, %d, %s, %d, %d, %d)" % (t[0], t[2], t[4], "true" if t[5] == t[1] else "false", t[6], t[8], t[9]) for t in weak) + "].",
             "Definition ephemeron_tag : Z := %d." % eph,
             "(* types with a finaliser: (tag, 1 = sexp_finalize_port | 2 = sexp_finalize_fileno | 3 = another) *)",
             "Definition finalised_types : list (Z * Z) := [" + "; ".join("(%d, %d)" % (t[0], kind[t[10]]) for t in fin) + "].",
             "Definition iport_tag : Z := %d." % iport, "Definition fileno_tag : Z := %d." % fileno,
             "(* phases of sexp_gc in source order: 1 mark from the context, 2 sexp_mark_weak_extras, 3 weak reset, 4 finalise, 5 sweep *)",
             "Definition gc_phases : list Z := [" + "; ".join(str(p) for p in phases) + "]."]
    return "\n".join(lines) + "\n"


def regen(ctx, d=None):
    if d is None:
        d = ctx.build("default")
    v = probe(d)
    ctx.gen("C16_Layout", coq_text(v))
    return v


if __name__ == "__main__":
    import sys
    v = probe(sys.argv[1])
    print(coq_text(v))
