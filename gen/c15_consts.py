"""C15 (G): constants and source shapes the C15 models mirror, regenerated from the scratch build.

A C probe compiled against `<build>/include` prints the type tags, the immediate encodings, the
layout numbers the models of sexp_equalp_bound / hash_one depend on, and the default bounds; the
#defines of lib/srfi/69/hash.c (FNV constants, HASH_DEPTH), the resize rule, the initial bucket count
of interface.scm and the bounds used by lib/chibi/equiv.scm are read from the source text.  The
statements of hash.c / sexp.c that the hand-written models mirror line by line are checked for
their exact shape (whitespace-insensitive); a changed shape is returned in `shape_errors` (the
plugin reports it as `broken` unless a failing input is found) — fail closed."""
import os, re, subprocess

PROBE = r"""
#include <stdio.h>
#include <stddef.h>
#include <chibi/eval.h>
#define P(name, v) printf("%s %ld\n", name, (long)(v))
int main (void) {
  P("TAG_PAIR", SEXP_PAIR); P("TAG_SYMBOL", SEXP_SYMBOL); P("TAG_BYTES", SEXP_BYTES); P("TAG_STRING", SEXP_STRING);
  P("TAG_VECTOR", SEXP_VECTOR); P("TAG_FLONUM", SEXP_FLONUM); P("TAG_BIGNUM", SEXP_BIGNUM);
  P("FIXNUM_BITS", SEXP_FIXNUM_BITS); P("FIXNUM_TAG", SEXP_FIXNUM_TAG);
  P("EXTENDED_BITS", SEXP_EXTENDED_BITS); P("CHAR_TAG", SEXP_CHAR_TAG);
  P("IMM_FALSE", (long)SEXP_FALSE); P("IMM_TRUE", (long)SEXP_TRUE); P("IMM_NULL", (long)SEXP_NULL);
  P("IMM_EOF", (long)SEXP_EOF); P("IMM_VOID", (long)SEXP_VOID);
  P("MAX_FIXNUM", SEXP_MAX_FIXNUM);
  P("EQUAL_DEPTH", SEXP_DEFAULT_EQUAL_DEPTH); P("EQUAL_BOUND", SEXP_DEFAULT_EQUAL_BOUND);
  P("WORD_BYTES", sizeof(sexp_uint_t));
  /* bytes of a Byte-Vector / Symbol object after the `value' offset that are not data: length word and NUL */
  P("BYTES_HDR", sexp_sizeof(bytes) - offsetof(struct sexp_struct, value));
  P("BYTES_DATA_OFF", (char*)sexp_bytes_data((sexp)0) - (char*)0 - sexp_sizeof(bytes));
  P("BIGNUM_DATA_OFF", (char*)sexp_bignum_data((sexp)0) - (char*)0 - sexp_sizeof(bignum));
  P("VECTOR_LEFT", sexp_sizeof(vector) - offsetof(struct sexp_struct, value));
  P("PAIR_SLOTS", 3);
  P("PAIR_RIGHT", sexp_sizeof(pair) - offsetof(struct sexp_struct, value) - 3*sizeof(sexp));
  P("USE_BIGNUMS", SEXP_USE_BIGNUMS); P("USE_FLONUMS", SEXP_USE_FLONUMS); P("IMMEDIATE_FLONUMS", SEXP_USE_IMMEDIATE_FLONUMS);
  P("PACKED_STRINGS", SEXP_USE_PACKED_STRINGS); P("CHAR_SIGNED", ((char)-1) < 0);
  P("BIGNUM_SIGN_SIZE", sizeof(((sexp)0)->value.bignum.sign));
  return 0;
}
"""

# statements the models mirror (comments and whitespace removed before matching)
SHAPES_HASH = {
    "resize rule (hash.c)": "#definesexp_hash_resize_check(n,len)(((n)*3)>((len)>>2))",
    "hash_one: flonum (hash.c)": "if(sexp_flonump(obj))acc^=(sexp_sint_t)sexp_flonum_value(obj);",
    "hash_one: depth test (hash.c)": "if(sexp_pointerp(obj)){if(depth>0){",
    "hash_one: raw bytes of bytes/uvector/bignum (hash.c)":
        "if(sexp_bytesp(obj)||sexp_uvectorp(obj)||sexp_bignump(obj)){p_right=((char*)p+sexp_type_num_slots_of_object(t,obj)*sizeof(sexp));"
        "right_size=((char*)obj+sexp_type_size_of_object(t,obj))-p_right;",
    "hash_one: bignum = sign + significant digits (hash.c, fix F-C15-1)":
        "if(sexp_bignump(obj)){acc*=FNV_PRIME;acc^=sexp_bignum_sign(obj);p_right=(char*)sexp_bignum_data(obj);"
        "right_size=sexp_bignum_hi(obj)*sizeof(sexp_uint_t);}",
    "hash_one: byte loop (hash.c)": "for(i=0;i<right_size;i++){acc*=FNV_PRIME;acc^=p_right[i];}}",
    "hash_one: string = own bytes (hash.c, fix F-C15-2)":
        "if(sexp_stringp(obj)){p_right=sexp_string_data(obj);right_size=sexp_string_size(obj);"
        "for(i=0;i<right_size;i++){acc*=FNV_PRIME;acc^=p_right[i];}len=0;}",
    "hash_one: slots (hash.c)":
        "if(len>0){depth--;for(i=0;i<len-1;i++){acc*=FNV_PRIME;acc^=hash_one(ctx,p[i],0,depth);}obj=p[len-1];gotoloop;}",
    "hash_one: depth exhausted / immediates / result (hash.c)":
        "}else{acc^=sexp_pointer_tag(obj);}}else{acc^=(sexp_uint_t)obj;}}return(bound?acc%bound:acc);",
    "sexp_hash (hash.c)": "returnsexp_make_fixnum(hash_one(ctx,obj,sexp_unbox_fixnum(bound),HASH_DEPTH));",
    "hash-by-identity (hash.c)": "returnsexp_make_fixnum((sexp_uint_t)obj%sexp_unbox_fixnum(bound));",
    "string_hash (hash.c)": "sexp_uint_tacc=FNV_OFFSET_BASIS;while(len--){acc*=FNV_PRIME;acc^=*str++;}returnacc%bound;",
    "get_bucket: clamp of a user hash (hash.c)": "}elseif((sexp_uint_t)sexp_unbox_fixnum(res)>=len){res=SEXP_ZERO;}",
    "scan_bucket: equal? chain walk (hash.c)":
        "for(p=ls;sexp_pairp(p);p=sexp_cdr(p)){if(sexp_truep(sexp_equalp(ctx,sexp_caar(p),obj))){res=p;break;}}",
    "scan_bucket: eq? chain walk (hash.c)": "for(p=ls;sexp_pairp(p);p=sexp_cdr(p)){if(sexp_caar(p)==obj){res=p;break;}}",
    "regrow (hash.c)":
        "oldsize=sexp_vector_length(oldbuckets),newsize=oldsize*2;",
    # two accepted loops (round 4): consing (Table.regrow) or moving the existing spine pairs (Chain.regrow_relink, proved
    # to compute Table.regrow: Properties_C15.regrow_relink_refines_regrow); which one is recorded in REGROW_RELINKS
    "regrow loops (hash.c)": (
        "for(i=0;i<oldsize;i++){for(ls=oldvec[i];sexp_pairp(ls);ls=sexp_cdr(ls)){"
        "j=sexp_unbox_fixnum(sexp_get_bucket(ctx,newbuckets,hash_fn,sexp_caar(ls)));sexp_push(ctx,newvec[j],sexp_car(ls));}}"
        "sexp_hash_table_buckets(ht)=newbuckets;",
        "for(i=0;i<oldsize;i++){for(ls=oldvec[i];sexp_pairp(ls);ls=next){next=sexp_cdr(ls);"
        "j=sexp_unbox_fixnum(sexp_get_bucket(ctx,newbuckets,hash_fn,sexp_caar(ls)));sexp_cdr(ls)=newvec[j];newvec[j]=ls;}}"
        "sexp_hash_table_buckets(ht)=newbuckets;"),
    "cell: lookup (hash.c)":
        "i=sexp_get_bucket(ctx,buckets,hash_fn,obj);res=sexp_scan_bucket(ctx,sexp_vector_ref(buckets,i),obj,eq_fn);"
        "if(sexp_truep(res)){res=sexp_car(res);}elseif(sexp_truep(createp)){",
    "cell: create (hash.c)":
        "size=sexp_unbox_fixnum(sexp_hash_table_size(ht));if(sexp_hash_resize_check(size,sexp_vector_length(buckets))){"
        "sexp_regrow_hash_table(ctx,ht,buckets,hash_fn);buckets=sexp_hash_table_buckets(ht);i=sexp_get_bucket(ctx,buckets,hash_fn,obj);}"
        "res=sexp_cons(ctx,obj,createp);sexp_vector_set(buckets,i,sexp_cons(ctx,res,sexp_vector_ref(buckets,i)));"
        "sexp_hash_table_size(ht)=sexp_make_fixnum(size+1);",
    "delete (hash.c)":
        "if(sexp_pairp(res)){sexp_hash_table_size(ht)=sexp_fx_sub(sexp_hash_table_size(ht),SEXP_ONE);"
        "if(res==sexp_vector_ref(buckets,i)){sexp_vector_set(buckets,i,sexp_cdr(res));}else{"
        "for(p=sexp_vector_ref(buckets,i);sexp_cdr(p)!=res;p=sexp_cdr(p));sexp_cdr(p)=sexp_cdr(res);}}",
}
SHAPES_SEXP = {
    "equalp: identity / immediates / tags (sexp.c)":
        "loop:if(a==b)returnbound;elseif((!a||!sexp_pointerp(a))||(!b||!sexp_pointerp(b))||(sexp_pointer_tag(a)!=sexp_pointer_tag(b)))returnSEXP_FALSE;",
    "equalp: bignum (sexp.c)": "if(sexp_pointer_tag(a)==SEXP_BIGNUM)return!sexp_bignum_compare(a,b)?bound:SEXP_FALSE;",
    "equalp: flonum (sexp.c)": "if(sexp_pointer_tag(a)==SEXP_FLONUM)returnsexp_flonum_eqv(a,b)?bound:SEXP_FALSE;",
    "equalp: string = own bytes (sexp.c, fix F-C15-2)":
        "if(sexp_pointer_tag(a)==SEXP_STRING)return((sexp_string_size(a)==sexp_string_size(b))&&"
        "!memcmp(sexp_string_data(a),sexp_string_data(b),sexp_string_size(a)))?bound:SEXP_FALSE;",
    "equalp: limits (sexp.c)":
        "if(sexp_unbox_fixnum(bound)<0||sexp_unbox_fixnum(depth)<0)returnbound;depth2=sexp_fx_sub(depth,SEXP_ONE);bound=sexp_fx_sub(bound,SEXP_ONE);",
    "equalp: left bytes (sexp.c)": "left_size=(char*)p-p_left;if((left_size>0)&&memcmp(p_left,q_left,left_size))returnSEXP_FALSE;",
    "equalp: right bytes (sexp.c)":
        "if(right_size>0){q_right=((char*)q+sexp_type_num_slots_of_object(t,b)*sizeof(sexp));"
        "if(right_size!=((char*)b+sexp_type_size_of_object(t,b))-q_right)returnSEXP_FALSE;if(memcmp(p_right,q_right,right_size))returnSEXP_FALSE;}",
    "equalp: slots (sexp.c)":
        "len=sexp_type_num_eq_slots_of_object(t,a);if(len>0){for(;len>1;len--){a=p[len-1];b=q[len-1];if(a!=b){"
        "if((!a||!sexp_pointerp(a))||(!b||!sexp_pointerp(b))||(sexp_pointer_tag(a)!=sexp_pointer_tag(b)))returnSEXP_FALSE;elsebreak;}}"
        "for(i=0;i<len-1;i++){bound=sexp_equalp_bound(ctx,self,n,p[i],q[i],depth2,bound);if(sexp_not(bound))returnSEXP_FALSE;}"
        "a=p[len-1];b=q[len-1];gotoloop;}returnbound;}",
    "type specs: Pair Symbol Byte-Vector (sexp.c)":
        '{(sexp)"Pair",SEXP_FALSE,SEXP_FALSE,SEXP_FALSE,SEXP_FALSE,SEXP_FALSE,NULL,NULL,NULL,SEXP_PAIR,sexp_offsetof(pair,car),2,3,0,0,sexp_sizeof(pair),0,0,0,0,0,0,0,0,NULL},'
        '{(sexp)"Symbol",SEXP_FALSE,SEXP_FALSE,SEXP_FALSE,SEXP_FALSE,SEXP_FALSE,NULL,NULL,NULL,SEXP_SYMBOL,0,0,0,0,0,sexp_sizeof(symbol)+1,sexp_offsetof(symbol,length),1,0,0,0,0,0,0,NULL},'
        '{(sexp)"Byte-Vector",SEXP_FALSE,SEXP_FALSE,SEXP_FALSE,SEXP_FALSE,SEXP_FALSE,NULL,NULL,NULL,SEXP_BYTES,0,0,0,0,0,sexp_sizeof(bytes)+1,sexp_offsetof(bytes,length),1,0,0,0,0,0,0,NULL},',
    "type specs: Vector Flonum Bignum (sexp.c)":
        '{(sexp)"Vector",SEXP_FALSE,SEXP_FALSE,SEXP_FALSE,SEXP_FALSE,SEXP_FALSE,NULL,NULL,NULL,SEXP_VECTOR,sexp_sizeof(vector),0,0,sexp_offsetof(vector,length),1,sexp_sizeof(vector),sexp_offsetof(vector,length),sizeof(sexp),0,0,0,0,0,0,NULL},'
        '{(sexp)"Flonum",SEXP_FALSE,SEXP_FALSE,SEXP_FALSE,SEXP_FALSE,SEXP_FALSE,NULL,NULL,NULL,SEXP_FLONUM,0,0,0,0,0,sexp_sizeof(flonum),0,0,0,0,0,0,0,0,NULL},'
        '{(sexp)"Bignum",SEXP_FALSE,SEXP_FALSE,SEXP_FALSE,SEXP_FALSE,SEXP_FALSE,NULL,NULL,NULL,SEXP_BIGNUM,0,0,0,0,0,sexp_sizeof(bignum),sexp_offsetof(bignum,length),sizeof(sexp_uint_t),0,0,0,0,0,0,NULL},',
    "equalp_op (sexp.c)":
        "sexp_truep(sexp_equalp_bound(ctx,self,n,a,b,sexp_make_fixnum(SEXP_DEFAULT_EQUAL_DEPTH),sexp_make_fixnum(SEXP_DEFAULT_EQUAL_BOUND))));",
}
SHAPES_BIGNUM = {
    "bignum_hi (bignum.c)": "sexp_uint_ti=sexp_bignum_length(a)-1;while((i>0)&&!sexp_bignum_data(a)[i])i--;returni+1;",
    "bignum_compare_abs (bignum.c)":
        "intai=sexp_bignum_hi(a),bi=sexp_bignum_hi(b);sexp_uint_t*adata=sexp_bignum_data(a),*bdata=sexp_bignum_data(b);"
        "if(ai!=bi)returnai-bi;for(--ai;ai>=0;ai--){if(adata[ai]>bdata[ai])return1;elseif(adata[ai]<bdata[ai])return-1;}return0;",
    "bignum_compare (bignum.c)":
        "if(sexp_bignum_sign(a)!=sexp_bignum_sign(b))returnsexp_bignum_sign(a);sexp_sint_tcmp=sexp_bignum_compare_abs(a,b);"
        "returnsexp_bignum_sign(a)<0?-cmp:cmp;",
}
SHAPES_SCM = {
    "make-hash-table: 23 buckets, size 0 (interface.scm)": "(%make-hash-table(make-vector23'())0",
    "hash-table-set! (interface.scm)": "(let((cell(hash-table-celltablekey#t)))(set-cdr!cellvalue))",
    "hash-table-fold order (interface.scm)":
        "(let((vec(hash-table-bucketstable)))(letlp1((i(-(vector-lengthvec)1))(accknil))(if(<i0)acc(letlp2((ls(vector-refveci))(accacc))"
        "(if(null?ls)(lp1(-i1)acc)(lp2(cdrls)(kons(car(carls))(cdr(carls))acc))))))))",
    "hash-table-copy = merge! into a fresh table (interface.scm)":
        "(let((res(make-hash-table(hash-table-equivalence-functiontable)(hash-table-hash-functiontable))))(hash-table-merge!restable)res)",
    # tupdate of Table.v (round 4): the pinned form (cell created first: F-C15-5) or the repaired one
    "hash-table-update!/default (interface.scm)": (
        '(lambda(tablekeyfuncdefault)(assert-hash-table"hash-table-update!/default"table)(let((cell(hash-table-celltablekeynot-found)))'
        '(set-cdr!cell(func(if(eq?not-found(cdrcell))default(cdrcell))))))',
        '(define(hash-table-update!/defaulttablekeyfuncdefault)(assert-hash-table"hash-table-update!/default"table)'
        '(let((cell(hash-table-celltablekey#f)))(ifcell(set-cdr!cell(func(cdrcell)))(hash-table-set!tablekey(funcdefault)))))'),
    "hash-table-merge! (interface.scm)":
        "(hash-table-walkb(lambda(kv)(if(not(hash-table-exists?ak))(hash-table-set!akv))))",
}
SHAPES_EQUIV = {
    "equiv?: bounded first (equiv.scm)": "(let((res(equal?/boundedab1000010000)))(andres(or(>res0)(equiv?ab))#t))",
}


def _squeeze_c(src):
    return re.sub(r"\s+", "", re.sub(r"/\*.*?\*/", "", src, flags=re.S))


def _squeeze_scm(src):
    return re.sub(r"\s+", "", re.sub(r";[^\n]*", "", src))


def probe(d):
    """returns (vals: dict name->int, shape_errors: list of str); raises RuntimeError if nothing can be produced"""
    errs = []
    relinks = 0
    hsrc = open(os.path.join(d, "lib/srfi/69/hash.c")).read()
    for fn, shapes, sq in (("lib/srfi/69/hash.c", SHAPES_HASH, _squeeze_c), ("sexp.c", SHAPES_SEXP, _squeeze_c),
                           ("bignum.c", SHAPES_BIGNUM, _squeeze_c),
                           ("lib/srfi/69/interface.scm", SHAPES_SCM, _squeeze_scm), ("lib/chibi/equiv.scm", SHAPES_EQUIV, _squeeze_scm)):
        text = sq(open(os.path.join(d, fn)).read())
        for what, shape in shapes.items():
            alts = shape if isinstance(shape, tuple) else (shape,)
            hit = [i for i, sh in enumerate(alts) if sh in text]
            if not hit:
                errs.append("source shape changed, the model no longer mirrors it: %s" % what)
            elif what == "regrow loops (hash.c)":
                relinks = hit[0]
    vals = {}
    vals["REGROW_RELINKS"] = relinks
    # F-C15-5: hash-table-update!(/default) created the cell BEFORE running the procedure / thunk (a raise left a phantom entry)
    vals["UPDATE_FIXED"] = 0 if "(hash-table-celltablekeynot-found)" in _squeeze_scm(open(os.path.join(d, "lib/srfi/69/interface.scm")).read()) else 1
    for name in ("FNV_PRIME", "FNV_OFFSET_BASIS", "HASH_DEPTH"):
        m = re.search(r"^#define\s+%s\s+(\d+)(?:uL|UL|u|L)?\s*$" % name, hsrc, re.M)
        if not m:
            raise RuntimeError("gen/c15_consts: hash.c no longer #defines %s as a plain number" % name)
        vals[name] = int(m.group(1))
    c = os.path.join(d, "verif_c15_probe.c")
    exe = os.path.join(d, "verif_c15_probe")
    open(c, "w").write(PROBE)
    r = subprocess.run(["cc", "-I" + os.path.join(d, "include"), "-o", exe, c], capture_output=True, text=True)
    if r.returncode != 0:
        raise RuntimeError("gen/c15_consts: probe does not compile: " + r.stderr[-1500:])
    out = subprocess.run([exe], capture_output=True, text=True, timeout=30).stdout
    for line in out.split("\n"):
        if line.strip():
            k, v = line.split()
            vals[k] = int(v)
    vals["INIT_BUCKETS"] = 23
    vals["RESIZE_MUL"] = 3
    vals["RESIZE_SHIFT"] = 2
    vals["EQUIV_BOUND"] = 10000
    # configuration the models assume
    need = dict(USE_BIGNUMS=1, USE_FLONUMS=1, IMMEDIATE_FLONUMS=0, PACKED_STRINGS=0, CHAR_SIGNED=1, WORD_BYTES=8,
                BYTES_HDR=8, BYTES_DATA_OFF=0, BIGNUM_DATA_OFF=0, VECTOR_LEFT=8, PAIR_RIGHT=0, BIGNUM_SIGN_SIZE=1)
    for k, v in need.items():
        if vals.get(k) != v:
            errs.append("configuration/layout outside the model: %s = %s (model assumes %s)" % (k, vals.get(k), v))
    return vals, errs


def coq_text(vals):
    names = ["TAG_PAIR", "TAG_SYMBOL", "TAG_BYTES", "TAG_STRING", "TAG_VECTOR", "TAG_FLONUM", "TAG_BIGNUM",
             "FNV_PRIME", "FNV_OFFSET_BASIS", "HASH_DEPTH", "INIT_BUCKETS", "RESIZE_MUL", "RESIZE_SHIFT",
             "EQUAL_DEPTH", "EQUAL_BOUND", "EQUIV_BOUND", "FIXNUM_BITS", "FIXNUM_TAG", "MAX_FIXNUM", "REGROW_RELINKS"]
    lines = ["(** GENERATED by gen/c15_consts.py from the scratch build of $VERIF_REPO — do not edit. *)",
             "From Coq Require Import ZArith.", "Local Open Scope Z_scope."]
    for n in names:
        lines.append("Definition %s : Z := %d." % (n, vals[n]))
    return "\n".join(lines) + "\n"


def regen(ctx, d):
    vals, errs = probe(d)
    ctx.gen("C15_Consts", coq_text(vals))
    return vals, errs
