"""C18 coverage probe: instruments the Scheme sources of the container libraries (a COPY under the scratch
directory, found first through CHIBI_MODULE_PATH) with one counter per clause of every cond / case / tree-match /
when / unless and per branch of every if inside top-level procedure definitions, so that the check can MEASURE which
case splits of the red-black tree, HAMT, bit-trie, skew-binary list and deque code its histories reach.
Nothing here decides pass/fail; the numbers go to the evidence (ctx.cov / ctx.note)."""
import os, re, shutil

TOK = re.compile(r"""\s+|;[^\n]*|\#\|.*?\|\#|(?P<t>\#\\(?:[A-Za-z]+|.)|,@|[()'`,]|"(?:\\.|[^\\"])*"|\#;|\#\(|[^\s()'`,";]+)""", re.S)


class Node:
    __slots__ = ("start", "end", "kids", "text", "quoted")

    def __init__(self, start, end, kids=None, text=None):
        self.start, self.end, self.kids, self.text, self.quoted = start, end, kids, text, False

    def head(self):
        return self.kids[0].text if self.kids and self.kids[0].kids is None else None


def read_all(src):
    """top-level data with source offsets (lists: kids != None)"""
    pos, n = 0, len(src)
    stack, top = [], []
    pending_quote = [False]

    def add(node):
        if pending_quote[0]:
            node.quoted = True
            pending_quote[0] = False
        (stack[-1].kids if stack else top).append(node)

    while pos < n:
        m = TOK.match(src, pos)
        if not m:
            raise ValueError("cannot tokenise at %d: %r" % (pos, src[pos:pos + 30]))
        t = m.group("t")
        if t is not None:
            if t in ("(", "#("):
                nd = Node(m.start(), None, [])
                if pending_quote[0] or t == "#(":
                    nd.quoted = True
                    pending_quote[0] = False
                stack.append(nd)
            elif t == ")":
                nd = stack.pop()
                nd.end = m.end()
                (stack[-1].kids if stack else top).append(nd)
            elif t in ("'", "`", "#;"):
                pending_quote[0] = True
            elif t in (",", ",@"):
                pass
            else:
                add(Node(m.start(), m.end(), None, t))
        pos = m.end()
    if stack:
        raise ValueError("unbalanced parentheses")
    return top


def instrument(src, fname, probes):
    """returns the instrumented text; appends (file, function, form, clause, line) to probes per counter"""
    ins = []                                  # (offset, text)

    def line_of(off):
        return src.count("\n", 0, off) + 1

    def probe(fn, form, k, off):
        probes.append((fname, fn, form, k, line_of(off)))
        return "(verif-cov! %d)" % (len(probes) - 1)

    def walk(nd, fn):
        if nd.kids is None or nd.quoted or not nd.kids:
            return
        h = nd.head()
        if h in ("define-syntax", "let-syntax", "letrec-syntax", "syntax-rules", "quote", "quasiquote", "define-record-type"):
            return
        kids = nd.kids
        if h in ("cond",):
            for k, cl in enumerate(kids[1:]):
                if cl.kids and len(cl.kids) >= 2 and not (cl.kids[1].kids is None and cl.kids[1].text == "=>"):
                    ins.append((cl.kids[0].end, " " + probe(fn, h, k, cl.start)))
        elif h in ("case", "tree-match") and len(kids) >= 3:
            for k, cl in enumerate(kids[2:]):
                if cl.kids and len(cl.kids) >= 2 and not (cl.kids[1].kids is None and cl.kids[1].text == "=>"):
                    ins.append((cl.kids[0].end, " " + probe(fn, h, k, cl.start)))
        elif h in ("when", "unless") and len(kids) >= 3:
            ins.append((kids[1].end, " " + probe(fn, h, 0, nd.start)))
        elif h == "if" and len(kids) in (3, 4):
            for k, br in enumerate(kids[2:]):
                ins.append((br.start, "(begin " + probe(fn, "if", k, br.start) + " "))
                ins.append((br.end, ")"))
        for k, c in enumerate(kids):
            if h in ("case", "tree-match") and k >= 2 and c.kids:
                for cc in c.kids[1:]:           # not the datum list / pattern
                    walk(cc, fn)
            else:
                walk(c, fn)

    for top in read_all(src):
        if top.head() == "define" and len(top.kids) >= 3:
            target = top.kids[1]
            name = target.kids[0].text if target.kids else target.text
            for c in top.kids[2:]:
                walk(c, name or "?")
    out, last = [], 0
    # stable order: at equal offsets closers ")" go before openers
    for off, text in sorted(ins, key=lambda p: (p[0], 0 if p[1] == ")" else 1)):
        out.append(src[last:off]); out.append(text); last = off
    out.append(src[last:])
    return "".join(out)


# library files (relative to lib/) to instrument, and the .sld files that include them
FILES = {
    "chibi/iset/base.scm": "chibi/iset/base.sld", "chibi/iset/constructors.scm": "chibi/iset/constructors.sld",
    "chibi/iset/iterators.scm": "chibi/iset/iterators.sld",
    "srfi/146/rbtree.scm": "srfi/146.sld", "srfi/146/mapping.scm": "srfi/146.sld",
    "srfi/146/hamt.scm": "srfi/146/hamt.sld", "srfi/146/hamt-map.scm": "srfi/146/hamt-map.sld",
    "srfi/146/vector-edit.scm": "srfi/146/vector-edit.sld", "srfi/146/hash.scm": "srfi/146/hash.sld",
    "srfi/101.scm": "srfi/101.sld", "srfi/134.scm": "srfi/134.sld", "srfi/117/queue.scm": "srfi/117.sld",
}
COPY = ["chibi/iset", "chibi/iset.sld", "srfi/146", "srfi/146.sld", "srfi/101.scm", "srfi/101.sld", "srfi/134.scm", "srfi/134.sld",
        "srfi/117", "srfi/117.sld"]


def build(libdir, covdir):
    """copy + instrument into covdir; returns the probe table"""
    if os.path.exists(covdir):
        shutil.rmtree(covdir)
    for rel in COPY:
        src, dst = os.path.join(libdir, rel), os.path.join(covdir, rel)
        os.makedirs(os.path.dirname(dst), exist_ok=True)
        if os.path.isdir(src):
            shutil.copytree(src, dst)
        elif os.path.exists(src):
            shutil.copy(src, dst)
    probes = []
    slds = set()
    for rel, sld in FILES.items():
        p = os.path.join(covdir, rel)
        if not os.path.exists(p):
            continue
        text = open(p).read()
        open(p, "w").write(instrument(text, rel, probes))
        slds.add(sld)
    for sld in slds:
        p = os.path.join(covdir, sld)
        text = open(p).read()
        m = re.search(r"\(define-library\s+\([^)]*\)", text)
        text = text[:m.end()] + "\n  (import (only (verif cov) verif-cov!))" + text[m.end():]
        open(p, "w").write(text)
    os.makedirs(os.path.join(covdir, "verif"), exist_ok=True)
    open(os.path.join(covdir, "verif", "cov.sld"), "w").write(
        "(define-library (verif cov)\n  (import (chibi))\n  (export verif-cov! verif-cov-hits)\n  (begin\n"
        "    (define hits (make-vector %d 0))\n"
        "    (define (verif-cov! i) (vector-set! hits i (+ 1 (vector-ref hits i))) #t)\n"
        "    (define (verif-cov-hits) hits)))\n" % max(1, len(probes)))
    return probes


DUMP = """
(import (only (verif cov) verif-cov-hits))
(define (cov-dump)
  (let ((h (verif-cov-hits)))
    (let lp ((i (- (vector-length h) 1)) (acc '()))
      (if (< i 0) acc (lp (- i 1) (if (> (vector-ref h i) 0) (cons i acc) acc))))))
"""
