"""C18 (G): regenerate from the Scheme sources the arithmetic / balancing leaves the SRFI 101 and SRFI 134 theorems stand on:
  lib/srfi/101.scm   half, skew-succ, largest-skew-binary   (make-list's greedy skew-binary decomposition)
  lib/srfi/134.scm   C, check                                 (the balancing constructor of the banker's deque)
as Gallina over nat / list / the record of coq/C18/Deque.v.  Emitted on every run as coq/Gen/C18_SeqLeaves.v;
coq/C18/SeqTie.v proves every generated function equal to the hand-written model function the theorems of RaListProofs.v /
DequeProofs.v are about, so an edit of one of these definitions re-opens the proofs (Properties_C18 no longer builds).

Subset (anything else raises Unsupported => ctx.broken; fail closed):
  (define NAME integer)      (define (NAME p ...) expr)       exactly one body expression
  integer literals, parameters, let*-variables, earlier generated constants
  (if c a b)   (cond (c e) ... (else e))   (let* ((v e) ...) body)
  (= > >= < <=  a b)   (+ - *  a b)   (quotient a b)   (add1 e)   (sub1 e)   (bitwise-arithmetic-shift e <literal>)
  (take l i)  (drop l i)  (append a b)  (reverse a)   (%make-dq a b c d)   calls of earlier generated functions
  a call of the function being defined only as the initialiser of a let* variable (becomes a fuel-bounded Fixpoint over option)
Numbers are naturals (subtraction is truncated: the code only subtracts within range); ill-typed text fails in Coq."""
import os
from gen.c18_cov import read_all


class Unsupported(Exception):
    pass


PLAN = [   # (file, scheme name, gallina name, parameters with types or None for a constant, result type)
    ("srfi/101.scm", "half", "gen_half", [("n", "nat")], "nat"),
    ("srfi/101.scm", "skew-succ", "gen_skew_succ", [("t", "nat")], "nat"),
    ("srfi/101.scm", "largest-skew-binary", "gen_largest_skew_binary", [("n", "nat")], "nat"),
    ("srfi/134.scm", "C", "gen_C", None, "nat"),
    ("srfi/134.scm", "check", "gen_check", [("lenf", "nat"), ("f", "list A"), ("lenr", "nat"), ("r", "list A")], "dq A"),
]
CMP = {"=": "=?", "<": "<?", "<=": "<=?", ">": "<?", ">=": "<=?"}        # (> a b) is written b <? a
KEYWORDS = {"end", "at", "as", "in", "then", "else", "with", "match", "fun", "return", "let", "if", "fix", "forall", "exists", "Type", "Set", "Prop"}


def ident(name):
    n = name.replace(".", "_dot").replace("-", "_").replace("?", "_p").replace("!", "_x").replace("%", "pct_")
    if not n.replace("_", "a").isalnum() or n[0].isdigit():
        raise Unsupported("identifier %s" % name)
    return n + "_" if n in KEYWORDS else n


class Tr:
    def __init__(self, known, selfname=None):
        self.known, self.selfname, self.recursive, self.known_self = known, selfname, False, None

    def pure(self, nd, env):
        if nd.kids is None:
            t = nd.text
            if t.isdigit():
                return t
            if t in env:
                return env[t]
            if t in self.known and self.known[t][1] == 0:
                return self.known[t][0]
            raise Unsupported("unknown identifier %s" % t)
        if nd.quoted or not nd.kids or nd.kids[0].kids is not None:
            raise Unsupported("form at offset %d" % nd.start)
        h, args = nd.kids[0].text, nd.kids[1:]
        a = lambda i: self.pure(args[i], env)
        if h == "if" and len(args) == 3:
            return "(if %s then %s else %s)" % (a(0), a(1), a(2))
        if h == "cond" and args:
            return self.cond(args, env, self.pure)
        if h == "let*" and len(args) == 2:
            return self.letstar(args, env, self.pure)
        if h in CMP and len(args) == 2:
            x, y = a(0), a(1)
            if h in (">", ">="):
                x, y = y, x
            return "(%s %s %s)" % (x, CMP[h], y)
        if h in ("+", "-", "*") and len(args) == 2:
            return "(%s %s %s)" % (a(0), h, a(1))
        if h == "quotient" and len(args) == 2:
            return "(%s / %s)" % (a(0), a(1))
        if h == "add1" and len(args) == 1:
            return "(S %s)" % a(0)
        if h == "sub1" and len(args) == 1:
            return "(%s - 1)" % a(0)
        if h == "bitwise-arithmetic-shift" and len(args) == 2 and args[1].kids is None and args[1].text.lstrip("-").isdigit():
            k = int(args[1].text)
            return "(Nat.shiftl %s %d)" % (a(0), k) if k >= 0 else "(Nat.shiftr %s %d)" % (a(0), -k)
        if h == "take" and len(args) == 2:
            return "(firstn %s %s)" % (a(1), a(0))
        if h == "drop" and len(args) == 2:
            return "(skipn %s %s)" % (a(1), a(0))
        if h == "append" and len(args) == 2:
            return "(%s ++ %s)" % (a(0), a(1))
        if h == "reverse" and len(args) == 1:
            return "(rev %s)" % a(0)
        if h == "%make-dq" and len(args) == 4:
            return "(Dq %s %s %s %s)" % (a(0), a(1), a(2), a(3))
        if h == self.selfname:
            raise Unsupported("recursive call of %s outside a let* initialiser" % h)
        if h in self.known and self.known[h][1] == len(args) and len(args) > 0:
            return "(%s %s)" % (self.known[h][0], " ".join(a(i) for i in range(len(args))))
        raise Unsupported("(%s ...) with %d arguments" % (h, len(args)))

    def cond(self, clauses, env, k):
        if not clauses:
            raise Unsupported("cond without else")
        c = clauses[0]
        if c.kids is None or len(c.kids) != 2:
            raise Unsupported("cond clause at offset %d" % c.start)
        if c.kids[0].kids is None and c.kids[0].text == "else":
            if len(clauses) != 1:
                raise Unsupported("else is not the last cond clause")
            return k(c.kids[1], env)
        return "(if %s then %s else %s)" % (self.pure(c.kids[0], env), k(c.kids[1], env), self.cond(clauses[1:], env, k))

    def letstar(self, args, env, k, opt=False):
        binds, body = args
        if binds.kids is None:
            raise Unsupported("let* bindings")
        env = dict(env)
        pre, post = [], []
        for b in binds.kids:
            if b.kids is None or len(b.kids) != 2 or b.kids[0].kids is not None:
                raise Unsupported("let* binding at offset %d" % b.start)
            v, init = ident(b.kids[0].text), b.kids[1]
            if opt and init.kids and init.kids[0].kids is None and init.kids[0].text == self.selfname:
                self.recursive = True
                call = " ".join(self.pure(x, env) for x in init.kids[1:])
                pre.append("match %s fuel' %s with Some %s => " % (self.known_self, call, v)); post.append(" | None => None end")
            else:
                pre.append("let %s := %s in " % (v, self.pure(init, env)))
            env[b.kids[0].text] = v
        return "(" + "".join(pre) + k(body, env) + "".join(reversed(post)) + ")"

    def opt(self, nd, env):
        """an expression of type option: recursion only through let* initialisers"""
        if nd.kids and not nd.quoted and nd.kids[0].kids is None:
            h, args = nd.kids[0].text, nd.kids[1:]
            if h == "if" and len(args) == 3:
                return "(if %s then %s else %s)" % (self.pure(args[0], env), self.opt(args[1], env), self.opt(args[2], env))
            if h == "cond" and args:
                return self.cond(args, env, self.opt)
            if h == "let*" and len(args) == 2:
                return self.letstar(args, env, self.opt, opt=True)
        return "(Some %s)" % self.pure(nd, env)


def mentions(nd, name):
    if nd.kids is None:
        return nd.text == name
    return any(mentions(k, name) for k in nd.kids)


def translate(sources):
    """sources: {relative file: text}"""
    out = ["(* GENERATED by gen/c18_ralist.py from lib/srfi/101.scm and lib/srfi/134.scm - do not edit *)",
           "From Coq Require Import List Arith Bool.", "From ChibiV Require Import C18.Deque.", "Import ListNotations.", ""]
    known = {}
    tops = {f: read_all(t) for f, t in sources.items()}
    for (f, sname, gname, params, rty) in PLAN:
        found = []
        for top in tops[f]:
            if top.kids and top.head() == "define" and len(top.kids) >= 3:
                tgt = top.kids[1]
                name = (tgt.kids[0].text if tgt.kids and tgt.kids[0].kids is None else None) if tgt.kids is not None else tgt.text
                if name == sname:
                    found.append(top)
        if len(found) != 1:
            raise Unsupported("%d definitions of %s in %s" % (len(found), sname, f))
        top = found[0]
        if len(top.kids) != 3:
            raise Unsupported("%s has more than one body expression" % sname)
        tgt, body = top.kids[1], top.kids[2]
        if params is None:
            if tgt.kids is not None:
                raise Unsupported("%s is no longer a constant" % sname)
            out.append("Definition %s : %s := %s." % (gname, rty, Tr(known).pure(body, {})))
            known[sname] = (gname, 0)
            continue
        if tgt.kids is None or any(k.kids is not None for k in tgt.kids) or [k.text for k in tgt.kids[1:]] != [p for p, _t in params]:
            raise Unsupported("parameter list of %s" % sname)
        env = {p: ident(p) for p, _t in params}
        ptxt = " ".join("(%s : %s)" % (ident(p), t) for p, t in params)
        poly = "{A} " if any("A" in t.split() for _p, t in params) else ""
        if mentions(body, sname):
            tr = Tr(known, sname)
            tr.known_self = gname
            b = tr.opt(body, env)
            out.append("Fixpoint %s (fuel : nat) %s%s : option %s :=\n  match fuel with\n  | O => None\n  | S fuel' => %s\n  end." % (gname, poly, ptxt, rty, b))
        else:
            out.append("Definition %s %s%s : %s :=\n  %s." % (gname, poly, ptxt, rty, Tr(known).pure(body, env)))
        known[sname] = (gname, len(params))
    return "\n".join(out) + "\n"


def regen(ctx, repo=None):
    from vlib import build as B
    lib = os.path.join(repo or B.REPO, "lib")
    try:
        text = translate({f: open(os.path.join(lib, f)).read() for f in sorted({p[0] for p in PLAN})})
    except (Unsupported, ValueError, OSError) as e:
        ctx.broken("gen:C18_SeqLeaves", "lib/srfi/101.scm / 134.scm left the translator's subset: %s" % e)
        return False
    ctx.gen("C18_SeqLeaves", text)
    return True


if __name__ == "__main__":
    import sys
    lib = sys.argv[1]
    print(translate({f: open(os.path.join(lib, f)).read() for f in sorted({p[0] for p in PLAN})}))
