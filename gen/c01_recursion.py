"""C01 translator (G), round 2: the depth-bound discipline of chibi's C recursions -> coq/Gen/C01_Recursion.v

From the clang AST (-ast-dump=json, filtered to the functions of interest, the build's own -D/-I flags) of the
scratch tree:
  * sexp.c  sexp_write_one      : every call of sexp_write_one / sexp_write (= sexp_write_op: restarts at bound 0) inside
                                  it, with the 4th argument (bound expression) resp. the printed object's expression
  * sexp.c  sexp_equalp_bound   : every self call with its depth argument
  * eval.c  sexp_strip_synclos_bound : every self call with its depth argument
  * eval.c  analyze family      : the call graph of the static functions named analyze*, each edge with the depth
                                  expression it passes
Fails closed: an argument text outside the recognised forms becomes `Unknown` / `Bad`, which the Coq obligations reject."""
import json, os, re, subprocess
from gen.c01_vmguards import _build_flags, Unsupported

ATOMIC = re.compile(r"^sexp_make_fixnum\(.*\)$")
NUMPART = re.compile(r"^sexp_(ratio_numerator|ratio_denominator|complex_real|complex_imag)\(obj\)$")
NAME = re.compile(r"^sexp_(type_name|opcode_name)\((obj|x)\)$")


def _ast(d, cfile, filt):
    r = subprocess.run(["clang", "-fsyntax-only", "-Xclang", "-ast-dump=json", "-Xclang", "-ast-dump-filter=" + filt]
                       + _build_flags(d) + [cfile], cwd=d, capture_output=True, text=True, timeout=300)
    if r.returncode != 0:
        raise Unsupported("clang AST dump of %s failed: %s" % (cfile, r.stderr[-400:]))
    s, dec, i, docs = r.stdout, json.JSONDecoder(), 0, []
    while i < len(s):
        if s[i] != "{":
            j = s.find("\n", i)
            i = len(s) if j < 0 else j + 1
            continue
        o, i = dec.raw_decode(s, i)
        docs.append(o)
    return [o for o in docs if o.get("kind") == "FunctionDecl" and any(c.get("kind") == "CompoundStmt" for c in o.get("inner", []))]


def _callee(n):
    if n.get("kind") == "DeclRefExpr":
        return n.get("referencedDecl", {}).get("name")
    for k in n.get("inner", []):
        r = _callee(k)
        if r:
            return r
    return None


def _calls(fn, names):
    out = []

    def walk(n):
        if n.get("kind") == "CallExpr" and n.get("inner"):
            nm = _callee(n["inner"][0])
            if nm in names:
                b = n["range"]["begin"]
                b = b.get("expansionLoc", b)
                out.append((nm, b["offset"]))
        for k in n.get("inner", []):
            walk(k)
    walk(fn)
    return out


def _lhs_name(n):
    while n.get("kind") in ("ParenExpr", "ImplicitCastExpr") and n.get("inner"):
        n = n["inner"][0]
    return n.get("referencedDecl", {}).get("name") if n.get("kind") == "DeclRefExpr" else None


def _assigns(fn, var):
    """number of places where the function modifies the variable (=, op=, ++, --)"""
    cnt = [0]

    def walk(n):
        k = n.get("kind")
        if k == "UnaryOperator" and n.get("opcode") in ("++", "--") and n.get("inner") and _lhs_name(n["inner"][0]) == var:
            cnt[0] += 1
        elif (k == "CompoundAssignOperator" or (k == "BinaryOperator" and n.get("opcode") == "=")) and n.get("inner") and _lhs_name(n["inner"][0]) == var:
            cnt[0] += 1
        elif k == "UnaryOperator" and n.get("opcode") == "&" and n.get("inner") and _lhs_name(n["inner"][0]) == var:
            cnt[0] += 1          # address taken: anything may happen
        for c in n.get("inner", []):
            walk(c)
    walk(fn)
    return cnt[0]


def _call_text(src, off, want=None):
    """identifier( ... ) starting at byte offset off; returns (name, [argument texts])"""
    m = re.compile(r"[A-Za-z_][A-Za-z_0-9]*").match(src, off)
    if not m:
        raise Unsupported("no call at offset %d" % off)
    j = m.end()
    while src[j] in " \t\n":
        j += 1
    if src[j] != "(":
        raise Unsupported("no argument list at offset %d" % off)
    depth, args, cur = 0, [], []
    k = j
    while True:
        c = src[k]
        if c == "(":
            depth += 1
            if depth > 1:
                cur.append(c)
        elif c == ")":
            depth -= 1
            if depth == 0:
                args.append("".join(cur))
                break
            cur.append(c)
        elif c == "," and depth == 1:
            args.append("".join(cur))
            cur = []
        else:
            cur.append(c)
        k += 1
    if want and m.group(0) != want and not (want == "sexp_write_op" and m.group(0) == "sexp_write"):
        # the call sits inside the arguments of a macro invocation: find it there
        inner = src.find(want + "(", off, k)
        if inner < 0:
            raise Unsupported("call of %s not found in the macro invocation at offset %d" % (want, off))
        return _call_text(src, inner, want)
    return m.group(0), [re.sub(r"\s+", "", a) for a in args], src.count("\n", 0, off) + 1


def _delta(text, var):
    if text == var:
        return 0
    m = re.match(r"^%s\+(\d+)$" % re.escape(var), text)
    return int(m.group(1)) if m else None


def translate(d):
    sexp_c = open(os.path.join(d, "sexp.c"), encoding="utf-8", errors="replace").read().encode("utf-8")
    eval_c = open(os.path.join(d, "eval.c"), encoding="utf-8", errors="replace").read().encode("utf-8")
    sexp_t, eval_t = sexp_c.decode("latin-1"), eval_c.decode("latin-1")     # byte offsets == string offsets
    info = {}
    # ---- the printer
    fns = [f for f in _ast(d, "sexp.c", "sexp_write_one") if f.get("name") == "sexp_write_one"]
    if len(fns) != 1:
        raise Unsupported("sexp_write_one not found (or found %d times) in sexp.c" % len(fns))
    wsites = []
    for nm, off in _calls(fns[0], ("sexp_write_one", "sexp_write_op")):
        name, args, line = _call_text(sexp_t, off, nm)
        if name == "sexp_write_one" and len(args) == 4:
            dl = _delta(args[3], "bound")
            wsites.append((line, "Rec %d" % dl if dl is not None else "Unknown", "%s -> bound arg %s" % (args[1], args[3])))
        elif name == "sexp_write" and len(args) == 3:
            o = args[1]
            cls = "Atomic" if ATOMIC.match(o) else "NumberPart" if NUMPART.match(o) else "Name" if NAME.match(o) else "OtherObj"
            wsites.append((line, "Reset %s" % cls, "sexp_write of %s (restarts at bound 0)" % o))
        else:
            wsites.append((line, "Unknown", "%s%s" % (name, args)))
    if _assigns(fns[0], "bound") != 0:
        wsites.append((0, "Unknown", "sexp_write_one modifies its parameter bound"))
    if not any(s[1].startswith("Rec") for s in wsites):
        raise Unsupported("no recursive call of sexp_write_one found inside sexp_write_one")
    if not re.search(r"if\s*\(\s*bound\s*>=\s*SEXP_DEFAULT_WRITE_BOUND\s*\)", sexp_t):
        raise Unsupported("the test `bound >= SEXP_DEFAULT_WRITE_BOUND` is no longer in sexp.c")
    # ---- equal?
    fns = [f for f in _ast(d, "sexp.c", "sexp_equalp_bound") if f.get("name") == "sexp_equalp_bound"]
    if len(fns) != 1:
        raise Unsupported("sexp_equalp_bound not found")
    esites = []
    for nm, off in _calls(fns[0], ("sexp_equalp_bound",)):
        name, args, line = _call_text(sexp_t, off, nm)
        ok = len(args) == 7 and args[5] == "depth2"
        esites.append((line, "Rec 1" if ok else "Rec 0" if len(args) == 7 and args[5] == "depth" else "Unknown", "depth arg %s" % (args[5] if len(args) == 7 else args)))
    if _assigns(fns[0], "depth") != 0 or _assigns(fns[0], "depth2") != 1:
        esites.append((0, "Unknown", "sexp_equalp_bound modifies depth, or assigns depth2 more than once"))
    if not re.search(r"depth2\s*=\s*sexp_fx_sub\(\s*depth\s*,\s*SEXP_ONE\s*\)", sexp_t) or not re.search(r"sexp_unbox_fixnum\(depth\)\s*<\s*0", sexp_t):
        esites.append((0, "Unknown", "depth2 = depth - 1 / the test depth < 0 not found"))
    # ---- strip-syntactic-closures
    fns = [f for f in _ast(d, "eval.c", "sexp_strip_synclos_bound") if f.get("name") == "sexp_strip_synclos_bound"]
    if len(fns) != 1:
        raise Unsupported("sexp_strip_synclos_bound not found")
    ssites = []
    for nm, off in _calls(fns[0], ("sexp_strip_synclos_bound",)):
        name, args, line = _call_text(eval_t, off, nm)
        ok = len(args) == 3 and args[2] == "depth-1"
        ssites.append((line, "Rec 1" if ok else "Rec 0" if len(args) == 3 and args[2] == "depth" else "Unknown", "depth arg %s" % (args[2] if len(args) == 3 else args)))
    if _assigns(fns[0], "depth") != 0:
        ssites.append((0, "Unknown", "sexp_strip_synclos_bound modifies depth"))
    fns = [f for f in _ast(d, "eval.c", "sexp_contains_syntax_p_bound") if f.get("name") == "sexp_contains_syntax_p_bound"]
    if len(fns) != 1:
        raise Unsupported("sexp_contains_syntax_p_bound not found")
    for nm, off in _calls(fns[0], ("sexp_contains_syntax_p_bound",)):
        name, args, line = _call_text(eval_t, off, nm)
        ok = len(args) == 2 and args[1] == "depth-1"
        ssites.append((line, "Rec 1" if ok else "Rec 0" if len(args) == 2 and args[1] == "depth" else "Unknown", "depth arg %s" % (args[1] if len(args) == 2 else args)))
    if _assigns(fns[0], "depth") != 0:
        ssites.append((0, "Unknown", "sexp_contains_syntax_p_bound modifies depth"))
    for fname, pat in (("sexp_strip_synclos_bound", r"if\s*\(\s*depth\s*<=\s*0\s*\)\s*return x;"), ("sexp_contains_syntax_p_bound", r"if\s*\(\s*depth\s*<=\s*0\s*\)\s*return 0;")):
        if not re.search(pat, eval_t):
            ssites.append((0, "Unknown", "the test depth <= 0 of %s not found" % fname))
    # ---- the analyzer: call graph of the analyze* functions
    fns = [f for f in _ast(d, "eval.c", "analyze") if re.match(r"^analyze(_[a-z_]+)?$", f.get("name", ""))]
    names = sorted({f["name"] for f in fns})
    if "analyze" not in names or len(names) < 8:
        raise Unsupported("analyze family not found: %s" % names)
    counts = bool(re.search(r"if\s*\(\s*\+\+depth\s*>\s*SEXP_MAX_ANALYZE_DEPTH\s*\)", eval_t))
    params = {}
    for f in fns:
        params[f["name"]] = [p.get("name") for p in f.get("inner", []) if p.get("kind") == "ParmVarDecl"]
    edges = []
    for f in fns:
        if "depth" in params[f["name"]] and _assigns(f, "depth") != (1 if f["name"] == "analyze" else 0):
            edges.append((0, f["name"], f["name"], "Bad", "modifies depth"))
        for nm, off in _calls(f, set(names)):
            name, args, line = _call_text(eval_t, off, nm)
            ps = params.get(nm, [])
            if "depth" not in ps:
                continue                # callee takes no depth: it does not recurse into the family with a depth (checked: no edges out)
            a = args[ps.index("depth")] if len(args) == len(ps) else "?"
            if "depth" not in params[f["name"]]:
                kind = "Bad"            # a caller without a depth restarts the count
                if re.match(r"^\d+$", a) and f["name"] in ("analyze_bind_syntax", "analyze_define_syntax"):
                    kind = "Inc"        # macro transformers: a fresh compilation of a separate expression
            elif a == "depth+1" or (a == "depth" and nm == "analyze" and counts):
                kind = "Inc"
            elif a == "depth":
                kind = "Same"
            else:
                kind = "Bad"
            edges.append((line, f["name"], nm, kind, a))
    # a family function without depth must not call into the family at all, except the two listed above
    idx = {n: i for i, n in enumerate(names)}
    lines = ["(* GENERATED by gen/c01_recursion.py from the clang AST of sexp.c / eval.c of the scratch build.  Do not edit. *)",
             "From Coq Require Import List. Import ListNotations.", "From ChibiV Require Import C01.Recursion.", ""]
    lines.append("(* (source line, what the call passes) of every sexp_write_one / sexp_write call inside sexp_write_one *)")
    lines.append("Definition write_sites : list (nat * site) :=\n  [ " + ";\n    ".join("(%d, %s)  (* %s *)" % (l, s, c.replace("*)", "* )")) for l, s, c in wsites) + " ].")
    lines.append("Definition equal_sites : list (nat * site) :=\n  [ " + ";\n    ".join("(%d, %s)  (* %s *)" % (l, s, c.replace("*)", "* )")) for l, s, c in esites) + " ].")
    lines.append("Definition strip_sites : list (nat * site) :=\n  [ " + ";\n    ".join("(%d, %s)  (* %s *)" % (l, s, c.replace("*)", "* )")) for l, s, c in ssites) + " ].")
    lines.append("(* analyze family: %s *)" % ", ".join("%d=%s" % (i, n) for n, i in sorted(idx.items(), key=lambda x: x[1])))
    lines.append("Definition analyze_nfun : nat := %d." % len(names))
    lines.append("Definition analyze_edges : list edge :=\n  [ " + ";\n    ".join("(%d, %d, %s)  (* line %d: %s -> %s passes %s *)" % (idx[a], idx[b], k, l, a, b, t) for l, a, b, k, t in edges) + " ].")
    # rank certificate: longest chain of Same edges below each function (0 for all when the Same edges have a cycle)
    same = {}
    for l, a, b, k, t in edges:
        if k == "Same":
            same.setdefault(idx[a], set()).add(idx[b])
    rank, state = {}, {}

    def rk(v):
        if state.get(v) == 1:
            raise ValueError("cycle")
        if v in rank:
            return rank[v]
        state[v] = 1
        rank[v] = 1 + max([rk(b) for b in same.get(v, ())], default=-1) if same.get(v) else 0
        state[v] = 2
        return rank[v]
    try:
        ranks = [rk(i) for i in range(len(names))]
    except ValueError:
        ranks = [0] * len(names)
    lines.append("Definition analyze_rank : list nat := [ " + "; ".join(str(r) for r in ranks) + " ].")
    lines.append("")
    info.update(analyze_rank=ranks, write_sites=wsites, equal_sites=esites, strip_sites=ssites, analyze_edges=edges, analyze_names=names)
    return dict(coq="\n".join(lines), **info)


def regen(ctx):
    d = ctx.build("default")
    t = translate(d)
    ctx.gen("C01_Recursion", t["coq"])
    return t
