"""C12 (G): mini C -> Gallina translator for the pure UTF-8 leaf functions of chibi-scheme.

Source of truth: the scratch build tree of $VERIF_REPO (sexp.c after preprocessing, as clang parses it)
plus harness/leaf_c12.c, a wrapper file that only instantiates header *macros* (sexp_make_character,
sexp_unbox_character) as functions so that they can be translated too.

Subset (anything else raises Unsupported => the check reports the construct, it never guesses):
  * integer parameters and single-assignment integer locals (DeclStmt with initialiser);
  * + - * / % << >> & | ^ ~ unary-, comparisons, && || !, ?:, integer casts;
  * if / else / return, compound statements, fall-through to the statements after an `if`;
  * byte arrays reached through ONE pointer (parameter or local): `*p`, `p[k]` with literal k become
    integer parameters p_0..p_k of the Gallina function (how the pointer was computed is not translated);
  * a `sexp`-returning function: `return <call to sexp_*_exception>` => RErr, any other => RVal <word>;
  * writer functions (void, one `unsigned char *` parameter): `switch` on an integer with arms made of
    `*p++ = e;` / `*p = e;` terminated by `break` => the list of bytes written, in order;
  * strlen(p) of the byte-array pointer => an extra integer parameter p_strlen;
  * a call of a leaf function translated EARLIER in FUNCTIONS (integer parameters only, integer result)
    => application of its Gallina translation; its `_safe` predicate joins the caller's;
  * the number of bytes between the byte pointer and the end of the string it points into => an extra
    integer parameter p_rem.  Recognised ONLY in this shape (anything else fails closed): the pointer is a
    local initialised as `(cast)(sexp_string_data(S)) + E` and the expression is
    `(sexp_sint_t)sexp_string_size(S) - E'` with S a `sexp` parameter, sexp_string_data(S) spelled as
    bytes-data-of(S->value.string.bytes) + S->value.string.offset, and E' the SAME expression as E (clang ASTs
    compared node by node) built from `sexp` parameters and constants only.  Then, whatever the cursor
    representation, p_rem = size(S) - (p - data(S)); the model supplies size - offset.  (The cast of
    the size to sexp_sint_t is the identity below 2^63.)
Semantics: every operation whose C type is unsigned carries `wrap bits`; a cast that can lose
information carries wrap/swrap; operations whose C type is signed are translated to the unbounded Z
operation AND contribute a conjunct to a second generated function `<fn>_safe` (result inside the
type's range, shift amounts inside [0,bits), divisor non-zero) — so the absence of signed overflow is a
generated obligation (proved in coq/C12/Utf8.v over the argument domains), not an assumption.
"""
import json, os, re, subprocess

HERE = os.path.dirname(os.path.abspath(__file__))
WRAPPER = os.path.join(HERE, "..", "harness", "leaf_c12.c")

# (source file relative to the build dir | absolute, C function, Gallina name)
FUNCTIONS = [
    ("sexp.c", "sexp_utf8_initial_byte_count"),
    ("sexp.c", "sexp_utf8_char_byte_count"),
    ("sexp.c", "sexp_utf8_encode_char"),
    ("sexp.c", "sexp_string_utf8_ref"),
    ("sexp.c", "sexp_decode_utf8_char"),
    (WRAPPER, "verif_c12_make_character"),
    (WRAPPER, "verif_c12_unbox_character"),
]


class Unsupported(Exception):
    pass


INT_TYPES = {
    "int": (32, True), "unsigned int": (32, False), "long": (64, True), "unsigned long": (64, False),
    "long long": (64, True), "unsigned long long": (64, False), "short": (16, True), "unsigned short": (16, False),
    "char": (8, True), "signed char": (8, True), "unsigned char": (8, False), "_Bool": (1, False),
    "sexp_sint_t": (64, True), "sexp_uint_t": (64, False), "size_t": (64, False), "ssize_t": (64, True),
}


def qtype(n):
    t = n.get("type", {})
    return t.get("desugaredQualType") or t.get("qualType") or ""


def int_type(q):
    q = re.sub(r"\b(const|volatile|register)\b", "", q).strip()
    q = re.sub(r"\s+", " ", q)
    return INT_TYPES.get(q)


def is_pointer(q):
    return q.endswith("*") or q.strip() in ("sexp", "struct sexp_struct *")


def ast_of(build_dir, src, fn):
    path = src if os.path.isabs(src) else os.path.join(build_dir, src)
    cmd = ["clang", "-fsyntax-only", "-I" + os.path.join(build_dir, "include"), "-DSEXP_USE_VERIF_HOOKS=1",
           "-Xclang", "-ast-dump=json", "-Xclang", "-ast-dump-filter=" + fn, path]
    r = subprocess.run(cmd, capture_output=True, text=True, timeout=120, cwd=build_dir)
    s = r.stdout
    dec = json.JSONDecoder()
    i, found = 0, None
    while i < len(s):
        while i < len(s) and s[i].isspace():
            i += 1
        if i >= len(s):
            break
        o, i = dec.raw_decode(s, i)
        if o.get("kind") == "FunctionDecl" and o.get("name") == fn and any(c.get("kind") == "CompoundStmt" for c in o.get("inner", [])):
            if found is not None:
                raise Unsupported("two definitions of %s" % fn)
            found = o
    if found is None:
        raise Unsupported("no definition of %s found by clang in %s (%s)" % (fn, src, r.stderr[-300:]))
    return found


def conj(terms):
    terms = [t for t in terms if t != "true"]
    if not terms:
        return "true"
    return "(" + " && ".join(terms) + ")"


class Fn:
    def __init__(self, decl, known=None):
        self.decl = decl
        self.known = known or {}    # C name -> (number of integer parameters, return type) of the leaf functions translated so far
        self.ptr_init = {}          # pointer local -> AST of its initialiser
        self.sexp_params = set()
        self.uses_rem = False
        self.name = decl["name"]
        self.ints = {}          # C name -> Gallina name (integer params / locals)
        self.ptr = None         # the one byte-array pointer (C name)
        self.ptr_max = -1
        self.uses_strlen = False
        self.kcount = 0
        self.params = []        # Gallina integer parameters in order
        self.ptr_candidates = set()

    # ---------------------------------------------------------------- expressions
    def byte(self, pname, k):
        if pname not in self.ptr_candidates:
            raise Unsupported("%s: dereference of %s which is not a byte pointer" % (self.name, pname))
        if self.ptr is None:
            self.ptr = pname
        if self.ptr != pname:
            raise Unsupported("%s: more than one byte pointer (%s, %s)" % (self.name, self.ptr, pname))
        self.ptr_max = max(self.ptr_max, k)
        return "%s_%d" % (pname, k)

    def ptr_name(self, n):
        """n must evaluate to the untouched byte pointer variable"""
        while n["kind"] in ("ParenExpr", "ImplicitCastExpr", "CStyleCastExpr") and n.get("castKind", "LValueToRValue") in ("LValueToRValue", "NoOp", "BitCast"):
            n = n["inner"][0]
        if n["kind"] == "DeclRefExpr":
            return n["referencedDecl"]["name"]
        raise Unsupported("%s: pointer expression of kind %s" % (self.name, n["kind"]))

    def cond(self, n):
        """-> (bool term, [safety terms])"""
        k = n["kind"]
        if k in ("ParenExpr", "ConstantExpr"):
            return self.cond(n["inner"][0])
        if k == "BinaryOperator":
            op = n["opcode"]
            if op in ("<", ">", "<=", ">=", "==", "!="):
                a, sa = self.expr(n["inner"][0])
                b, sb = self.expr(n["inner"][1])
                cop = {"<": "<?", ">": ">?", "<=": "<=?", ">=": ">=?", "==": "=?"}.get(op)
                if op == "!=":
                    return "(negb (%s =? %s))" % (a, b), sa + sb
                return "(%s %s %s)" % (a, cop, b), sa + sb
            if op in ("&&", "||"):
                a, sa = self.cond(n["inner"][0])
                b, sb = self.cond(n["inner"][1])
                if op == "&&":
                    return "(%s && %s)" % (a, b), sa + ([("(if %s then %s else true)" % (a, conj(sb)))] if conj(sb) != "true" else [])
                return "(%s || %s)" % (a, b), sa + ([("(if %s then true else %s)" % (a, conj(sb)))] if conj(sb) != "true" else [])
        if k == "UnaryOperator" and n["opcode"] == "!":
            a, sa = self.cond(n["inner"][0])
            return "(negb %s)" % a, sa
        a, sa = self.expr(n)
        return "(negb (%s =? 0))" % a, sa

    def expr(self, n):
        """-> (Z term, [safety terms])"""
        k = n["kind"]
        if k in ("ParenExpr", "ConstantExpr"):
            return self.expr(n["inner"][0])
        if k == "IntegerLiteral":
            v = int(n["value"])
            return (str(v) if v >= 0 else "(%d)" % v), []
        if k == "CharacterLiteral":
            return str(int(n["value"])), []
        if k == "DeclRefExpr":
            nm = n["referencedDecl"]["name"]
            if nm in self.ints:
                return self.ints[nm], []
            raise Unsupported("%s: reference to %s, which is not an integer parameter/local" % (self.name, nm))
        if k in ("ImplicitCastExpr", "CStyleCastExpr"):
            ck = n.get("castKind")
            inner = n["inner"][0]
            if ck in ("LValueToRValue", "NoOp"):
                return self.expr(inner)
            if ck == "IntegralCast":
                a, sa = self.expr(inner)
                src, dst = int_type(qtype(inner)), int_type(qtype(n))
                if src is None or dst is None:
                    raise Unsupported("%s: integral cast %s -> %s" % (self.name, qtype(inner), qtype(n)))
                return self.convert(a, src, dst), sa
            if ck == "IntegralToPointer":
                a, sa = self.expr(inner)
                src = int_type(qtype(inner))
                if src is None:
                    raise Unsupported("%s: int->pointer cast from %s" % (self.name, qtype(inner)))
                return self.convert(a, src, (64, False)), sa
            if ck == "PointerToIntegral":
                a, sa = self.expr(inner)
                dst = int_type(qtype(n))
                if dst is None:
                    raise Unsupported("%s: pointer->int cast to %s" % (self.name, qtype(n)))
                return self.convert(a, (64, False), dst), sa
            raise Unsupported("%s: cast kind %s" % (self.name, ck))
        if k == "UnaryOperator":
            op = n["opcode"]
            if op == "*":
                return self.byte(self.ptr_name(n["inner"][0]), 0), []
            a, sa = self.expr(n["inner"][0])
            t = int_type(qtype(n))
            if t is None:
                raise Unsupported("%s: unary %s on type %s" % (self.name, op, qtype(n)))
            if op == "-":
                return self.arith("(- %s)" % a, t, sa)
            if op == "~":
                return self.arith("(Z.lnot %s)" % a, t, sa, bitwise=True)
            if op == "+":
                return a, sa
            if op == "!":
                c, sc = self.cond(n["inner"][0])
                return "(if %s then 0 else 1)" % c, sc
            raise Unsupported("%s: unary operator %s" % (self.name, op))
        if k == "ArraySubscriptExpr":
            base, idx = n["inner"]
            while idx["kind"] in ("ParenExpr", "ImplicitCastExpr", "ConstantExpr"):
                idx = idx["inner"][0]
            if idx["kind"] != "IntegerLiteral":
                raise Unsupported("%s: array index that is not a literal" % self.name)
            return self.byte(self.ptr_name(base), int(idx["value"])), []
        if k == "BinaryOperator":
            op = n["opcode"]
            if op in ("<", ">", "<=", ">=", "==", "!=", "&&", "||"):
                c, sc = self.cond(n)
                return "(if %s then 1 else 0)" % c, sc
            t = int_type(qtype(n))
            if t is None:
                raise Unsupported("%s: binary %s on type %s" % (self.name, op, qtype(n)))
            if op == "-":
                p = self.remaining(n)
                if p is not None:
                    if self.ptr not in (None, p):
                        raise Unsupported("%s: more than one byte pointer (%s, %s)" % (self.name, self.ptr, p))
                    self.ptr = p
                    self.uses_rem = True
                    return "%s_rem" % p, []
            a, sa = self.expr(n["inner"][0])
            b, sb = self.expr(n["inner"][1])
            s = sa + sb
            bits = t[0]
            if op in ("+", "-", "*"):
                return self.arith("(%s %s %s)" % (a, op, b), t, s)
            if op == "/":
                return self.arith("(Z.quot %s %s)" % (a, b), t, s + ["(negb (%s =? 0))" % b])
            if op == "%":
                return self.arith("(Z.rem %s %s)" % (a, b), t, s + ["(negb (%s =? 0))" % b])
            if op == "<<":
                lt = int_type(qtype(n["inner"][0])) or t
                extra = ["(0 <=? %s)" % b, "(%s <? %d)" % (b, lt[0])]
                if t[1]:
                    extra.append("(0 <=? %s)" % a)
                return self.arith("(Z.shiftl %s %s)" % (a, b), t, s + extra)
            if op == ">>":
                lt = int_type(qtype(n["inner"][0])) or t
                return "(Z.shiftr %s %s)" % (a, b), s + ["(0 <=? %s)" % b, "(%s <? %d)" % (b, lt[0])]
            if op in ("&", "|", "^"):
                f = {"&": "Z.land", "|": "Z.lor", "^": "Z.lxor"}[op]
                return "(%s %s %s)" % (f, a, b), s
            raise Unsupported("%s: binary operator %s" % (self.name, op))
        if k == "ConditionalOperator":
            c, sc = self.cond(n["inner"][0])
            a, sa = self.expr(n["inner"][1])
            b, sb = self.expr(n["inner"][2])
            s = sc
            if conj(sa) != "true" or conj(sb) != "true":
                s = s + ["(if %s then %s else %s)" % (c, conj(sa), conj(sb))]
            return "(if %s then %s else %s)" % (c, a, b), s
        if k == "CallExpr":
            callee = n["inner"][0]
            while callee["kind"] in ("ImplicitCastExpr", "ParenExpr"):
                callee = callee["inner"][0]
            cname = callee.get("referencedDecl", {}).get("name")
            if cname == "strlen" and len(n["inner"]) == 2:
                p = self.ptr_name(n["inner"][1])
                if p not in self.ptr_candidates or (self.ptr not in (None, p)):
                    raise Unsupported("%s: strlen of something else than the byte pointer" % self.name)
                self.ptr = p
                self.uses_strlen = True
                return "%s_strlen" % p, []
            if cname in self.known and cname != self.name:
                nparams, rtype = self.known[cname]
                args = n["inner"][1:]
                if len(args) != nparams or int_type(qtype(n)) != int_type(rtype) or int_type(rtype) is None:
                    raise Unsupported("%s: call of %s with an unexpected signature" % (self.name, cname))
                terms, safes = [], []
                for a in args:
                    if int_type(qtype(a)) is None:
                        raise Unsupported("%s: call of %s with a non-integer argument" % (self.name, cname))
                    t, sa = self.expr(a)      # the implicit conversion to the parameter type is a cast node of the argument
                    terms.append(t)
                    safes += sa
                return "(%s %s)" % (cname, " ".join(terms)), safes + ["(%s_safe %s)" % (cname, " ".join(terms))]
            raise Unsupported("%s: call of %s" % (self.name, cname))
        raise Unsupported("%s: expression kind %s" % (self.name, k))

    # ---------------------------------------------------------------- bytes remaining after the pointer
    @staticmethod
    def strip(n, casts=("LValueToRValue", "NoOp", "BitCast")):
        while n["kind"] == "ParenExpr" or (n["kind"] in ("ImplicitCastExpr", "CStyleCastExpr") and n.get("castKind") in casts):
            n = n["inner"][0]
        return n

    def member_of_param(self, n, path):
        """n is S->value.string.<...> for a `sexp` parameter S, member names = path (outermost first) -> S | None"""
        n = self.strip(n)
        for i, nm in enumerate(path):
            if n["kind"] != "MemberExpr" or n.get("name") != nm or bool(n.get("isArrow")) != (i == len(path) - 1):
                return None
            n = self.strip(n["inner"][0])
        if n["kind"] == "DeclRefExpr" and n["referencedDecl"]["name"] in self.sexp_params:
            return n["referencedDecl"]["name"]
        return None

    def canon(self, n):
        """structure of an expression over `sexp` parameters and constants (locations and ids dropped);
        raises on anything that could depend on a translated variable or on memory"""
        n = self.strip(n, casts=())
        k = n["kind"]
        if k == "DeclRefExpr":
            nm = n["referencedDecl"]["name"]
            if nm not in self.sexp_params:
                raise Unsupported("%s: cursor expression mentions %s" % (self.name, nm))
            return ("ref", nm)
        if k == "IntegerLiteral":
            return ("lit", n["value"], qtype(n))
        if k in ("ImplicitCastExpr", "CStyleCastExpr"):
            return ("cast", n.get("castKind"), qtype(n), self.canon(n["inner"][0]))
        if k in ("BinaryOperator", "UnaryOperator") and n.get("opcode") in ("+", "-", "*", "/", "&", "|", "<<", ">>", "~"):
            return (k, n["opcode"], qtype(n)) + tuple(self.canon(c) for c in n["inner"])
        raise Unsupported("%s: cursor expression of kind %s" % (self.name, k))

    def const_only(self, n):
        if n["kind"] in ("DeclRefExpr", "CallExpr", "ArraySubscriptExpr") or (n["kind"] == "UnaryOperator" and n.get("opcode") == "*"):
            return False
        if n["kind"] in ("OffsetOfExpr", "UnaryExprOrTypeTraitExpr"):
            return True
        return all(self.const_only(c) for c in n.get("inner", []))

    def string_data_of(self, n):
        """n == sexp_string_data(S) == (char*)S->value.string.bytes + <constant> + S->value.string.offset -> S | None"""
        n = self.strip(n)
        if n["kind"] != "BinaryOperator" or n.get("opcode") != "+":
            return None
        base, off = n["inner"]
        s2 = self.member_of_param(self.strip(off), ["offset", "string", "value"])
        base = self.strip(base)
        if s2 is None or base["kind"] != "BinaryOperator" or base.get("opcode") != "+":
            return None
        s1 = self.member_of_param(base["inner"][0], ["bytes", "string", "value"])
        if s1 is None or s1 != s2 or not self.const_only(base["inner"][1]):
            return None
        return s1

    def remaining(self, n):
        """`(sexp_sint_t)sexp_string_size(S) - E` where some byte pointer p = sexp_string_data(S) + E  ->  p | None"""
        if n.get("opcode") != "-" or int_type(qtype(n)) != (64, True):
            return None
        lhs, rhs = n["inner"]
        lhs = self.strip(lhs, casts=("LValueToRValue", "NoOp"))
        if lhs["kind"] != "CStyleCastExpr" or lhs.get("castKind") != "IntegralCast" or int_type(qtype(lhs)) != (64, True):
            return None
        if int_type(qtype(lhs["inner"][0])) != (64, False):
            return None
        S = self.member_of_param(lhs["inner"][0], ["length", "string", "value"])
        if S is None:
            return None
        for p, init in self.ptr_init.items():
            i = self.strip(init)
            if i["kind"] != "BinaryOperator" or i.get("opcode") != "+":
                continue
            if self.string_data_of(i["inner"][0]) != S:
                continue
            if self.canon(i["inner"][1]) == self.canon(rhs):
                return p
        return None

    def convert(self, a, src, dst):
        slo, shi = (-(1 << (src[0] - 1)), (1 << (src[0] - 1)) - 1) if src[1] else (0, (1 << src[0]) - 1)
        dlo, dhi = (-(1 << (dst[0] - 1)), (1 << (dst[0] - 1)) - 1) if dst[1] else (0, (1 << dst[0]) - 1)
        if dlo <= slo and shi <= dhi:
            return a
        return "(%s %d %s)" % ("swrap" if dst[1] else "wrap", dst[0], a)

    def arith(self, term, t, safes, bitwise=False):
        bits, signed = t
        if signed:
            if bitwise:
                return term, safes
            return term, safes + ["(in_s %d %s)" % (bits, term)]
        return "(wrap %d %s)" % (bits, term), safes

    # ---------------------------------------------------------------- statements
    def is_exception_call(self, n):
        while n["kind"] in ("ParenExpr", "ImplicitCastExpr"):
            n = n["inner"][0]
        if n["kind"] != "CallExpr":
            return False
        callee = n["inner"][0]
        while callee["kind"] in ("ImplicitCastExpr", "ParenExpr"):
            callee = callee["inner"][0]
        nm = callee.get("referencedDecl", {}).get("name", "")
        return nm.startswith("sexp_") and nm.endswith("_exception")

    def always_returns(self, stmts):
        for s in stmts:
            k = s["kind"]
            if k == "ReturnStmt":
                return True
            if k == "CompoundStmt" and self.always_returns(s.get("inner", [])):
                return True
            if k == "IfStmt":
                parts = s["inner"]
                if len(parts) == 3 and self.always_returns([parts[1]]) and self.always_returns([parts[2]]):
                    return True
        return False

    def stmts(self, ss, k_val, k_safe):
        """translate a statement list; k_val/k_safe: what happens when control falls off its end
        (None = cannot happen / unsupported).  -> (value term, safety term)"""
        if not ss:
            if k_val is None:
                raise Unsupported("%s: control reaches the end of the function without return" % self.name)
            return k_val, k_safe
        s, rest = ss[0], ss[1:]
        k = s["kind"]
        if k == "CompoundStmt":
            return self.stmts(list(s.get("inner", [])) + rest, k_val, k_safe)
        if k == "NullStmt":
            return self.stmts(rest, k_val, k_safe)
        if k == "ReturnStmt":
            if not s.get("inner"):
                raise Unsupported("%s: return without value" % self.name)
            e = s["inner"][0]
            if self.ret_sexp:
                if self.is_exception_call(e):
                    return "RErr", "true"
                v, sf = self.expr(e)
                return "(RVal %s)" % v, conj(sf)
            v, sf = self.expr(e)
            rt = int_type(self.ret_type)
            et = int_type(qtype(e))
            if rt and et:
                v = self.convert(v, et, rt)
            return v, conj(sf)
        if k == "DeclStmt":
            lets = []
            for d in s["inner"]:
                if d["kind"] != "VarDecl":
                    raise Unsupported("%s: declaration kind %s" % (self.name, d["kind"]))
                q = qtype(d)
                if int_type(q):
                    if not d.get("inner"):
                        raise Unsupported("%s: local %s without initialiser" % (self.name, d["name"]))
                    v, sf = self.expr(d["inner"][0])
                    g = self.fresh(d["name"])
                    lets.append((g, v, conj(sf)))
                    self.ints[d["name"]] = g
                elif q.replace("const ", "").strip() in ("unsigned char *", "char *"):
                    self.ptr_candidates.add(d["name"])   # initialiser not translated (only matched by `remaining`)
                    if d.get("inner"):
                        self.ptr_init[d["name"]] = d["inner"][-1]
                else:
                    raise Unsupported("%s: local %s of type %s" % (self.name, d["name"], q))
            v, sf = self.stmts(rest, k_val, k_safe)
            for g, e, es in reversed(lets):
                v = "(let %s := %s in %s)" % (g, e, v)
                sf = "(let %s := %s in %s)" % (g, e, conj([es, sf]))
            return v, sf
        if k == "IfStmt":
            parts = s["inner"]
            c, sc = self.cond(parts[0])
            then = [parts[1]]
            els = [parts[2]] if len(parts) == 3 else []
            if self.always_returns(then):
                tv, ts = self.stmts(then, None, None)
                ev, es = self.stmts(els + rest, k_val, k_safe)
                return "(if %s then %s else %s)" % (c, tv, ev), conj(sc + ["(if %s then %s else %s)" % (c, ts, es)])
            # general case: bind the continuation once
            kv, ks = self.stmts(rest, k_val, k_safe)
            self.kcount += 1
            kn, ksn = "k%d_" % self.kcount, "ks%d_" % self.kcount
            tv, ts = self.stmts(then, kn, ksn)
            ev, es = self.stmts(els, kn, ksn)
            val = "(let %s := %s in if %s then %s else %s)" % (kn, kv, c, tv, ev)
            sf = "(let %s := %s in %s)" % (ksn, ks, conj(sc + ["(if %s then %s else %s)" % (c, ts, es)]))
            return val, sf
        raise Unsupported("%s: statement kind %s" % (self.name, k))

    def fresh(self, nm):
        g = nm + "_"
        return g

    # ---------------------------------------------------------------- writer functions
    def writer_assign(self, s, pname, pos):
        """`*p++ = e` / `*p = e`  -> (byte term, safeties, new pos, advanced?)"""
        if s["kind"] != "BinaryOperator" or s.get("opcode") != "=":
            raise Unsupported("%s: statement in a switch arm that is not a byte store" % self.name)
        lhs, rhs = s["inner"]
        if lhs["kind"] != "UnaryOperator" or lhs["opcode"] != "*":
            raise Unsupported("%s: store through something else than *p" % self.name)
        tgt = lhs["inner"][0]
        adv = False
        if tgt["kind"] == "UnaryOperator" and tgt["opcode"] == "++" and tgt.get("isPostfix"):
            adv = True
            tgt = tgt["inner"][0]
        while tgt["kind"] in ("ImplicitCastExpr", "ParenExpr"):
            tgt = tgt["inner"][0]
        if tgt["kind"] != "DeclRefExpr" or tgt["referencedDecl"]["name"] != pname:
            raise Unsupported("%s: store through an unexpected pointer" % self.name)
        v, sf = self.expr(rhs)
        et, lt = int_type(qtype(rhs)), int_type(qtype(lhs))
        if et and lt:
            v = self.convert(v, et, lt)
        return v, sf, adv

    def writer_arm(self, ss, pname):
        out, safes, pos, written_at_pos = [], [], 0, False
        for s in ss:
            v, sf, adv = self.writer_assign(s, pname, pos)
            if written_at_pos:
                raise Unsupported("%s: two stores to the same byte" % self.name)
            out.append(v)
            safes += sf
            if adv:
                pos += 1
            else:
                written_at_pos = True
        return "[" + "; ".join(out) + "]", conj(safes)

    def writer(self, body, pname):
        ss = body.get("inner", [])
        if len(ss) != 1 or ss[0]["kind"] != "SwitchStmt":
            raise Unsupported("%s: writer body is not a single switch" % self.name)
        sw = ss[0]
        scrut, ssafe = self.expr(sw["inner"][0])
        arms, cur, default = [], None, None
        items = list(sw["inner"][1].get("inner", []))
        i = 0

        def open_arm(node):
            if node["kind"] == "CaseStmt":
                lab, _ = self.expr(node["inner"][0])
                return [lab, [node["inner"][-1]]]
            return [None, [node["inner"][-1]]]
        while i < len(items):
            it = items[i]
            if it["kind"] in ("CaseStmt", "DefaultStmt"):
                if cur is not None:
                    raise Unsupported("%s: switch arm falls through" % self.name)
                cur = open_arm(it)
                if cur[1][0]["kind"] in ("CaseStmt", "DefaultStmt"):
                    raise Unsupported("%s: stacked case labels" % self.name)
            elif it["kind"] == "BreakStmt":
                if cur is None:
                    raise Unsupported("%s: break outside an arm" % self.name)
                arms.append(cur)
                cur = None
            else:
                if cur is None:
                    raise Unsupported("%s: statement before the first case" % self.name)
                cur[1].append(it)
            i += 1
        if cur is not None:
            if cur[1] and cur[1][-1]["kind"] == "BreakStmt":
                cur[1].pop()
            arms.append(cur)
        val, sf = None, None
        dflt = [a for a in arms if a[0] is None]
        if len(dflt) != 1:
            raise Unsupported("%s: switch needs exactly one default arm" % self.name)
        dv, ds = self.writer_arm([x for x in dflt[0][1] if x["kind"] != "BreakStmt"], pname)
        val, sf = dv, ds
        for lab, body_ in reversed([a for a in arms if a[0] is not None]):
            av, as_ = self.writer_arm([x for x in body_ if x["kind"] != "BreakStmt"], pname)
            val = "(if %s =? %s then %s else %s)" % (scrut, lab, av, val)
            sf = "(if %s =? %s then %s else %s)" % (scrut, lab, as_, sf)
        return val, conj(ssafe + [sf])

    # ---------------------------------------------------------------- whole function
    def translate(self):
        d = self.decl
        fq = qtype(d)
        self.ret_type = fq.split("(")[0].strip()
        self.ret_sexp = self.ret_type in ("sexp", "struct sexp_struct *")
        body = None
        out_ptr = None
        for c in d["inner"]:
            if c["kind"] == "ParmVarDecl":
                q = qtype(c)
                if int_type(q):
                    g = self.fresh(c["name"]) if False else c["name"]
                    self.ints[c["name"]] = g
                    self.params.append(g)
                elif q.replace("const ", "").strip() in ("unsigned char *", "char *"):
                    self.ptr_candidates.add(c["name"])
                    if self.ret_type == "void" and "const" not in q:
                        out_ptr = c["name"]
                elif q.strip() in ("sexp", "struct sexp_struct *"):
                    self.sexp_params.add(c["name"])   # not usable in translated expressions (see `remaining`)
            elif c["kind"] == "CompoundStmt":
                body = c
        if self.ret_type == "void":
            if out_ptr is None:
                raise Unsupported("%s: void function without an output byte pointer" % self.name)
            val, sf = self.writer(body, out_ptr)
            rty = "list Z"
        else:
            if not (self.ret_sexp or int_type(self.ret_type)):
                raise Unsupported("%s: return type %s" % (self.name, self.ret_type))
            val, sf = self.stmts([body], None, None)
            rty = "cres" if self.ret_sexp else "Z"
        params = list(self.params)
        if self.ptr is not None and self.ret_type != "void":
            params = ["%s_%d" % (self.ptr, k) for k in range(self.ptr_max + 1)] + (["%s_strlen" % self.ptr] if self.uses_strlen else []) + (["%s_rem" % self.ptr] if self.uses_rem else []) + params
        binder = " ".join("(%s : Z)" % p for p in params)
        txt = "Definition %s %s : %s :=\n  %s.\n\n" % (self.name, binder, rty, val)
        txt += "Definition %s_safe %s : bool :=\n  %s.\n\n" % (self.name, binder, sf)
        return txt, params


def translate_all(build_dir):
    parts = ["(* GENERATED on every run by gen/c12_leaf.py from sexp.c (working tree of the checked repository)\n"
             "   and harness/leaf_c12.c (macro instantiations).  Do not edit. *)\n"
             "From ChibiV Require Import C12.CSem.\nLocal Open Scope Z_scope.\nLocal Open Scope bool_scope.\n\n"]
    sigs = {}
    known = {}
    for src, fn in FUNCTIONS:
        f = Fn(ast_of(build_dir, src, fn), known)
        txt, params = f.translate()
        if f.ptr is None and f.ret_type != "void" and int_type(f.ret_type):
            known[fn] = (len(params), f.ret_type)
        parts.append("(* %s : %s *)\n" % (os.path.basename(src), fn))
        parts.append(txt)
        sigs[fn] = params
    return "".join(parts), sigs


def regen(ctx, build_dir=None):
    """regenerate coq/Gen/C12_Leaf.v; on an untranslatable construct: ctx.broken (fail closed) and
    leave no stale file behind (the Coq build then fails visibly)."""
    from vlib import build as B
    if build_dir is None:
        build_dir = ctx.build("default")
    try:
        txt, sigs = translate_all(build_dir)
    except Unsupported as e:
        ctx.broken("translator:C12_Leaf", "construct outside the translated C subset: %s" % e)
        ctx.gen("C12_Leaf", "(* translator failed closed: %s *)\nDefinition c12_leaf_translation_failed : True := I.\n" % str(e).replace("*)", "* )"))
        return None
    ctx.gen("C12_Leaf", txt)
    return sigs


if __name__ == "__main__":
    import sys
    t, s = translate_all(sys.argv[1])
    print(t)
    print(s, file=sys.stderr)
