#!/usr/bin/env python3
"""C12: translate chibi's case-folding tables into Coq (coq/Gen/C12_CaseFold.v).

Sources (working tree of the checked repository, read-only):
  lib/scheme/char/case-offsets.scm   (define char-foldcase-map '#(key value key value ...))
  lib/scheme/char/special-casing.scm (define special-cases '#(#(code lower title upper [fold]) ...))

Output:
  Definition foldcase_map : list (Z * Z)        pairs (key, value) in SOURCE ORDER (no sorting, no dedup:
                                                whether the table is sorted is a theorem, not an assumption)
  Definition foldcase_map_len : nat             number of pairs
  Definition special_fold : list (Z * list Z)   (code, code points of what (char-get-special-case ch 4) returns:
                                                column 4 of a 5-entry row, else column 1 = LOWER), source order
  Definition special_fold_len : nat

Fail closed: anything outside the expected shape raises Unsupported; regen() then records
ctx.broken("translator:C12_CaseFold", ...) and installs a stub without the definitions, so that
C12/CiModel.v no longer compiles.
"""
import os
import sys


class Unsupported(Exception):
    pass


# ----------------------------------------------------------------------------- s-expressions
class Sym(str):
    pass


class Vec(list):
    pass


class Str(object):
    def __init__(self, cps):
        self.cps = cps


DELIMS = set(" \t\r\n()\";'")
STR_ESC = {"n": 10, "t": 9, "r": 13, "a": 7, "b": 8, "0": 0, "\\": 92, '"': 34}


def tokenize(text, fname):
    """-> list of tokens: '(' ')' '#(' "'" | ('str', [code points]) | ('atom', text)"""
    toks = []
    i, n = 0, len(text)
    while i < n:
        c = text[i]
        if c in " \t\r\n":
            i += 1
        elif c == ";":
            while i < n and text[i] != "\n":
                i += 1
        elif c == "#" and i + 1 < n and text[i + 1] == "|":
            raise Unsupported("%s: block comment" % fname)
        elif c == "#" and i + 1 < n and text[i + 1] == ";":
            raise Unsupported("%s: datum comment" % fname)
        elif c == "(" or c == ")" or c == "'":
            toks.append(c)
            i += 1
        elif c == "#" and i + 1 < n and text[i + 1] == "(":
            toks.append("#(")
            i += 2
        elif c == '"':
            i += 1
            cps = []
            while True:
                if i >= n:
                    raise Unsupported("%s: unterminated string" % fname)
                d = text[i]
                if d == '"':
                    i += 1
                    break
                if d == "\\":
                    if i + 1 >= n:
                        raise Unsupported("%s: unterminated string escape" % fname)
                    e = text[i + 1]
                    if e == "x" or e == "X":
                        j = text.find(";", i + 2)
                        hx = text[i + 2:j] if j > 0 else ""
                        if not hx or len(hx) > 8 or any(h not in "0123456789abcdefABCDEF" for h in hx):
                            raise Unsupported("%s: bad \\x escape in string" % fname)
                        cps.append(int(hx, 16))
                        i = j + 1
                    elif e in STR_ESC:
                        cps.append(STR_ESC[e])
                        i += 2
                    else:
                        raise Unsupported("%s: string escape \\%s" % (fname, e))
                else:
                    cps.append(ord(d))
                    i += 1
            toks.append(("str", cps))
        else:
            j = i
            while j < n and text[j] not in DELIMS:
                j += 1
            if j == i:
                raise Unsupported("%s: unexpected character %r" % (fname, c))
            toks.append(("atom", text[i:j]))
            i = j
    return toks


def parse_atom(a, fname):
    low = a.lower()
    try:
        if low.startswith("#x"):
            return int(low[2:], 16)
        if low.startswith("#d"):
            return int(low[2:], 10)
        if low[0].isdigit() or (low[0] in "+-" and len(low) > 1 and low[1].isdigit()):
            return int(low, 10)
    except ValueError:
        raise Unsupported("%s: number %r" % (fname, a))
    if low.startswith("#") and low not in ("#t", "#f", "#true", "#false"):
        raise Unsupported("%s: token %r" % (fname, a))
    return Sym(a)


def parse_all(text, fname):
    toks = tokenize(text, fname)
    pos = [0]

    def datum():
        if pos[0] >= len(toks):
            raise Unsupported("%s: unexpected end of file" % fname)
        t = toks[pos[0]]
        pos[0] += 1
        if t == "'":
            return [Sym("quote"), datum()]
        if t == "(" or t == "#(":
            out = Vec() if t == "#(" else []
            while True:
                if pos[0] >= len(toks):
                    raise Unsupported("%s: unbalanced parentheses" % fname)
                if toks[pos[0]] == ")":
                    pos[0] += 1
                    return out
                out.append(datum())
        if t == ")":
            raise Unsupported("%s: unbalanced ')'" % fname)
        if t[0] == "str":
            return Str(t[1])
        return parse_atom(t[1], fname)

    forms = []
    while pos[0] < len(toks):
        forms.append(datum())
    return forms


def quoted_vector_define(forms, name, fname):
    """the datum V of the unique top-level (define <name> '#(...)) of the file"""
    found = [f for f in forms
             if type(f) is list and len(f) >= 2 and isinstance(f[0], Sym) and f[0] == "define"
             and isinstance(f[1], Sym) and f[1] == name]
    if len(found) != 1:
        raise Unsupported("%s: %d top-level definitions of %s (expected 1)" % (fname, len(found), name))
    f = found[0]
    if len(f) != 3:
        raise Unsupported("%s: (define %s ...) has %d sub-forms" % (fname, name, len(f)))
    q = f[2]
    if not (type(q) is list and len(q) == 2 and isinstance(q[0], Sym) and q[0] == "quote" and isinstance(q[1], Vec)):
        raise Unsupported("%s: %s is not a quoted vector literal" % (fname, name))
    return q[1]


def read_source(path):
    try:
        with open(path, "rb") as f:
            raw = f.read()
    except OSError as e:
        raise Unsupported("cannot read %s: %s" % (path, e))
    try:
        return raw.decode("utf-8", "strict")
    except UnicodeDecodeError as e:
        raise Unsupported("%s is not UTF-8: %s" % (path, e))


# ----------------------------------------------------------------------------- the two tables
MAXCP = 0x1FFFFF     # what a chibi character immediate / 4-byte UTF-8 can hold; cp-ness is proved in Coq


def foldcase_pairs(repo_dir):
    fname = "lib/scheme/char/case-offsets.scm"
    forms = parse_all(read_source(os.path.join(repo_dir, fname)), fname)
    v = quoted_vector_define(forms, "char-foldcase-map", fname)
    if len(v) % 2 != 0:
        raise Unsupported("%s: char-foldcase-map has an odd number of entries (%d)" % (fname, len(v)))
    for x in v:
        if type(x) is not int or x < 0 or x > MAXCP:
            raise Unsupported("%s: char-foldcase-map entry %r is not an integer in range" % (fname, x))
    return [(v[i], v[i + 1]) for i in range(0, len(v), 2)]


def special_rows(repo_dir):
    fname = "lib/scheme/char/special-casing.scm"
    forms = parse_all(read_source(os.path.join(repo_dir, fname)), fname)
    v = quoted_vector_define(forms, "special-cases", fname)
    rows = []
    for r in v:
        if not isinstance(r, Vec) or len(r) not in (4, 5):
            raise Unsupported("%s: special-cases row %d is not a vector of 4 or 5 entries" % (fname, len(rows)))
        if type(r[0]) is not int or r[0] < 0 or r[0] > MAXCP:
            raise Unsupported("%s: special-cases row code %r" % (fname, r[0]))
        for s in r[1:]:
            if not isinstance(s, Str):
                raise Unsupported("%s: special-cases row #x%x has a non-string column" % (fname, r[0]))
            for c in s.cps:
                if c < 0 or c > MAXCP:
                    raise Unsupported("%s: special-cases row #x%x: code point out of range" % (fname, r[0]))
        # (vector-ref vec (if (>= off (vector-length vec)) 1 off)) with off = 4
        col = 4 if len(r) > 4 else 1
        rows.append((r[0], list(r[col].cps)))
    if not rows:
        raise Unsupported("%s: special-cases is empty (char-get-special-case would read out of bounds)" % fname)
    return rows


def coq_list(items, per_line=8):
    lines = []
    for i in range(0, len(items), per_line):
        lines.append("  " + "; ".join(items[i:i + per_line]))
    return "[\n" + ";\n".join(lines) + "\n]" if items else "[]"


def translate(repo_dir):
    pairs = foldcase_pairs(repo_dir)
    rows = special_rows(repo_dir)
    out = []
    out.append("(* GENERATED on every run by gen/c12_casefold.py from lib/scheme/char/case-offsets.scm\n"
               "   (char-foldcase-map) and lib/scheme/char/special-casing.scm (special-cases) of the checked\n"
               "   repository.  Source order is kept; nothing is sorted or deduplicated.  Do not edit. *)\n")
    out.append("From Coq Require Import ZArith List.\nImport ListNotations.\nLocal Open Scope Z_scope.\n\n")
    out.append("(* char-foldcase-map: (key, value) pairs of the flat vector #(key value key value ...) *)\n")
    out.append("Definition foldcase_map : list (Z * Z) := %s.\n\n" % coq_list(["(%d, %d)" % p for p in pairs]))
    out.append("Definition foldcase_map_len : nat := %d%%nat.\n\n" % len(pairs))
    out.append("(* special-cases: (code, what (char-get-special-case ch 4) returns, as code points):\n"
               "   the fold column of a 5-entry row, the LOWER column of a 4-entry row *)\n")
    out.append("Definition special_fold : list (Z * list Z) := %s.\n\n"
               % coq_list(["(%d, [%s])" % (c, "; ".join(str(x) for x in s)) for c, s in rows], per_line=4))
    out.append("Definition special_fold_len : nat := %d%%nat.\n" % len(rows))
    return "".join(out)


def regen(ctx, repo_dir):
    """regenerate coq/Gen/C12_CaseFold.v; on anything unexpected: ctx.broken (fail closed) and a stub
    without the tables (C12/CiModel.v then fails to compile visibly)."""
    try:
        txt = translate(repo_dir)
    except Unsupported as e:
        ctx.broken("translator:C12_CaseFold", "case-folding tables outside the translated shape: %s" % e)
        ctx.gen("C12_CaseFold", "(* translator failed closed: %s *)\nDefinition c12_casefold_translation_failed : True := I.\n"
                % str(e).replace("*)", "* )").replace("(*", "( *"))
        return None
    ctx.gen("C12_CaseFold", txt)
    return True


if __name__ == "__main__":
    print(translate(sys.argv[1]), end="")
