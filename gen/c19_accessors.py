"""C19 (G): regenerate the table of stub-generated numeric bytevector accessors from
$VERIF_REPO/lib/scheme/bytevector.stub into coq/Gen/C19_AccTable.v.

For every `(define-c RET NAME (ARGS) (assert ...) (inline "C expression"))` the table records
  * the ACCESSED window: [k, k + sizeof(T)) where T is the type the C helper named in the inline text
    (ref_X / set_X: `T v; memcpy(&v, p, sizeof(v))`, or the `((int8_t*)bv)[k]` form) copies,
  * the ASSERTED window: read off the (assert ...) conjuncts, which must have one of the shapes
        (< -1 argI (bytevector-length argB))       0 <= k,  k + 1 <= len
        (< -1 argI)                                0 <= k
        (<= (+ N argI) (bytevector-length argB))   k + N <= len      (also (+ argI N))
    and must speak about the same index / bytevector arguments as the inline text,
  * the DECLARED C type of the result (ref) or of the value argument (set!) and its width,
  * kind (signed / unsigned / ieee single / ieee double), ref or set!, explicit endianness or native.
Anything outside this subset raises Unsupported (the plugin reports it as broken: fail closed).
coq/C19/AccTableProofs.v proves over the generated table (forallb by vm_compute, lifted) that asserted window =
accessed window for every entry; props/C19.py drives its K-outer sweep from the same table, so an accessor added
to the stub is proved about and exercised without anyone editing the check."""
import os, re
from vlib import build as B


class Unsupported(Exception):
    pass


CTYPES = {"int8_t": ("KSint", 1), "uint8_t": ("KUint", 1), "int16_t": ("KSint", 2), "uint16_t": ("KUint", 2),
          "int32_t": ("KSint", 4), "uint32_t": ("KUint", 4), "int64_t": ("KSint", 8), "uint64_t": ("KUint", 8),
          "float": ("KF32", 4), "double": ("KF64", 8)}
SWAP_FOR = {("KSint", 2): "s16", ("KUint", 2): "u16", ("KSint", 4): "s32", ("KUint", 4): "u32", ("KSint", 8): "s64", ("KUint", 8): "u64",
            ("KF32", 4): "float", ("KF64", 8): "double"}


# ------------------------------------------------------------------ a small s-expression reader
def read_all(text):
    pos, n = 0, len(text)

    def skip():
        nonlocal pos
        while pos < n:
            c = text[pos]
            if c in " \t\r\n":
                pos += 1
            elif c == ";":
                while pos < n and text[pos] != "\n":
                    pos += 1
            else:
                break

    def read():
        nonlocal pos
        skip()
        if pos >= n:
            raise Unsupported("unexpected end of stub file")
        c = text[pos]
        if c == "(":
            pos += 1
            out = []
            while True:
                skip()
                if pos >= n:
                    raise Unsupported("unbalanced parenthesis")
                if text[pos] == ")":
                    pos += 1
                    return out
                out.append(read())
        if c == ")":
            raise Unsupported("stray )")
        if c == '"':
            pos += 1
            buf = []
            while pos < n and text[pos] != '"':
                if text[pos] == "\\":
                    pos += 1
                buf.append(text[pos])
                pos += 1
            pos += 1
            return ("str", "".join(buf))
        st = pos
        while pos < n and text[pos] not in " \t\r\n()\";":
            pos += 1
        return text[st:pos]

    forms = []
    while True:
        skip()
        if pos >= n:
            return forms
        forms.append(read())


# ------------------------------------------------------------------ C helpers: how many bytes does ref_X / set_X copy
def helper_types(cdecl):
    refs, sets = {}, {}
    for m in re.finditer(r"static\s+inline\s+(\w+)\s+ref_(\w+)\s*\(\s*const\s+void\s*\*\s*p\s*\)\s*\{\s*(\w+)\s+v;\s*memcpy\(&v,\s*p,\s*sizeof\(v\)\);\s*return\s+v;\s*\}", cdecl):
        if m.group(1) != m.group(3):
            raise Unsupported("ref_%s: return type %s but copies a %s" % (m.group(2), m.group(1), m.group(3)))
        refs[m.group(2)] = m.group(1)
    for m in re.finditer(r"static\s+inline\s+void\s+set_(\w+)\s*\(\s*void\s*\*\s*p,\s*(\w+)\s+v\s*\)\s*\{\s*memcpy\(p,\s*&v,\s*sizeof\(v\)\);\s*\}", cdecl):
        sets[m.group(1)] = m.group(2)
    n_ref = len(re.findall(r"\bref_\w+\s*\(\s*const", cdecl))
    n_set = len(re.findall(r"\bvoid\s+set_\w+\s*\(", cdecl))
    if n_ref != len(refs) or n_set != len(sets):
        raise Unsupported("a ref_/set_ helper is not of the form `T v; memcpy(&v, p, sizeof(v))` (%d/%d ref, %d/%d set recognised)" % (len(refs), n_ref, len(sets), n_set))
    return refs, sets


def argno(s):
    m = re.fullmatch(r"arg(\d)", s) if isinstance(s, str) else None
    if not m:
        raise Unsupported("expected argN, got %r" % (s,))
    return int(m.group(1))


def parse_assert(form, name):
    """-> (lower: set of index args with 0 <= k, upper: list of (index arg, N, bv arg))"""
    lower, upper = set(), []
    for c in form[1:]:
        if not isinstance(c, list):
            raise Unsupported("%s: assertion conjunct %r" % (name, c))
        if c[0] == "<" and len(c) == 4 and c[1] == "-1" and isinstance(c[3], list) and c[3][0] == "bytevector-length" and len(c[3]) == 2:
            lower.add(argno(c[2]))
            upper.append((argno(c[2]), 1, argno(c[3][1])))
        elif c[0] == "<" and len(c) == 3 and c[1] == "-1":
            lower.add(argno(c[2]))
        elif c[0] == "<=" and len(c) == 3 and isinstance(c[1], list) and c[1][0] == "+" and len(c[1]) == 3 \
                and isinstance(c[2], list) and c[2][0] == "bytevector-length" and len(c[2]) == 2:
            a, b = c[1][1], c[1][2]
            if isinstance(a, str) and re.fullmatch(r"\d+", a):
                nn, ia = int(a), argno(b)
            elif isinstance(b, str) and re.fullmatch(r"\d+", b):
                nn, ia = int(b), argno(a)
            else:
                raise Unsupported("%s: assertion conjunct %r" % (name, c))
            upper.append((ia, nn, argno(c[2][1])))
        else:
            raise Unsupported("%s: assertion conjunct outside the subset: %r" % (name, c))
    return lower, upper


RE_REF = re.compile(r"ref_(\w+)\(arg(\d)\+arg(\d)\)")
RE_REF_E = re.compile(r"\(arg(\d) == sexp_global\(arg0, SEXP_G_ENDIANNESS\) \? ref_(\w+)\(arg(\d)\+arg(\d)\) : sexp_swap_(\w+)\(ref_(\w+)\(arg(\d)\+arg(\d)\)\)\)")
RE_SET = re.compile(r"set_(\w+)\(arg(\d)\+arg(\d), arg(\d)\)")
RE_SET_E = re.compile(r"set_(\w+)\(arg(\d)\+arg(\d), \(arg(\d) == sexp_global\(arg0, SEXP_G_ENDIANNESS\) \? arg(\d) : sexp_swap_(\w+)\(arg(\d)\)\)\)")
RE_IDX = re.compile(r"\(\((\w+)\*\)arg(\d)\)\[arg(\d)\]( = arg(\d))?")


def parse(src):
    forms = read_all(src)
    cdecl = ""
    for f in forms:
        if isinstance(f, list) and f and f[0] == "c-declare":
            cdecl += "\n".join(x[1] for x in f[1:] if isinstance(x, tuple))
    refs, sets = helper_types(cdecl)
    table, others = [], []
    for f in forms:
        if not (isinstance(f, list) and f and f[0] == "define-c"):
            continue
        ret, name, args, body = f[1], f[2], f[3], f[4:]
        inl = [b for b in body if isinstance(b, list) and b and b[0] == "inline"]
        asr = [b for b in body if isinstance(b, list) and b and b[0] == "assert"]
        if not inl:
            if asr or not isinstance(name, list):
                raise Unsupported("define-c %r has no inline body but is not a plain C binding" % (name,))
            others.append(name[0])
            continue
        if not isinstance(name, str) or len(inl) != 1 or len(inl[0]) != 2 or not isinstance(inl[0][1], tuple):
            raise Unsupported("define-c %r: unexpected inline form" % (name,))
        if len(body) != len(inl) + len(asr):
            raise Unsupported("%s: body forms other than assert/inline" % name)
        text = inl[0][1][1].strip()
        # argument positions (C numbering: every entry of ARGS, including (value ctx sexp), is an argN)
        if "bytevector" not in args:
            raise Unsupported("%s: no bytevector argument" % name)
        bvpos = args.index("bytevector")
        if bvpos + 1 >= len(args) or args[bvpos + 1] != "int":
            raise Unsupported("%s: the argument after the bytevector is not an int index" % name)
        idxpos = bvpos + 1
        has_ctx = bvpos == 1 and args[0] == ["value", "ctx", "sexp"]
        if bvpos != (1 if has_ctx else 0):
            raise Unsupported("%s: unexpected argument list %r" % (name, args))
        is_set = ret == "void"
        rest = args[idxpos + 1:]
        e = dict(name=name, set=is_set)
        if (m := RE_REF_E.fullmatch(text)) and not is_set:
            ea, h1, b1, i1, sw, h2, b2, i2 = m.groups()
            if not (h1 == h2 and b1 == b2 and i1 == i2 and rest == ["sexp"] and int(ea) == idxpos + 1 and has_ctx):
                raise Unsupported("%s: the two branches of the endianness test differ or the endianness argument is misplaced" % name)
            helper, swap, accbv, accidx, endian, ctype = h1, sw, int(b1), int(i1), True, refs.get(h1)
        elif (m := RE_REF.fullmatch(text)) and not is_set:
            h1, b1, i1 = m.groups()
            if rest:
                raise Unsupported("%s: extra arguments %r" % (name, rest))
            helper, swap, accbv, accidx, endian, ctype = h1, None, int(b1), int(i1), False, refs.get(h1)
        elif (m := RE_SET_E.fullmatch(text)) and is_set:
            h1, b1, i1, ea, va, sw, va2 = m.groups()
            if not (va == va2 and len(rest) == 2 and rest[1] == "sexp" and int(va) == idxpos + 1 and int(ea) == idxpos + 2 and has_ctx):
                raise Unsupported("%s: value / endianness arguments are not where the inline text uses them" % name)
            helper, swap, accbv, accidx, endian, ctype = h1, sw, int(b1), int(i1), True, sets.get(h1)
        elif (m := RE_SET.fullmatch(text)) and is_set:
            h1, b1, i1, va = m.groups()
            if not (len(rest) == 1 and int(va) == idxpos + 1):
                raise Unsupported("%s: value argument is not where the inline text uses it" % name)
            helper, swap, accbv, accidx, endian, ctype = h1, None, int(b1), int(i1), False, sets.get(h1)
        elif (m := RE_IDX.fullmatch(text)) and (bool(m.group(4)) == is_set):
            ctype, b1, i1 = m.group(1), m.group(2), m.group(3)
            if is_set and not (len(rest) == 1 and int(m.group(5)) == idxpos + 1):
                raise Unsupported("%s: value argument is not where the inline text uses it" % name)
            helper, swap, accbv, accidx, endian = None, None, int(b1), int(i1), False
        else:
            raise Unsupported("%s: inline text outside the subset: %s" % (name, text))
        if ctype not in CTYPES:
            raise Unsupported("%s: helper %s copies an unknown C type %r" % (name, helper, ctype))
        kind, width = CTYPES[ctype]
        if accbv != bvpos or accidx != idxpos:
            raise Unsupported("%s: the inline text indexes arg%d+arg%d, the bytevector/index arguments are arg%d/arg%d" % (name, accbv, accidx, bvpos, idxpos))
        if swap is not None and swap != SWAP_FOR.get((kind, width)):
            raise Unsupported("%s: byte swap sexp_swap_%s applied to a %s" % (name, swap, ctype))
        decl = rest[0] if is_set else ret
        if decl not in CTYPES:
            raise Unsupported("%s: declared value type %r" % (name, decl))
        dkind, dwidth = CTYPES[decl]
        if len(asr) > 1:
            raise Unsupported("%s: several assert forms" % name)
        lower, upper = parse_assert(asr[0], name) if asr else (set(), [])
        # only conjuncts about the accessed index / bytevector count; a conjunct about other arguments is outside the subset
        for ia, nn, ba in upper:
            if ia != idxpos or ba != bvpos:
                raise Unsupported("%s: the assertion bounds arg%d against the length of arg%d, the access uses arg%d / arg%d" % (name, ia, ba, idxpos, bvpos))
        for ia in lower:
            if ia != idxpos:
                raise Unsupported("%s: the assertion tests arg%d, the access uses arg%d" % (name, ia, idxpos))
        e.update(endian=endian, kind=kind, width=width, decl_kind=dkind, decl_width=dwidth, lower=bool(lower),
                 assert_width=(max(nn for _, nn, _ in upper) if upper else None), ctype=ctype, decl=decl)
        table.append(e)
    if not table:
        raise Unsupported("no accessor found")
    return table, others


# ------------------------------------------------------------------ lib/srfi/160/uvprims.stub (element-indexed uniform vectors)
def parse_uv(src):
    """rows for the NAMEvector-ref / NAMEvector-set! bindings: (name, set, index arg, vector arg, lower, upper) where
    lower/upper say whether the assertion contains 0 <= argI and argI < (uvector-length argV) for the index / vector
    arguments the C function receives; the C function must index `uv[i]` (or 2i, 2i+1 for the complex ones, or the bit i)."""
    forms = read_all(src)
    cdecl = ""
    for f in forms:
        if isinstance(f, list) and f and f[0] == "c-declare":
            cdecl += "\n".join(x[1] for x in f[1:] if isinstance(x, tuple))
    cfun = {}
    for m in re.finditer(r"\n(?:[\w ]+?)\s+(\w+vector_(?:ref|set))\s*\(([^)]*)\)\s*\{(.*?)\n\}", cdecl, re.S):
        cfun[m.group(1)] = (m.group(2), m.group(3))
    rows = []
    for f in forms:
        if not (isinstance(f, list) and f and f[0] == "define-c"):
            continue
        name = f[2]
        sname = name[0] if isinstance(name, list) else name
        if not re.fullmatch(r"[a-z0-9]+vector-(ref|set!)", sname):
            continue
        cname = name[1][1] if isinstance(name, list) else sname.replace("-", "_").replace("!", "")
        args, body = f[3], f[4:]
        has_ctx = bool(args) and args[0] == ["value", "ctx", "sexp"]
        vpos = 1 if has_ctx else 0
        if len(args) < vpos + 2 or args[vpos + 1] != "int":
            raise Unsupported("%s: argument list %r" % (sname, args))
        ipos = vpos + 1
        if cname not in cfun:
            raise Unsupported("%s: C function %s not found in the c-declare block" % (sname, cname))
        params, cbody = cfun[cname]
        pn = [x.strip().split()[-1].lstrip("*") for x in params.split(",")]
        if len(pn) < ipos + 1 or pn[vpos] != "uv" or pn[ipos] != "i":
            raise Unsupported("%s: parameters of %s are %r" % (sname, cname, pn))
        idx = set(re.findall(r"uv\[([^\]]*)\]", cbody)) | set("bit " + x for x in re.findall(r"sexp_bit_(?:ref|set)\(uv,\s*(\w+)", cbody))
        if not idx or not idx <= {"i", "i*2", "i*2 + 1", "bit i"}:
            raise Unsupported("%s: %s indexes %r" % (sname, cname, sorted(idx)))
        asr = [b for b in body if isinstance(b, list) and b and b[0] == "assert"]
        if len(asr) > 1 or len(body) != len(asr):
            raise Unsupported("%s: body %r" % (sname, body))
        lower = upper = False
        for c in (asr[0][1:] if asr else []):
            if isinstance(c, list) and c[0] == "mutable?" and len(c) == 2 and argno(c[1]) == vpos:
                continue
            if isinstance(c, list) and c[0] == "<" and len(c) == 4 and c[1] == "-1" and isinstance(c[2], str) and argno(c[2]) == ipos \
                    and isinstance(c[3], list) and c[3][0] == "uvector-length" and len(c[3]) == 2 and argno(c[3][1]) == vpos:
                lower = upper = True
                continue
            if isinstance(c, list) and c[0] == "<" and len(c) == 3 and c[1] == "-1" and isinstance(c[2], str) and argno(c[2]) == ipos:
                lower = True
                continue
            if isinstance(c, list) and c[0] == "<" and len(c) == 3 and isinstance(c[1], str) and c[1].startswith("arg") and argno(c[1]) == ipos \
                    and isinstance(c[2], list) and c[2][0] == "uvector-length" and len(c[2]) == 2 and argno(c[2][1]) == vpos:
                upper = True
                continue
            flat = repr(c)
            if "arg%d" % ipos in flat or "arg%d" % vpos in flat:
                raise Unsupported("%s: assertion conjunct about the index / vector outside the subset: %r" % (sname, c))
            # a conjunct about the value argument only (range of the element type): not part of the window
        rows.append(dict(name=sname, set=sname.endswith("set!"), lower=lower, upper=upper, elem=sname.split("vector")[0]))
    if not rows:
        raise Unsupported("no uniform-vector accessor found")
    return rows


def coq_text_uv(rows):
    out = ["(** GENERATED by gen/c19_accessors.py from lib/srfi/160/uvprims.stub -- do not edit *)",
           "From Coq Require Import ZArith List String.", "From ChibiV Require Import C19.UvTable.", "Import ListNotations.", "Local Open Scope string_scope.",
           "Definition uv_table : list uacc := ["]
    out.append(";\n".join('  mkUacc "%s" %s %s %s' % (r["name"], "true" if r["set"] else "false", "true" if r["lower"] else "false", "true" if r["upper"] else "false") for r in rows))
    out.append("].")
    return "\n".join(out) + "\n"


def regen_uv(ctx):
    src = open(os.path.join(B.REPO, "lib", "srfi", "160", "uvprims.stub")).read()
    try:
        rows = parse_uv(src)
    except Unsupported as e:
        ctx.broken("gen:C19_UvTable", "lib/srfi/160/uvprims.stub is outside the translator's subset: %s" % e)
        rows = []
    ctx.gen("C19_UvTable", coq_text_uv(rows))
    if not rows:   # keep the K-outer sweep alive: the names alone
        names = sorted(set(re.findall(r"\(define-c\s+\S+\s+\(?([a-z0-9]+vector-(?:ref|set!))", src)))
        rows = [dict(name=n, set=n.endswith("set!"), lower=True, upper=True, elem=n.split("vector")[0]) for n in names]
    return rows


def coq_text(table, others):
    out = ["(** GENERATED by gen/c19_accessors.py from lib/scheme/bytevector.stub -- do not edit *)",
           "From Coq Require Import ZArith List String.", "From ChibiV Require Import C19.AccTable.", "Import ListNotations.", "Local Open Scope string_scope.",
           "(* define-c forms that are plain C bindings, not accessors: %s *)" % ", ".join(others),
           "Definition acc_table : list acc := ["]
    rows = []
    for e in table:
        rows.append('  mkAcc "%s" %s %s %s %d %s %d %s %s' % (
            e["name"], "true" if e["set"] else "false", "true" if e["endian"] else "false", e["kind"], e["width"], e["decl_kind"], e["decl_width"],
            "true" if e["lower"] else "false", "None" if e["assert_width"] is None else "(Some %d%%Z)" % e["assert_width"]))
    out.append(";\n".join(rows))
    out.append("].")
    return "\n".join(out) + "\n"


def regen(ctx):
    """-> (table, others); table is [] when the stub is outside the subset (reported broken)"""
    src = open(os.path.join(B.REPO, "lib", "scheme", "bytevector.stub")).read()
    try:
        table, others = parse(src)
    except Unsupported as e:
        ctx.broken("gen:C19_AccTable", "lib/scheme/bytevector.stub is outside the translator's subset: %s" % e)
        table, others = [], []
    ctx.gen("C19_AccTable", coq_text(table, others))
    return table, others


if __name__ == "__main__":
    import sys
    if sys.argv[1].endswith("uvprims.stub"):
        sys.stdout.write(coq_text_uv(parse_uv(open(sys.argv[1]).read())))
    else:
        t, o = parse(open(sys.argv[1]).read())
        sys.stdout.write(coq_text(t, o))
