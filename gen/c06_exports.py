"""C06: every exported SPELLING / entry point of a modelled control construct is pinned.

The machine of coq/C06/Machine.v mirrors ONE definition of each construct (call-with-current-continuation,
dynamic-wind, with-exception-handler, raise, raise-continuable, parameterize, guard ...).  A library can give
the same construct a second entry point (`(define call/cc call-with-current-continuation)` in
lib/scheme/extras.scm; (srfi 39) vs (scheme base) `parameterize`; (srfi 18) `with-exception-handler`), and a
change can re-point such an alias at something that bypasses the modelled code (e.g. `call/cc` bound to the
raw stack-copy primitive `%call/cc`).  Three defences, all driven from $VERIF_REPO's working tree:

 (1) static scan of EVERY lib/**/*.sld: which library exports which control-related name (regex NAME_RE);
     compared with PIN_EXPORTS.  A new exporter / a new control-looking name = ctx.broken("exports:<name>")
     (then: add the spelling to props/C06.py SPELLINGS and re-pin).
 (2) static scan of the defining files (DEF_FILES): every top-level definition whose name, or whose
     right-hand side symbol (alias define), is control-related; compared with PIN_DEFS; plus the canonical
     text of lib/srfi/39.sld (which parameterize a build gets) and of the import clause of (scheme base).
 (3) run time (props/C06.py: alias_identity): every exported PROCEDURE spelling must be `eq?` to the
     (chibi) binding the machine mirrors, in the scratch binary.
The print variants of props/C06.py (SPELLINGS) then run the trace correspondence through every spelling."""
import os, re

NAME_RE = re.compile(r"(^call/|^call-with-current|^call-with-escape|continuation|^dynamic-wind|^(with|current)-exception-handler$|^raise|^guard|"
                     r"^parameteri[sz]e|^make-parameter|^let/|^values$|^call-with-values|^error$|^error-object|^protect|^%dk$|^%call|^%values|"
                     r"^travel-to-point|^with-handler|^unwind-protect|^%with-exc|^thread-parameters)")

DEF_FILES = ["lib/init-7.scm", "lib/scheme/extras.scm", "lib/scheme/misc-macros.scm", "lib/scheme/define-values.scm",
             "lib/srfi/39/syntax.scm", "lib/srfi/39/syntax-no-threads.scm", "lib/srfi/18/interface.scm", "lib/srfi/18/types.scm"]

# ---- pins (regenerate with: python3 -c "from gen import c06_exports as E; E.show('/path/to/repo')") ----
PIN_EXPORTS = {'call-with-current-continuation': ['lib/scheme/base.sld', 'lib/scheme/r5rs.sld', 'lib/scheme/red.sld', 'lib/scheme/small.sld'],
 'call-with-values': ['lib/scheme/base.sld', 'lib/scheme/r5rs.sld', 'lib/scheme/red.sld', 'lib/scheme/small.sld'],
 'call/cc': ['lib/scheme/base.sld', 'lib/scheme/red.sld', 'lib/scheme/small.sld'],
 'current-exception-handler': ['lib/srfi/18.sld'],
 'dynamic-wind': ['lib/scheme/base.sld', 'lib/scheme/r5rs.sld', 'lib/scheme/red.sld', 'lib/scheme/small.sld'],
 'error': ['lib/scheme/base.sld', 'lib/scheme/red.sld', 'lib/scheme/small.sld', 'lib/srfi/23.sld'],
 'error-object-irritants': ['lib/scheme/base.sld', 'lib/scheme/small.sld'],
 'error-object-message': ['lib/scheme/base.sld', 'lib/scheme/small.sld'],
 'error-object?': ['lib/scheme/base.sld', 'lib/scheme/small.sld'],
 'guard': ['lib/scheme/base.sld', 'lib/scheme/red.sld', 'lib/scheme/small.sld'],
 'make-parameter': ['lib/scheme/base.sld', 'lib/scheme/red.sld', 'lib/scheme/small.sld', 'lib/srfi/39.sld'],
 'parameterize': ['lib/scheme/base.sld', 'lib/scheme/red.sld', 'lib/scheme/small.sld', 'lib/srfi/39.sld'],
 'raise': ['lib/scheme/base.sld', 'lib/scheme/red.sld', 'lib/scheme/small.sld', 'lib/srfi/18.sld'],
 'raise-continuable': ['lib/scheme/base.sld', 'lib/scheme/red.sld', 'lib/scheme/small.sld'],
 'values': ['lib/scheme/base.sld', 'lib/scheme/r5rs.sld', 'lib/scheme/red.sld', 'lib/scheme/small.sld'],
 'with-exception-handler': ['lib/scheme/base.sld', 'lib/scheme/red.sld', 'lib/scheme/small.sld', 'lib/srfi/18.sld']}
PIN_DEFS = ['lib/init-7.scm: define error',
 'lib/init-7.scm: define %values',
 'lib/init-7.scm: define values',
 'lib/init-7.scm: define call-with-values',
 'lib/init-7.scm [else]: define %dk',
 'lib/init-7.scm: define dynamic-wind',
 'lib/init-7.scm: define travel-to-point!',
 'lib/init-7.scm: define continuation->procedure',
 'lib/init-7.scm: define call-with-current-continuation',
 'lib/init-7.scm: define raise-continuable',
 'lib/init-7.scm [threads]: define %with-exception-handler',
 'lib/init-7.scm [else]: define %with-exception-handler',
 'lib/init-7.scm: define with-exception-handler',
 'lib/init-7.scm: define-syntax protect',
 'lib/init-7.scm: define-syntax protect-aux',
 'lib/scheme/extras.scm: define call/cc = call-with-current-continuation',
 'lib/scheme/misc-macros.scm: define-syntax guard',
 'lib/scheme/misc-macros.scm: define-syntax guard-aux',
 'lib/srfi/39/syntax.scm: define make-parameter',
 'lib/srfi/39/syntax.scm: define-syntax parameterize',
 'lib/srfi/39/syntax-no-threads.scm: define make-parameter',
 'lib/srfi/39/syntax-no-threads.scm: define-syntax parameterize']
PIN_TEXT = {'lib/init-7.scm: values': '(define *values-tag* (list values)) (define (%values ls) (if (and (pair? ls) (null? (cdr ls))) (car ls) (cons '
                           '*values-tag* ls))) (define (values . ls) (%values ls)) (define (call-with-values producer consumer) (let ((res '
                           '(producer))) (if (and (pair? res) (eq? *values-tag* (car res))) (apply consumer (cdr res)) (consumer res))))',
 'lib/scheme/base.sld: import/include clauses': '(import (rename (except (chibi) equal?) (let-syntax let-syntax/splicing) (letrec-syntax '
                                                'letrec-syntax/splicing)) (rename (chibi equiv) (equiv? equal?)) (only (chibi string) string-map '
                                                'string-for-each) (chibi io) (rename (only (chibi ast) exception? exception-message '
                                                'exception-irritants) (exception? error-object?) (exception-message error-object-message) '
                                                '(exception-irritants error-object-irritants)) (srfi 9) (srfi 11) (srfi 39)) (include '
                                                '"define-values.scm" "extras.scm" "misc-macros.scm")',
 'lib/srfi/18.sld: body': '(cond-expand (threads (import (chibi) (srfi 9) (chibi ast) (except (chibi time) time->seconds seconds->time)) (include '
                          '"18/types.scm") (include-shared "18/threads") (include "18/interface.scm")) (else (error "chibi was not compiled with '
                          'threading support")))',
 'lib/srfi/39.sld': '((define-library (srfi 39) (export make-parameter parameterize) (import (chibi)) (include-shared "39/param") (cond-expand '
                    '(threads (include "39/syntax.scm")) (else (include "39/syntax-no-threads.scm")))))'}
PIN_VM = {'vm.c: RESUMECC+CALLCC': 'case SEXP_OP_RESUMECC: sexp_context_top(ctx) = top; tmp1 = stack[fp-1]; tmp2 = sexp_restore_stack(ctx, '
                          'sexp_vector_ref(cp, 0)); if (sexp_exceptionp(tmp2)) {_ARG1 = tmp2; goto call_error_handler;} stack = '
                          'sexp_stack_data(sexp_context_stack(ctx)); /* may have grown */ top = sexp_context_top(ctx); fp = '
                          'sexp_unbox_fixnum(_ARG1); self = _ARG2; bc = sexp_procedure_code(self); cp = sexp_procedure_vars(self); ip = '
                          'sexp_bytecode_data(bc) + sexp_unbox_fixnum(_ARG3); top -= 4; _ARG1 = tmp1; break; case SEXP_OP_CALLCC: stack[top] = '
                          'SEXP_ONE; stack[top+1] = sexp_make_fixnum(ip-sexp_bytecode_data(bc)); stack[top+2] = self; stack[top+3] = '
                          'sexp_make_fixnum(fp); tmp1 = _ARG1; i = 1; sexp_context_top(ctx) = top; tmp2 = sexp_make_vector(ctx, SEXP_ONE, '
                          'SEXP_UNDEF); sexp_vector_set(tmp2, SEXP_ZERO, sexp_save_stack(ctx, stack, top+4)); _ARG1 = sexp_make_procedure(ctx, '
                          'SEXP_ZERO, SEXP_ONE, sexp_global(ctx, SEXP_G_RESUMECC_BYTECODE), tmp2); top++; ip -= sizeof(sexp); goto make_call;',
 'vm.c: grow/save/restore': 'static int sexp_grow_stack (sexp ctx, int min_size) { sexp stack, old_stack = sexp_context_stack(ctx), *from, *to; int '
                            'i, size = sexp_stack_length(old_stack), new_size; new_size = size * 2; if (new_size < min_size) new_size = min_size; if '
                            '(new_size > SEXP_MAX_STACK_SIZE) { if (size == SEXP_MAX_STACK_SIZE || min_size > SEXP_MAX_STACK_SIZE) return 0; '
                            'new_size = SEXP_MAX_STACK_SIZE; } stack = sexp_alloc_tagged(ctx, (sexp_sizeof(stack)+sizeof(sexp)*new_size), '
                            'SEXP_STACK); if (!stack || sexp_exceptionp(stack)) return 0; sexp_stack_length(stack) = new_size; sexp_stack_top(stack) '
                            '= sexp_context_top(ctx); from = sexp_stack_data(old_stack); to = sexp_stack_data(stack); for '
                            '(i=sexp_context_top(ctx)+1; i>=0; i--) to[i] = from[i]; for (; ctx; ctx=sexp_context_parent(ctx)) if '
                            '(sexp_context_stack(ctx) == old_stack) sexp_context_stack(ctx) = stack; return 1; } #else #define sexp_grow_stack(ctx, '
                            'min_size) 0 #endif static sexp sexp_save_stack (sexp ctx, sexp *stack, sexp_uint_t to) { sexp res, *data; sexp_uint_t '
                            'i; res = sexp_make_vector(ctx, sexp_make_fixnum(to), SEXP_VOID); data = sexp_vector_data(res); for (i=0; i<to; i++) '
                            'data[i] = stack[i]; return res; } static sexp sexp_restore_stack (sexp ctx, sexp saved) { sexp_uint_t len = '
                            'sexp_vector_length(saved), i; sexp *from = sexp_vector_data(saved), *to; #if SEXP_USE_CHECK_STACK if ((len+64 >= '
                            'sexp_stack_length(sexp_context_stack(ctx))) && !sexp_grow_stack(ctx, len+64)) return sexp_global(ctx, '
                            'SEXP_G_OOS_ERROR); #endif to = sexp_stack_data(sexp_context_stack(ctx)); for (i=0; i<len; i++) to[i] = from[i]; '
                            'sexp_context_top(ctx) = len; return SEXP_VOID; }'}
PIN_OPCODES = ['_PARAM("current-exception-handler", _I(SEXP_PROCEDURE)),',
 '_OP(SEXP_OPC_GENERIC, SEXP_OP_APPLY1, 2, 16, _I(SEXP_OBJECT), _I(SEXP_PROCEDURE), SEXP_NULL, SEXP_FALSE, 0, "apply1", 0, NULL),',
 '_OP(SEXP_OPC_GENERIC, SEXP_OP_CALLCC, 1, 0, _I(SEXP_OBJECT), _I(SEXP_PROCEDURE), SEXP_FALSE, SEXP_FALSE, 0, "%call/cc", 0, NULL),',
 '_OP(SEXP_OPC_GENERIC, SEXP_OP_RAISE, 1, 0, _I(SEXP_OBJECT), _I(SEXP_OBJECT), SEXP_FALSE, SEXP_FALSE, 0, "raise", 0, NULL),',
 '_FN1OPT(_I(SEXP_OBJECT), _I(SEXP_OBJECT), "%dk", SEXP_FALSE, sexp_dk),',
 '_FN0(_I(SEXP_OBJECT), "thread-parameters", 0, sexp_thread_parameters),',
 '_FN1(_I(SEXP_OBJECT), _I(SEXP_OBJECT), "thread-parameters-set!", 0, sexp_thread_parameters_set),']


# ---------------------------------------------------------------------------- tolerant reader (quasiquote, chars, vectors)

# round 4 pins (text of /repo HEAD eeb17b2)
PIN_VM.update({'eval.c: parameter_ref/dk/thread_parameters': 'sexp sexp_parameter_ref (sexp ctx, sexp param) { #if SEXP_USE_GREEN_THREADS sexp ls; for '
                                               '(ls=sexp_context_params(ctx); sexp_pairp(ls); ls=sexp_cdr(ls)) if (sexp_caar(ls) == param) return '
                                               'sexp_cdar(ls); #endif return sexp_opcodep(param) && sexp_opcode_data(param) && '
                                               'sexp_pairp(sexp_opcode_data(param)) ? sexp_cdr(sexp_opcode_data(param)) : SEXP_FALSE; } #if '
                                               'SEXP_USE_GREEN_THREADS sexp sexp_dk (sexp ctx, sexp self, sexp_sint_t n, sexp val) { if '
                                               '(sexp_not(val)) { return sexp_context_dk(ctx) ? sexp_context_dk(ctx) : SEXP_FALSE; } else { '
                                               'sexp_context_dk(ctx) = val; return SEXP_VOID; } } #endif sexp sexp_thread_parameters (sexp ctx, sexp '
                                               'self, sexp_sint_t n) { sexp res = sexp_context_params(ctx); return res ? res : SEXP_NULL; } sexp '
                                               'sexp_thread_parameters_set (sexp ctx, sexp self, sexp_sint_t n, sexp new) { sexp_context_params(ctx) '
                                               '= new; return SEXP_VOID; }',
 'vm.c: PARAMETER_REF': 'case SEXP_OP_PARAMETER_REF: _ALIGN_IP(); sexp_context_top(ctx) = top; tmp2 = _WORD0; ip += sizeof(sexp); for '
                        '(tmp1=sexp_context_params(ctx); sexp_pairp(tmp1); tmp1=sexp_cdr(tmp1)) if (sexp_caar(tmp1) == tmp2) { '
                        '_PUSH(sexp_car(tmp1)); goto loop; } _PUSH(sexp_opcode_data(tmp2)); break; #endif',
 'vm.c: call_error_handler+RAISE': 'call_error_handler: if (! sexp_exception_procedure(_ARG1)) sexp_exception_procedure(_ARG1) = self; #if '
                                   'SEXP_USE_FULL_SOURCE_INFO if (sexp_not(sexp_exception_source(_ARG1)) && '
                                   'sexp_procedurep(sexp_exception_procedure(_ARG1)) && sexp_procedure_source(sexp_exception_procedure(_ARG1))) '
                                   'sexp_exception_source(_ARG1) = sexp_lookup_source_info(sexp_exception_procedure(_ARG1), '
                                   '(ip-sexp_bytecode_data(bc))); #endif case SEXP_OP_RAISE: sexp_context_top(ctx) = top; if '
                                   '(sexp_trampolinep(_ARG1)) { tmp1 = sexp_trampoline_procedure(_ARG1); tmp2 = sexp_trampoline_args(_ARG1); if '
                                   '(sexp_trampoline_abortp(_ARG1)) { /* abort - do not catch */ _ARG1 = tmp2; goto end_loop; } top--; if '
                                   '(sexp_not(tmp1) && sexp_pairp(tmp2)) { /* noop trampoline is */ _PUSH(sexp_car(tmp2)); /* a wrapped exception */ '
                                   'goto loop; } goto apply1; } tmp1 = sexp_parameter_ref(ctx, sexp_global(ctx, SEXP_G_ERR_HANDLER)); '
                                   'sexp_context_last_fp(ctx) = fp; if (! sexp_procedurep(tmp1)) { #if SEXP_USE_GREEN_THREADS '
                                   'sexp_context_errorp(ctx) = 1; #endif if (!sexp_exceptionp(_ARG1)) { _ARG1 = sexp_make_exception(ctx, '
                                   'SEXP_UNCAUGHT, SEXP_FALSE, _ARG1, self, SEXP_FALSE); } sexp_context_top(ctx) = top; '
                                   'sexp_exception_stack_trace(_ARG1) = sexp_get_stack_trace(ctx); goto end_loop; } stack[top] = SEXP_ONE; '
                                   'stack[top+1] = sexp_make_fixnum(ip-sexp_bytecode_data(bc)); stack[top+2] = self; stack[top+3] = '
                                   'sexp_make_fixnum(fp); top += 4; self = tmp1; bc = sexp_procedure_code(self); ip = sexp_bytecode_data(bc); cp = '
                                   'sexp_procedure_vars(self); fp = top-4; break;'})

def _tokens(text):
    i, n = 0, len(text)
    while i < n:
        c = text[i]
        if c in " \t\r\n":
            i += 1
        elif c == ";":
            while i < n and text[i] != "\n":
                i += 1
        elif text.startswith("#|", i):
            j = text.find("|#", i)
            i = n if j < 0 else j + 2
        elif text.startswith("#;", i):
            i += 2                      # datum comment: the datum is read and (harmlessly) kept
        elif c in "([":
            yield "("
            i += 1
        elif c in ")]":
            yield ")"
            i += 1
        elif c == '"':
            j = i + 1
            while j < n and text[j] != '"':
                j += 2 if text[j] == "\\" else 1
            yield ("str", text[i + 1:j])
            i = j + 1
        elif text.startswith("#\\", i):
            j = i + 3
            while j < n and text[j] not in " \t\r\n()[];\"":
                j += 1
            yield text[i:j]
            i = j
        elif c in "'`":
            i += 1
        elif c == ",":
            i += 2 if text.startswith(",@", i) else 1
        else:
            j = i
            while j < n and text[j] not in " \t\r\n()[];\"'":
                j += 1
            yield text[i:j]
            i = j


def read_all(text):
    """all top-level data of a file; lists are python lists, symbols str, strings ('str', s); quote marks dropped"""
    stack = [[]]
    for t in _tokens(text):
        if t == "(":
            stack.append([])
        elif t == ")":
            if len(stack) > 1:
                x = stack.pop()
                stack[-1].append(x)
        else:
            stack[-1].append(t)
    while len(stack) > 1:
        x = stack.pop()
        stack[-1].append(x)
    return stack[0]


def canon(d):
    if isinstance(d, list):
        return "(" + " ".join(canon(x) for x in d) + ")"
    if isinstance(d, tuple):
        return '"' + d[1] + '"'
    return d


def _exports(form, out):
    """names exported by a define-library form, through cond-expand arms too"""
    if not isinstance(form, list) or not form:
        return
    if form[0] == "export":
        for x in form[1:]:
            if isinstance(x, str):
                out.add(x)
            elif isinstance(x, list) and len(x) == 3 and x[0] == "rename" and isinstance(x[2], str):
                out.add(x[2])
        return
    for x in form[1:]:
        if isinstance(x, list):
            _exports(x, out)


def scan_exports(repo):
    """{name: [library files exporting it]} for control-related names, over every .sld of the tree"""
    res = {}
    lib = os.path.join(repo, "lib")
    for root, _dirs, files in sorted(os.walk(lib)):
        for f in sorted(files):
            if not f.endswith(".sld"):
                continue
            path = os.path.join(root, f)
            try:
                forms = read_all(open(path, errors="replace").read())
            except OSError:
                continue
            names = set()
            for fm in forms:
                if isinstance(fm, list) and fm and fm[0] == "define-library":
                    _exports(fm, names)
            rel = os.path.relpath(path, repo)
            for nm in names:
                if NAME_RE.search(nm):
                    res.setdefault(nm, []).append(rel)
    return {k: sorted(v) for k, v in sorted(res.items())}


def scan_defs(repo):
    """['file: NAME' | 'file: NAME = RHS'] for top-level definitions with a control-related name or alias target"""
    out = []
    for rel in DEF_FILES:
        path = os.path.join(repo, rel)
        if not os.path.exists(path):
            out.append("%s: MISSING" % rel)
            continue
        forms = read_all(open(path, errors="replace").read())

        def walk(fm, ctxs):
            if not isinstance(fm, list) or not fm or not isinstance(fm[0], str):
                return
            h = fm[0]
            if h in ("cond-expand",):
                for arm in fm[1:]:
                    if isinstance(arm, list):
                        for x in arm[1:]:
                            walk(x, ctxs + [canon(arm[0])])
                return
            if h == "begin":
                for x in fm[1:]:
                    walk(x, ctxs)
                return
            if h in ("define", "define-syntax") and len(fm) >= 2:
                tgt = fm[1]
                name = tgt if isinstance(tgt, str) else (tgt[0] if isinstance(tgt, list) and tgt and isinstance(tgt[0], str) else None)
                if name is None:
                    return
                rhs = fm[2] if (isinstance(tgt, str) and len(fm) == 3 and isinstance(fm[2], str)) else None
                if NAME_RE.search(name) or (rhs is not None and NAME_RE.search(rhs)):
                    where = rel + ("" if not ctxs else " [" + " ".join(ctxs) + "]")
                    out.append("%s: %s %s" % (where, h, name) + (" = %s" % rhs if rhs is not None else ""))
        for fm in forms:
            walk(fm, [])
    return out


def scan_text(repo):
    out = {}
    p = os.path.join(repo, "lib/srfi/39.sld")
    out["lib/srfi/39.sld"] = canon(read_all(open(p).read())) if os.path.exists(p) else "MISSING"
    p = os.path.join(repo, "lib/scheme/base.sld")
    txt = "MISSING"
    if os.path.exists(p):
        for fm in read_all(open(p).read()):
            if isinstance(fm, list) and fm and fm[0] == "define-library":
                txt = " ".join(canon(x) for x in fm[2:] if isinstance(x, list) and x and x[0] in ("import", "include", "include-shared", "begin", "cond-expand"))
    out["lib/scheme/base.sld: import/include clauses"] = txt
    p = os.path.join(repo, "lib/srfi/18.sld")
    txt = "MISSING"
    if os.path.exists(p):
        for fm in read_all(open(p).read()):
            if isinstance(fm, list) and fm and fm[0] == "define-library":
                txt = " ".join(canon(x) for x in fm[2:] if isinstance(x, list) and x and x[0] != "export")
    out["lib/srfi/18.sld: body"] = txt
    # the definitions coq/C06/ValuesModel.v mirrors
    p = os.path.join(repo, "lib/init-7.scm")
    if os.path.exists(p):
        want = {"*values-tag*", "%values", "values", "call-with-values"}
        got = []
        for fm in read_all(open(p, errors="replace").read()):
            if isinstance(fm, list) and len(fm) >= 3 and fm[0] == "define":
                nm = fm[1] if isinstance(fm[1], str) else (fm[1][0] if fm[1] and isinstance(fm[1][0], str) else None)
                if nm in want:
                    got.append(canon(fm))
        out["lib/init-7.scm: values"] = " ".join(got)
    return out


OPCODE_NAMES = ["%call/cc", "%dk", "raise", "thread-parameters", "thread-parameters-set!", "current-exception-handler", "%values",
                "call-with-values", "apply1"]


def scan_opcodes(repo):
    """the opcodes.c table lines of the primitives under the modelled constructs"""
    out = []
    p = os.path.join(repo, "opcodes.c")
    if not os.path.exists(p):
        return ["MISSING"]
    for line in open(p, errors="replace"):
        for nm in OPCODE_NAMES:
            if '"%s"' % nm in line:
                out.append(" ".join(line.split()))
    return out


def scan_vm(repo):
    """canonical text of the opcodes and helpers behind call/cc in vm.c, which coq/C06/StackModel.v mirrors by hand"""
    out = {}
    p = os.path.join(repo, "vm.c")
    if not os.path.exists(p):
        return {"vm.c": "MISSING"}
    text = open(p, errors="replace").read()
    for name, start, stop in (("RESUMECC+CALLCC", "  case SEXP_OP_RESUMECC:", "  case SEXP_OP_APPLY1:"),
                              ("grow/save/restore", "static int sexp_grow_stack (", "#if SEXP_USE_VERIF_HOOKS"),
                              # round 4: the VM side of raise (handler looked up in the per-thread alist and CALLED from the
                              # raise point) and of a parameter read, which coq/C06/Machine.v mirrors by hand
                              ("call_error_handler+RAISE", "  call_error_handler:", "  case SEXP_OP_RESUMECC:"),
                              ("PARAMETER_REF", "  case SEXP_OP_PARAMETER_REF:", "  case SEXP_OP_STACK_REF:")):
        a = text.find(start)
        b = text.find(stop, a + 1) if a >= 0 else -1
        out["vm.c: " + name] = " ".join(text[a:b].split()) if a >= 0 and b > a else "NOT FOUND"
    # round 4: the C primitives holding the per-thread dynamic state (parameter alist lookup, %dk, thread-parameters[-set!])
    pe = os.path.join(repo, "eval.c")
    if not os.path.exists(pe):
        out["eval.c"] = "MISSING"
        return out
    text = open(pe, errors="replace").read()
    a = text.find("sexp sexp_parameter_ref (sexp ctx, sexp param) {")
    b = text.find("void sexp_set_parameter (", a + 1) if a >= 0 else -1
    out["eval.c: parameter_ref/dk/thread_parameters"] = " ".join(text[a:b].split()) if a >= 0 and b > a else "NOT FOUND"
    return out


def show(repo):
    import pprint
    print("PIN_EXPORTS = ", end="")
    pprint.pprint(scan_exports(repo), width=150)
    print("PIN_DEFS = ", end="")
    pprint.pprint(scan_defs(repo), width=150)
    print("PIN_TEXT = ", end="")
    pprint.pprint(scan_text(repo), width=150)
    print("PIN_VM = ", end="")
    pprint.pprint(scan_vm(repo), width=150)
    print("PIN_OPCODES = ", end="")
    pprint.pprint(scan_opcodes(repo), width=150)


def check(ctx):
    from vlib import build as B
    ok = True
    ex = scan_exports(B.REPO)
    for nm in sorted(set(ex) | set(PIN_EXPORTS)):
        if ex.get(nm) != PIN_EXPORTS.get(nm):
            ok = False
            ctx.broken("exports:" + nm, "the set of libraries exporting the control-related name `%s` changed: pinned %s, now %s — a new spelling / entry "
                       "point of a modelled construct must be added to the print variants (props/C06.py SPELLINGS) and re-pinned" % (
                           nm, PIN_EXPORTS.get(nm), ex.get(nm)))
    df = scan_defs(B.REPO)
    if df != PIN_DEFS:
        ok = False
        a, b = set(PIN_DEFS), set(df)
        ctx.broken("exports:definitions", "top-level definitions / aliases of control constructs changed: removed %s, added %s" % (
            sorted(a - b)[:8], sorted(b - a)[:8]))
    tx = scan_text(B.REPO)
    for k in sorted(set(tx) | set(PIN_TEXT)):
        if tx.get(k) != PIN_TEXT.get(k):
            ok = False
            ctx.broken("exports:text:" + k, "%s changed (which definition of a modelled construct a library selects / re-exports); now: %s" % (k, (tx.get(k) or "")[:500]))
    vm = scan_vm(B.REPO)
    for k in sorted(set(vm) | set(PIN_VM)):
        if vm.get(k) != PIN_VM.get(k):
            ok = False
            ctx.broken("mirror:" + k, "%s no longer has the text coq/C06/StackModel.v (callcc / resumecc_g / restore_stack_g / grow_stack) or coq/C06/Machine.v (VM raise, parameter read, %%dk) mirrors; now: %s" % (k, (vm.get(k) or "")[:700]))
    oc = scan_opcodes(B.REPO)
    if oc != PIN_OPCODES:
        ok = False
        ctx.broken("exports:opcodes", "opcodes.c table entries of the control primitives changed: %s" % sorted(set(oc) ^ set(PIN_OPCODES))[:6])
    return ok
