"""C01 translator (G), part 3: the growth arithmetic of the VM stack, vm.c -> coq/Gen/C01_Stack.v

Translated (from the same directives-only preprocessing of vm.c as the guard table):
  * sexp_grow_stack: the statements from the top of the function down to the allocation of the new
    stack object, i.e. the computation of new_size from the old length and min_size, with its
    early `return 0` (out of stack) exits          ->  gen_grow_stack MAX len min_size : option Z
  * the copy loop `for (i=sexp_context_top(ctx)+K; i>=0; i--) to[i] = from[i];`
                                                    ->  gen_grow_copy top : Z   (words copied)
  * the macro sexp_ensure_stack(n): its trigger condition and the size it asks sexp_grow_stack for
                                                    ->  gen_ensure_stack MAX len top n : option Z
Subset: int locals, assignments, if/else, return 0, + - * and comparisons.  Anything else raises
Unsupported (fail closed)."""
import re
from gen.c01_vmguards import P, tokenize, strip_comments, Unsupported, preprocess, TYPES


def function_body(txt, header_re):
    m = re.search(header_re, txt, re.M)
    if not m:
        raise Unsupported("function not found: %s" % header_re)
    i = txt.index("{", m.end() - 1)
    depth, j = 0, i
    while j < len(txt):
        if txt[j] == "{":
            depth += 1
        elif txt[j] == "}":
            depth -= 1
            if depth == 0:
                return txt[i + 1:j]
        j += 1
    raise Unsupported("unbalanced function body")


def split_decls(toks):
    """leading declarations `type a, *b = e, c;` -> [(name, init tokens or None)], rest tokens"""
    decls, i = [], 0
    while i < len(toks) and toks[i][0] == "id" and toks[i][1] in TYPES:
        j, depth = i + 1, 0
        parts, cur = [], []
        while not (toks[j][1] == ";" and depth == 0):
            v = toks[j][1]
            if v in "([{":
                depth += 1
            elif v in ")]}":
                depth -= 1
            if v == "," and depth == 0:
                parts.append(cur)
                cur = []
            else:
                cur.append(toks[j])
            j += 1
        parts.append(cur)
        for p in parts:
            while p and p[0][1] == "*":
                p = p[1:]
            name = p[0][1]
            init = p[2:] if len(p) > 2 and p[1][1] == "=" else None
            decls.append((name, init))
        i = j + 1
    return decls, toks[i:]


class Tr:
    def __init__(self, vars_):
        self.vars = set(vars_)

    def z(self, e):
        k = e[0]
        if k == "cast":
            return self.z(e[2])
        if k == "num":
            return str(e[1])
        if k == "id":
            if e[1] == "SEXP_MAX_STACK_SIZE":
                return "MAX"
            if e[1] in self.vars:
                return e[1]
            raise Unsupported("identifier %s" % e[1])
        if k == "call" and e[1] == "sexp_stack_length":
            a = e[2][0]
            if a == ("id", "old_stack") or a == ("call", "sexp_context_stack", [("id", "ctx")]):
                return "len"
            raise Unsupported("stack length of something else")
        if k == "call" and e[1] == "sexp_context_top" and e[2] == [("id", "ctx")]:
            return "top"
        if k == "bin" and e[1] in ("+", "-", "*"):
            return "(%s %s %s)" % (self.z(e[2]), e[1], self.z(e[3]))
        raise Unsupported("integer expression %s" % (e,))

    def b(self, e):
        if e[0] == "bin" and e[1] in ("<", "<=", ">", ">=", "=="):
            a, c = self.z(e[2]), self.z(e[3])
            return {"<": "(%s <? %s)" % (a, c), "<=": "(%s <=? %s)" % (a, c), ">": "(%s <? %s)" % (c, a),
                    ">=": "(%s <=? %s)" % (c, a), "==": "(%s =? %s)" % (a, c)}[e[1]]
        if e[0] == "bin" and e[1] in ("||", "&&"):
            return "(%s %s %s)" % (self.b(e[2]), e[1], self.b(e[3]))
        raise Unsupported("condition %s" % (e,))

    def stmts(self, ss, final):
        """Gallina term of type option Z for the statement list; `final(stmt)` recognises the
        statement at which translation stops and gives the result term"""
        if not ss:
            raise Unsupported("end of function reached before the allocation")
        s, rest = ss[0], ss[1:]
        r = final(s)
        if r is not None:
            return r
        if s[0] == "block":
            return self.stmts(list(s[1]) + rest, final)
        if s[0] == "empty":
            return self.stmts(rest, final)
        if s[0] == "expr" and s[1][0] == "assign" and s[1][1] == "=" and s[1][2][0] == "id":
            x = s[1][2][1]
            if x not in self.vars:
                raise Unsupported("assignment to %s" % x)
            return "(let %s := %s in\n   %s)" % (x, self.z(s[1][3]), self.stmts(rest, final))
        if s[0] == "if":
            th = [s[2]]
            el = [s[3]] if s[3] is not None else []
            return "(if %s\n   then %s\n   else %s)" % (self.b(s[1]), self.stmts(th + rest, final), self.stmts(el + rest, final))
        if s[0] == "expr" and s[1][0] == "call" and s[1][1] == "return_":
            raise Unsupported("return")
        raise Unsupported("statement %s" % (s,))


def parse_stmts(toks):
    # `return e;` is not in the shared parser: rewrite to a pseudo call return_(e)
    out, i = [], 0
    while i < len(toks):
        if toks[i] == ("id", "return"):
            j = i + 1
            while toks[j][1] != ";":
                j += 1
            out += [("id", "return_"), ("op", "(")] + toks[i + 1:j] + [("op", ")")]
            i = j
        else:
            out.append(toks[i])
            i += 1
    return P(out).stmts()


def translate(d):
    txt = preprocess(d)
    # ---- sexp_grow_stack
    body = strip_comments(function_body(txt, r"^static int sexp_grow_stack \(sexp ctx, int min_size\) \{"))
    m = re.search(r"for \(i=sexp_context_top\(ctx\)\+(\d+); i>=0; i--\)\s*to\[i\] = from\[i\];", body)
    if not m:
        raise Unsupported("copy loop of sexp_grow_stack not recognised")
    copy_k = int(m.group(1))
    cut = body.index(m.group(0))
    decls, toks = split_decls(tokenize(body[:cut]))
    tr = Tr(["min_size"] + [n for n, _ in decls if n in ("size", "new_size", "i")])
    stmts = parse_stmts(toks)
    seen_len = []

    def final(s):
        if s[0] == "expr" and s[1][0] == "call" and s[1][1] == "return_":
            if s[1][2] == [("num", 0)]:
                return "None"
            raise Unsupported("return of something other than 0 before the allocation")
        if s[0] == "expr" and s[1][0] == "assign" and s[1][2] == ("id", "stack"):
            rhs = s[1][3]
            want = ("call", "sexp_alloc_tagged", [("id", "ctx"),
                    ("bin", "+", ("call", "sexp_sizeof", [("id", "stack")]), ("bin", "*", ("call", "sizeof", [("id", "sexp")]), ("id", "new_size"))),
                    ("id", "SEXP_STACK")])
            if rhs != want:
                raise Unsupported("allocation size of the new stack is not sexp_sizeof(stack)+sizeof(sexp)*new_size")
            seen_len.append(1)
            return "Some new_size"
        return None
    pre = ""
    for n, init in decls:
        if init is not None and n in tr.vars:
            pre += "let %s := %s in\n  " % (n, tr.z(P(init).expr()))
    grow = pre + tr.stmts(stmts, final)
    if "sexp_stack_length(stack) = new_size;" not in body[:cut].replace("\n", " "):
        raise Unsupported("the new stack's length field is not set to new_size")
    # ---- sexp_ensure_stack
    mm = re.search(r"^#define sexp_ensure_stack\(n\)((?:.*\\\n)*.*)$", txt, re.M)
    if not mm:
        raise Unsupported("macro sexp_ensure_stack not found")
    mtxt = mm.group(1).replace("\\\n", " ")
    ms = P(tokenize(mtxt)).stmts()
    if len(ms) != 1 or ms[0][0] != "if" or ms[0][3] is not None or ms[0][2][0] != "block":
        raise Unsupported("sexp_ensure_stack is not a single if")
    inner = ms[0][2][1]
    tr2 = Tr(["top", "n"])
    cond = tr2.b(ms[0][1])
    if len(inner) != 2 or inner[0] != ("expr", ("assign", "=", ("call", "sexp_context_top", [("id", "ctx")]), ("id", "top"))):
        raise Unsupported("sexp_ensure_stack does not save top before growing")
    g = inner[1]
    if g[0] != "if" or g[1][0] != "call" or g[1][1] != "sexp_grow_stack" or g[1][2][0] != ("id", "ctx") or g[3] is None:
        raise Unsupported("sexp_ensure_stack does not branch on sexp_grow_stack")
    els = g[3][1] if g[3][0] == "block" else [g[3]]
    if not els or els[-1] != ("goto", "end_loop"):
        raise Unsupported("failed growth does not leave the VM loop")
    req = tr2.z(g[1][2][1])
    sites = re.findall(r"sexp_ensure_stack\((.*)\);", strip_comments(txt))
    # ---- sexp_restore_stack (round 4): trigger, request, and the ORDER of growth and destination
    rb = re.sub(r"\s+", " ", strip_comments(function_body(txt, r"^static sexp sexp_restore_stack \(sexp ctx, sexp saved\) \{")))
    m1 = re.search(r"if \(\(len\+(\d+) >= sexp_stack_length\(sexp_context_stack\(ctx\)\)\) && !sexp_grow_stack\(ctx, len(?:\+(\d+))?\)\) return sexp_global\(ctx, SEXP_G_OOS_ERROR\);", rb)
    if not m1:
        raise Unsupported("sexp_restore_stack: growth test is not `if ((len+K >= sexp_stack_length(..)) && !sexp_grow_stack(ctx, len+K2)) return OOS`")
    if "sexp_uint_t len = sexp_vector_length(saved)" not in rb:
        raise Unsupported("sexp_restore_stack: len is not the length of the saved vector")
    dest = [mm.start() for mm in re.finditer(r"sexp_stack_data\(sexp_context_stack\(ctx\)\)", rb)]
    if len(dest) != 1 or dest[0] < m1.end() or not re.search(r"; to = sexp_stack_data\(sexp_context_stack\(ctx\)\);", rb):
        raise Unsupported("sexp_restore_stack: the destination pointer is not taken from the context's stack AFTER the growth "
                          "(after sexp_grow_stack the context points at a new stack object)")
    m2 = re.search(r"for \(i=0; i<len; i\+\+\) to\[i\] = from\[i\]; sexp_context_top\(ctx\) = len;", rb[dest[0]:])
    if not m2 or "from = sexp_vector_data(saved)" not in rb:
        raise Unsupported("sexp_restore_stack: copy loop is not `for (i=0; i<len; i++) to[i] = from[i]; sexp_context_top(ctx) = len;` from the saved vector")
    rk1, rk2 = int(m1.group(1)), int(m1.group(2) or 0)
    # sexp_save_stack: a vector of `to` words, words 0 .. to-1 copied
    sb = re.sub(r"\s+", " ", strip_comments(function_body(txt, r"^static sexp sexp_save_stack \(sexp ctx, sexp \*stack, sexp_uint_t to\) \{")))
    if not re.search(r"res = sexp_make_vector\(ctx, sexp_make_fixnum\(to\), [A-Z_]+\); data = sexp_vector_data\(res\); for \(i=0; i<to; i\+\+\) data\[i\] = stack\[i\]; return res;", sb):
        raise Unsupported("sexp_save_stack is not `res = make_vector(to); for (i=0; i<to; i++) data[i] = stack[i];`")
    coq = "\n".join([
        "(* GENERATED by gen/c01_stack.py from vm.c (sexp_grow_stack, sexp_ensure_stack).  Do not edit. *)",
        "From Coq Require Import ZArith Bool.", "Local Open Scope Z_scope.", "Local Open Scope bool_scope.", "",
        "(* sexp_grow_stack: new length, or None = return 0 (out of stack).  MAX = SEXP_MAX_STACK_SIZE, len = old length *)",
        "Definition gen_grow_stack (MAX len min_size : Z) : option Z :=\n  %s." % grow, "",
        "(* words copied from the old stack: for (i=top+%d; i>=0; i--) *)" % copy_k,
        "Definition gen_grow_copy (top : Z) : Z := top + %d + 1." % copy_k, "",
        "(* sexp_ensure_stack(n) *)",
        "Definition gen_ensure_stack (MAX len top n : Z) : option Z :=\n  if %s then gen_grow_stack MAX len %s else Some len." % (cond, req), "",
        "(* sexp_restore_stack: slen = length of the context's stack, n = length of the saved vector; the destination is read AFTER the growth *)",
        "Definition gen_restore_stack (MAX slen n : Z) : option Z :=\n  if (slen <=? n + %d) then gen_grow_stack MAX slen (n + %d) else Some slen." % (rk1, rk2),
        "Definition gen_restore_copy (n : Z) : Z := n.   (* for (i=0; i<len; i++) to[i] = from[i]; top = len *)", ""])
    return dict(coq=coq, sites=sites, req=req, cond=cond, restore=(rk1, rk2))


def regen(ctx):
    d = ctx.build("default")
    t = translate(d)
    ctx.gen("C01_Stack", t["coq"])
    return t


if __name__ == "__main__":
    import sys
    t = translate(sys.argv[1])
    print(t["coq"])
    print(t["sites"])
