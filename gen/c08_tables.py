"""C08 (G): regenerate from the *current* sexp.c (as clang parses it in the scratch build tree)
  * the static tables  sexp_separators[]  and  sexp_char_names[]            -> Gen/C08_Tables.v
  * the small pure leaf functions digit_value, hex_digit, is_precision_indicator,
    sexp_utf8_char_byte_count, sexp_decode_utf8_char, and the symbol-quoting predicate (the
    condition of `c = (...) ? '|' : EOF` in the SEXP_SYMBOL arm of sexp_write_one, plus the
    condition of the loop that follows it)                                     -> Gen/C08_Leaf.v
Fails closed: anything outside the handled shapes raises Unsupported -> ctx.broken.
The expression translator is a cut-down copy of gen/c12_leaf.py (same semantics: unsigned C types
carry `wrap`, lossy casts carry wrap/swrap; signed operations are the unbounded Z operation and add
a conjunct to <fn>_safe)."""
import json, os, re, subprocess


class Unsupported(Exception):
    pass


def _clang_json(build_dir, filt, src="sexp.c"):
    cmd = ["clang", "-fsyntax-only", "-I" + os.path.join(build_dir, "include"), "-DSEXP_USE_VERIF_HOOKS=1",
           "-Xclang", "-ast-dump=json", "-Xclang", "-ast-dump-filter=" + filt, os.path.join(build_dir, src)]
    r = subprocess.run(cmd, capture_output=True, text=True, timeout=180, cwd=build_dir)
    s, dec, i, out = r.stdout, json.JSONDecoder(), 0, []
    while i < len(s):
        while i < len(s) and s[i].isspace():
            i += 1
        if i >= len(s):
            break
        o, i = dec.raw_decode(s, i)
        out.append(o)
    if not out:
        raise Unsupported("clang found no declaration matching %s (%s)" % (filt, r.stderr[-300:]))
    return out


def _strip(n):
    while n.get("kind") in ("ImplicitCastExpr", "ParenExpr", "ConstantExpr", "CStyleCastExpr"):
        n = n["inner"][0]
    return n


def _const_int(n):
    n0 = _strip(n)
    if n0["kind"] in ("IntegerLiteral", "CharacterLiteral"):
        return int(n0["value"])
    if n0["kind"] == "UnaryOperator" and n0.get("opcode") == "-":
        return -_const_int(n0["inner"][0])
    raise Unsupported("table entry is not an integer/character literal: %s" % n0["kind"])


def _c_string(n):
    n0 = _strip(n)
    if n0["kind"] != "StringLiteral":
        raise Unsupported("char-name entry is not a string literal: %s" % n0["kind"])
    v = n0["value"]
    s = json.loads(v) if v.startswith('"') else v
    return [ord(c) for c in s]


def tables(build_dir):
    seps = names = None
    for o in _clang_json(build_dir, "sexp_separators"):
        if o.get("kind") == "VarDecl" and o.get("name") == "sexp_separators":
            init = [c for c in o.get("inner", []) if c["kind"] == "InitListExpr"]
            if len(init) != 1:
                raise Unsupported("sexp_separators has no initialiser list")
            seps = [_const_int(e) for e in init[0]["inner"]]
    for o in _clang_json(build_dir, "sexp_char_names"):
        if o.get("kind") == "VarDecl" and o.get("name") == "sexp_char_names":
            init = [c for c in o.get("inner", []) if c["kind"] == "InitListExpr"]
            if len(init) != 1:
                raise Unsupported("sexp_char_names has no initialiser list")
            names = []
            for e in init[0]["inner"]:
                if e["kind"] != "InitListExpr" or len(e["inner"]) != 2:
                    raise Unsupported("sexp_char_names entry shape")
                names.append((_c_string(e["inner"][0]), _const_int(e["inner"][1])))
    if seps is None or names is None:
        raise Unsupported("tables not found")
    return seps, names


def tables_v(seps, names):
    zs = lambda l: "[" + "; ".join(str(x) if x >= 0 else "(%d)" % x for x in l) + "]"
    t = ("(* GENERATED on every run by gen/c08_tables.py from sexp.c of the checked repository. Do not edit. *)\n"
         "From Coq Require Import ZArith List.\nImport ListNotations.\nLocal Open Scope Z_scope.\n\n")
    t += "Definition sexp_separators : list Z :=\n  %s.\n\n" % zs(seps)
    t += "Definition sexp_char_names : list (list Z * Z) :=\n  [" + ";\n   ".join("(%s, %s)" % (zs(n), c if c >= 0 else "(%d)" % c) for n, c in names) + "].\n"
    return t


def regen(ctx, build_dir=None):
    if build_dir is None:
        build_dir = ctx.build("default")
    try:
        seps, names = tables(build_dir)
        ctx.gen("C08_Tables", tables_v(seps, names))
        ctx.c08_char_names = names          # gen/c08_lib38.py resolves #\\name literals of lib/srfi/38.scm with it
    except Unsupported as e:
        ctx.broken("translator:C08_Tables", "sexp.c tables outside the handled shape: %s" % e)
        ctx.gen("C08_Tables", "(* translator failed closed: %s *)\nDefinition c08_tables_translation_failed : True := I.\n" % str(e).replace("*)", "* )"))
        return False
    try:
        from gen import c08_leaf
    except ImportError:
        return True
    return c08_leaf.regen(ctx, build_dir)


if __name__ == "__main__":
    import sys
    s, n = tables(sys.argv[1])
    print(tables_v(s, n))
