"""C02 search aid / obligation (G): the sexp_gc_var discipline of C functions, from the clang AST.

Rule checked (doc/chibi.scrbl "you must explicitly preserve any temporary values"; callees do not root their arguments):
   a C local of type `sexp` that holds the RESULT OF A CALL THAT MAY ALLOCATE (a fresh heap object, nothing else refers to
   it yet) and that is not registered with sexp_gc_preserve must not be
     (U) read after a later call that may allocate (a collection there sweeps the object: defect 1 `ctx2` in generate_lambda,
         defect 7 `op` in analyze were exactly this), nor
     (A) passed as an argument to a call that may allocate (the callee allocates before it stores the argument), nor
     (N) produced by a nested call inside the argument list of another allocating call.
Abstract interpretation over the structured AST of every function body (if: union of both arms; loops: two rounds; goto /
return / break end a path), state = {var: HOT (fresh, no allocation since) | STALE (fresh, an allocating call happened since)}.
`v = <anything else>` makes v cold; `v = w` copies w's state.  Parameters are the caller's responsibility (cold).
May-allocate set: the call graph of the LLVM IR (gen/c02_vmtop.may_allocate); calls through pointers count as allocating.

Over-approximations (why this is a SEARCH AID first): a function is in the may-allocate set even when it allocates only on its
error path (sexp_xtype_exception); the result of an allocating call need not be fresh (sexp_intern of an existing symbol, a
value looked up and returned); an object may be rooted through another object it was stored into (`sexp_push(ctx, ls, x)`
makes x reachable from the preserved ls) -- assignments INTO fields of a preserved or cold object are recognised only in the
direct forms  f(x) = v;  and  sexp_push.
"""
import os, re, subprocess, json
from gen import c02_vmtop as VT

HOT, STALE = 1, 2


def top_level_functions(path):
    """stream the JSON AST of a translation unit: yields the FunctionDecl objects that have a body, without loading the
    whole file (180 MB for eval.c)"""
    buf, depth_open = None, False
    with open(path) as fh:
        for line in fh:
            if buf is None:
                if line.startswith("    {"):
                    buf = [line]
                continue
            buf.append(line)
            if line.startswith("    }"):
                head = "".join(buf[:4])
                if '"kind": "FunctionDecl"' in head:
                    txt = "".join(buf).rstrip().rstrip(",")
                    if '"kind": "CompoundStmt"' in txt:
                        yield json.loads(txt)
                buf = None


def annotate_lines(n, cur):
    """clang prints "line" only when it changes: propagate it in document order; returns the last line seen"""
    for key in ("loc", "range"):
        v = n.get(key)
        if isinstance(v, dict):
            for sub in ([v] if key == "loc" else [v.get("begin", {}), v.get("end", {})]):
                for cand in (sub, sub.get("expansionLoc", {}), sub.get("spellingLoc", {})):
                    if isinstance(cand, dict) and "line" in cand and not cand.get("includedFrom"):
                        cur = cand["line"]
    n["_line"] = cur
    for c in n.get("inner", []):
        cur = annotate_lines(c, cur)
    return cur


def first_line(n):
    r = n.get("range", {}).get("begin", {})
    for cand in (r.get("expansionLoc", {}), r):
        if "line" in cand:
            return cand["line"]
    return n.get("loc", {}).get("line")


class Fn:
    def __init__(self, fn, alloc, unit):
        self.fn, self.alloc, self.unit = fn, alloc, unit
        self.name = fn["name"]
        self.locals, self.preserved, self.warnings = set(), set(), []
        self.collect(fn)

    def collect(self, n):
        k = n.get("kind")
        if k == "VarDecl" and n.get("type", {}).get("qualType") == "sexp" and n.get("storageClass") != "static":
            self.locals.add(n["name"])
        if k == "BinaryOperator" and n.get("opcode") == "=":
            a, b = VT.strip(n["inner"][0]), VT.strip(n["inner"][1])
            if a.get("kind") == "MemberExpr" and a.get("name") == "var" and b.get("kind") == "UnaryOperator" and b.get("opcode") == "&":
                v = VT.strip(b["inner"][0])
                if v.get("kind") == "DeclRefExpr":
                    self.preserved.add(v["referencedDecl"]["name"])
        for c in n.get("inner", []):
            self.collect(c)

    # ---- helpers
    def tracked(self, n):
        n = VT.strip(n)
        if n.get("kind") == "DeclRefExpr":
            nm = n.get("referencedDecl", {}).get("name")
            if nm in self.locals and nm not in self.preserved and n.get("referencedDecl", {}).get("kind") == "VarDecl":
                return nm
        return None

    def callee(self, call):
        c = VT.strip(call["inner"][0])
        if c.get("kind") == "DeclRefExpr" and c.get("referencedDecl", {}).get("kind") == "FunctionDecl":
            return c["referencedDecl"]["name"]
        return None

    def allocating_call(self, n):
        """n (stripped) is a call that may allocate: its name, else None"""
        if n.get("kind") != "CallExpr":
            return None
        nm = self.callee(n)
        if nm is None:
            return "(indirect)"
        return nm if nm in self.alloc else None

    def warn(self, kind, var, n, callee, defline):
        self.warnings.append(dict(unit=self.unit, function=self.name, var=var, kind=kind, line=n.get("_line"), callee=callee, def_line=defline))

    # ---- expressions: st = {var: (state, def line, def callee)}; returns the fresh-value description of the expression
    # (None, or (callee, line)) so that assignments and argument lists can see nested fresh results
    def expr(self, n, st):
        k = n.get("kind")
        if k is None:
            return None
        inner = n.get("inner", [])
        if k in VT.WRAP:
            return self.expr(inner[-1], st) if inner else None
        if k == "DeclRefExpr":
            v = self.tracked(n)
            if v and v in st:
                s, dl, dc = st[v]
                if s == STALE:
                    self.warn("U", v, n, dc, dl)
                    st[v] = (HOT, dl, dc)          # report once per staleness
                return (dc, dl, v)
            return None
        if k == "BinaryOperator" and n.get("opcode") == "=":
            a, b = inner
            fresh = self.expr(b, st)
            v = self.tracked(a)
            if v:
                if fresh:
                    st[v] = (HOT, n.get("_line"), fresh[0])
                    return (fresh[0], n.get("_line"), v)
                st.pop(v, None)
                return None
            self.expr(a, st)
            # stored into a registered local or into a field of another object: taken as rooted from there on
            if fresh and len(fresh) == 3:
                st.pop(fresh[2], None)
            return None
        if k in ("BinaryOperator", "CompoundAssignOperator"):
            if n.get("opcode") in ("&&", "||"):
                self.expr(inner[0], st)
                st2 = dict(st)
                self.expr(inner[1], st2)
                self.join_into(st, st2)
                return None
            if n.get("opcode") == ",":
                self.expr(inner[0], st)
                return self.expr(inner[1], st)
            for c in inner:
                self.expr(c, st)
            return None
        if k == "ConditionalOperator":
            self.expr(inner[0], st)
            s1, s2 = dict(st), dict(st)
            f1, f2 = self.expr(inner[1], s1), self.expr(inner[2], s2)
            st.clear()
            st.update(s1)
            self.join_into(st, s2)
            return f1 or f2
        if k == "CallExpr":
            name = self.allocating_call(n)
            args = inner[1:]
            if name is None or name == "(indirect)":
                self.expr(inner[0], st)
            freshargs = []
            ctxvar = self.tracked(args[0]) if args else None   # allocating with a child context as root keeps that context
            for i, a in enumerate(args):
                f = self.expr(a, st)
                if f and not (i == 0 and ctxvar):
                    freshargs.append((a, f))
            if name is not None:
                # the callee allocates before it stores its arguments: a fresh, unregistered argument is unprotected
                for a, f in freshargs:
                    if len(f) == 3:
                        self.warn("A", f[2], n, "%s -> %s" % (f[0], name), f[1])
                    else:
                        self.warn("N", "(nested result)", n, "%s -> %s" % (f[0], name), f[1])
                for v in list(st):
                    s, dl, dc = st[v]
                    if v != ctxvar:
                        st[v] = (STALE, dl, dc)
                # only a call that returns an object yields a fresh value
                return (name, n.get("_line")) if n.get("type", {}).get("qualType") == "sexp" else None
            return None
        if k == "StmtExpr":
            f = None
            for c in inner:
                f = self.stmt(c, st)
            return None
        if k == "UnaryOperator" and n.get("opcode") == "&":
            v = self.tracked(inner[0])
            if v:                                   # address taken: give up on this variable (treated as registered)
                self.preserved.add(v)
                st.pop(v, None)
                return None
        for c in inner:
            if c.get("kind", "").endswith(("Expr", "Operator", "Literal")):
                self.expr(c, st)
            else:
                self.stmt(c, st)
        return None

    def join_into(self, st, other):
        """st := st join other (None = dead path)"""
        for v, (s, dl, dc) in other.items():
            if v not in st or st[v][0] < s:
                st[v] = (s, dl, dc)

    # ---- statements: returns False when the path ends (return / goto / break / continue)
    def stmt(self, n, st):
        k = n.get("kind")
        inner = n.get("inner", [])
        if k is None or k == "NullStmt":
            return True
        if k == "CompoundStmt":
            for c in inner:
                if not self.stmt(c, st):
                    return False
            return True
        if k == "DeclStmt":
            for dcl in inner:
                if dcl.get("kind") == "VarDecl" and dcl.get("inner"):
                    init = [c for c in dcl["inner"] if c.get("kind", "").endswith(("Expr", "Operator", "Literal"))]
                    for c in init:
                        f = self.expr(c, st)
                        nm = dcl.get("name")
                        if nm in self.locals and nm not in self.preserved:
                            if f:
                                st[nm] = (HOT, dcl.get("_line"), f[0])
                            else:
                                st.pop(nm, None)
            return True
        if k == "IfStmt":
            self.expr(inner[0], st)
            s1, s2 = dict(st), dict(st)
            l1 = self.stmt(inner[1], s1)
            l2 = self.stmt(inner[2], s2) if len(inner) > 2 else True
            st.clear()
            if l1:
                st.update(s1)
            if l2:
                self.join_into(st, s2)
            return l1 or l2
        if k in ("ForStmt", "WhileStmt", "DoStmt"):
            if k == "ForStmt":
                init, _cv, cond, inc, body = inner
                if init.get("kind"):
                    self.stmt(init, st)
                parts = [("e", cond), ("s", body), ("e", inc)]
            elif k == "WhileStmt":
                parts = [("e", inner[0]), ("s", inner[-1])]
            else:
                parts = [("s", inner[0]), ("e", inner[1])]
            for _round in range(2):
                s1 = dict(st)
                for kind, p in parts:
                    if p.get("kind"):
                        if kind == "e":
                            self.expr(p, s1)
                        else:
                            self.stmt(p, s1)
                self.join_into(st, s1)
            return True
        if k == "SwitchStmt":
            self.expr(inner[0], st)
            body = inner[-1]
            acc, cur = dict(st), None
            for c in body.get("inner", []):
                while c.get("kind") in ("CaseStmt", "DefaultStmt"):
                    if cur is not None:
                        self.join_into(acc, cur)
                    fall = cur
                    cur = dict(st)
                    if fall is not None:
                        self.join_into(cur, fall)
                    c = c["inner"][-1]
                if cur is None:
                    cur = dict(st)
                if not self.stmt(c, cur):
                    self.join_into(acc, cur)          # break leaves the switch with this state (over-approximation for goto/return)
                    cur = None
            if cur is not None:
                self.join_into(acc, cur)
            st.clear()
            st.update(acc)
            return True
        if k in ("CaseStmt", "DefaultStmt", "LabelStmt"):
            return self.stmt(inner[-1], st) if inner else True
        if k == "ReturnStmt":
            for c in inner:
                self.expr(c, st)
            return False
        if k in ("GotoStmt", "BreakStmt", "ContinueStmt"):
            return False
        if k == "GCCAsmStmt":
            return True
        if k.endswith(("Expr", "Operator", "Literal")):
            self.expr(n, st)
            return True
        raise VT.Unsupported("statement kind %s in %s" % (k, self.name))

    def run(self):
        body = [c for c in self.fn.get("inner", []) if c.get("kind") == "CompoundStmt"][0]
        self.stmt(body, {})
        # a second pass is not needed: `preserved` only grows by address-taken variables, whose warnings are dropped here
        self.warnings = [w for w in self.warnings if w["var"] not in self.preserved]
        return self.warnings


def analyse(d, work, units=("eval", "sexp", "vm")):
    flags = VT.build_flags(d)
    alloc, defined = VT.may_allocate(d, flags, work)
    out, nfn, nloc = [], 0, 0
    for u in units:
        p = os.path.join(work, "gcvars-%s.json" % u)
        with open(p, "w") as fh:
            r = subprocess.run(["clang", "-fsyntax-only", "-w"] + flags + ["-Xclang", "-ast-dump=json", u + ".c"], cwd=d, stdout=fh, stderr=subprocess.PIPE, text=True, timeout=600)
        if r.returncode != 0:
            raise VT.Unsupported("clang ast-dump of %s.c failed: %s" % (u, r.stderr[-300:]))
        for fn in top_level_functions(p):
            if fn["name"] not in defined:
                continue
            annotate_lines(fn, first_line(fn) or 0)
            f = Fn(fn, alloc, u)
            nfn += 1
            nloc += len(f.locals - f.preserved)
            out += f.run()
        os.unlink(p)
    # one line per (function, var, kind, def line)
    seen, uniq = set(), []
    for w in out:
        key = (w["unit"], w["function"], w["var"], w["kind"], w["def_line"], w["line"])
        if key not in seen:
            seen.add(key)
            uniq.append(w)
    return dict(warnings=uniq, functions=nfn, unregistered_sexp_locals=nloc, may_allocate=len(alloc))


if __name__ == "__main__":
    import sys
    r = analyse(sys.argv[1], sys.argv[2], tuple(sys.argv[3:]) or ("eval", "sexp", "vm"))
    for w in r["warnings"]:
        print("%(unit)s.c:%(line)s %(function)s: [%(kind)s] %(var)s (fresh from %(callee)s at line %(def_line)s)" % w)
    print(r["functions"], "functions,", r["unregistered_sexp_locals"], "unregistered sexp locals,", len(r["warnings"]), "warnings")


def analyse_lib(d, work, path):
    """search aid for ONE C file of a compiled library (path relative to the build dir, e.g. lib/chibi/json.c): the
    may-allocate set of the core is extended by the file's own functions (fixpoint over its LLVM IR call graph)"""
    import re as _re
    flags = VT.build_flags(d) + ["-I", "include"]
    alloc, defined = VT.may_allocate(d, VT.build_flags(d), work)
    ll = os.path.join(work, "gcvars-lib.ll")
    r = subprocess.run(["clang", "-O0", "-S", "-emit-llvm", "-w"] + flags + ["-o", ll, path], cwd=d, capture_output=True, text=True, timeout=300)
    if r.returncode != 0:
        raise VT.Unsupported("clang -emit-llvm %s failed: %s" % (path, r.stderr[-300:]))
    calls, cur, mine = {}, None, set()
    for l in open(ll):
        m = _re.match(r"define .*?@([\w.]+)\(", l)
        if m:
            cur = m.group(1)
            mine.add(cur)
            calls.setdefault(cur, set())
            continue
        if l.startswith("}"):
            cur = None
            continue
        if cur and _re.search(r"\b(call|invoke)\b", l):
            m = _re.search(r"@([\w.]+)\(", l)
            if m:
                calls[cur].add(m.group(1))
            elif " asm " not in l:
                calls[cur].add("(indirect)")
    os.unlink(ll)
    alloc = set(alloc) | {"(indirect)"}
    changed = True
    while changed:
        changed = False
        for f, cs in calls.items():
            if f not in alloc and cs & alloc:
                alloc.add(f)
                changed = True
    p = os.path.join(work, "gcvars-lib.json")
    with open(p, "w") as fh:
        r = subprocess.run(["clang", "-fsyntax-only", "-w"] + flags + ["-Xclang", "-ast-dump=json", path], cwd=d, stdout=fh, stderr=subprocess.PIPE, text=True, timeout=600)
    if r.returncode != 0:
        raise VT.Unsupported("clang ast-dump of %s failed: %s" % (path, r.stderr[-300:]))
    out = []
    for fn in top_level_functions(p):
        if fn["name"] not in mine:
            continue
        annotate_lines(fn, first_line(fn) or 0)
        out += Fn(fn, alloc, path).run()
    os.unlink(p)
    return out
