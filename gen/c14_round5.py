"""C14 round 5 — two more streams of the correspondence check (called from props/C14.py run()):

 X. (export-all) libraries.  Graphs  A (explicit exports)  B (export-all; imports A through an import set; body = defines, procedures and
    dead code with references that are defined earlier / LATER (forward) / imported / DANGLING -- preferably names that A or D export)
    C (imports B: the loader)  D (explicit exports overlapping B's names).  One chibi process per graph: an optional COLD case (B imported
    before anything loaded it), then C is loaded, (env-exports (module-env B)) is compared with the extracted ExportAll.env_exports
    (ExportAll.eval_body ...) (function level, order included), then 8-14 environments over A / B / D with B under every modifier and
    plain, in every order relative to the other libraries; every candidate name is evaluated; oracle = extracted Spec.program_origin
    over a world in which B exports what the model of env-exports says.
 Y. exported syntax-rules macros whose templates mention PRIVATE names of their library (a procedure as operator, a value as operand and
    under quasiquote/unquote; defined in the library or privately imported through prefix/rename/only) in every template shape the
    expander of lib/init-7.scm treats specially: plain, ellipsis depth 1 and 2, (... ...), (... tmpl) escapes, dotted tails, vector
    templates (handed to a private second macro), a custom ellipsis, macro-defining macros (let-syntax and define-syntax at the use site).
    One chibi process (a top-level program) per graph: the importer lacks the names / binds them locally / imports other bindings of the
    same names from a user library / defines them at top level; the macro library is imported plain, prefixed, renamed or through only.
    Oracle: Spec.lib_origin says which definition the private name denotes INSIDE the macro library; the expected value follows.
"""
import os, re, subprocess, random

SB = ("scheme", "base")


# ----------------------------------------------------------------------------------------------------------------- helpers
def _lname(l):
    return "(" + " ".join(l) + ")"


def _tag(l):
    return ".".join(l)


def _run(P, d, prog, moddir, timeout=90):
    env = P.B.chibi_env(d, {"CHIBI_MODULE_PATH": os.path.join(d, "lib") + ":" + moddir})
    try:
        r = subprocess.run([os.path.join(d, "chibi-scheme"), prog], capture_output=True, text=True, timeout=timeout, env=env)
        out, rc, err = r.stdout, r.returncode, r.stderr
    except subprocess.TimeoutExpired as e:
        out = e.stdout.decode() if isinstance(e.stdout, bytes) else (e.stdout or "")
        rc, err = "TIMEOUT", ""
    res = {}
    for line in out.split("\n"):
        if line == "DONE":
            break
        if line.startswith("CASE "):
            sp = line.index(" ", 5)
            try:
                res.setdefault(int(line[5:sp]), line[sp + 1:])
            except ValueError:
                pass
    return res, rc, err, ("\nDONE" in "\n" + out)


def _replay(d, moddir, prog):
    return "LD_LIBRARY_PATH=%s CHIBI_IGNORE_SYSTEM_PATH=1 CHIBI_MODULE_PATH=%s:%s %s/chibi-scheme %s" % (d, os.path.join(d, "lib"), moddir, d, prog)


_registered = {}


def _is_registered(P, sig):
    if sig not in _registered:
        _registered[sig] = any(f.get("sig") == sig and f.get("property") == "C14" for f in P.core.load_findings().get("findings", []))
    return _registered[sig]


def _standing(P, ctx, sig, counter, **kw):
    """a defect of the pinned code that is documented in notes/C14.md round 5 and proposed as a known finding: reported as a violation
    (-> KNOWN-FINDING line) once the lead registered the signature; until then counted in the evidence"""
    ctx.cov[counter] = ctx.cov.get(counter, 0) + 1
    if _is_registered(P, sig):
        ctx.violation(sig, **kw)


# ----------------------------------------------------------------------------------------------------------------- stream X
XPOOL = ["helper", "later", "b-one", "b-two", "hx", "a", "p:a", "x-a", "zz", "aux"]
XPREFIXES = ["p:", "x-", "a"]
SIG_COLD = "export-all:modifier-import-before-load:empty-export-set"
SIG_BULK = "export-all:plain-import:placeholder-shadows-earlier-import"
ENV_EXPORTS_SOURCE = (
    "sexp sexp_env_exports_op (sexp ctx, sexp self, sexp_sint_t n, sexp env) { sexp ls; sexp_gc_var1(res); "
    "sexp_assert_type(ctx, sexp_envp, SEXP_ENV, env); sexp_gc_preserve1(ctx, res); res = SEXP_NULL; "
    "#if SEXP_USE_RENAME_BINDINGS for (ls=sexp_env_renames(env); sexp_pairp(ls); ls=sexp_env_next_cell(ls)) sexp_push(ctx, res, sexp_car(ls)); #endif "
    "for (ls=sexp_env_bindings(env); sexp_pairp(ls); ls=sexp_env_next_cell(ls)) if (sexp_env_value(ls) != SEXP_UNDEF) sexp_push(ctx, res, sexp_car(ls)); "
    "sexp_gc_release1(ctx); return res; }")


def check_env_exports_source(P, ctx, d=None):
    """(G, by comparison) ExportAll.env_exports mirrors sexp_env_exports_op: the function's text (comments and layout removed) must be the
    one the model was written from.  Fails closed.  The text is read from the scratch BUILD directory (the copy of the tree that was
    compiled and is being run), not from the live working tree, which may change while a long run is under way."""
    try:
        src = os.path.join(d, "eval.c") if d and os.path.exists(os.path.join(d, "eval.c")) else os.path.join(P.B.REPO, "eval.c")
        ev = open(src).read()
    except OSError as e:
        ctx.broken("gen:sexp_env_exports_op", "source not readable: %s" % e)
        return
    m = re.search(r"^sexp sexp_env_exports_op \(.*?^}", ev, re.S | re.M)
    body = re.sub(r"\s+", " ", re.sub(r"/\*.*?\*/", " ", m.group(0), flags=re.S)).strip() if m else ""
    if body != ENV_EXPORTS_SOURCE:
        ctx.broken("gen:sexp_env_exports_op", "eval.c sexp_env_exports_op is not the text coq/C14/ExportAll.v models: %s" % body[:600])


def gen_xgraph(P, rng, gid):
    A, Bn, C, D = [("v14x", gid, k) for k in "abcd"]
    a_defs = rng.sample(XPOOL, rng.randint(3, 6))
    d_defs = rng.sample(XPOOL, rng.randint(2, 4))
    world = {SB: [(k, k) for k in P.KW], A: [(n, n) for n in a_defs], D: [(n, n) for n in d_defs]}
    # B's import of A (its imported names must NOT be re-exported by export-all)
    b_imp = None
    if rng.random() < 0.7:
        for _ in range(10):
            b_imp = P.gen_iset(rng, world, A, rng.choice([0, 1, 1, 2]))
            if P.py_denote(world, b_imp) is not None:
                break
        else:
            b_imp = ("lib", A)
    imported = list(dict.fromkeys(n for n, _ in (P.py_denote(world, b_imp) or []))) if b_imp else []
    avail = [n for n in XPOOL if n not in imported]
    nb = rng.randint(2, min(5, len(avail)))
    b_defs = rng.sample(avail, nb)
    dangling_pool = [n for n in XPOOL if n not in imported and n not in b_defs]
    pref = [n for n in dangling_pool if n in a_defs or n in d_defs]
    forms, text = [], []
    tagb = _tag(Bn)
    order = list(b_defs)
    rng.shuffle(order)
    dangling = []
    for k, n in enumerate(order):
        if rng.random() < 0.25 and dangling_pool:
            r = rng.choice(pref if pref and rng.random() < 0.7 else dangling_pool)
            forms.append(("expr", [r]))
            text.append("(if #f (list %s))" % r)
            dangling.append(r)
        if rng.random() < 0.55:
            refs = []
            for _ in range(rng.choice([1, 1, 2, 3])):
                q = rng.random()
                if q < 0.4 and dangling_pool:
                    r = rng.choice(pref if pref and rng.random() < 0.7 else dangling_pool)
                    dangling.append(r)
                elif q < 0.6 and k + 1 < len(order):
                    r = rng.choice(order[k + 1:])                    # forward reference: defined later
                elif q < 0.8 and imported:
                    r = rng.choice(imported)
                else:
                    r = rng.choice(order[:k + 1])                    # itself or an earlier definition
                refs.append(r)
            forms.append(("define", n, refs))
            text.append("(define (%s flag) (if flag (list %s) (list 'v14val '%s '%s)))" % (n, " ".join(refs), tagb, n))
        else:
            forms.append(("define", n, []))
            text.append("(define %s (list 'v14val '%s '%s))" % (n, tagb, n))
        if rng.random() < 0.12:
            forms.append(("define", n, []))                          # defined twice: one cell
            text.append("(define %s (list 'v14val '%s '%s))" % (n, tagb, n))
    dangling = list(dict.fromkeys(dangling))
    sld = {
        A: "(define-library %s\n  (export %s)\n  (import (scheme base))\n  (begin\n    %s))\n" % (
            _lname(A), " ".join(a_defs), "\n    ".join("(define %s (list 'v14val '%s '%s))" % (n, _tag(A), n) for n in a_defs)),
        D: "(define-library %s\n  (export %s)\n  (import (scheme base))\n  (begin\n    %s))\n" % (
            _lname(D), " ".join(d_defs), "\n    ".join("(define %s (list 'v14val '%s '%s))" % (n, _tag(D), n) for n in d_defs)),
        Bn: "(define-library %s\n  (import (scheme base)%s)\n  (export-all)\n  (begin\n    %s))\n" % (
            _lname(Bn), " " + P.iset_str(b_imp) if b_imp else "", "\n    ".join(text)),
        C: "(define-library %s\n  (export c-val)\n  (import (scheme base) %s)\n  (begin (define c-val (list 'v14val '%s 'c-val))))\n" % (_lname(C), _lname(Bn), _tag(C)),
    }
    return dict(gid=gid, A=A, B=Bn, C=C, D=D, a_defs=a_defs, d_defs=d_defs, b_imp=b_imp, imported=imported, b_defs=b_defs, forms=forms,
                dangling=dangling, sld=sld, world=world)


def _x_cases(P, rng, g, n_cases):
    """environments over A / B / D: B under every modifier and plain, in every order relative to libraries exporting the same names"""
    world, Bn = g["world"], g["B"]
    cases = []
    for k in range(n_cases):
        mod = P.MODS[k % len(P.MODS)] if k < 2 * len(P.MODS) else rng.choice(list(P.MODS) + ["plain", "plain"])
        if k % 7 == 6:
            mod = "plain"
        vis = [n for n, _ in world[Bn]]
        non = [n for n in g["dangling"] + g["imported"] if n not in vis] or ["zz9"]
        inner = ("lib", Bn)
        if rng.random() < 0.25 and mod != "plain":
            inner = P.gen_iset(rng, world, Bn, 1)
            if P.py_denote(world, inner) is None:
                inner = ("lib", Bn)
            vis = [n for n, _ in (P.py_denote(world, inner) or [])]
        if mod == "plain":
            ib = ("lib", Bn)
        elif mod == "only":
            ids = rng.sample(vis, min(len(vis), rng.randint(1, 3))) if vis else []
            if rng.random() < 0.25 or not ids:
                ids.insert(rng.randrange(len(ids) + 1), rng.choice(non))          # a dangling / imported name: not in the set -> an error
            ib = ("only", inner, ids)
        elif mod == "except":
            ids = rng.sample(vis, min(len(vis), rng.randint(0, 2))) if vis else []
            if rng.random() < 0.2:
                ids.append(rng.choice(non))
            ib = ("except", inner, ids)
        elif mod == "rename":
            prs = [(a, rng.choice(XPOOL + ["r9"])) for a in (rng.sample(vis, min(len(vis), rng.randint(1, 2))) if vis else [])]
            if rng.random() < 0.3 or not prs:
                prs.append((rng.choice(non), rng.choice(XPOOL + ["r9"])))
            ib = ("rename", inner, prs)
        elif mod == "prefix":
            ib = ("prefix", inner, rng.choice(XPREFIXES))
        else:
            ib = ("drop-prefix", inner, rng.choice(XPREFIXES))
        others = []
        for _ in range(rng.choice([1, 1, 2])):
            src = rng.choice([g["A"], g["A"], g["D"]])
            names = [n for n, _ in world[src]]
            hit = [n for n in names if n in g["dangling"] or n in g["imported"]]
            r = rng.random()
            if hit and r < 0.5:
                others.append(("only", ("lib", src), rng.sample(hit, min(len(hit), rng.randint(1, 2)))))
            elif r < 0.8:
                others.append(("lib", src))
            else:
                others.append(P.gen_iset(rng, world, src, 1))
        isets = list(others)
        isets.insert(rng.choice([len(isets), len(isets), 0, rng.randrange(len(isets) + 1)]), ib)
        names = list(XPOOL)
        for i in isets:
            for n, _ in (P.py_denote(world, i) or []):
                if n not in names:
                    names.append(n)
        names += ["c-val", "r9"]
        cases.append(dict(isets=isets, names=list(dict.fromkeys(names)), ib=ib, mod=mod))
    return cases


X_PRELUDE = """(import (scheme base) (scheme eval) (scheme write) (only (chibi) env-exports) (only (meta) find-module module-env))
(define (c14-try env name)
  (guard (e (#t 'unbound))
    (let ((v (eval name env)))
      (if (procedure? v) (guard (e (#t 'proc-err)) (v #f)) v))))
(define (c14-case k names . isets)
  (let ((r (guard (e (#t 'import-error))
             (let ((env (apply environment isets))) (map (lambda (n) (c14-try env n)) names)))))
    (write-string "CASE ") (write k) (write-string " ") (write r) (newline)))
(define (c14-exports k lib)
  (let* ((m (find-module lib)) (r (and m (module-env m) (env-exports (module-env m)))))
    (write-string "CASE ") (write k) (write-string " ") (write r) (newline)))
"""


def run_export_all(P, ctx, d, spec_exe, moddir, rng, n_graphs, n_cases):
    check_env_exports_source(P, ctx, d)
    graphs = [gen_xgraph(P, rng, "x%d" % k) for k in range(n_graphs)]
    # the model says what B exports once loaded
    outs = ctx.run_model(spec_exe, ["exports (%s) (%s)" % (" ".join(P.sym(n) for n in g["imported"]), " ".join(
        "(define %s (%s))" % (f[1], " ".join(f[2])) if f[0] == "define" else "(expr (%s))" % " ".join(f[1]) for f in g["forms"])) for g in graphs])
    req = []
    for g, o in zip(graphs, outs):
        if o.startswith("ERR"):
            ctx.broken("spec-driver", "exports answered %r" % o[:200])
            return
        g["model_exports"] = [] if o.strip() == "_" else o.split(" ")
        g["world"][g["B"]] = [(n, n) for n in g["model_exports"]]
        g["world"][g["C"]] = [("c-val", "c-val")]
        g["cold"] = None
        if rng.random() < 0.5:
            g["cold"] = _x_cases(P, rng, g, 1 + rng.randrange(6))[-1]
        g["cases"] = _x_cases(P, rng, g, n_cases)
        L = P.Lib
        libs = [L(g["A"], [], list(g["a_defs"]), g["world"][g["A"]]), L(g["D"], [], list(g["d_defs"]), g["world"][g["D"]]),
                L(g["B"], [g["b_imp"]] if g["b_imp"] else [], list(dict.fromkeys(g["b_defs"])), g["world"][g["B"]]),
                L(g["C"], [("lib", g["B"])], ["c-val"], g["world"][g["C"]])]
        g["graph_req"] = "graph " + P.sb_graph_sexp() + " " + " ".join(l.graph_sexp() for l in libs)
        req.append(g["graph_req"])
        for c in ([g["cold"]] if g["cold"] else []) + g["cases"]:
            c["ix"] = len(req)
            req.append("origin (%s) (%s)" % (" ".join(P.iset_str(i) for i in c["isets"]), " ".join(P.sym(n) for n in c["names"])))
    spec = ctx.run_model(spec_exe, req)
    for g in graphs:
        gdir = os.path.join(moddir, "v14x", g["gid"])
        os.makedirs(gdir, exist_ok=True)
        for l, t in g["sld"].items():
            open(os.path.join(gdir, l[-1] + ".sld"), "w").write(t)
        prog = os.path.join(gdir, "prog.scm")
        lines = [X_PRELUDE]
        seq = []
        if g["cold"]:
            seq.append(("cold", g["cold"]))
        seq.append(("load", None))
        seq.append(("exports", None))
        seq += [("warm", c) for c in g["cases"]]
        for k, (what, c) in enumerate(seq):
            if what == "load":
                lines.append("(c14-case %d '() '%s)" % (k, _lname(g["C"])))
            elif what == "exports":
                lines.append("(c14-exports %d '%s)" % (k, _lname(g["B"])))
            else:
                lines.append("(c14-case %d '(%s) %s)" % (k, " ".join(P.sym(n) for n in c["names"]), " ".join("'" + P.iset_str(i) for i in c["isets"])))
        lines.append('(write-string "DONE\\n")')
        open(prog, "w").write("\n".join(lines) + "\n")
        res, rc, err, done = _run(P, d, prog, moddir)
        rep = _replay(d, moddir, prog)
        libtext = [g["sld"][g[k]] for k in "ABCD"]
        for k, (what, c) in enumerate(seq):
            if k not in res:
                ctx.violation("export-all:driver-died", input=open(prog).read()[-600:], observed="no answer for step %d (%s); rc=%s %s" % (k, what, rc, (err or "")[-300:]),
                              expected="the program runs to its end", replay=rep)
                break
            try:
                got = P.norm(P.parse_datum(res[k])[0])
            except Exception as e:
                ctx.broken("correspondence:unreadable-output", "export-all program %s printed %r (%s)" % (prog, res[k][:200], e))
                break
            if what == "load":
                continue
            if what == "exports":
                _judge_exports(P, ctx, g, got, rep, libtext)
                continue
            _judge_x(P, ctx, g, c, got, spec[c["ix"]].split(" "), what == "cold", rep, libtext, k)


def _judge_exports(P, ctx, g, got, rep, libtext):
    """function level: (env-exports (module-env B)) vs ExportAll.env_exports (ExportAll.eval_body imports forms), order included; the SPEC
    (the names the body DEFINES) decides who is wrong"""
    model = tuple(g["model_exports"])
    ctx.count(1, key=("exports", tuple(map(repr, g["forms"])), tuple(g["imported"])), nontrivial=bool(g["dangling"]) or bool(g["imported"]))
    ctx.cov["export_all_env_exports_compared"] = ctx.cov.get("export_all_env_exports_compared", 0) + 1
    if got == model:
        return
    defined = set(g["b_defs"])
    gs = set(got) if isinstance(got, tuple) else None
    inp = "(env-exports (module-env (find-module '%s))) after the library was loaded" % _lname(g["B"])
    if gs is None:
        ctx.violation("export-all:env-exports:no-environment", input=inp, graph=libtext, expected=repr(model), observed=repr(got), replay=rep)
    elif gs - defined:
        ctx.violation("export-all:env-exports:lists-undefined-name", input=inp, graph=libtext, name=sorted(gs - defined)[0],
                      expected="%r: exactly the names the body defines (theorem export_all_exports_exactly_the_definitions); %s is only %s" % (
                          model, sorted(gs - defined)[0], "imported" if sorted(gs - defined)[0] in g["imported"] else "mentioned"),
                      observed=repr(got), replay=rep)
    elif defined - gs:
        ctx.violation("export-all:env-exports:omits-definition", input=inp, graph=libtext, name=sorted(defined - gs)[0],
                      expected=repr(model), observed=repr(got), replay=rep)
    else:
        ctx.broken("correspondence:env-exports", "same set as the model but another order/multiplicity: model %r, chibi %r (%s)" % (model, got, rep))


def _judge_x(P, ctx, g, c, got, spec, cold, rep, libtext, step):
    names, isets = c["names"], c["isets"]
    text = " ".join(P.iset_str(i) for i in isets)
    sigbase = "export-all:%s:" % c["mod"]
    shape = (tuple(map(repr, g["forms"])), repr(g["b_imp"]).replace(g["gid"], "G"), tuple(g["a_defs"]), tuple(g["d_defs"]))
    inp = "%s   ; step %d of the replay program%s" % (text, step, " (the export-all library has not been loaded before)" if cold else "")
    if len(spec) != len(names):
        ctx.broken("spec-driver", "origin answered %d tokens for %d names: %r" % (len(spec), len(names), spec[:5]))
        return
    cold_mod = cold and c["mod"] != "plain"
    if "E" in spec:
        ctx.count(1, key=("E", shape, text.replace(g["gid"], "G")), nontrivial=True)
        if got != "import-error":
            ctx.violation(sigbase + "import-accepted", input=inp, graph=libtext, observed=repr(got)[:300], replay=rep,
                          expected="an error: only names an identifier the (export-all) library does not define (its export set = the names its body defines)")
        return
    if got == "import-error":
        ctx.count(1, key=("R", shape, text.replace(g["gid"], "G")), nontrivial=True)
        if cold_mod:
            _standing(P, ctx, SIG_COLD, "export_all_cold_modifier_cases", input=inp, graph=libtext, expected="import succeeds", observed="import error", replay=rep)
        else:
            ctx.violation(sigbase + "import-rejected", input=inp, graph=libtext, expected="import succeeds; e.g. %s -> %s" % (names[0], spec[0]),
                          observed="import error", replay=rep)
        return
    if not isinstance(got, tuple) or len(got) != len(names):
        ctx.broken("correspondence:outer", "export-all program answered %r for %d names" % (got, len(names)))
        return
    btag = _tag(g["B"])
    # position of B's import set: a later import set shadows an earlier one
    bpos = isets.index(c["ib"])
    for name, s, gv in zip(names, spec, got):
        ctx.count(1, key=(shape, text.replace(g["gid"], "G"), name, cold), nontrivial=(s != "A"))
        if s == "A":
            continue
        if s == "U":
            if gv != "unbound":
                ctx.violation(sigbase + "unexpectedly-bound", input=inp, name=name, graph=libtext, observed=repr(gv), replay=rep,
                              expected="unbound (not defined by the export-all library: only imported or mentioned there / not in the import set)")
            continue
        _, lib, m = s.split(":", 2)
        exp = ("v14val", lib, m)
        if gv == exp:
            continue
        detail = dict(input=inp, name=name, graph=libtext, expected="%r (the definition of %s in library %s)" % (exp, m, lib), observed=repr(gv), replay=rep)
        if cold_mod and lib == btag and gv == "unbound":
            _standing(P, ctx, SIG_COLD, "export_all_cold_modifier_cases", **detail)
            continue
        if c["mod"] == "plain" and gv == "unbound" and lib != btag and name in g["dangling"] and name not in g["b_defs"]:
            # the bulk path of sexp_env_import_op shares the exporter's whole binding list, placeholder cells included
            _standing(P, ctx, SIG_BULK, "export_all_plain_placeholder_cases", **detail)
            continue
        ctx.violation(sigbase + ("unbound" if gv == "unbound" else "wrong-binding"), **detail)


# ----------------------------------------------------------------------------------------------------------------- stream Y
SHAPES = ["plain", "const", "ell1", "ell2", "elltail", "ellell", "esc", "escdots", "dotted", "vec", "vecconst", "cust", "mdm", "mdmdef"]
POSITIONS = ["op", "arg", "quasi"]


def _core(pos, Pn, Vn, x):
    if pos == "op":
        return "(%s %s)" % (Pn, x)
    if pos == "arg":
        return "(list %s %s)" % (Vn, x)
    return "(quasiquote (q (unquote %s) (unquote %s)))" % (Vn, x)


def _exp_core(pos, pv, vv, x):
    if pos == "op":
        return pv + (x,)
    if pos == "arg":
        return (vv, x)
    return ("q", vv, x)


def macro_def(shape, pos, name, Pn, Vn, rng):
    """(definition text, extra private definitions, use-form maker, expected-value maker)"""
    x, y = rng.choice(["x", "e", "arg"]), rng.choice(["y", "w"])
    C, Cy = _core(pos, Pn, Vn, x), _core(pos, Pn, Vn, y)
    lits = rng.choice(["()", "()", "(else)", "(=> unused-lit)"])
    extra = []
    if shape == "plain":
        rules = "(syntax-rules %s ((_ %s) %s))" % (lits, x, C)
        use, exp = (lambda m: "(%s 1)" % m), (lambda pv, vv: _exp_core(pos, pv, vv, 1))
    elif shape == "const":
        # a template without any pattern variable
        rules = "(syntax-rules %s ((_ %s) %s))" % (lits, x, _core(pos, Pn, Vn, "7"))
        use, exp = (lambda m: "(%s 1)" % m), (lambda pv, vv: _exp_core(pos, pv, vv, 7))
    elif shape == "elltail":
        # the private name sits in the TAIL after an ellipsis, and the tail has no pattern variable
        n = rng.choice([0, 1, 2])
        if pos == "quasi":
            rules = "(syntax-rules %s ((_ %s ...) (quasiquote (q (unquote %s) ... (unquote %s)))))" % (lits, x, x, Vn)
            ex = (lambda pv, vv: ("q",) + tuple(range(1, n + 1)) + (vv,))
        else:
            rules = "(syntax-rules %s ((_ %s ...) (list %s ... %s)))" % (lits, x, x, _core(pos, Pn, Vn, "7"))
            ex = (lambda pv, vv: tuple(range(1, n + 1)) + (_exp_core(pos, pv, vv, 7),))
        use, exp = (lambda m: "(%s %s)" % (m, " ".join(map(str, range(1, n + 1))))), ex
    elif shape == "ell1":
        n = rng.choice([1, 2, 3])
        rules = "(syntax-rules %s ((_ %s ...) (list %s ...)))" % (lits, x, C)
        use, exp = (lambda m: "(%s %s)" % (m, " ".join(map(str, range(1, n + 1))))), (lambda pv, vv: tuple(_exp_core(pos, pv, vv, i) for i in range(1, n + 1)))
    elif shape == "ell2":
        rules = "(syntax-rules %s ((_ (%s ...) ...) (list (list %s ...) ...)))" % (lits, x, C)
        use, exp = (lambda m: "(%s (1 2) () (3))" % m), (lambda pv, vv: ((_exp_core(pos, pv, vv, 1), _exp_core(pos, pv, vv, 2)), (), (_exp_core(pos, pv, vv, 3),)))
    elif shape == "ellell":
        rules = "(syntax-rules %s ((_ %s) (let-syntax ((inner (syntax-rules () ((_ %s (... ...)) (list %s (... ...)))))) (inner %s %s))))" % (lits, x, y, Cy, x, x)
        use, exp = (lambda m: "(%s 1)" % m), (lambda pv, vv: (_exp_core(pos, pv, vv, 1), _exp_core(pos, pv, vv, 1)))
    elif shape == "esc":
        rules = "(syntax-rules %s ((_ %s) (... %s)))" % (lits, x, C)
        use, exp = (lambda m: "(%s 1)" % m), (lambda pv, vv: _exp_core(pos, pv, vv, 1))
    elif shape == "escdots":
        rules = "(syntax-rules %s ((_ %s) (... (list %s (quote ...)))))" % (lits, x, C)
        use, exp = (lambda m: "(%s 1)" % m), (lambda pv, vv: (_exp_core(pos, pv, vv, 1), "..."))
    elif shape == "dotted":
        if pos == "op":
            t, ex = "(%s %s . r)" % (Pn, x), (lambda pv, vv: pv + (1, 2, 3))
        elif pos == "arg":
            t, ex = "(list %s %s . r)" % (Vn, x), (lambda pv, vv: (vv, 1, 2, 3))
        else:
            t, ex = "(quasiquote (q (unquote %s) (unquote %s) . r))" % (Vn, x), (lambda pv, vv: ("q", vv, 1, 2, 3))
        rules = "(syntax-rules %s ((_ %s . r) %s))" % (lits, x, t)
        use, exp = (lambda m: "(%s 1 2 3)" % m), ex
    elif shape == "vec":
        inner = name + "-vecm"
        body = {"op": "(f a)", "arg": "(list f a)", "quasi": "(quasiquote (q (unquote f) (unquote a)))"}[pos]
        extra.append("(define-syntax %s (syntax-rules () ((_ #(f a)) %s)))" % (inner, body))
        rules = "(syntax-rules %s ((_ %s) (%s #(%s %s))))" % (lits, x, inner, Pn if pos == "op" else Vn, x)
        use, exp = (lambda m: "(%s 1)" % m), (lambda pv, vv: _exp_core(pos, pv, vv, 1))
    elif shape == "vecconst":
        # a vector template without any pattern variable
        inner = name + "-vecm"
        body = {"op": "(f a)", "arg": "(list f a)", "quasi": "(quasiquote (q (unquote f) (unquote a)))"}[pos]
        extra.append("(define-syntax %s (syntax-rules () ((_ #(f a)) %s)))" % (inner, body))
        rules = "(syntax-rules %s ((_ %s) (%s #(%s 7))))" % (lits, x, inner, Pn if pos == "op" else Vn)
        use, exp = (lambda m: "(%s 1)" % m), (lambda pv, vv: _exp_core(pos, pv, vv, 7))
    elif shape == "cust":
        ell = rng.choice([":::", "dots", "***"])
        rules = "(syntax-rules %s %s ((_ %s %s) (list %s %s)))" % (ell, lits, x, ell, C, ell)
        use, exp = (lambda m: "(%s 1 2)" % m), (lambda pv, vv: (_exp_core(pos, pv, vv, 1), _exp_core(pos, pv, vv, 2)))
    elif shape == "mdm":
        rules = "(syntax-rules %s ((_ %s) (let-syntax ((inner (syntax-rules () ((_ %s) %s)))) (inner %s))))" % (lits, x, y, Cy, x)
        use, exp = (lambda m: "(%s 1)" % m), (lambda pv, vv: _exp_core(pos, pv, vv, 1))
    else:  # mdmdef: the use site gets a define-syntax whose template mentions the private name
        rules = "(syntax-rules %s ((_ nm) (define-syntax nm (syntax-rules () ((_ %s) %s)))))" % (lits, y, Cy)
        use, exp = None, (lambda pv, vv: _exp_core(pos, pv, vv, 1))
    return "(define-syntax %s %s)" % (name, rules), extra, use, exp


def gen_ygraph(P, rng, gid):
    H, M, U = [("v14y", gid, k) for k in "hmu"]
    Pn, Vn = rng.choice(["helper", "h1", "aux", "p:a"]), rng.choice(["hval", "q", "secret", "x-a"])
    # private names of M: defined there, or privately imported from H (plain / only / prefix / rename): the macro's reference then
    # denotes H's definition -- and M does not export it either
    h_defs = ["helper", "hval", "other"]
    imp, pm, vm = None, Pn, Vn          # pm / vm: the names as written in M
    how = rng.choice(["own", "own", "only", "prefix", "rename"])
    if how == "only":
        imp, pm, vm = ("only", ("lib", H), ["helper", "hval"]), "helper", "hval"
    elif how == "prefix":
        imp, pm, vm = ("prefix", ("lib", H), "h:"), "h:helper", "h:hval"
    elif how == "rename":
        imp = ("rename", ("lib", H), [("helper", Pn), ("hval", Vn)])
    macs = []
    body = []
    if how == "own":
        body.append("(define (%s . xs) (cons 'v14priv (cons '%s (cons '%s xs))))" % (pm, _tag(M), pm))
        body.append("(define %s (list 'v14val '%s '%s))" % (vm, _tag(M), vm))
    k = 0
    for shape in SHAPES:
        for pos in POSITIONS:
            name = "m%d-%s-%s" % (k, shape, pos)
            k += 1
            dtext, extra, use, exp = macro_def(shape, pos, name, pm, vm, rng)
            body += extra + [dtext]
            macs.append(dict(name=name, shape=shape, pos=pos, use=use, exp=exp))
    sld = {
        H: "(define-library %s\n  (export helper hval other)\n  (import (scheme base))\n  (begin\n    (define (helper . xs) (cons 'v14priv (cons '%s (cons 'helper xs))))\n"
           "    (define hval (list 'v14val '%s 'hval))\n    (define other (list 'v14val '%s 'other))))\n" % (_lname(H), _tag(H), _tag(H), _tag(H)),
        M: "(define-library %s\n  (export %s)\n  (import (scheme base)%s)\n  (begin\n    %s))\n" % (
            _lname(M), " ".join(m["name"] for m in macs), " " + P.iset_str(imp) if imp else "", "\n    ".join(body)),
        # the user's library: OTHER bindings under the very names the macro library uses privately
        U: "(define-library %s\n  (export %s %s)\n  (import (scheme base))\n  (begin\n    (define (%s . xs) (cons 'v14user xs))\n    (define %s 'v14user)))\n" % (
            _lname(U), pm, vm, pm, vm),
    }
    L = P.Lib
    libs = [L(H, [], list(h_defs), [(n, n) for n in h_defs]),
            L(M, [imp] if imp else [], ([pm, vm] if how == "own" else []) + [m["name"] for m in macs], [(m["name"], m["name"]) for m in macs]),
            L(U, [], [pm, vm], [(pm, pm), (vm, vm)])]
    return dict(gid=gid, H=H, M=M, U=U, pm=pm, vm=vm, how=how, macs=macs, sld=sld, libs=libs, imp=imp)


Y_PRELUDE = """(define (c14-show k thunk)
  (let ((r (guard (e (#t (list 'error (if (error-object? e) (error-object-message e) 'raised))))
             (thunk))))
    (write-string "CASE ") (write k) (write-string " ") (write r) (newline)))
"""


def run_templates(P, ctx, d, spec_exe, moddir, rng, n_graphs):
    graphs = [gen_ygraph(P, rng, "y%d" % k) for k in range(n_graphs)]
    req = []
    for g in graphs:
        req.append("graph " + P.sb_graph_sexp() + " " + " ".join(l.graph_sexp() for l in g["libs"]))
        g["ix"] = len(req)
        req.append("inside %s (%s %s)" % (_lname(g["M"]), P.sym(g["pm"]), P.sym(g["vm"])))
    spec = ctx.run_model(spec_exe, req)
    for g in graphs:
        toks = spec[g["ix"]].split(" ")
        if len(toks) != 2 or not all(t.startswith("O:") for t in toks):
            ctx.broken("spec-driver", "inside answered %r for the private names of %s" % (spec[g["ix"]][:200], _lname(g["M"])))
            continue
        (_, pl, pmn), (_, vl, vmn) = toks[0].split(":", 2), toks[1].split(":", 2)
        pv, vv = ("v14priv", pl, pmn), ("v14val", vl, vmn)
        gdir = os.path.join(moddir, "v14y", g["gid"])
        os.makedirs(gdir, exist_ok=True)
        for l, t in g["sld"].items():
            open(os.path.join(gdir, l[-1] + ".sld"), "w").write(t)
        # how the PROGRAM imports the macro library
        how = rng.choice(["plain", "prefix", "only", "rename"])
        pick = g["macs"]
        vis = lambda m: m["name"]
        if how == "plain":
            mi = ("lib", g["M"])
        elif how == "prefix":
            mi = ("prefix", ("lib", g["M"]), "m:")
            vis = lambda m: "m:" + m["name"]
        elif how == "only":
            mi = ("only", ("lib", g["M"]), [m["name"] for m in pick])
        else:
            ren = rng.sample(pick, 8)
            mi = ("rename", ("lib", g["M"]), [(m["name"], "r-" + m["name"]) for m in ren])
            vis = lambda m, ren=ren: ("r-" + m["name"]) if m in ren else m["name"]
        pm, vm = g["pm"], g["vm"]
        lines = ["(import (scheme base) (scheme write) (scheme eval) %s)" % P.iset_str(mi), Y_PRELUDE]
        cases = []

        def use_of(m, section, envq):
            if m["use"] is not None:
                return m["use"](vis(m))
            gname = "gen-%s-%d" % (section, len(cases))
            return "(let () (%s %s) (%s 1))" % (vis(m), gname, gname) if envq else None

        def emit(m, section, form, quoted_env=None):
            k = len(cases)
            cases.append(dict(m=m, section=section, form=form))
            if quoted_env:
                lines.append("(c14-show %d (lambda () (eval '%s %s)))" % (k, form, quoted_env))
            else:
                lines.append("(c14-show %d (lambda () %s))" % (k, form))
        # 1. the importer lacks the names
        for m in pick:
            if m["use"] is None:
                gname = "gen-top1-%d" % len(cases)
                lines.append("(%s %s)" % (vis(m), gname))
                emit(m, "lacking", "(%s 1)" % gname)
            else:
                emit(m, "lacking", m["use"](vis(m)))
        # 2. environments: the macro library under another import set, next to a user library binding the same names; local bindings
        e_how = rng.choice(["plain", "prefix"])
        e_vis = (lambda m: m["name"]) if e_how == "plain" else (lambda m: "e:" + m["name"])
        e_iset = "'%s" % _lname(g["M"]) if e_how == "plain" else "'(prefix %s e:)" % _lname(g["M"])
        order = rng.random() < 0.5
        lines.append("(define c14-env-u (environment '(scheme base) %s))" % (" ".join([e_iset, "'" + _lname(g["U"])] if order else ["'" + _lname(g["U"]), e_iset])))
        lines.append("(define c14-env-m (environment '(scheme base) %s))" % e_iset)
        for m in pick:
            if m["use"] is None:
                f = "(let () (%s gen-e) (gen-e 1))" % e_vis(m)
            else:
                f = m["use"](e_vis(m))
            emit(m, "user-library-binds-the-names", f, "c14-env-u")
            emit(m, "local-binding", "(let ((%s (lambda xs 'v14local)) (%s 'v14local)) %s)" % (pm, vm, f), "c14-env-m")
        for nm in (pm, vm):
            k = len(cases)
            cases.append(dict(m=None, section="private-name", form=nm))
            lines.append("(c14-show %d (lambda () (eval '%s c14-env-m)))" % (k, P.sym(nm)))
        # 3. the importer defines the names at top level
        lines.append("(define (%s . xs) (cons 'v14top xs))" % pm)
        lines.append("(define %s 'v14top)" % vm)
        for m in pick:
            if m["use"] is None:
                gname = "gen-top3-%d" % len(cases)
                lines.append("(%s %s)" % (vis(m), gname))
                emit(m, "top-level-definition", "(%s 1)" % gname)
            else:
                emit(m, "top-level-definition", m["use"](vis(m)))
        lines.append('(write-string "DONE\\n")')
        prog = os.path.join(gdir, "prog.scm")
        open(prog, "w").write("\n".join(lines) + "\n")
        res, rc, err, done = _run(P, d, prog, moddir)
        rep = _replay(d, moddir, prog)
        libtext = [g["sld"][g[k]] for k in "HMU"]
        for k, c in enumerate(cases):
            m = c["m"]
            if k not in res:
                ctx.violation("macro-template:%s:no-answer" % (m["shape"] if m else "private-name"), input=c["form"], graph=libtext,
                              observed="no answer for case %d (%s); rc=%s %s" % (k, c["section"], rc, (err or "")[-400:]),
                              expected="the program runs to its end", replay=rep)
                break
            try:
                got = P.norm(P.parse_datum(res[k])[0])
            except Exception as e:
                ctx.broken("correspondence:unreadable-output", "template program %s printed %r (%s)" % (prog, res[k][:200], e))
                break
            if m is None:
                ctx.count(1, key=("private", g["how"], c["form"]), nontrivial=True)
                if not (isinstance(got, tuple) and got and got[0] == "error"):
                    ctx.violation("macro-template:private-name:unexpectedly-bound", input="(eval '%s (environment '(scheme base) %s))" % (c["form"], e_iset), graph=libtext,
                                  expected="an error: the name is private to (or privately imported by) the macro library", observed=repr(got), replay=rep)
                continue
            exp = m["exp"](pv, vv)
            ctx.count(1, key=("tmpl", m["shape"], m["pos"], c["section"], g["how"], how, g["sld"][g["M"]].replace(g["gid"], "G")), nontrivial=True)
            ctx.cov["macro_template_probes"] = ctx.cov.get("macro_template_probes", 0) + 1
            if got == exp:
                continue
            flat = repr(got)
            if isinstance(got, tuple) and got and got[0] == "error":
                cls = "private-reference-unresolved"
            elif "v14user" in flat or "v14local" in flat or "v14top" in flat:
                cls = "importer-binding-captured"
            else:
                cls = "wrong-value"
            ctx.violation("macro-template:%s:%s:%s" % (m["shape"], m["pos"], cls), input="%s   ; case %d, importer: %s" % (c["form"], k, c["section"]),
                          graph=libtext, expected="%r: the template's %s denotes the macro library's binding (%s)" % (exp, pm if m["pos"] == "op" else vm, toks[0 if m["pos"] == "op" else 1]),
                          observed=repr(got), replay=rep)


def run(P, ctx, d, spec_exe, moddir, seed):
    rng = random.Random(seed)
    thorough = ctx.thorough
    run_export_all(P, ctx, d, spec_exe, moddir, rng, 12 if not thorough else 150, 12 if not thorough else 24)
    run_templates(P, ctx, d, spec_exe, moddir, rng, 5 if not thorough else 60)
    if not ctx.cov.get("export_all_cold_modifier_cases"):
        ctx.note("the standing defect %s was not observed in this run" % SIG_COLD)
    if not ctx.cov.get("export_all_plain_placeholder_cases"):
        ctx.note("the standing defect %s was not observed in this run" % SIG_BULK)
