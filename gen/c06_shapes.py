"""C06 (G, weak form): the Scheme definitions that coq/C06/Machine.v mirrors BY HAND are pinned to the text they
were mirrored from.  On every run the forms are read from $VERIF_REPO with the reader of gen/c06_travel.py,
printed canonically (whitespace/comment insensitive) and compared with PINNED.  A difference does not prove a
violation (the trace correspondence decides that) but it means the hand-written mirror must be re-read:
ctx.broken("mirror:<name>").  travel-to-point! is not here: it is translated, not pinned."""
import os, re
from gen import c06_travel as T

PINNED = [('dynamic-wind',
  'lib/init-7.scm',
  '^\\(define \\(dynamic-wind ',
  ['(define (dynamic-wind in body out) (in) (let ((here (%dk))) (%dk (%make-point (+ (%point-depth here) 1) in out here)) (let ((res (body))) (%dk '
   'here) (out) res)))']),
 ('continuation->procedure',
  'lib/init-7.scm',
  '^\\(define \\(continuation->procedure ',
  ['(define (continuation->procedure cont point) (lambda res (travel-to-point! (%dk) point) (%dk point) (cont (%values res))))']),
 ('call-with-current-continuation',
  'lib/init-7.scm',
  '^\\(define \\(call-with-current-continuation ',
  ['(define (call-with-current-continuation proc) (%call/cc (lambda (cont) (proc (continuation->procedure cont (%dk))))))']),
 ('raise-continuable',
  'lib/init-7.scm',
  '^\\(define \\(raise-continuable ',
  ['(define (raise-continuable exn) (raise (make-exception (quote continuable) "" exn #f #f)))']),
 ('%with-exception-handler',
  'lib/init-7.scm',
  '\\(define \\(%with-exception-handler ',
  ['(define (%with-exception-handler handler thunk) (let* ((old (thread-parameters)) (new (cons (cons current-exception-handler handler) old))) '
   '(dynamic-wind (lambda () (thread-parameters-set! new)) thunk (lambda () (thread-parameters-set! old)))))',
   '(define (%with-exception-handler handler thunk) (let ((old (current-exception-handler))) (dynamic-wind (lambda () (current-exception-handler '
   'handler)) thunk (lambda () (current-exception-handler old)))))']),
 ('with-exception-handler',
  'lib/init-7.scm',
  '^\\(define \\(with-exception-handler ',
  ['(define (with-exception-handler handler thunk) (letrec ((orig-handler (current-exception-handler)) (self (lambda (exn) (%with-exception-handler '
   'orig-handler (lambda () (cond ((and (exception? exn) (eq? (quote continuable) (exception-kind exn))) (handler (exception-irritants exn))) (else '
   '(handler exn) (error "exception handler returned")))))))) (%with-exception-handler self thunk)))']),
 ('guard',
  'lib/scheme/misc-macros.scm',
  '^\\(define-syntax guard$',
  ['(define-syntax guard (syntax-rules () ((guard (var clause ...) e1 e2 ...) ((call-with-current-continuation (lambda (guard-k) '
   '(with-exception-handler (lambda (condition) ((call-with-current-continuation (lambda (handler-k) (guard-k (lambda () (let ((var condition)) '
   '(guard-aux (handler-k (lambda () (raise-continuable condition))) clause ...)))))))) (lambda () (let ((res (let () e1 e2 ...))) (guard-k (lambda '
   '() res)))))))))))']),
 ('guard-aux',
  'lib/scheme/misc-macros.scm',
  '^\\(define-syntax guard-aux$',
  ['(define-syntax guard-aux (syntax-rules (else =>) ((guard-aux reraise (else result1 result2 ...)) (begin result1 result2 ...)) ((guard-aux '
   'reraise (test => result)) (let ((temp test)) (if temp (result temp) reraise))) ((guard-aux reraise (test => result) clause1 clause2 ...) (let '
   '((temp test)) (if temp (result temp) (guard-aux reraise clause1 clause2 ...)))) ((guard-aux reraise (test)) (or test reraise)) ((guard-aux '
   'reraise (test) clause1 clause2 ...) (or test (guard-aux reraise clause1 clause2 ...))) ((guard-aux reraise (test result1 result2 ...)) (if test '
   '(begin result1 result2 ...) reraise)) ((guard-aux reraise (test result1 result2 ...) clause1 clause2 ...) (if test (begin result1 result2 ...) '
   '(guard-aux reraise clause1 clause2 ...)))))']),
 ('parameterize',
  'lib/srfi/39/syntax.scm',
  '^\\(define-syntax parameterize$',
  ['(define-syntax parameterize (syntax-rules () ((parameterize ("step") old cons-new ((param value ptmp vtmp) ...) () body) (let ((ptmp param) ...) '
   '(let ((vtmp (parameter-convert ptmp value)) ...) (let ((old (thread-parameters))) (let ((new cons-new)) (dynamic-wind (lambda () '
   '(thread-parameters-set! new)) (lambda () . body) (lambda () (thread-parameters-set! old)))))))) ((parameterize ("step") old cons-new args '
   '((param value) . rest) body) (parameterize ("step") old (cons (cons ptmp vtmp) cons-new) ((param value ptmp vtmp) . args) rest body)) '
   '((parameterize ((param value) ...) . body) (parameterize ("step") old (thread-parameters) () ((param value) ...) body))))']),
 ('point accessors',
  'lib/init-7.scm',
  '^\\(define (%make-point |\\(%point-(depth|in|out|parent) )',
  ['(define %make-point vector)',
   '(define (%point-depth point) (vector-ref point 0))',
   '(define (%point-in point) (vector-ref point 1))',
   '(define (%point-out point) (vector-ref point 2))',
   '(define (%point-parent point) (vector-ref point 3))'])]


def canon(d):
    if isinstance(d, list):
        return "(" + " ".join(canon(x) for x in d) + ")"
    if isinstance(d, tuple):
        return '"' + d[1] + '"'
    return d


def current(repo, path, pat):
    text = open(os.path.join(repo, path)).read()
    return [canon(T.read_form(text, m.start())[0]) for m in re.finditer(pat, text, re.M)]


def check(ctx):
    from vlib import build as B
    ok = True
    for name, path, pat, want in PINNED:
        try:
            got = current(B.REPO, path, pat)
        except (T.Unsupported, OSError) as e:
            got = ["unreadable: %s" % e]
        if got != want:
            ok = False
            ctx.broken("mirror:" + name, "%s in %s no longer has the text the machine of coq/C06/Machine.v mirrors; now: %s" % (name, path, " || ".join(got)[:600]))
    return ok
