"""C18 (G): regenerate from lib/chibi/iset/constructors.scm the pure guard / arithmetic functions of the bit-trie
(`bits-thresh`, `range->bits`, `iset-should-merge-left?`, `iset-should-merge-right?`) as Gallina over the tree type of
coq/C18/ISet.v.  Emitted on every run as coq/Gen/C18_ISetGuards.v; coq/C18/ISetTie.v proves each generated function
equal to the hand-written model function the theorems are about, so an edit of these guards in the Scheme source
re-opens the proof (the build of Properties_C18 fails) instead of leaving the model silently behind the code.

Subset (anything else raises Unsupported => ctx.broken; fail closed):
  (define NAME integer)            (define (NAME p ...) expr)     one body expression
  integers, parameters, previously defined constants
  (iset-start|end|bits|left|right e)   (+ - < > <= >= = with 2 arguments, - with 1)   (and ...) (or ...) (not e)
  (arithmetic-shift e e)   calls of the generated functions and of iset-max-end / iset-min-start (model functions)
A tree / option value in a boolean position counts as true unless it is #f (Nil / None), as in Scheme."""
import os
from gen.c18_cov import read_all


class Unsupported(Exception):
    pass


WANTED = ["bits-thresh", "range->bits", "iset-should-merge-left?", "iset-should-merge-right?"]
NICE = {"bits-thresh": "gen_bits_thresh", "range->bits": "gen_range_bits", "iset-should-merge-left?": "gen_should_merge_left",
        "iset-should-merge-right?": "gen_should_merge_right"}
PARAM_TYPES = {"range->bits": ["Z", "Z"], "iset-should-merge-left?": ["tree", "tree"], "iset-should-merge-right?": ["tree", "tree"]}
RESULT = {"bits-thresh": "Z", "range->bits": "Z", "iset-should-merge-left?": "bool", "iset-should-merge-right?": "bool"}
ACCESS = {"iset-start": ("t_start", "Z"), "iset-end": ("t_end", "Z"), "iset-bits": ("t_bits", "optZ"), "iset-left": ("t_left", "tree"),
          "iset-right": ("t_right", "tree")}
MODEL_CALLS = {"iset-max-end": ("max_end", ["tree"], "Z"), "iset-min-start": ("min_start", ["tree"], "Z")}
CMP = {"<": "<?", ">": ">?", "<=": "<=?", ">=": ">=?", "=": "=?"}
KEYWORDS = {"end", "at", "as", "in", "then", "else", "with", "match", "fun", "return", "let", "if"}


def ident(name):
    n = name.replace("-", "_").replace("?", "_p").replace("!", "_x").replace(">", "_to_")
    return n + "_" if n in KEYWORDS else n


def as_bool(txt, ty):
    if ty == "bool":
        return txt
    if ty == "tree":
        return "(gen_is_node %s)" % txt
    if ty == "optZ":
        return "(is_some %s)" % txt
    raise Unsupported("a %s value used as a condition" % ty)


def tr(nd, env, consts):
    """-> (gallina text, type)"""
    if nd.kids is None:
        t = nd.text
        if t.lstrip("-").isdigit():
            return "(%s)" % t, "Z"
        if t in env:
            return env[t]
        if t in consts:
            return NICE[t], "Z"
        raise Unsupported("unknown identifier %s" % t)
    if nd.quoted or not nd.kids or nd.kids[0].kids is not None:
        raise Unsupported("form at offset %d" % nd.start)
    h, args = nd.kids[0].text, nd.kids[1:]
    if h in ACCESS and len(args) == 1:
        a, ty = tr(args[0], env, consts)
        if ty != "tree":
            raise Unsupported("%s of a non-node" % h)
        return "(%s %s)" % (ACCESS[h][0], a), ACCESS[h][1]
    if h in ("+", "-") and len(args) == 2:
        (a, ta), (b, tb) = tr(args[0], env, consts), tr(args[1], env, consts)
        if ta != "Z" or tb != "Z":
            raise Unsupported("arithmetic on non-integers in (%s ...)" % h)
        return "(%s %s %s)" % (a, h, b), "Z"
    if h == "-" and len(args) == 1:
        a, ta = tr(args[0], env, consts)
        if ta != "Z":
            raise Unsupported("negation of a non-integer")
        return "(- %s)" % a, "Z"
    if h in CMP and len(args) == 2:
        (a, ta), (b, tb) = tr(args[0], env, consts), tr(args[1], env, consts)
        if ta != "Z" or tb != "Z":
            raise Unsupported("comparison of non-integers in (%s ...)" % h)
        return "(%s %s %s)" % (a, CMP[h], b), "bool"
    if h in ("and", "or") and args:
        parts = [as_bool(*tr(x, env, consts)) for x in args]
        return "(" + (" && " if h == "and" else " || ").join(parts) + ")", "bool"
    if h == "not" and len(args) == 1:
        return "(negb %s)" % as_bool(*tr(args[0], env, consts)), "bool"
    if h == "arithmetic-shift" and len(args) == 2:
        (a, ta), (b, tb) = tr(args[0], env, consts), tr(args[1], env, consts)
        if ta != "Z" or tb != "Z":
            raise Unsupported("arithmetic-shift of non-integers")
        return "(Z.shiftl %s %s)" % (a, b), "Z"
    if h in MODEL_CALLS and len(args) == len(MODEL_CALLS[h][1]):
        name, ptys, rty = MODEL_CALLS[h]
        parts = []
        for x, pty in zip(args, ptys):
            a, ta = tr(x, env, consts)
            if ta != pty:
                raise Unsupported("argument type of %s" % h)
            parts.append(a)
        return "(%s %s)" % (name, " ".join(parts)), rty
    if h in PARAM_TYPES and h in consts and len(args) == len(PARAM_TYPES[h]):
        parts = []
        for x, pty in zip(args, PARAM_TYPES[h]):
            a, ta = tr(x, env, consts)
            if ta != pty:
                raise Unsupported("argument type of %s" % h)
            parts.append(a)
        return "(%s %s)" % (NICE[h], " ".join(parts)), RESULT[h]
    raise Unsupported("(%s ...) with %d arguments" % (h, len(args)))


def translate(src):
    defs = {}
    for top in read_all(src):
        if top.kids and top.head() == "define" and len(top.kids) >= 3:
            tgt = top.kids[1]
            name = tgt.kids[0].text if tgt.kids else tgt.text
            if name in WANTED:
                if name in defs:
                    raise Unsupported("%s defined twice" % name)
                defs[name] = top
    out = ["(* GENERATED by gen/c18_iset.py from lib/chibi/iset/constructors.scm - do not edit *)",
           "From Coq Require Import ZArith Bool.", "From ChibiV Require Import C18.ISet.", "Local Open Scope Z_scope.", "",
           "Definition gen_is_node (t : tree) : bool := match t with Nil => false | Node _ _ _ _ _ => true end.", ""]
    consts = set()
    for name in WANTED:
        if name not in defs:
            raise Unsupported("definition of %s not found" % name)
        top = defs[name]
        tgt = top.kids[1]
        if len(top.kids) != 3:
            raise Unsupported("%s has more than one body expression" % name)
        if tgt.kids is None:
            body, ty = tr(top.kids[2], {}, consts)
            if ty != "Z":
                raise Unsupported("constant %s is not an integer" % name)
            out.append("Definition %s : Z := %s." % (NICE[name], body))
        else:
            params = [k.text for k in tgt.kids[1:]]
            if any(k.kids is not None for k in tgt.kids[1:]) or len(params) != len(PARAM_TYPES[name]):
                raise Unsupported("parameter list of %s" % name)
            env = {p: (ident(p), ty) for p, ty in zip(params, PARAM_TYPES[name])}
            body, ty = tr(top.kids[2], env, consts)
            if RESULT[name] == "bool":
                body = as_bool(body, ty)
            elif ty != RESULT[name]:
                raise Unsupported("result type of %s" % name)
            out.append("Definition %s %s : %s :=\n  %s." % (NICE[name], " ".join("(%s : %s)" % (ident(p), t) for p, t in zip(params, PARAM_TYPES[name])),
                                                         RESULT[name], body))
        consts.add(name)
    return "\n".join(out) + "\n"


def regen(ctx, repo=None):
    from vlib import build as B
    path = os.path.join(repo or B.REPO, "lib", "chibi", "iset", "constructors.scm")
    try:
        text = translate(open(path).read())
    except (Unsupported, ValueError) as e:
        ctx.broken("gen:C18_ISetGuards", "lib/chibi/iset/constructors.scm left the translator's subset: %s" % e)
        return False
    ctx.gen("C18_ISetGuards", text)
    return True


if __name__ == "__main__":
    import sys
    print(translate(open(sys.argv[1]).read()))
