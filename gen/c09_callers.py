"""C09 (G), round 2: the CALLERS of the 128-bit helpers, re-translated from the checked tree on every run into
coq/Gen/C09_Callers.v (they were mirrored by hand in coq/C09/LuintProofs2.v in round 1):

  fxmul_step   bignum.c sexp_bignum_fxmul, body of the digit loop:   n = ..; data[i+offset] = ..; carry = ..;
  fxdiv_step   bignum.c sexp_bignum_fxdiv, body of the digit loop:   n = ..; q = ..; r = ..; data[i] = q; n = luint_from_uint(r);
  fxrem_step   bignum.c sexp_bignum_fxrem, body of the digit loop:   n = ..; q = ..; n = ..;   (round 2: new)
  fixmul       bignum.c sexp_mul, case SEXP_NUM_FIX_FIX
  fixmul_vm    vm.c     case SEXP_OP_MUL, both operands fixnums

The same C text serves both arms of SEXP_USE_CUSTOM_LONG_LONGS (in the native arm luint_add & co. are macros over
__int128); the translation instantiates the names with the struct-based helpers of Gen/C09_Luint.v.

Subset: a statement is `lvalue = expr;`; an expression is an identifier, `ident[index]`, a call `f(e, ...)` of a
translated helper, `sexp_unbox_fixnum(e)` (the operand itself: the model works on the unboxed integers),
`sizeof(sexp_uint_t)*8` (= 64) and parentheses.  Anything else, a different statement list, a different loop header or
a different shape of the fixnum test raises Unsupported: the check then reports the construct (fails closed)."""
import os, re

from gen.c09_luint import FUNCTIONS
HELPERS = set(FUNCTIONS)          # every helper Gen/C09_Luint.v defines may be called


class Unsupported(Exception):
    pass


def _tokens(s):
    toks = re.findall(r"[A-Za-z_]\w*|\d+|[()\[\],+*!=;-]", s)
    if "".join(toks) != re.sub(r"\s+", "", s):
        raise Unsupported("characters outside the expression subset in: %s" % s.strip())
    return toks


class _P:
    def __init__(self, toks, env):
        self.t, self.i, self.env = toks, 0, env

    def peek(self):
        return self.t[self.i] if self.i < len(self.t) else None

    def eat(self, x=None):
        v = self.peek()
        if v is None or (x is not None and v != x):
            raise Unsupported("expected %r, found %r in %s" % (x, v, " ".join(self.t)))
        self.i += 1
        return v

    def raw_until_bracket(self):
        out = []
        while self.peek() != "]":
            out.append(self.eat())
        return "".join(out)

    def expr(self):
        v = self.eat()
        if v == "(":
            e = self.expr()
            self.eat(")")
            return self.tail(e)
        if v == "sizeof":
            self.eat("("); ty = self.eat(); self.eat(")"); self.eat("*"); k = self.eat()
            if ty != "sexp_uint_t" or k != "8":
                raise Unsupported("sizeof(%s)*%s" % (ty, k))
            return "64"
        if re.match(r"\d+$", v):
            return v
        if self.peek() == "(":
            self.eat("(")
            args = []
            if self.peek() != ")":
                args.append(self.expr())
                while self.peek() == ",":
                    self.eat(","); args.append(self.expr())
            self.eat(")")
            if v == "sexp_unbox_fixnum":
                if len(args) != 1:
                    raise Unsupported("sexp_unbox_fixnum arity")
                return args[0]
            if v not in HELPERS:
                raise Unsupported("call of %s (not a translated helper)" % v)
            return "(%s %s)" % (v, " ".join(args))
        if self.peek() == "[":
            self.eat("["); idx = self.raw_until_bracket(); self.eat("]")
            key = "%s[%s]" % (v, idx)
            if key not in self.env:
                raise Unsupported("array element %s" % key)
            return self.env[key]
        if v not in self.env:
            raise Unsupported("variable %s" % v)
        return self.env[v]

    def tail(self, e):
        return e


def _expr(text, env):
    p = _P(_tokens(text), env)
    e = p.expr()
    if p.peek() is not None:
        raise Unsupported("trailing tokens in expression: %s" % text.strip())
    return e


def _function_body(src, name):
    m = re.search(r"^\w[\w\s\*]*\b%s\s*\([^)]*\)\s*\{" % re.escape(name), src, re.M)
    if not m:
        raise Unsupported("function %s not found" % name)
    i, depth = m.end(), 1
    while depth and i < len(src):
        depth += {"{": 1, "}": -1}.get(src[i], 0)
        i += 1
    return src[m.end():i - 1]


def _loop(body, header_re, fn):
    m = re.search(r"for\s*\(%s\)\s*\{" % header_re, body)
    if not m:
        raise Unsupported("%s: digit loop with header /%s/ not found" % (fn, header_re))
    j = body.index("}", m.end())
    inner = body[m.end():j]
    if "{" in inner:
        raise Unsupported("%s: nested block in the digit loop" % fn)
    stmts = [s.strip() for s in inner.split(";") if s.strip()]
    out = []
    for s in stmts:
        if "=" not in s:
            raise Unsupported("%s: statement without assignment: %s" % (fn, s))
        lhs, rhs = s.split("=", 1)
        out.append((re.sub(r"\s+", "", lhs), rhs))
    return out


def _fixmul(src, where, start_re, a_name, b_name):
    m = re.search(start_re, src)
    if not m:
        raise Unsupported("%s: fixnum*fixnum case not found" % where)
    seg = src[m.end():m.end() + 700]
    pat = (r"\s*prod\s*=\s*([^;]+);\s*if\s*\(\s*!\s*lsint_is_fixnum\s*\(\s*prod\s*\)\s*\)\s*"
           r"(\w+)\s*=\s*sexp_mul\s*\(\s*ctx\s*,\s*\w+\s*=\s*sexp_fixnum_to_bignum\s*\(\s*ctx\s*,\s*%s\s*\)\s*,\s*%s\s*\)\s*;\s*"
           r"else\s*(\w+)\s*=\s*sexp_make_fixnum\s*\(([^;]+)\)\s*;" % (a_name, b_name))
    m2 = re.match(pat, seg)
    if not m2 or m2.group(2) != m2.group(3):
        raise Unsupported("%s: the fixnum*fixnum case no longer reads `prod = ..; if (!lsint_is_fixnum(prod)) r = sexp_mul(bignum..); else r = sexp_make_fixnum(..);`" % where)
    env = {a_name: "a", b_name: "b", "prod": "prod"}
    prod = _expr(m2.group(1), env)
    res = _expr(m2.group(4), env)
    return "let prod := %s in\n  if lsint_is_fixnum prod =? 0 then None else Some %s" % (prod, res)


def translate(repo):
    big = open(os.path.join(repo, "bignum.c")).read()
    vm = open(os.path.join(repo, "vm.c")).read()
    out = ["(** GENERATED by gen/c09_callers.py from bignum.c / vm.c of the checked tree - do not edit *)",
           "From ChibiV Require Import C09.CSem Gen.C09_Luint.", "Local Open Scope Z_scope.", ""]
    # ---- fxmul
    body = _function_body(big, "sexp_bignum_fxmul")
    if not re.search(r"\bcarry\s*=\s*0\b", body):
        raise Unsupported("sexp_bignum_fxmul: carry is not initialised to 0")
    st = _loop(body, r"\s*i\s*=\s*0\s*;\s*i\s*<\s*len\s*;\s*i\+\+\s*", "sexp_bignum_fxmul")
    if [l for l, _ in st] != ["n", "data[i+offset]", "carry"]:
        raise Unsupported("sexp_bignum_fxmul: loop body assigns %s" % [l for l, _ in st])
    env = {"adata[i]": "x", "b": "b", "carry": "carry"}
    n = _expr(st[0][1], env)
    env["n"] = "n"
    out += ["(* bignum.c sexp_bignum_fxmul, digit loop: (digit written to data[i+offset], new carry) *)",
            "Definition fxmul_step (x b carry : Z) : Z * Z :=", "  let n := %s in" % n, "  (%s, %s)." % (_expr(st[1][1], env), _expr(st[2][1], env)), ""]
    # ---- fxdiv
    body = _function_body(big, "sexp_bignum_fxdiv")
    if not re.search(r"\br\s*=\s*0\b", body) or not re.search(r"sexp_luint_t\s+n\s*=\s*luint_from_uint\s*\(\s*0\s*\)", body):
        raise Unsupported("sexp_bignum_fxdiv: initial state is not r=0, n=luint_from_uint(0)")
    st = _loop(body, r"\s*i\s*=\s*len\s*-\s*1\s*;\s*i\s*>=\s*offset\s*;\s*i--\s*", "sexp_bignum_fxdiv")
    if [l for l, _ in st] != ["n", "q", "r", "data[i]", "n"]:
        raise Unsupported("sexp_bignum_fxdiv: loop body assigns %s" % [l for l, _ in st])
    env = {"data[i]": "d", "b": "b", "n": "n", "r": "r"}
    e1 = _expr(st[0][1], env)
    e2 = _expr(st[1][1], env); env["q"] = "q"
    e3 = _expr(st[2][1], env)
    if _expr(st[3][1], env) != "q" or _expr(st[4][1], env) != "(luint_from_uint r)":
        raise Unsupported("sexp_bignum_fxdiv: the loop no longer ends with data[i] = q; n = luint_from_uint(r)")
    out += ["(* bignum.c sexp_bignum_fxdiv, digit loop; loop invariant n = luint_from_uint r (initially r = 0, re-established by the",
            "   last statement): (quotient digit written to data[i], new remainder) *)",
            "Definition fxdiv_step (r d b : Z) : Z * Z :=", "  let n := luint_from_uint r in", "  let n := %s in" % e1, "  let q := %s in" % e2,
            "  let r := %s in" % e3, "  (q, r).", ""]
    # ---- fxrem
    body = _function_body(big, "sexp_bignum_fxrem")
    if not re.search(r"sexp_luint_t\s+n\s*=\s*luint_from_uint\s*\(\s*0\s*\)", body):
        raise Unsupported("sexp_bignum_fxrem: initial state is not n=luint_from_uint(0)")
    if not re.search(r"b0\s*=\s*\(\s*b\s*>=\s*0\s*\)\s*\?\s*b\s*:\s*-\s*b\s*;", body) or not re.search(r"if\s*\(\s*b0\s*==\s*0\s*\)\s*\{\s*return\s+sexp_xtype_exception", body):
        raise Unsupported("sexp_bignum_fxrem: b0 is no longer |b| with the zero divisor rejected before the loop")
    st = _loop(body, r"\s*i\s*=\s*len\s*-\s*1\s*;\s*i\s*>=\s*0\s*;\s*i--\s*", "sexp_bignum_fxrem")
    if [l for l, _ in st] != ["n", "q", "n"]:
        raise Unsupported("sexp_bignum_fxrem: loop body assigns %s" % [l for l, _ in st])
    env = {"data[i]": "d", "b0": "b0", "n": "n"}
    e1 = _expr(st[0][1], env)
    e2 = _expr(st[1][1], env); env["q"] = "q"
    e3 = _expr(st[2][1], env)
    out += ["(* bignum.c sexp_bignum_fxrem, digit loop: the running remainder n (a sexp_luint_t, initially 0) after one more digit d *)",
            "Definition fxrem_step (n : Z * Z) (d b0 : Z) : Z * Z :=", "  let n := %s in" % e1, "  let q := %s in" % e2, "  let n := %s in" % e3, "  n.", ""]
    # ---- fixnum * fixnum
    out += ["(* bignum.c sexp_mul, case SEXP_NUM_FIX_FIX: Some = fixnum result, None = handed over to the bignum code *)",
            "Definition fixmul (a b : Z) : option Z :=", "  " + _fixmul(big, "bignum.c sexp_mul", r"case\s+SEXP_NUM_FIX_FIX\s*:(?=\s*prod)", "a", "b") + ".", "",
            "(* vm.c case SEXP_OP_MUL, both operands fixnums *)",
            "Definition fixmul_vm (a b : Z) : option Z :=",
            "  " + _fixmul(vm, "vm.c SEXP_OP_MUL", r"case\s+SEXP_OP_MUL\s*:[^{]*?if\s*\(\s*sexp_fixnump\s*\(\s*tmp1\s*\)\s*&&\s*sexp_fixnump\s*\(\s*tmp2\s*\)\s*\)\s*\{", "tmp1", "tmp2") + ".", ""]
    return "\n".join(out)


def regen(ctx, repo):
    try:
        txt = translate(repo)
    except (Unsupported, OSError) as e:
        ctx.broken("translator:C09_Callers", "caller snippet outside the translated subset: %s" % e)
        txt = ("(* translator failed closed: %s *)\nFrom ChibiV Require Import C09.CSem Gen.C09_Luint.\n" % str(e).replace("*)", "* )"))
        ctx.gen("C09_Callers", txt)
        return False
    ctx.gen("C09_Callers", txt)
    return True


if __name__ == "__main__":
    import sys
    print(translate(sys.argv[1]))
