"""C10 (G): allocator constants regenerated from the scratch build's headers and gc.c.

A C probe is compiled against `<build>/include` and prints, after preprocessing:
  unit_sz    = sexp_heap_align(1)                 (heap alignment; gc.c's SEXP_MINIMUM_OBJECT_SIZE must be this)
  hdr_sz     = sexp_heap_align(sexp_free_chunk_size)   (the bytes the zero-size sentinel occupies)
  min_obj    = SEXP_MINIMUM_OBJECT_SIZE            (#define copied textually from gc.c)
  ratio      = SEXP_GROW_HEAP_RATIO  as an exact fraction of the C double
  factor     = SEXP_GROW_HEAP_FACTOR as an exact fraction of the C double
  gc_pad, init_heap, and the configuration switches the model does not cover (must be 0).
The text of the tests the model mirrors (fit, split, growth test, growth size, first chunk, request rounding) is
also compared with the shape the model was written against; a different shape is returned in
vals["shape_problems"] and reported by the plugin as `broken` (after the trace checks had their chance to
find a concrete failing input)."""
import os, re, subprocess
from fractions import Fraction

PROBE = r"""
#include <stdio.h>
#include <chibi/sexp.h>
%(minobj)s
int main (void) {
  printf("unit_sz %%lu\n", (unsigned long)sexp_heap_align(1));
  printf("hdr_sz %%lu\n", (unsigned long)sexp_heap_align(sexp_free_chunk_size));
  printf("free_chunk_raw %%lu\n", (unsigned long)(sexp_free_chunk_size));
  printf("min_obj %%lu\n", (unsigned long)(SEXP_MINIMUM_OBJECT_SIZE));
  printf("ratio %%a\n", (double)(SEXP_GROW_HEAP_RATIO));
  printf("factor %%a\n", (double)(SEXP_GROW_HEAP_FACTOR));
  printf("gc_pad %%lu\n", (unsigned long)(SEXP_GC_PAD));
  printf("init_heap %%lu\n", (unsigned long)(SEXP_INITIAL_HEAP_SIZE));
  printf("max_heap %%lu\n", (unsigned long)(SEXP_MAXIMUM_HEAP_SIZE));
  printf("fixed_chunk %%d\n", (int)(SEXP_USE_FIXED_CHUNK_SIZE_HEAPS));
  printf("mmap_gc %%d\n", (int)(SEXP_USE_MMAP_GC));
  printf("use_malloc %%d\n", (int)(SEXP_USE_MALLOC));
  printf("use_boehm %%d\n", (int)(SEXP_USE_BOEHM));
  printf("global_heap %%d\n", (int)(SEXP_USE_GLOBAL_HEAP));
  printf("size_t_bits %%d\n", (int)(8 * sizeof(size_t)));
  { unsigned long k, bad = 0, u = sexp_heap_align(1);     /* sexp_heap_align(n) = the next multiple of u, on samples around unit multiples */
    for (k = 0; k < 70000; k++) if ((unsigned long)sexp_heap_align(k) != ((k + u - 1) / u) * u) bad++;
    for (k = 1; k < 60; k++) if ((unsigned long)sexp_heap_align((1UL << k) + 1) != ((((1UL << k) + 1) + u - 1) / u) * u) bad++;
    printf("align_bad %%lu\n", bad); }
  printf("first_block %%lu\n", (unsigned long)((char*)sexp_heap_first_block(((sexp_heap)0)) - (char*)(((sexp_heap)0)->data)));
  return 0;
}
"""

# the source shapes the model mirrors (whitespace-insensitive)
SHAPES = {
    "growth test (gc.c sexp_alloc)":
        "if(((max_freed<size)||((total_size>sum_freed)&&(total_size-sum_freed)>(total_size*SEXP_GROW_HEAP_RATIO)))"
        "&&((!h->max_size)||(total_size<h->max_size)))sexp_grow_heap(ctx,size,0);",
    "split test (gc.c sexp_try_alloc)":
        "if(ls2->size>=(size+SEXP_MINIMUM_OBJECT_SIZE)){",
    "fit test (gc.c sexp_try_alloc)":
        "if(ls2->size>=size){",
    "first chunk (gc.c sexp_make_heap)":
        "next->size=size-sexp_heap_align(sexp_free_chunk_size);",
    "request rounding (gc.c sexp_alloc)":
        "size=sexp_heap_align(size)+SEXP_GC_PAD;",
}


def probe(d):
    src = open(os.path.join(d, "gc.c")).read()
    m = re.search(r"^#define\s+SEXP_MINIMUM_OBJECT_SIZE\s+(.*)$", src, re.M)
    if not m:
        raise RuntimeError("gen/c10_consts: gc.c no longer #defines SEXP_MINIMUM_OBJECT_SIZE")
    squeezed = re.sub(r"\s+", "", re.sub(r"/\*.*?\*/", "", src, flags=re.S))
    shape_problems = [what for what, shape in SHAPES.items() if shape not in squeezed]
    c = os.path.join(d, "verif_c10_probe.c")
    exe = os.path.join(d, "verif_c10_probe")
    open(c, "w").write(PROBE % dict(minobj="#define SEXP_MINIMUM_OBJECT_SIZE " + m.group(1)))
    r = subprocess.run(["cc", "-I" + os.path.join(d, "include"), "-o", exe, c], capture_output=True, text=True)
    if r.returncode != 0:
        raise RuntimeError("gen/c10_consts: probe does not compile: " + r.stderr[-1500:])
    out = subprocess.run([exe], capture_output=True, text=True, timeout=30).stdout
    vals = {}
    for line in out.split("\n"):
        if line.strip():
            k, v = line.split()
            vals[k] = v
    vals["shape_problems"] = shape_problems
    vals["grow_src"], vals["grow_coq"] = grow_formula(src, Fraction(float.fromhex(vals["factor"])))
    vals["packed"], pk_problems = packed_formulas(d)
    vals["shape_problems"] = shape_problems + pk_problems
    return vals


# ---------------------------------------------------------------------------------------------------------------
# the growth formula of sexp_grow_heap, translated from the source text:  new_size = <expr>;
# subset: identifiers cur_size, size; integer literals; (size_t) / (sexp_uint_t) / (unsigned long) casts of integer
# expressions; sexp_heap_align(e); e ? e : e with a comparison as condition; + * / on integers (all values are
# non-negative and far below 2^64: no wrap-around); ceil(K * (double)(e)) and ceil((double)(e) * K) with K a double
# constant macro or literal (exact rational ceiling; exact below 2^53).  Anything else: fail closed.
class FormulaError(Exception):
    pass


def _tokens(text):
    out = []
    for m in re.finditer(r"\s*(?:(\d+\.\d*|\.\d+)|(\d+)[uUlL]*|([A-Za-z_]\w*)|(>=|<=|==|!=|[-+*/()?:<>,]))", text):
        if m.group(1):
            out.append(("flt", m.group(1)))
        elif m.group(2):
            out.append(("int", m.group(2)))
        elif m.group(3):
            out.append(("id", m.group(3)))
        else:
            out.append(("op", m.group(4)))
    if "".join(t[1] for t in out) != re.sub(r"\s+|(?<=\d)[uUlL]+", "", text):
        raise FormulaError("untokenisable growth formula: %r" % text)
    return out


class _P:
    INT_CASTS = {("size_t",), ("sexp_uint_t",), ("unsigned", "long"), ("long",), ("sexp_sint_t",)}

    def __init__(self, toks, dconsts, idents=("cur_size", "size"), allow_minus=False):
        self.t, self.i, self.dconsts = toks, 0, dconsts
        self.idents = dict((x, x) for x in idents) if not isinstance(idents, dict) else idents
        self.allow_minus = allow_minus

    def peek(self, k=0):
        return self.t[self.i + k] if self.i + k < len(self.t) else ("eof", "")

    def eat(self, val=None):
        tk = self.peek()
        if val is not None and tk[1] != val:
            raise FormulaError("expected %r, found %r" % (val, tk[1]))
        self.i += 1
        return tk

    # every parse function returns (type, coq) with type "int" | "dbl" (dbl = exact rational as (num_coq, den_coq))
    def ternary(self):
        c = self.cmp()
        if self.peek()[1] == "?":
            if c[0] != "bool":
                raise FormulaError("condition of ?: is not a comparison")
            self.eat("?"); a = self.ternary(); self.eat(":"); b = self.ternary()
            if a[0] != "int" or b[0] != "int":
                raise FormulaError("?: on non-integers")
            return ("int", "(if %s then %s else %s)" % (c[1], a[1], b[1]))
        return c

    def cmp(self):
        a = self.add()
        op = self.peek()[1]
        if op in (">", "<", ">=", "<="):
            self.eat(); b = self.add()
            if a[0] != "int" or b[0] != "int":
                raise FormulaError("comparison of non-integers")
            coq = {">": "(%s <? %s)" % (b[1], a[1]), "<": "(%s <? %s)" % (a[1], b[1]),
                   ">=": "(%s <=? %s)" % (b[1], a[1]), "<=": "(%s <=? %s)" % (a[1], b[1])}[op]
            return ("bool", coq)
        return a

    def add(self):
        a = self.mul()
        while self.peek()[1] in ("+",):
            self.eat(); b = self.mul()
            if a[0] != "int" or b[0] != "int":
                raise FormulaError("+ on non-integers")
            a = ("int", "(%s + %s)" % (a[1], b[1]))
        while self.peek()[1] == "-" and self.allow_minus:
            # round 3, image heaps only: translated as the integer difference (no wrap-around below 2^63; a difference
            # that the theorem packed_heap_make_inv cannot justify breaks the Coq build, the spec oracles find the input)
            self.eat(); b = self.mul()
            if a[0] != "int" or b[0] != "int":
                raise FormulaError("- on non-integers")
            a = ("int", "(%s - %s)" % (a[1], b[1]))
        if self.peek()[1] == "-":
            raise FormulaError("subtraction (size_t wrap-around) is outside the translated subset")
        return a

    def mul(self):
        a = self.unary()
        while self.peek()[1] in ("*", "/"):
            op = self.eat()[1]; b = self.unary()
            if a[0] == "int" and b[0] == "int":
                a = ("int", "(%s %s %s)" % (a[1], "*" if op == "*" else "/", b[1]))
            elif op == "*" and {a[0], b[0]} <= {"int", "dbl", "dint"} :
                # rational product: (n1/d1)*(n2/d2); "dint" = (double) of an integer expression
                na, da = (a[1], "1") if a[0] != "dbl" else a[1]
                nb, db = (b[1], "1") if b[0] != "dbl" else b[1]
                a = ("dbl", ("(%s * %s)" % (na, nb), "(%s * %s)" % (da, db)))
            else:
                raise FormulaError("double division is outside the translated subset")
        return a

    def unary(self):
        tk = self.peek()
        if tk == ("op", "("):
            # cast?
            j, words = self.i + 1, []
            while self.t[j][0] == "id" and self.t[j][1] in ("size_t", "sexp_uint_t", "sexp_sint_t", "unsigned", "long", "double"):
                words.append(self.t[j][1]); j += 1
            if words and self.t[j] == ("op", ")"):
                self.i = j + 1
                e = self.unary()
                if tuple(words) == ("double",):
                    if e[0] != "int":
                        raise FormulaError("(double) of a non-integer")
                    return ("dint", e[1])
                if tuple(words) in self.INT_CASTS:
                    if e[0] != "int":
                        raise FormulaError("integer cast of a double that is not a ceil(...)")
                    return e
                raise FormulaError("cast %s" % " ".join(words))
            self.eat("("); e = self.ternary(); self.eat(")")
            return e
        if tk[0] == "int":
            self.eat(); return ("int", tk[1])
        if tk[0] == "flt":
            self.eat(); fr = Fraction(float(tk[1])); return ("dbl", (str(fr.numerator), str(fr.denominator)))
        if tk[0] == "id":
            self.eat()
            nm = tk[1]
            if nm in self.idents:
                return ("int", self.idents[nm])
            if nm == "sexp_heap_align":
                self.eat("("); e = self.ternary(); self.eat(")")
                if e[0] != "int":
                    raise FormulaError("sexp_heap_align of a non-integer")
                return ("int", "(heap_align %s)" % e[1])
            if nm == "ceil":
                self.eat("("); e = self.ternary(); self.eat(")")
                if e[0] == "dbl":
                    return ("int", "(cdiv %s %s)" % e[1])
                if e[0] == "dint":
                    return ("int", e[1])
                raise FormulaError("ceil of an integer expression")
            if nm in self.dconsts:
                fr = self.dconsts[nm]
                return ("dbl", self.dconsts_names.get(nm, (str(fr.numerator), str(fr.denominator))))
            raise FormulaError("identifier %s is outside the translated subset" % nm)
        raise FormulaError("unexpected token %r" % (tk[1],))


def grow_formula(src, factor):
    """Coq text of the right-hand side of `new_size = ...;` in sexp_grow_heap"""
    m = re.search(r"int\s+sexp_grow_heap\s*\([^)]*\)\s*\{(.*?)\n\}", src, re.S)
    if not m:
        raise FormulaError("sexp_grow_heap not found")
    body = re.sub(r"/\*.*?\*/", "", m.group(1), flags=re.S)
    ms = re.findall(r"\bnew_size\s*=\s*([^;]*);", body)
    if len(ms) != 1:
        raise FormulaError("sexp_grow_heap assigns new_size %d times" % len(ms))
    if not re.search(r"cur_size\s*=\s*h->size\s*;", body) or not re.search(r"sexp_make_heap\s*\(\s*new_size\s*,", body):
        raise FormulaError("sexp_grow_heap no longer reads cur_size = h->size / calls sexp_make_heap(new_size, ...)")
    p = _P(_tokens(ms[0]), {"SEXP_GROW_HEAP_FACTOR": factor})
    p.dconsts_names = {"SEXP_GROW_HEAP_FACTOR": ("factor_num", "factor_den")}
    e = p.ternary()
    if p.peek()[0] != "eof":
        raise FormulaError("trailing tokens in the growth formula: %r" % (p.peek()[1],))
    if e[0] != "int":
        raise FormulaError("the growth formula is not an integer expression")
    return ms[0].strip(), e[1]


# ---------------------------------------------------------------------------------------------------------------
# round 3: the heap that sexp_load_image / sexp_gc_heap_pack build by hand (gc_heap.c sexp_gc_packed_heap_make):
# the right-hand sides of  req_size = ...;  heap->size = ...;  heap->free_list->next->size = ...;  are TRANSLATED
# (same subset + integer difference, identifiers packed_size free_size pad req_size heap->size
# sexp_free_chunk_size); the statements around them are compared as text.
PACKED_SHAPES = {
    "minimum free size (gc_heap.c sexp_gc_packed_heap_make)":
        "if(free_size>0&&free_size<2*sexp_free_chunk_size){free_size=2*sexp_free_chunk_size;}free_size=sexp_heap_align(free_size);",
    "segment allocation (gc_heap.c sexp_gc_packed_heap_make)":
        "sexp_heapheap=sexp_make_heap(sexp_heap_align(req_size),0,0);",
    "pad (gc_heap.c sexp_gc_packed_heap_make)":
        "sexpbase=sexp_heap_first_block(heap);size_tpad=(unsignedchar*)base-(unsignedchar*)heap->data;",
    "sentinel and chunk position (gc_heap.c sexp_gc_packed_heap_make)":
        "heap->free_list->size=0;if(free_size==0){heap->free_list->next=NULL;}else{"
        "heap->free_list->next=(sexp_free_list)((unsignedchar*)base+packed_size);heap->free_list->next->next=NULL;",
    "image read at the first block (gc_heap.c sexp_load_image)":
        "state.heap=sexp_gc_packed_heap_make(header.size,heap_free_size);",
}


def packed_formulas(d):
    """(dict name -> (source text, coq text), shape problems) for sexp_gc_packed_heap_make"""
    path = os.path.join(d, "gc_heap.c")
    src = open(path).read()
    m = re.search(r"static\s+sexp_heap\s+sexp_gc_packed_heap_make\s*\([^)]*\)\s*\{(.*?)\n\}", src, re.S)
    if not m:
        raise FormulaError("sexp_gc_packed_heap_make not found in gc_heap.c")
    body = re.sub(r"/\*.*?\*/", "", m.group(1), flags=re.S)
    squeezed = re.sub(r"\s+", "", re.sub(r"/\*.*?\*/", "", src, flags=re.S))
    problems = [what for what, shape in PACKED_SHAPES.items() if shape not in squeezed]
    idents = {"packed_size": "packed_size", "free_size": "free_size", "pad": "pad", "req_size": "req_size",
              "heap_size": "heap_size", "sexp_free_chunk_size": "free_chunk_raw"}
    out = {}
    for name, pat in (("pk_req", r"\breq_size\s*=\s*([^;]*);"), ("pk_hsize", r"\bheap->size\s*=\s*([^;]*);"),
                      ("pk_chunk", r"\bheap->free_list->next->size\s*=\s*([^;]*);")):
        ms = re.findall(pat, body)
        if len(ms) != 1:
            raise FormulaError("sexp_gc_packed_heap_make assigns %s %d times" % (name, len(ms)))
        text = ms[0].replace("heap->size", "heap_size")
        if "->" in text:
            raise FormulaError("%s: %r is outside the translated subset" % (name, ms[0]))
        p = _P(_tokens(text), {}, idents=idents, allow_minus=True)
        p.dconsts_names = {}
        e = p.ternary()
        if p.peek()[0] != "eof" or e[0] != "int":
            raise FormulaError("%s: %r is not an integer expression of the translated subset" % (name, ms[0]))
        out[name] = (ms[0].strip(), e[1])
    return out, problems


def coq_text(vals):
    ratio = Fraction(float.fromhex(vals["ratio"]))
    factor = Fraction(float.fromhex(vals["factor"]))
    for k in ("fixed_chunk", "mmap_gc", "use_malloc", "use_boehm", "global_heap", "gc_pad"):
        if int(vals[k]) != 0:
            raise RuntimeError("gen/c10_consts: configuration %s=%s is outside the modelled allocator" % (k, vals[k]))
    if int(vals["first_block"]) != int(vals["hdr_sz"]):
        raise RuntimeError("gen/c10_consts: sexp_heap_first_block is no longer data + align(free chunk header)")
    if int(vals["size_t_bits"]) != 64:
        raise RuntimeError("gen/c10_consts: size_t is not 64 bits")
    if int(vals.get("align_bad", "1")) != 0:
        raise RuntimeError("gen/c10_consts: sexp_heap_align(n) is not the next multiple of sexp_heap_align(1)")
    head = ("(** REGENERATED by gen/c10_consts.py from the scratch build of $VERIF_REPO — do not edit. *)\n"
            "From Coq Require Import ZArith.\nLocal Open Scope Z_scope.\n"
            "(* sexp_heap_align(1), include/chibi/sexp.h *)\nDefinition unit_sz : Z := %d.\n"
            "(* sexp_heap_align(sexp_free_chunk_size) = offset of sexp_heap_first_block *)\nDefinition hdr_sz : Z := %d.\n"
            "(* SEXP_MINIMUM_OBJECT_SIZE, gc.c *)\nDefinition min_obj : Z := %d.\n"
            "(* SEXP_GROW_HEAP_RATIO = %s *)\nDefinition ratio_num : Z := %d.\nDefinition ratio_den : Z := %d.\n"
            "(* SEXP_GROW_HEAP_FACTOR = %s *)\nDefinition factor_num : Z := %d.\nDefinition factor_den : Z := %d.\n"
            "(* SEXP_INITIAL_HEAP_SIZE / SEXP_MAXIMUM_HEAP_SIZE *)\nDefinition init_heap : Z := %d.\nDefinition max_heap : Z := %d.\n"
            % (int(vals["unit_sz"]), int(vals["hdr_sz"]), int(vals["min_obj"]),
               vals["ratio"], ratio.numerator, ratio.denominator,
               vals["factor"], factor.numerator, factor.denominator,
               int(vals["init_heap"]), int(vals["max_heap"])))
    tail = ("(* sexp_heap_align(n): the next multiple of unit_sz (checked by the probe on 70 000 values) *)\n"
            "Definition heap_align (n : Z) : Z := ((n + unit_sz - 1) / unit_sz) * unit_sz.\n"
            "(* ceil(n/d) for the double product inside ceil() *)\nDefinition cdiv (n d : Z) : Z := (n + d - 1) / d.\n"
            "(* sexp_grow_heap, gc.c, TRANSLATED from:  new_size = " + vals["grow_src"].replace("*)", "* )") + ";  *)\n"
            "Definition grow_formula (cur_size size : Z) : Z :=\n  " + vals["grow_coq"] + ".\n")
    pk = vals["packed"]
    tail += ("(* sexp_free_chunk_size = sizeof(struct sexp_free_list_t) *)\nDefinition free_chunk_raw : Z := %d.\n" % int(vals["free_chunk_raw"]))
    tail += ("(* gc_heap.c sexp_gc_packed_heap_make, TRANSLATED from:  req_size = %s;  heap->size = %s;  heap->free_list->next->size = %s;  *)\n"
             % tuple(pk[k][0].replace("*)", "* )") for k in ("pk_req", "pk_hsize", "pk_chunk")))
    tail += "Definition pk_req (packed_size free_size : Z) : Z :=\n  %s.\n" % pk["pk_req"][1]
    tail += "Definition pk_hsize (packed_size free_size pad req_size : Z) : Z :=\n  %s.\n" % pk["pk_hsize"][1]
    tail += "Definition pk_chunk (packed_size free_size pad req_size heap_size : Z) : Z :=\n  %s.\n" % pk["pk_chunk"][1]
    return head + tail


def regen(ctx, d=None):
    if d is None:
        d = ctx.build("default")
    vals = probe(d)
    ctx.gen("C10_Consts", coq_text(vals))
    return vals


if __name__ == "__main__":
    import sys
    vals = probe(sys.argv[1])
    print(vals)
    out = os.path.join(os.path.dirname(os.path.abspath(__file__)), "..", "coq", "Gen", "C10_Consts.v")
    open(out, "w").write(coq_text(vals))
