"""C17 (G): regenerate lib/srfi/151/bitwise.scm (the derived operations of (srfi 151)) from $VERIF_REPO as Gallina over Z
into coq/Gen/C17_Bitwise.v.  coq/C17/ProofsDerived*.v prove every generated definition equal to its Z.testbit
specification, so an edit of bitwise.scm (e.g. masking after instead of before combining in bit-field-rotate) re-opens
the proof: Properties_C17 no longer builds.

The seven primitives of bit.c are translated to the Z operations they are PROVED to compute (Properties_C17:
bit_and_Z, bit_ior_Z, bit_xor_Z, arithmetic_shift_Z, integer_length_Z, bit_set_Z):
   bit-and -> Z.land   bit-ior -> Z.lor   bit-xor -> Z.lxor   arithmetic-shift -> Z.shiftl
   integer-length -> integer_length_spec   (bit-set? i x) -> Z.testbit x i
and + - * modulo = zero? odd? > >= are exact integer arithmetic (Z).

Scheme subset (anything else raises Unsupported => ctx.broken; fail closed):
  (define (NAME p ... [. rest]) body)     (define (NAME p ...) (lambda args body))     (define NAME (f arg ...))
  (define NAME (let ((eof <ignored>)) (lambda (v) (lambda () (let ((x e)) (set! v e) x)))))     -- a generator: becomes the step function
  integer literals, #t/#f, variables, (if c a b), one-armed (if c (vector-set! v i x)) as a statement, (cond (c stmt ... e) ... (else e)),
  (let ((v e) ...) body), (let* ...), named let (a loop: every call of the loop name must be in tail position),
  (lambda (p ...) e), (apply f arg ... list), calls of parameters, of earlier definitions and of the primitives in PRIM.
Loops: a loop listed in LOOPS as "struct" recurses on the cdr of a list variable and becomes a structural Fixpoint; every other loop
gets a fuel argument and returns option (None = out of fuel); functions that (transitively) call such a loop take `fuel` and return option.
Loops are lambda-lifted: the enclosing variables they use become leading parameters (a captured vector that is vector-set! in the loop is
passed along with its current value).  Vectors are lists (coq/C17/SchemeBase.v).  Ill-typed text fails in Coq."""
import os, re
from vlib import build as B


class Unsupported(Exception):
    pass


# ------------------------------------------------------------------------------------------------ reader
def read_all(src):
    toks = re.findall(r'"(?:[^"\\]|\\.)*"|;[^\n]*|[()]|[^\s()";]+', src)
    toks = [t for t in toks if not t.startswith(";")]
    pos = 0

    def rd():
        nonlocal pos
        if pos >= len(toks):
            raise Unsupported("unexpected end of file")
        t = toks[pos]
        pos += 1
        if t == "(":
            out = []
            while True:
                if pos >= len(toks):
                    raise Unsupported("unbalanced parenthesis")
                if toks[pos] == ")":
                    pos += 1
                    return out
                out.append(rd())
        if t == ")":
            raise Unsupported("unexpected )")
        if t.startswith("'") or t.startswith("`") or t.startswith(","):
            raise Unsupported("quotation %s" % t)
        return t

    forms = []
    while pos < len(toks):
        forms.append(rd())
    return forms


# ------------------------------------------------------------------------------------------------ tables
# parameter / result types of every definition of bitwise.scm (Scheme is untyped; a definition that is not listed is refused)
SIG = {
    "bitwise-not": dict(params=[("i", "Z")], ret="Z"),
    "bitwise-complement": dict(params=[("f", "list Z -> Z")], lam=("args", "list Z"), ret="Z"),
    "make-nary": dict(params=[("proc2", "Z -> Z -> Z"), ("default", "Z")], lam=("args", "list Z"), ret="Z"),
    "bitwise-and": dict(value=True, nary=True), "bitwise-ior": dict(value=True, nary=True), "bitwise-xor": dict(value=True, nary=True),
    "bitwise-eqv": dict(value=True, nary=True), "bitwise-nand": dict(value=True, nary=True), "bitwise-nor": dict(value=True, nary=True),
    "bitwise-andc1": dict(params=[("i", "Z"), ("j", "Z")], ret="Z"), "bitwise-andc2": dict(params=[("i", "Z"), ("j", "Z")], ret="Z"),
    "bitwise-orc1": dict(params=[("i", "Z"), ("j", "Z")], ret="Z"), "bitwise-orc2": dict(params=[("i", "Z"), ("j", "Z")], ret="Z"),
    "any-bit-set?": dict(params=[("test-bits", "Z"), ("i", "Z")], ret="bool"),
    "every-bit-set?": dict(params=[("test-bits", "Z"), ("i", "Z")], ret="bool"),
    "first-set-bit": dict(params=[("i", "Z")], ret="Z"),
    "mask": dict(params=[("len", "Z")], ret="Z"), "range": dict(params=[("start", "Z"), ("end", "Z")], ret="Z"),
    "bitwise-if": dict(params=[("mask", "Z"), ("m", "Z"), ("n", "Z")], ret="Z"),
    "bit-field": dict(params=[("n", "Z"), ("start", "Z"), ("end", "Z")], ret="Z"),
    "bit-field-any?": dict(params=[("n", "Z"), ("start", "Z"), ("end", "Z")], ret="bool"),
    "bit-field-every?": dict(params=[("n", "Z"), ("start", "Z"), ("end", "Z")], ret="bool"),
    "copy-bit": dict(params=[("index", "Z"), ("i", "Z"), ("boolean", "bool")], ret="Z"),
    "bit-swap": dict(params=[("i1", "Z"), ("i2", "Z"), ("i", "Z")], ret="Z"),
    "bit-field-clear": dict(params=[("n", "Z"), ("start", "Z"), ("end", "Z")], ret="Z"),
    "bit-field-set": dict(params=[("n", "Z"), ("start", "Z"), ("end", "Z")], ret="Z"),
    "bit-field-replace": dict(params=[("dst", "Z"), ("src", "Z"), ("start", "Z"), ("end", "Z")], ret="Z"),
    "bit-field-replace-same": dict(params=[("dst", "Z"), ("src", "Z"), ("start", "Z"), ("end", "Z")], ret="Z"),
    "bit-field-rotate": dict(params=[("n", "Z"), ("count", "Z"), ("start", "Z"), ("end", "Z")], ret="Z"),
    "bit-reverse": dict(params=[("n", "Z"), ("len", "Z")], ret="Z"),
    "bit-field-reverse": dict(params=[("i", "Z"), ("start", "Z"), ("end", "Z")], ret="Z"),
    "vector->bits": dict(params=[("vec", "list bool")], ret="Z", lets={"len": "Z"}),
    "bits->vector": dict(params=[("n", "Z")], rest=("o", "list Z"), ret="list bool", lets={"len": "Z", "res": "list bool"}),
    "list->bits": dict(params=[("ls", "list bool")], ret="Z"),
    "bits->list": dict(params=[("n", "Z")], rest=("o", "list Z"), ret="list bool"),
    "bits": dict(params=[], rest=("o", "list bool"), ret="Z"),
    "bitwise-fold": dict(tvars=["A"], params=[("kons", "bool -> A -> A"), ("knil", "A"), ("i", "Z")], ret="A"),
    "bitwise-for-each": dict(params=[("proc", "bool -> bool"), ("i", "Z")], ret="bool"),
    "bitwise-unfold": dict(tvars=["St"], params=[("stop?", "St -> bool"), ("mapper", "St -> bool"), ("successor", "St -> St"), ("seed", "St")], ret="Z"),
    "make-bitwise-generator": dict(generator=True),
}
# (function, loop name) -> kind, loop variable types, result type
LOOPS = {
    ("make-nary", "lp"): dict(kind="struct", var="ls", types=["Z", "list Z"], ret="Z"),
    ("bit-reverse", "lp"): dict(kind="fuel", types=["Z", "Z", "Z"], ret="Z"),
    ("vector->bits", "lp"): dict(kind="fuel", types=["Z", "Z", "Z"], ret="Z"),
    ("bits->vector", "lp"): dict(kind="fuel", types=["Z", "Z"], ret="list bool"),
    ("bitwise-fold", "lp"): dict(kind="fuel", types=["Z", "Z", "A"], ret="A"),
    ("bitwise-unfold", "lp"): dict(kind="fuel", types=["St", "Z", "Z"], ret="Z"),
}
PRIM2 = {"bit-and": "Z.land", "bit-ior": "Z.lor", "bit-xor": "Z.lxor", "arithmetic-shift": "Z.shiftl", "modulo": "Z.modulo"}
PRIM_VALUE = {"bit-and": "Z.land", "bit-ior": "Z.lor", "bit-xor": "Z.lxor"}      # primitives passed as values
INFIX = {"+": "+", "*": "*", "=": "=?", ">": ">?", ">=": ">=?", "<": "<?", "<=": "<=?"}
PRIM1 = {"integer-length": "integer_length_spec", "zero?": "sb_zero_p", "odd?": "Z.odd", "not": "negb", "null?": "sb_null_p", "pair?": "sb_pair_p",
         "car": "sb_car", "cdr": "sb_cdr", "vector-length": "sb_vector_length", "list->vector": "sb_list_to_vector", "vector->list": "sb_vector_to_list"}
IGNORED_INIT = ["read-char", ["open-input-string", '""']]       # the unused `eof` of make-bitwise-generator
KEYWORDS = {"from", "to", "end", "at", "as", "in", "then", "else", "with", "match", "fun", "return", "let", "if", "fix", "forall", "exists", "Type", "Set", "Prop", "mod"}


def ident(name):
    n = name.replace("->", "_to_").replace("-", "_").replace("?", "_p").replace("!", "_x").replace("^", "_hat")
    if not re.fullmatch(r"[A-Za-z_][A-Za-z0-9_]*", n):
        raise Unsupported("identifier %s" % name)
    return n + "_" if n in KEYWORDS else n




def is_int(t):
    return isinstance(t, str) and re.fullmatch(r"-?\d+", t) is not None


def free_syms(e, acc):
    if isinstance(e, str):
        acc.add(e)
    else:
        for k in e:
            free_syms(k, acc)
    return acc


class Fn:
    """translation of one top-level definition"""

    def __init__(self, tr, name, sig):
        self.tr, self.name, self.sig = tr, name, sig
        self.loops_out = []          # lifted loop definitions (text)
        self.partial = False         # set when a fuel loop or a call of a partial function is met
        self.hoist = None
        self.fuel = "fuel"
        self.loop = None             # (scheme name, coq name, captured vars, kind) while inside a loop body
        self.ntmp = 0
        self.vtypes = {}             # scheme variable -> coq type (for lambda lifting)

    # ---------------------------------------------------------------- expressions
    def call_global(self, h, cargs):
        g = self.tr.done[h]
        if g.get("nary"):
            return "(%s [%s])" % (g["g"], "; ".join(cargs))
        if g.get("partial"):
            self.partial = True
            if self.hoist is None:
                raise Unsupported("call of the fuelled function %s in a position the translator cannot bind" % h)
            self.ntmp += 1
            v = "r%d" % self.ntmp
            self.hoist.append((v, "%s %s %s" % (g["g"], self.fuel, " ".join(cargs))))
            return v
        return "(%s %s)" % (g["g"], " ".join(cargs)) if cargs else g["g"]

    def args_for(self, h, args, env, applied_list=None):
        """argument strings for a call of the global h: a rest parameter receives a list"""
        g = self.tr.done[h]
        np = len(g.get("params", []))
        cargs = [self.pure(a, env) for a in args]
        if g.get("nary"):
            if applied_list is not None:
                raise Unsupported("apply of an n-ary definition")
            return cargs
        if g.get("rest"):
            if applied_list is not None:
                if len(cargs) != np:
                    raise Unsupported("apply %s with %d fixed arguments" % (h, len(cargs)))
                return cargs + [applied_list]
            if len(cargs) < np:
                raise Unsupported("too few arguments for %s" % h)
            return cargs[:np] + ["[%s]" % "; ".join(cargs[np:])]
        if applied_list is not None or len(cargs) != np:
            raise Unsupported("arity of the call of %s" % h)
        return cargs

    def pure(self, e, env):
        if isinstance(e, str):
            if is_int(e):
                return "(%s)" % e if e.startswith("-") else e
            if e == "#t":
                return "true"
            if e == "#f":
                return "false"
            if e in env:
                return env[e]
            if e in PRIM_VALUE:
                return PRIM_VALUE[e]
            if e in self.tr.done and (self.tr.done[e].get("value") or self.tr.done[e].get("params") is not None):
                if self.tr.done[e].get("partial"):
                    raise Unsupported("fuelled function %s used as a value" % e)
                return self.tr.done[e]["g"]
            raise Unsupported("unknown identifier %s" % e)
        if not e:
            raise Unsupported("empty application")
        h, args = e[0], e[1:]
        if not isinstance(h, str):
            raise Unsupported("computed operator %r" % (h,))
        a = lambda i: self.pure(args[i], env)
        if h in env:                                   # a parameter / variable in operator position
            return "(%s %s)" % (env[h], " ".join(self.pure(x, env) for x in args))
        if h == "if" and len(args) == 3:
            saved, self.hoist = self.hoist, None       # no binding of fuelled calls inside a non-tail if
            try:
                return "(if %s then %s else %s)" % (a(0), a(1), a(2))
            finally:
                self.hoist = saved
        if h in ("let", "let*") and len(args) == 2 and not isinstance(args[0], str):
            env2, out = dict(env), []
            for b in args[0]:
                if isinstance(b, str) or len(b) != 2 or not isinstance(b[0], str):
                    raise Unsupported("let binding %r" % (b,))
                init = self.pure(b[1], env2 if h == "let*" else env)
                out.append((ident(b[0]), init))
                if h == "let*":
                    env2[b[0]] = ident(b[0])
            for b in args[0]:
                env2[b[0]] = ident(b[0])
                self.vtypes[b[0]] = self.sig.get("lets", {}).get(b[0], "Z")
            body = self.pure(args[1], env2)
            for v, init in reversed(out):
                body = "(let %s := %s in %s)" % (v, init, body)
            return body
        if h == "let" and len(args) == 3 and isinstance(args[0], str):
            return self.named_let(args, env, tail=False)
        if h == "lambda" and len(args) == 2 and not isinstance(args[0], str):
            env2 = dict(env)
            for p in args[0]:
                env2[p] = ident(p)
            return "(fun %s => %s)" % (" ".join(ident(p) for p in args[0]), self.pure(args[1], env2))
        if h == "-" and len(args) == 1:
            return "(- %s)" % a(0)
        if h == "-" and len(args) == 2:
            return "(%s - %s)" % (a(0), a(1))
        if h in INFIX and len(args) == 2:
            return "(%s %s %s)" % (a(0), INFIX[h], a(1))
        if h in PRIM2 and len(args) == 2:
            return "(%s %s %s)" % (PRIM2[h], a(0), a(1))
        if h in PRIM1 and len(args) == 1:
            return "(%s %s)" % (PRIM1[h], a(0))
        if h == "bit-set?" and len(args) == 2:
            return "(Z.testbit %s %s)" % (a(1), a(0))
        if h == "vector-ref" and len(args) == 2:
            return "(sb_vector_ref %s %s)" % (a(0), a(1))
        if h == "make-vector" and len(args) == 2:
            return "(sb_make_vector %s %s)" % (a(0), a(1))
        if h == "apply" and len(args) >= 2 and isinstance(args[0], str):
            f, fixed, lst = args[0], args[1:-1], self.pure(args[-1], env)
            if f in env:
                if fixed:
                    raise Unsupported("apply of a variable with fixed arguments")
                return "(%s %s)" % (env[f], lst)
            if f in self.tr.done:
                return self.call_global(f, self.args_for(f, fixed, env, applied_list=lst))
            raise Unsupported("apply of %s" % f)
        if self.loop and h == self.loop[0]:
            raise Unsupported("call of the loop %s outside tail position" % h)
        if h in self.tr.done:
            return self.call_global(h, self.args_for(h, args, env))
        raise Unsupported("form (%s ...)" % h)

    # ---------------------------------------------------------------- loops
    def named_let(self, args, env, tail):
        lname, binds, body = args[0], args[1], args[2]
        spec = LOOPS.get((self.name, lname))
        if spec is None or self.loop is not None:
            raise Unsupported("loop %s of %s is not in the LOOPS table (or is nested)" % (lname, self.name))
        lvars = [b[0] for b in binds]
        if len(lvars) != len(spec["types"]):
            raise Unsupported("loop %s of %s has %d variables" % (lname, self.name, len(lvars)))
        inits = [self.pure(b[1], env) for b in binds]
        used = free_syms(body, set())
        captured = [v for v in env if v in used and v not in lvars and v != lname]
        cname = "%s_%s" % (self.tr.gname(self.name), ident(lname))
        tv = "".join(" {%s : Type}" % t for t in self.sig.get("tvars", []))
        cparams = "".join(" (%s : %s)" % (ident(v), self.vtypes[v]) for v in captured)
        lparams = "".join(" (%s : %s)" % (ident(v), t) for v, t in zip(lvars, spec["types"]))
        env2 = dict(env)
        for v, t in zip(lvars, spec["types"]):
            env2[v] = ident(v)
            self.vtypes[v] = t
        if spec["kind"] == "struct":
            sv = spec["var"]
            if not (isinstance(body, list) and len(body) == 4 and body[0] == "if" and body[1] == ["null?", sv]):
                raise Unsupported("structural loop %s must start with (if (null? %s) ...)" % (lname, sv))
            self.loop = (lname, cname, captured, "struct", None)
            nil = self.pure(body[2], env2)
            hd, tl = ident(sv) + "_hd", ident(sv) + "_tl"
            cons = self.tailpos(subst_car_cdr(body[3], sv, hd, tl), dict(env2, **{hd: hd, tl: tl}), wrap=False)
            self.loop = None
            self.loops_out.append("Fixpoint %s%s%s%s {struct %s} : %s :=\n  match %s with\n  | [] => %s\n  | %s :: %s => %s\n  end." % (
                cname, tv, cparams, lparams, ident(sv), spec["ret"], ident(sv), nil, hd, tl, cons))
            return "(%s %s)" % (cname, " ".join([env[v] for v in captured] + inits))
        if not tail:
            raise Unsupported("fuelled loop %s outside tail position" % lname)
        self.partial = True
        saved_fuel, self.fuel = self.fuel, "fuel'"
        self.loop = (lname, cname, captured, "fuel", None)
        b = self.tailpos(body, env2, wrap=True)
        self.loop = None
        self.fuel = saved_fuel
        self.loops_out.append("Fixpoint %s%s (fuel : nat)%s%s {struct fuel} : option (%s) :=\n  match fuel with\n  | O => None\n  | S fuel' => %s\n  end." % (
            cname, tv, cparams, lparams, spec["ret"], b))
        return "%s %s %s" % (cname, self.fuel, " ".join([env[v] for v in captured] + inits))

    def wrapped(self, e, env, wrap):
        """a non-control expression in tail position: Some e (with the fuelled calls inside it bound first)"""
        saved, self.hoist = self.hoist, []
        s = self.pure(e, env)
        binds, self.hoist = self.hoist, saved
        if not wrap:
            if binds:
                raise Unsupported("fuelled call inside a total definition")
            return s
        out = "Some %s" % s
        for v, c in reversed(binds):
            out = "match %s with Some %s => %s | None => None end" % (c, v, out)
        return out

    def stmts(self, seq, env, wrap):
        """statement sequence of a cond clause / body: (vector-set! v i x), (if c (vector-set! v i x)), then a tail expression"""
        if len(seq) == 1:
            return self.tailpos(seq[0], env, wrap)
        s = seq[0]
        if isinstance(s, list) and len(s) == 3 and s[0] == "if" and isinstance(s[2], list) and s[2] and s[2][0] == "vector-set!":
            v = self.setv(s[2], env)
            upd = "if %s then %s else %s" % (self.pure(s[1], env), v[1], env[v[0]])
        elif isinstance(s, list) and s and s[0] == "vector-set!":
            v = self.setv(s, env)
            upd = v[1]
        else:
            raise Unsupported("statement %r" % (s,))
        return "let %s := %s in %s" % (env[v[0]], upd, self.stmts(seq[1:], env, wrap))

    def setv(self, s, env):
        if len(s) != 4 or not isinstance(s[1], str) or s[1] not in env:
            raise Unsupported("vector-set! form")
        return s[1], "sb_vector_set %s %s %s" % (env[s[1]], self.pure(s[2], env), self.pure(s[3], env))

    def tailpos(self, e, env, wrap):
        if isinstance(e, list) and e:
            h, args = e[0], e[1:]
            if h == "if" and len(args) == 3:
                return "if %s then %s else %s" % (self.pure(args[0], env), self.tailpos(args[1], env, wrap), self.tailpos(args[2], env, wrap))
            if h == "cond" and args:
                out, closed = "", 0
                for i, cl in enumerate(args):
                    if isinstance(cl, str) or len(cl) < 2 or "=>" in cl:
                        raise Unsupported("cond clause")
                    if cl[0] == "else":
                        if i != len(args) - 1:
                            raise Unsupported("else is not last")
                        out += "(%s)" % self.stmts(cl[1:], env, wrap)
                        break
                    out += "if %s then (%s) else " % (self.pure(cl[0], env), self.stmts(cl[1:], env, wrap))
                else:
                    raise Unsupported("cond without else")
                return out
            if h in ("let", "let*") and len(args) == 2 and not isinstance(args[0], str):
                env2, out = dict(env), []
                for b in args[0]:
                    if isinstance(b, str) or len(b) != 2 or not isinstance(b[0], str):
                        raise Unsupported("let binding")
                    saved, self.hoist = self.hoist, ([] if wrap else None)
                    init = self.pure(b[1], env2 if h == "let*" else env)
                    binds, self.hoist = self.hoist, saved
                    out.append((ident(b[0]), init, binds or []))
                    self.vtypes[b[0]] = self.sig.get("lets", {}).get(b[0], "Z")
                    if h == "let*":
                        env2[b[0]] = ident(b[0])
                for b in args[0]:
                    env2[b[0]] = ident(b[0])
                body = self.tailpos(args[1], env2, wrap)
                for v, init, binds in reversed(out):
                    body = "let %s := %s in %s" % (v, init, body)
                    for bv, c in reversed(binds):
                        body = "match %s with Some %s => %s | None => None end" % (c, bv, body)
                return body
            if h == "let" and len(args) == 3 and isinstance(args[0], str):
                return self.named_let(args, env, tail=True)
            if self.loop and h == self.loop[0]:
                lname, cname, captured, kind, _ = self.loop
                cargs = [self.pure(x, env) for x in args]
                if kind == "struct":
                    return "%s %s" % (cname, " ".join([env[v] for v in captured] + cargs))
                return "%s fuel' %s" % (cname, " ".join([env[v] for v in captured] + cargs))
            if isinstance(h, str) and h in self.tr.done and self.tr.done[h].get("partial") and wrap and h not in env:
                self.partial = True
                saved, self.hoist = self.hoist, []
                cargs = self.args_for(h, args, env)
                binds, self.hoist = self.hoist, saved
                out = "%s %s %s" % (self.tr.done[h]["g"], self.fuel, " ".join(cargs))
                for v, c in reversed(binds):
                    out = "match %s with Some %s => %s | None => None end" % (c, v, out)
                return out
            if h == "apply" and wrap and len(args) >= 2 and isinstance(args[0], str) and args[0] not in env \
                    and args[0] in self.tr.done and self.tr.done[args[0]].get("partial"):
                self.partial = True
                cargs = self.args_for(args[0], args[1:-1], env, applied_list=self.pure(args[-1], env))
                return "%s %s %s" % (self.tr.done[args[0]]["g"], self.fuel, " ".join(cargs))
        return self.wrapped(e, env, wrap)


def subst_car_cdr(e, v, hd, tl):
    if isinstance(e, str):
        return e
    if e == ["car", v]:
        return hd
    if e == ["cdr", v]:
        return tl
    return [subst_car_cdr(k, v, hd, tl) for k in e]


def uses_partial(e, tr, fname):
    """does the body contain a fuelled loop or call a fuelled definition?  (decided before translating, so that the body can be wrapped)"""
    if isinstance(e, str):
        return e in tr.done and tr.done[e].get("partial", False)
    if len(e) == 4 and e[0] == "let" and isinstance(e[1], str):
        if LOOPS.get((fname, e[1]), {}).get("kind") == "fuel":
            return True
    return any(uses_partial(k, tr, fname) for k in e)


class Translator:
    def __init__(self, sig=None, prefix="s_", scope=None):
        self.sig = SIG if sig is None else sig
        self.prefix = prefix
        self.done = dict(scope or {})      # scheme name visible here -> entry (with "g": the generated Gallina name)
        self.own = set()
        self.out = []

    def gname(self, name):
        return self.prefix + ident(name)

    def define(self, form):
        if not (isinstance(form, list) and len(form) >= 3 and form[0] == "define"):
            raise Unsupported("top-level form %r" % (form[:2] if isinstance(form, list) else form,))
        head = form[1]
        name = head if isinstance(head, str) else head[0]
        sig = self.sig.get(name)
        if sig is None:
            raise Unsupported("definition %s is not in the SIG table" % name)
        if name in self.own:
            raise Unsupported("redefinition of %s" % name)
        self.own.add(name)
        if len(form) != 3:
            raise Unsupported("%s has more than one body form" % name)
        body = form[2]
        fn = Fn(self, name, sig)
        if sig.get("generator"):
            self.generator(fn, name, head, body)
            return
        if isinstance(head, str):
            if not sig.get("value"):
                raise Unsupported("%s is expected to be a procedure definition" % name)
            if uses_partial(body, self, name):
                raise Unsupported("value definition %s uses a fuelled function" % name)
            self.out.append("Definition %s := %s." % (self.gname(name), fn.pure(body, {})))
            self.done[name] = dict(sig, g=self.gname(name))
            return
        if sig.get("value"):
            raise Unsupported("%s is expected to be a value definition" % name)
        params = head[1:]
        rest = None
        if "." in params:
            k = params.index(".")
            if k != len(params) - 2:
                raise Unsupported("parameter list of %s" % name)
            rest, params = params[-1], params[:k]
        if [p for p, _ in sig["params"]] != params or (rest is None) != (sig.get("rest") is None) or (rest and sig["rest"][0] != rest):
            raise Unsupported("parameters of %s changed: %r" % (name, head[1:]))
        plist = list(sig["params"]) + ([sig["rest"]] if rest else [])
        if sig.get("lam"):
            if not (isinstance(body, list) and len(body) == 3 and body[0] == "lambda" and body[1] == sig["lam"][0]):
                raise Unsupported("%s is expected to return (lambda %s ...)" % (name, sig["lam"][0]))
            plist.append(sig["lam"])
            body = body[2]
        elif isinstance(body, list) and body and body[0] == "lambda":
            raise Unsupported("%s returns a lambda" % name)
        env = {}
        for p, t in plist:
            env[p] = ident(p)
            fn.vtypes[p] = t
        partial = uses_partial(body, self, name)
        text = fn.tailpos(body, env, wrap=partial)
        if fn.partial != partial:
            raise Unsupported("internal: partiality analysis of %s" % name)
        tv = "".join(" {%s : Type}" % t for t in sig.get("tvars", []))
        ps = "".join(" (%s : %s)" % (ident(p), t) for p, t in plist)
        self.out += fn.loops_out
        if partial:
            self.out.append("Definition %s%s (fuel : nat)%s : option (%s) :=\n  %s." % (self.gname(name), tv, ps, sig["ret"], text))
        else:
            self.out.append("Definition %s%s%s : %s :=\n  %s." % (self.gname(name), tv, ps, sig["ret"], text))
        self.done[name] = dict(sig, partial=partial, g=self.gname(name))

    def generator(self, fn, name, head, body):
        """(define NAME (let ((eof <ignored>)) (lambda (v) (lambda () (let ((x e)) (set! v e') x)))))
           => Definition s_NAME_step (v : Z) : bool * Z := let x := e in let v := e' in (x, v)."""
        ok = (isinstance(head, str) and isinstance(body, list) and len(body) == 3 and body[0] == "let" and len(body[1]) == 1
              and body[1][0][1] == IGNORED_INIT)
        if ok:
            unused, lam = body[1][0][0], body[2]
            ok = (isinstance(lam, list) and len(lam) == 3 and lam[0] == "lambda" and len(lam[1]) == 1 and isinstance(lam[2], list)
                  and len(lam[2]) == 3 and lam[2][0] == "lambda" and lam[2][1] == [] and unused not in free_syms(lam, set()))
        if not ok:
            raise Unsupported("make-bitwise-generator is not of the expected closure shape")
        v, inner = lam[1][0], lam[2][2]
        if not (isinstance(inner, list) and len(inner) == 4 and inner[0] == "let" and len(inner[1]) == 1 and isinstance(inner[2], list)
                and len(inner[2]) == 3 and inner[2][0] == "set!" and inner[2][1] == v and inner[3] == inner[1][0][0]):
            raise Unsupported("make-bitwise-generator body")
        x, e = inner[1][0]
        env = {v: ident(v)}
        s1 = fn.pure(e, env)
        s2 = fn.pure(inner[2][2], dict(env, **{x: ident(x)}))
        self.out.append("Definition %s_step (%s : Z) : bool * Z :=\n  let %s := %s in let %s := %s in (%s, %s)." % (
            self.gname(name), ident(v), ident(x), s1, ident(v), s2, ident(x), ident(v)))
        self.done[name] = dict(generator=True, g=self.gname(name) + "_step")


def translate_forms(tr, forms):
    """translate the top-level definitions [forms] with translator tr (its SIG table must be covered exactly)"""
    # top-level definitions may refer to later ones: emit in dependency order (stable; a cycle is refused)
    def dname(f):
        if not (isinstance(f, list) and len(f) >= 2 and f[0] == "define"):
            raise Unsupported("top-level form %r" % (f[:2] if isinstance(f, list) else f,))
        return f[1] if isinstance(f[1], str) else f[1][0]
    names = [dname(f) for f in forms]
    pending = list(forms)
    while pending:
        progressed = False
        for f in list(pending):
            deps = {x for x in free_syms(f[2:], set()) if x in names and x != dname(f)}
            if all(d in tr.own for d in deps):
                tr.define(f)
                pending.remove(f)
                progressed = True
                break
        if not progressed:
            raise Unsupported("cyclic top-level definitions: %s" % ", ".join(dname(f) for f in pending))
    missing = [n for n in tr.sig if n not in tr.own]
    if missing:
        raise Unsupported("definitions missing: %s" % ", ".join(missing))
    return tr


def translate(src):
    return translate_forms(Translator(), read_all(src)).out


# ------------------------------------------------------------------------------------------------ the wrapper libraries
# (srfi 142) and (srfi 33) re-export (srfi 151) under other names / argument conventions and define a few procedures
# of their own in a (begin ...) body.  Their import forms are checked against what is written here (fail closed).
SIG142 = {"bitwise-if": dict(params=[("mask", "Z"), ("n", "Z"), ("m", "Z")], ret="Z")}
IMPORT142 = [["chibi"], ["rename", ["srfi", "151"], ["bitwise-if", "srfi-151:bitwise-if"], ["bits->list", "integer->list"],
                         ["list->bits", "list->integer"], ["bits->vector", "integer->vector"], ["vector->bits", "vector->integer"]]]
SIG33 = {"mask": dict(params=[("len", "Z")], ret="Z"),
         "test-bit-field?": dict(params=[("size", "Z"), ("position", "Z"), ("n", "Z")], ret="bool"),
         "clear-bit-field": dict(params=[("size", "Z"), ("position", "Z"), ("n", "Z")], ret="Z"),
         "extract-bit-field": dict(params=[("size", "Z"), ("position", "Z"), ("n", "Z")], ret="Z"),
         "replace-bit-field": dict(params=[("size", "Z"), ("position", "Z"), ("newfield", "Z"), ("n", "Z")], ret="Z"),
         "copy-bit-field": dict(params=[("size", "Z"), ("position", "Z"), ("from", "Z"), ("to", "Z")], ret="Z")}
IMPORT33 = [["scheme", "base"], ["rename", ["srfi", "142"], ["bitwise-if", "bitwise-merge"], ["any-bit-set?", "any-bits-set?"],
                                 ["every-bit-set?", "all-bits-set?"]]]


def library(src, libname, imports_expected):
    forms = read_all(src)
    if len(forms) != 1 or forms[0][:2] != ["define-library", libname]:
        raise Unsupported("%r is not a single define-library form" % (libname,))
    imports, body, exports = None, [], None
    for decl in forms[0][2:]:
        if decl[0] == "import":
            if imports is not None:
                raise Unsupported("several import declarations")
            imports = decl[1:]
        elif decl[0] == "export":
            exports = decl[1:]
        elif decl[0] == "begin":
            body += decl[1:]
        else:
            raise Unsupported("library declaration %s" % decl[0])
    if imports != imports_expected:
        raise Unsupported("the import declaration of %r changed: %r" % (libname, imports))
    return exports, body


def renamed(scope, pairs):
    out = dict(scope)
    for old, new in pairs:
        if old not in scope:
            raise Unsupported("rename of unknown %s" % old)
        del out[old]
    for old, new in pairs:
        out[new] = scope[old]
    return out


def translate_wrappers(tr151, src142, src33):
    ex142, body142 = library(src142, ["srfi", "142"], IMPORT142)
    tr142 = Translator(SIG142, "s142_", renamed(tr151.done, IMPORT142[1][2:]))
    translate_forms(tr142, body142)
    scope = {n: e for n, e in tr142.done.items() if n in ex142}
    missing = [n for n in ex142 if n not in scope and n not in ("arithmetic-shift", "bit-count", "integer-length", "bit-set?")]   # C primitives
    if missing:
        raise Unsupported("(srfi 142) exports unknown names: %s" % ", ".join(missing))
    ex33, body33 = library(src33, ["srfi", "33"], IMPORT33)
    tr33 = Translator(SIG33, "s33_", renamed(scope, IMPORT33[1][2:]))
    translate_forms(tr33, body33)
    return tr142.out + tr33.out, tr142, tr33


HEADER = """(** GENERATED by gen/c17_bitwise.py from lib/srfi/151/bitwise.scm -- do not edit.
    Every definition of bitwise.scm, as Gallina over Z (primitives of bit.c = the Z operations they are proved to compute). *)
From Coq Require Import ZArith List Bool.
From ChibiV Require Import C17.Spec C17.SchemeBase.
Import ListNotations.
Local Open Scope Z_scope.
"""


def texts(lib):
    """(text of Gen/C17_Bitwise.v, text of Gen/C17_Wrappers.v) for the sources under lib = .../lib/srfi; raises Unsupported"""
    tr = translate_forms(Translator(), read_all(open(os.path.join(lib, "151", "bitwise.scm")).read()))
    defs, _, _ = translate_wrappers(tr, open(os.path.join(lib, "142.sld")).read(), open(os.path.join(lib, "33.sld")).read())
    whead = HEADER.replace("lib/srfi/151/bitwise.scm", "lib/srfi/142.sld and lib/srfi/33.sld") + "From ChibiV Require Import Gen.C17_Bitwise.\n"
    return HEADER + "\n" + "\n\n".join(tr.out) + "\n", whead + "\n" + "\n\n".join(defs) + "\n"


def regen(ctx):
    """On a source outside the subset: ctx.broken (the check fails), and the PINNED translation of the last validated source is
    emitted instead, so that the extracted model still builds and the correspondence runs can look for a failing input."""
    lib = os.path.join(B.REPO, "lib", "srfi")
    try:
        btext, wtext = texts(lib)
        ok = True
    except Exception as e:      # Unsupported, or any accident of the translator on text far outside the subset
        ctx.broken("gen:C17_Bitwise", "lib/srfi/151/bitwise.scm, 142.sld or 33.sld is outside the translator's subset (%s: %s); the theorems "
                   "about the derived operations speak about the pinned translation of the previous text until the translator is extended" % (type(e).__name__, e))
        from gen import c17_bitwise_pinned as P
        note = "(* FALLBACK: the current source is outside the translator's subset; this is the pinned translation *)\n"
        btext, wtext, ok = note + P.BITWISE, note + P.WRAPPERS, False
    ctx.gen("C17_Bitwise", btext)
    ctx.gen("C17_Wrappers", wtext)
    return ok


if __name__ == "__main__":      # python3 gen/c17_bitwise.py <repo>/lib/srfi [--pin]   (--pin rewrites gen/c17_bitwise_pinned.py)
    import sys
    b, w = texts(sys.argv[1])
    if "--pin" in sys.argv:
        with open(os.path.join(os.path.dirname(os.path.abspath(__file__)), "c17_bitwise_pinned.py"), "w") as fh:
            fh.write('"""C17: translation of the validated lib/srfi/151/bitwise.scm, 142.sld, 33.sld (with fixes/C17-*.patch), used by\n'
                     'gen/c17_bitwise.py only as a FALLBACK when the current source is outside the translator\'s subset (the check then fails\n'
                     'with gen:C17_Bitwise, but the model still builds).  Regenerate: PYTHONPATH=/verif python3 gen/c17_bitwise.py <repo>/lib/srfi --pin"""\n')
            fh.write("BITWISE = %r\n\nWRAPPERS = %r\n" % (b, w))
    else:
        print(b)
        print(w)
