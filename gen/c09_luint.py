"""C09 (G): mini C -> Gallina translator for the struct-based 128-bit helpers of include/chibi/bignum.h
(the SEXP_USE_CUSTOM_LONG_LONGS arm, lines 63-392), over clang's JSON AST of the *working tree* being checked.

Subset (anything else raises Unsupported => the check reports the construct, it never guesses):
  * parameters / locals of an integer type or of type sexp_luint_t / sexp_lsint_t ({hi, lo} => Gallina pair (hi, lo));
  * locals may be re-assigned (=> a shadowing `let`), struct fields assigned (`x.f = e`, `x.f |= e`);
    a struct local declared without initialiser must have a field written before that field is read;
  * + - * << >> & | ^ ~ unary-, comparisons, && || !, integer casts, sizeof(type), calls of functions translated earlier;
  * if / else / return, blocks (a block-local may not shadow a visible name); an `if` that does not return
    on every path may not return at all and becomes `let '(modified vars) := if c then .. else .. in rest`;
  * `for (int i = 0; i < LITERAL; i++) body` with a body that neither reads i nor returns =>
    a separate definition `<fn>_loop<k>` (state = tuple of the variables the body assigns) iterated by CSem.iter.
Semantics: an operation whose C type is unsigned carries `wrap bits`; integral conversions carry wrap/swrap when they can
lose information; constant sub-expressions (SEXP_MAX_FIXNUM ...) are folded here with the same rules.  Signed + - *
and unary minus are emitted with `swrap` (two's complement) and every such site is listed in `signed_sites`;
shift counts that are not literals are listed in `shift_sites` — the Coq theorems state the argument ranges under
which these sites are inside C's defined behaviour.
"""
import json, os, re, subprocess

HERE = os.path.dirname(os.path.abspath(__file__))

# order = dependency order (a callee must come first)
FUNCTIONS = [
    "lsint_lt_0", "sexp_lsint_fits_sint", "sexp_luint_fits_uint", "luint_from_lsint", "lsint_from_luint",
    "lsint_from_sint", "luint_from_uint", "lsint_to_sint", "luint_to_uint", "lsint_to_sint_hi", "luint_to_uint_hi",
    "lsint_negate", "luint_eq", "luint_lt", "luint_shl", "luint_shr", "luint_add", "luint_add_uint", "luint_sub",
    "luint_mul_uint", "lsint_mul_sint", "luint_div", "luint_div_uint", "luint_and", "luint_is_fixnum", "lsint_is_fixnum",
]


class Unsupported(Exception):
    pass


INT_TYPES = {
    "int": (32, True), "unsigned int": (32, False), "long": (64, True), "unsigned long": (64, False),
    "long long": (64, True), "unsigned long long": (64, False), "short": (16, True), "unsigned short": (16, False),
    "char": (8, True), "signed char": (8, True), "unsigned char": (8, False), "_Bool": (1, False),
    "sexp_sint_t": (64, True), "sexp_uint_t": (64, False), "size_t": (64, False), "ssize_t": (64, True),
    "uint64_t": (64, False), "int64_t": (64, True), "uint32_t": (32, False), "int32_t": (32, True),
}
STRUCTS = {  # field -> (bits, signed); Gallina: (hi, lo)
    "sexp_luint_t": {"hi": (64, False), "lo": (64, False)},
    "sexp_lsint_t": {"hi": (64, True), "lo": (64, False)},
}


def clean(q):
    q = re.sub(r"\b(const|volatile|register)\b", "", q or "").strip()
    return re.sub(r"\s+", " ", q)


def ntype(n):
    """('int', bits, signed) | ('struct', name) | None"""
    t = n.get("type", {}) if "type" in n else n
    for q in (t.get("qualType"), t.get("desugaredQualType")):
        q = clean(q)
        if q in STRUCTS:
            return ("struct", q)
    for q in (t.get("desugaredQualType"), t.get("qualType")):
        q = clean(q)
        if q in INT_TYPES:
            return ("int",) + INT_TYPES[q]
    return None


def rng(t):
    bits, signed = t
    return (-(1 << (bits - 1)), (1 << (bits - 1)) - 1) if signed else (0, (1 << bits) - 1)


def cwrap(v, t):
    bits, signed = t
    v &= (1 << bits) - 1
    if signed and v >= 1 << (bits - 1):
        v -= 1 << bits
    return v


def lit(v):
    return str(v) if v >= 0 else "(%d)" % v


def conj(terms):
    terms = [t for t in terms if t != "true"]
    if not terms:
        return "true"
    return terms[0] if len(terms) == 1 else "(" + " && ".join(terms) + ")"


def in_s(bits, t):
    return "((%d <=? %s) && (%s <? %d))" % (-(1 << (bits - 1)), t, t, 1 << (bits - 1))


def asts(build_dir, wrapper):
    """all FunctionDecls with a body, by name, from one clang run over the wrapper (which includes chibi/eval.h)"""
    cmd = ["clang", "-fsyntax-only", "-I" + os.path.join(build_dir, "include"), "-DSEXP_USE_VERIF_HOOKS=1",
           "-DSEXP_USE_CUSTOM_LONG_LONGS=1", "-Xclang", "-ast-dump=json", "-Xclang", "-ast-dump-filter=int_", wrapper]
    r = subprocess.run(cmd, capture_output=True, text=True, timeout=300, cwd=build_dir)
    if r.returncode != 0:
        raise Unsupported("clang failed on the wrapper: " + r.stderr[-400:])
    s, dec, i, out = r.stdout, json.JSONDecoder(), 0, {}
    while i < len(s):
        while i < len(s) and s[i].isspace():
            i += 1
        if i >= len(s):
            break
        o, i = dec.raw_decode(s, i)
        if o.get("kind") == "FunctionDecl" and any(c.get("kind") == "CompoundStmt" for c in o.get("inner", [])):
            if o["name"] in out:
                raise Unsupported("two definitions of %s" % o["name"])
            out[o["name"]] = o
    return out


def strip(n, kinds=("ParenExpr", "ConstantExpr")):
    while n["kind"] in kinds:
        n = n["inner"][0]
    return n


class Fn:
    def __init__(self, decl, known, report, trivial):
        self.decl, self.name, self.known, self.report, self.trivial = decl, decl["name"], known, report, trivial
        self.vars = {}        # visible C name -> type
        self.undef = set()    # (var, field) declared but not yet written
        self.loops = []       # text of auxiliary loop definitions
        self.nloop = 0
        self.acc = []         # conditions under which the expression being translated stays inside defined C behaviour

    def with_acc(self, f):
        save, self.acc = self.acc, []
        r = f()
        c, self.acc = conj(self.acc), save
        return r, c

    # ------------------------------------------------------------------ expressions: -> (term, const or None)
    def expr(self, n):
        k = n["kind"]
        if k in ("ParenExpr", "ConstantExpr"):
            return self.expr(n["inner"][0])
        if k == "IntegerLiteral":
            v = int(n["value"])
            return lit(v), v
        if k == "UnaryExprOrTypeTraitExpr" and n.get("name") == "sizeof" and "argType" in n:
            t = ntype(n["argType"])
            if not t or t[0] != "int":
                raise Unsupported("%s: sizeof of %s" % (self.name, n["argType"]))
            return lit(t[1] // 8), t[1] // 8
        if k == "DeclRefExpr":
            nm = n["referencedDecl"]["name"]
            if nm not in self.vars:
                raise Unsupported("%s: reference to %s, not a translated parameter/local" % (self.name, nm))
            if self.vars[nm][0] == "struct":
                for f in ("hi", "lo"):
                    if (nm, f) in self.undef:
                        raise Unsupported("%s: %s read as a whole while %s.%s is unwritten" % (self.name, nm, nm, f))
            return nm, None
        if k == "MemberExpr":
            base = strip(n["inner"][0], ("ParenExpr", "ImplicitCastExpr"))
            if base["kind"] != "DeclRefExpr" or n.get("isArrow"):
                raise Unsupported("%s: member access on a non-variable" % self.name)
            nm = base["referencedDecl"]["name"]
            if self.vars.get(nm, (None,))[0] != "struct" or n["name"] not in ("hi", "lo"):
                raise Unsupported("%s: member %s of %s" % (self.name, n["name"], nm))
            if (nm, n["name"]) in self.undef:
                raise Unsupported("%s: %s.%s read before it is written" % (self.name, nm, n["name"]))
            return "(%s %s)" % ("fst" if n["name"] == "hi" else "snd", nm), None
        if k in ("ImplicitCastExpr", "CStyleCastExpr"):
            ck, inner = n.get("castKind"), n["inner"][0]
            if ck in ("LValueToRValue", "NoOp"):
                return self.expr(inner)
            if ck == "IntegralCast":
                a, c = self.expr(inner)
                src, dst = ntype(inner), ntype(n)
                if not src or not dst or src[0] != "int" or dst[0] != "int":
                    raise Unsupported("%s: integral cast %s -> %s" % (self.name, inner.get("type"), n.get("type")))
                return self.convert(a, c, src[1:], dst[1:])
            raise Unsupported("%s: cast kind %s" % (self.name, ck))
        if k == "UnaryOperator":
            op = n["opcode"]
            if op == "!":
                c = self.cond(n["inner"][0])
                return "(if %s then 0 else 1)" % c, None
            a, c = self.expr(n["inner"][0])
            t = ntype(n)
            if not t or t[0] != "int":
                raise Unsupported("%s: unary %s on type %s" % (self.name, op, n.get("type")))
            t = t[1:]
            if op == "-":
                if c is not None:
                    return self.const(-c, t)
                if t[1]:
                    self.report["signed_sites"].append("%s: unary minus on %d-bit signed" % (self.name, t[0]))
                    self.acc.append(in_s(t[0], "(- %s)" % a))
                    return "(swrap %d (- %s))" % (t[0], a), None
                return "(wrap %d (- %s))" % (t[0], a), None
            if op == "~":
                if c is not None:
                    return self.const(~c, t)
                return ("(Z.lnot %s)" % a if t[1] else "(wrap %d (Z.lnot %s))" % (t[0], a)), None
            if op == "+":
                return a, c
            raise Unsupported("%s: unary operator %s" % (self.name, op))
        if k == "BinaryOperator":
            op = n["opcode"]
            if op in ("<", ">", "<=", ">=", "==", "!=", "&&", "||"):
                return "(if %s then 1 else 0)" % self.cond(n), None
            t = ntype(n)
            if not t or t[0] != "int":
                raise Unsupported("%s: binary %s on type %s" % (self.name, op, n.get("type")))
            t = t[1:]
            return self.binop(op, n["inner"][0], n["inner"][1], t)
        if k == "CallExpr":
            callee = strip(n["inner"][0], ("ImplicitCastExpr", "ParenExpr"))
            cname = callee.get("referencedDecl", {}).get("name")
            if cname not in self.known:
                raise Unsupported("%s: call of %s, which is not a previously translated helper" % (self.name, cname))
            args = [self.expr(a)[0] for a in n["inner"][1:]]
            if len(args) != len(self.known[cname]):
                raise Unsupported("%s: call of %s with %d arguments" % (self.name, cname, len(args)))
            if not self.trivial.get(cname):
                self.acc.append("(%s_safe %s)" % (cname, " ".join(args)))
            return "(%s %s)" % (cname, " ".join(args)), None
        raise Unsupported("%s: expression kind %s" % (self.name, k))

    def const(self, v, t):
        v = cwrap(v, t)
        return lit(v), v

    def convert(self, a, c, src, dst):
        if c is not None:
            return self.const(c, dst)
        (slo, shi), (dlo, dhi) = rng(src), rng(dst)
        if dlo <= slo and shi <= dhi:
            return a, None
        return "(%s %d %s)" % ("swrap" if dst[1] else "wrap", dst[0], a), None

    def binop(self, op, ln, rn, t):
        a, ca = self.expr(ln)
        b, cb = self.expr(rn)
        bits, signed = t
        if ca is not None and cb is not None:
            if op in ("<<", ">>") and not (0 <= cb < bits):
                raise Unsupported("%s: constant shift by %d" % (self.name, cb))
            v = {"+": lambda: ca + cb, "-": lambda: ca - cb, "*": lambda: ca * cb, "<<": lambda: ca << cb,
                 ">>": lambda: ca >> cb, "&": lambda: ca & cb, "|": lambda: ca | cb, "^": lambda: ca ^ cb}.get(op)
            if v is None:
                raise Unsupported("%s: constant operator %s" % (self.name, op))
            if signed and op in ("+", "-", "*", "<<") and not (rng(t)[0] <= v() <= rng(t)[1]):
                raise Unsupported("%s: signed overflow in a constant expression" % self.name)
            return self.const(v(), t)
        if op in ("+", "-", "*"):
            if signed:
                self.report["signed_sites"].append("%s: %s on %d-bit signed" % (self.name, op, bits))
                self.acc.append(in_s(bits, "(%s %s %s)" % (a, op, b)))
                return "(swrap %d (%s %s %s))" % (bits, a, op, b), None
            return "(wrap %d (%s %s %s))" % (bits, a, op, b), None
        if op in ("<<", ">>"):
            if cb is None:
                self.report["shift_sites"].append("%s: %s by %s" % (self.name, op, b))
                lt = ntype(ln)
                self.acc.append("((0 <=? %s) && (%s <? %d))" % (b, b, lt[1] if lt and lt[0] == "int" else bits))
            elif not (0 <= cb < bits):
                raise Unsupported("%s: shift by constant %d of a %d-bit value" % (self.name, cb, bits))
            if op == "<<":
                if signed:
                    self.report["signed_sites"].append("%s: << on %d-bit signed" % (self.name, bits))
                    self.acc.append("(0 <=? %s)" % a)
                    self.acc.append(in_s(bits, "(Z.shiftl %s %s)" % (a, b)))
                    return "(swrap %d (Z.shiftl %s %s))" % (bits, a, b), None
                return "(wrap %d (Z.shiftl %s %s))" % (bits, a, b), None
            return "(Z.shiftr %s %s)" % (a, b), None      # unsigned: logical; signed: arithmetic (gcc/clang)
        if op in ("&", "|", "^"):
            f = {"&": "Z.land", "|": "Z.lor", "^": "Z.lxor"}[op]
            return "(%s %s %s)" % (f, a, b), None         # closed on the operand type's range (both operands share it)
        raise Unsupported("%s: binary operator %s" % (self.name, op))

    def cond(self, n):
        k = n["kind"]
        if k in ("ParenExpr", "ConstantExpr"):
            return self.cond(n["inner"][0])
        if k == "BinaryOperator":
            op = n["opcode"]
            if op in ("<", ">", "<=", ">=", "==", "!="):
                lt, rt = ntype(n["inner"][0]), ntype(n["inner"][1])
                if not lt or not rt or lt[0] != "int" or rt[0] != "int":
                    raise Unsupported("%s: comparison of non-integers" % self.name)
                a, _ = self.expr(n["inner"][0])
                b, _ = self.expr(n["inner"][1])
                if op == "!=":
                    return "(negb (%s =? %s))" % (a, b)
                return "(%s %s %s)" % (a, {"<": "<?", ">": ">?", "<=": "<=?", ">=": ">=?", "==": "=?"}[op], b)
            if op in ("&&", "||"):
                a = self.cond(n["inner"][0])
                b, cb = self.with_acc(lambda: self.cond(n["inner"][1]))
                if cb != "true":      # the right operand is evaluated only when the left one does not decide
                    self.acc.append("(if %s then %s else %s)" % ((a, cb, "true") if op == "&&" else (a, "true", cb)))
                return "(%s %s %s)" % (a, op, b)
        if k == "UnaryOperator" and n["opcode"] == "!":
            return "(negb %s)" % self.cond(n["inner"][0])
        a, _ = self.expr(n)
        return "(negb (%s =? 0))" % a

    # ------------------------------------------------------------------ statements
    def always_returns(self, ss):
        for s in ss:
            k = s["kind"]
            if k == "ReturnStmt":
                return True
            if k == "CompoundStmt" and self.always_returns(s.get("inner", [])):
                return True
            if k == "IfStmt" and len(s["inner"]) == 3 and self.always_returns([s["inner"][1]]) and self.always_returns([s["inner"][2]]):
                return True
        return False

    def has_return(self, s):
        if s["kind"] == "ReturnStmt":
            return True
        return any(self.has_return(c) for c in s.get("inner", []) if isinstance(c, dict) and "kind" in c)

    def assigned(self, s, local=None):
        """names of variables visible outside s that s assigns (in first-assignment order)"""
        local = set() if local is None else local
        out = []

        def walk(n, local):
            k = n.get("kind")
            if k == "CompoundStmt":
                loc2 = set(local)
                for c in n.get("inner", []):
                    walk(c, loc2)
                return
            if k == "DeclStmt":
                for d in n["inner"]:
                    local.add(d["name"])
                return
            if k in ("BinaryOperator", "CompoundAssignOperator") and (k == "CompoundAssignOperator" or n.get("opcode") == "="):
                tgt = strip(n["inner"][0])
                if tgt["kind"] == "MemberExpr":
                    tgt = strip(tgt["inner"][0], ("ParenExpr", "ImplicitCastExpr"))
                if tgt["kind"] != "DeclRefExpr":
                    raise Unsupported("%s: assignment to a non-variable" % self.name)
                nm = tgt["referencedDecl"]["name"]
                if nm not in local and nm not in out:
                    out.append(nm)
                return
            if k == "UnaryOperator" and n.get("opcode") in ("++", "--"):
                raise Unsupported("%s: ++/-- outside a for header" % self.name)
            for c in n.get("inner", []):
                if isinstance(c, dict) and "kind" in c:
                    walk(c, local)
        walk(s, set(local))
        return out

    def tuple_of(self, names):
        return names[0] if len(names) == 1 else "(" + ", ".join(names) + ")"

    def pat_of(self, names):
        return names[0] if len(names) == 1 else "'(" + ", ".join(names) + ")"

    def gtype(self, nm):
        return "(Z * Z)" if self.vars[nm][0] == "struct" else "Z"

    def declare(self, nm, t, scope):
        if nm in self.vars:
            raise Unsupported("%s: local %s shadows a visible name" % (self.name, nm))
        self.vars[nm] = t
        scope.append(nm)

    def stmts(self, ss, scope, fall):
        """ss: statement list; scope: names declared in the innermost open block (removed by the caller);
        fall: term to produce when control falls off the end (None = must not happen)
        -> (value term, safety term: bool, true when no undefined C behaviour is met on the path taken)"""
        if not ss:
            if fall is None:
                raise Unsupported("%s: control reaches the end of the function without return" % self.name)
            return fall, "true"
        s, rest = ss[0], ss[1:]
        k = s["kind"]

        def let(pat, v, cv, r, cr):
            val = "(let %s := %s in\n  %s)" % (pat, v, r)
            sf = conj([cv, ("(let %s := %s in\n  %s)" % (pat, v, cr)) if cr != "true" else "true"])
            return val, sf
        if k == "NullStmt":
            return self.stmts(rest, scope, fall)
        if k == "CompoundStmt":
            if self.has_return(s):
                if rest and not self.always_returns([s]):
                    raise Unsupported("%s: block that returns on some paths only" % self.name)
                inner_scope = []
                v = self.stmts(list(s.get("inner", [])), inner_scope, None)
                for nm in inner_scope:
                    del self.vars[nm]
                return v
            # non-returning block: its effect is the assignments to outer variables
            mods = self.assigned(s)
            v, cv = self.arm([s], mods if mods else ["tt"])
            r, cr = self.stmts(rest, scope, fall)
            if not mods:
                return r, conj([cv, cr])
            return let(self.pat_of(mods), v, cv, r, cr)
        if k == "ReturnStmt":
            if not s.get("inner"):
                raise Unsupported("%s: return without value" % self.name)
            e = s["inner"][0]
            (v, c), cv = self.with_acc(lambda: self.expr(e))
            et = ntype(e)
            if self.ret[0] == "int":
                if not et or et[0] != "int":
                    raise Unsupported("%s: returns a non-integer from an integer function" % self.name)
                v, _ = self.convert(v, c, et[1:], self.ret[1:])
            elif et != self.ret:
                raise Unsupported("%s: return type mismatch" % self.name)
            return v, cv
        if k == "DeclStmt":
            lets = []
            for d in s["inner"]:
                if d["kind"] != "VarDecl":
                    raise Unsupported("%s: declaration kind %s" % (self.name, d["kind"]))
                t = ntype(d)
                if t is None:
                    raise Unsupported("%s: local %s of type %s" % (self.name, d["name"], d.get("type")))
                init = [c for c in d.get("inner", []) if "kind" in c]
                if init:
                    (v, c), cv = self.with_acc(lambda: self.expr(init[0]))
                    it = ntype(init[0])
                    if t[0] == "int":
                        if not it or it[0] != "int":
                            raise Unsupported("%s: initialiser of %s" % (self.name, d["name"]))
                        v, _ = self.convert(v, c, it[1:], t[1:])
                    elif it != t:
                        raise Unsupported("%s: struct initialiser of another type for %s" % (self.name, d["name"]))
                    self.declare(d["name"], t, scope)
                    lets.append((d["name"], v, cv))
                else:
                    self.declare(d["name"], t, scope)
                    if t[0] == "struct":
                        self.undef |= {(d["name"], "hi"), (d["name"], "lo")}
                        lets.append((d["name"], "(0, 0)", "true"))   # placeholder; reads before writes are rejected
                    else:
                        self.undef.add((d["name"], None))
                        lets.append((d["name"], "0", "true"))
            r, cr = self.stmts(rest, scope, fall)
            for nm, v, cv in reversed(lets):
                r, cr = let(nm, v, cv, r, cr)
            return r, cr
        if k in ("BinaryOperator", "CompoundAssignOperator") and (k == "CompoundAssignOperator" or s.get("opcode") == "="):
            (nm, v), cv = self.with_acc(lambda: self.assignment(s))
            r, cr = self.stmts(rest, scope, fall)
            return let(nm, v, cv, r, cr)
        if k == "IfStmt":
            parts = [p for p in s["inner"]]
            c, cc = self.with_acc(lambda: self.cond(parts[0]))
            then, els = [parts[1]], ([parts[2]] if len(parts) == 3 else [])
            if self.always_returns(then):
                u0 = set(self.undef)
                tv, ts = self.stmts(then, [], None)
                self.undef = u0
                ev, es = self.stmts(els + rest, scope, fall)
                sf = "true" if (ts == "true" and es == "true") else "(if %s then %s\n  else %s)" % (c, ts, es)
                return "(if %s then %s\n  else %s)" % (c, tv, ev), conj([cc, sf])
            if self.has_return(s):
                raise Unsupported("%s: if statement that returns on some paths only" % self.name)
            # non-returning arms: the arms produce the tuple of the variables either of them assigns
            mods = self.assigned(s)
            if not mods:
                raise Unsupported("%s: if statement without effect" % self.name)
            u0 = set(self.undef)
            tv, ts = self.arm(then, mods)
            u1, self.undef = self.undef, set(u0)
            ev, es = self.arm(els, mods)
            self.undef = u1 | self.undef
            r, cr = self.stmts(rest, scope, fall)
            sf = "true" if (ts == "true" and es == "true") else "(if %s then %s else %s)" % (c, ts, es)
            return let(self.pat_of(mods), "(if %s then %s else %s)" % (c, tv, ev), conj([cc, sf]), r, cr)
        if k == "ForStmt":
            init, _, cnd, inc, body = s["inner"]
            ok = (init.get("kind") == "DeclStmt" and len(init["inner"]) == 1 and init["inner"][0].get("inner")
                  and strip(init["inner"][0]["inner"][0], ("ParenExpr", "ImplicitCastExpr"))["kind"] == "IntegerLiteral"
                  and int(strip(init["inner"][0]["inner"][0], ("ParenExpr", "ImplicitCastExpr"))["value"]) == 0)
            iv = init["inner"][0]["name"] if ok else None
            ok = ok and cnd.get("kind") == "BinaryOperator" and cnd.get("opcode") == "<"
            if ok:
                l = strip(cnd["inner"][0], ("ParenExpr", "ImplicitCastExpr"))
                r_ = strip(cnd["inner"][1], ("ParenExpr", "ImplicitCastExpr"))
                ok = l["kind"] == "DeclRefExpr" and l["referencedDecl"]["name"] == iv and r_["kind"] == "IntegerLiteral"
            ok = ok and inc.get("kind") == "UnaryOperator" and inc.get("opcode") == "++" and \
                strip(inc["inner"][0])["kind"] == "DeclRefExpr" and strip(inc["inner"][0])["referencedDecl"]["name"] == iv
            if not ok:
                raise Unsupported("%s: for loop that is not `for (int i = 0; i < LITERAL; i++)`" % self.name)
            bound = int(r_["value"])
            if self.has_return(body) or self.mentions(body, iv) or self.has_kind(body, ("BreakStmt", "ContinueStmt", "GotoStmt")):
                raise Unsupported("%s: loop body reads the counter, returns, breaks or continues" % self.name)
            mods = self.assigned(body)
            if not mods:
                raise Unsupported("%s: loop without effect" % self.name)
            for m in mods:
                if any(u[0] == m for u in self.undef):
                    raise Unsupported("%s: loop assigns %s, which is not fully initialised" % (self.name, m))
            ro = [v for v in self.vars if v not in mods and not any(u[0] == v for u in self.undef)]
            self.nloop += 1
            lname = "%s_loop%d" % (self.name, self.nloop)
            u0 = set(self.undef)
            bv, bs = self.arm([body], mods)
            self.undef = u0
            sty = " * ".join(self.gtype(m) for m in mods)
            robind = " ".join("(%s : %s)" % (v, self.gtype(v)) for v in ro)
            self.loops.append("Definition %s %s (st_ : %s) : %s :=\n  let %s := st_ in\n  %s.\n\n" % (
                lname, robind, sty, sty, self.pat_of(mods), bv))
            self.loops.append("Definition %s_safe %s (st_ : %s) : bool :=\n  let %s := st_ in\n  %s.\n\n" % (
                lname, robind, sty, self.pat_of(mods), bs))
            r, cr = self.stmts(rest, scope, fall)
            lsafe = "true" if bs == "true" else "(iter_all %d%%nat (%s %s) (%s_safe %s) %s)" % (
                bound, lname, " ".join(ro), lname, " ".join(ro), self.tuple_of(mods))
            return let(self.pat_of(mods), "iter %d%%nat (%s %s) %s" % (bound, lname, " ".join(ro), self.tuple_of(mods)), lsafe, r, cr)
        raise Unsupported("%s: statement kind %s" % (self.name, k))

    def arm(self, ss, mods):
        """a non-returning arm / loop body / block: -> (term producing the tuple of `mods`, safety term)"""
        if len(ss) == 1 and ss[0]["kind"] == "CompoundStmt":
            ss = list(ss[0].get("inner", []))
        sc = []
        v = self.stmts(ss, sc, self.tuple_of(mods))
        for nm in sc:
            del self.vars[nm]
            self.undef = {u for u in self.undef if u[0] != nm}
        return v

    def mentions(self, n, nm):
        if n.get("kind") == "DeclRefExpr" and n["referencedDecl"]["name"] == nm:
            return True
        return any(self.mentions(c, nm) for c in n.get("inner", []) if isinstance(c, dict) and "kind" in c)

    def has_kind(self, n, kinds):
        if n.get("kind") in kinds:
            return True
        return any(self.has_kind(c, kinds) for c in n.get("inner", []) if isinstance(c, dict) and "kind" in c)

    def assignment(self, s):
        """-> (variable, new value term)"""
        lhs, rhs = s["inner"]
        tgt = strip(lhs)
        compound = s["kind"] == "CompoundAssignOperator"
        field = None
        if tgt["kind"] == "MemberExpr":
            field = tgt["name"]
            base = strip(tgt["inner"][0], ("ParenExpr", "ImplicitCastExpr"))
            if base["kind"] != "DeclRefExpr" or tgt.get("isArrow"):
                raise Unsupported("%s: assignment through a pointer" % self.name)
            nm = base["referencedDecl"]["name"]
            if self.vars.get(nm, (None,))[0] != "struct":
                raise Unsupported("%s: field assignment to %s" % (self.name, nm))
            ft = STRUCTS[self.vars[nm][1]][field]
        elif tgt["kind"] == "DeclRefExpr":
            nm = tgt["referencedDecl"]["name"]
            if nm not in self.vars:
                raise Unsupported("%s: assignment to %s" % (self.name, nm))
            ft = self.vars[nm][1:] if self.vars[nm][0] == "int" else None
        else:
            raise Unsupported("%s: assignment to expression kind %s" % (self.name, tgt["kind"]))
        if compound:
            if ft is None:
                raise Unsupported("%s: compound assignment to a struct" % self.name)
            op = s["opcode"][:-1]
            ct = ntype({"type": s.get("computeResultType", {})})
            if not ct or ct[0] != "int":
                raise Unsupported("%s: compound assignment computed in %s" % (self.name, s.get("computeResultType")))
            # lhs read, converted to the computation type, op, converted back
            cur, _ = self.expr(tgt)
            cur, _ = self.convert(cur, None, ft, ct[1:])
            fake_l = {"kind": "VerifTerm"}
            b, cb = self.expr(rhs)
            bt = ntype(rhs)
            if not bt or bt[0] != "int":
                raise Unsupported("%s: compound assignment operand" % self.name)
            if op in ("&", "|", "^"):
                v = "(%s %s %s)" % ({"&": "Z.land", "|": "Z.lor", "^": "Z.lxor"}[op], cur, b)
            elif op in ("+", "-", "*") and not ct[2]:
                v = "(wrap %d (%s %s %s))" % (ct[1], cur, op, b)
            else:
                raise Unsupported("%s: compound operator %s=" % (self.name, op))
            v, _ = self.convert(v, None, ct[1:], ft)
        else:
            v, c = self.expr(rhs)
            rt = ntype(rhs)
            if ft is not None:
                if not rt or rt[0] != "int":
                    raise Unsupported("%s: integer assigned from a non-integer" % self.name)
                v, _ = self.convert(v, c, rt[1:], ft)
            elif rt != self.vars[nm]:
                raise Unsupported("%s: struct assigned from another type" % self.name)
        if field is None:
            self.undef = {u for u in self.undef if u[0] != nm}
            return nm, v
        other = "lo" if field == "hi" else "hi"
        keep = "(0)" if (nm, other) in self.undef else "(%s %s)" % ("fst" if other == "hi" else "snd", nm)
        if keep == "(0)":
            keep = "0"
        self.undef.discard((nm, field))
        return nm, ("(%s, %s)" % (v, keep) if field == "hi" else "(%s, %s)" % (keep, v))

    # ------------------------------------------------------------------ whole function
    def translate(self):
        d = self.decl
        q = d["type"]["qualType"]
        self.ret = ntype({"type": {"qualType": q.split("(")[0].strip()}})
        if self.ret is None:
            raise Unsupported("%s: return type %s" % (self.name, q))
        params, body = [], None
        for c in d["inner"]:
            if c["kind"] == "ParmVarDecl":
                t = ntype(c)
                if t is None:
                    raise Unsupported("%s: parameter %s of type %s" % (self.name, c["name"], c.get("type")))
                self.vars[c["name"]] = t
                params.append(c["name"])
            elif c["kind"] == "CompoundStmt":
                body = c
        val, safe = self.stmts(list(body.get("inner", [])), [], None)
        binder = " ".join("(%s : %s)" % (p, self.gtype(p)) for p in params)
        rty = "(Z * Z)" if self.ret[0] == "struct" else "Z"
        txt = "".join(self.loops) + "Definition %s %s : %s :=\n  %s.\n\n" % (self.name, binder, rty, val)
        txt += "(* no undefined C behaviour (shift counts inside the operand width, no signed overflow) on the path taken *)\n"
        txt += "Definition %s_safe %s : bool :=\n  %s.\n\n" % (self.name, binder, safe)
        self.trivial[self.name] = (safe == "true")
        return txt, params


def translate_all(build_dir, wrapper=None):
    wrapper = wrapper or os.path.join(HERE, "..", "harness", "leaf_c09.c")
    decls = asts(build_dir, wrapper)
    report = dict(signed_sites=[], shift_sites=[])
    parts = ["(* GENERATED on every run by gen/c09_luint.py from include/chibi/bignum.h (working tree of the checked\n"
             "   repository, SEXP_USE_CUSTOM_LONG_LONGS=1 arm).  Do not edit. *)\n"
             "From ChibiV Require Import C09.CSem.\nLocal Open Scope Z_scope.\nLocal Open Scope bool_scope.\n\n"]
    known, trivial = {}, {}
    for fn in FUNCTIONS:
        if fn not in decls:
            raise Unsupported("no definition of %s found by clang" % fn)
        f = Fn(decls[fn], known, report, trivial)
        txt, params = f.translate()
        parts.append("(* bignum.h : %s *)\n" % fn)
        parts.append(txt)
        known[fn] = params
    # helpers of the same family that exist in the header but are not in FUNCTIONS => fail closed (a new helper
    # would otherwise stay outside the proofs silently)
    extra = [n for n in decls if re.match(r"(luint|lsint|sexp_luint|sexp_lsint)_", n) and n not in known]
    if extra:
        raise Unsupported("helpers present in bignum.h but not translated: %s" % ", ".join(sorted(extra)))
    report["trivially_safe"] = sorted(k for k, v in trivial.items() if v)
    parts.append("(* signed-arithmetic sites (two's complement assumed): %s *)\n" % "; ".join(report["signed_sites"]))
    parts.append("(* non-literal shift counts: %s *)\n" % "; ".join(report["shift_sites"]))
    return "".join(parts), known, report


def regen(ctx, build_dir):
    """regenerate coq/Gen/C09_Luint.v; fail closed on constructs outside the subset"""
    try:
        txt, sigs, report = translate_all(build_dir)
    except Unsupported as e:
        ctx.broken("translator:C09_Luint", "construct outside the translated C subset: %s" % e)
        ctx.gen("C09_Luint", "(* translator failed closed: %s *)\nDefinition c09_luint_translation_failed : True := I.\n" % str(e).replace("*)", "* )"))
        return None
    ctx.gen("C09_Luint", txt)
    return sigs, report


if __name__ == "__main__":
    import sys
    t, s, r = translate_all(sys.argv[1], sys.argv[2] if len(sys.argv) > 2 else None)
    print(t)
    print(s, r, file=sys.stderr)
