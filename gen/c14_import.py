"""C14 (G): translate the first-order Scheme of lib/meta-7.scm that resolves import sets
(`%resolve-import`, `id-filter`, `to-id`, `from-id`, `symbol-append`, `symbol-drop`) into Gallina over
the `sx` datatype of coq/C14/Sx.v.  Emitted on every run as coq/Gen/C14_ImportCode.v.

Subset (anything else raises Unsupported => the check reports the construct; fail closed):
  (define (f p ...) body ...)   top level, fixed arity; a parameter used in operator position is a
                                function parameter (Gallina type sx -> res sx)
  variables, (quote d), strings, exact integers, #t/#f
  (if c a [b])  (cond (t e ...) (t => (lambda (v) e ...)) (else e ...))  (case k ((d ...) e ...) ... [(else ..)])
  (and ...) (or ...)  (let ((v e) ...) e ...)  (let* ...)      [no named let, no internal define, no set!]
  (lambda (v ...) e ...)  only as argument of map/filter/find/any translated function parameter, or after =>
  applications of: the primitives in PRIMS, (error msg irritant ...), map/find/filter with ONE list,
  the translated functions themselves, the world primitives in WORLD (module table look-ups, modelled
  by hand in coq/C14/World.v), function parameters, and ((if c f g) arg ...) with f, g translated functions.
Every expression becomes a term of type `res sx` (monad with explicit Err); sub-expressions are
evaluated left to right.  A self-recursive function becomes a Fixpoint on `fuel` (Err OutOfFuel at 0);
functions calling fuelled functions take the fuel and pass it on.
"""
import hashlib, os, re

WANTED = ["rewrite-export", "symbol-append", "symbol-drop", "to-id", "from-id", "id-filter", "%resolve-import"]
NICE = {"check": "ce_check", "expand": "ce_expand", "rewrite-export": "rewrite_export", "symbol-append": "symbol_append", "symbol-drop": "symbol_drop", "to-id": "to_id", "from-id": "from_id",
        "id-filter": "id_filter", "%resolve-import": "resolve_import"}

# scheme primitive -> (Gallina name in C14/Sx.v, arity)
PRIMS = {
    "car": ("p_car", 1), "cdr": ("p_cdr", 1), "cadr": ("p_cadr", 1), "cddr": ("p_cddr", 1), "caar": ("p_caar", 1),
    "cdar": ("p_cdar", 1), "caddr": ("p_caddr", 1), "cons": ("p_cons", 2),
    "pair?": ("p_pair_p", 1), "null?": ("p_null_p", 1), "symbol?": ("p_symbol_p", 1), "string?": ("p_string_p", 1),
    "number?": ("p_number_p", 1), "boolean?": ("p_boolean_p", 1), "list?": ("p_list_p", 1), "not": ("p_not", 1),
    "eq?": ("p_eq_p", 2), "equal?": ("p_equal_p", 2), "memq": ("p_memq", 2), "assq": ("p_assq", 2),
    ">": ("p_gt", 2), ">=": ("p_ge", 2), "<": ("p_lt", 2), "<=": ("p_le", 2), "=": ("p_num_eq", 2),
    "+": ("p_add", 2), "-": ("p_sub", 2),
    "symbol->string": ("p_symbol_to_string", 1), "string->symbol": ("p_string_to_symbol", 1),
    "length": ("p_length", 1), "identifier->symbol": ("p_identifier_to_symbol", 1),
    "string-append": ("p_string_append", 2), "string-length": ("p_string_length", 1), "string=?": ("p_string_eq", 2),
}
HOFS = {"map": "p_map", "find": "p_find", "filter": "p_filter", "every": "p_every", "any": "p_any"}
# look-ups in the module table: modelled by hand in C14/World.v, take the table W first
WORLD = {"find-module": ("w_find_module", 1), "module-exports": ("w_module_exports", 1), "%module-exports": ("w_pmodule_exports", 1)}


class Unsupported(Exception):
    pass


# ------------------------------------------------------------------ reader
class Sym(str):
    pass


class Str(str):
    pass


TOK = re.compile(r"""\s+|;[^\n]*|\#\|.*?\|\#|(?P<t>,@|[()'`,]|"(?:\\.|[^\\"])*"|\#;|\#\(|[^\s()'`,";]+)""", re.S)


def read_all(text):
    pos, toks = 0, []
    line_of = []
    while pos < len(text):
        m = TOK.match(text, pos)
        if not m:
            raise Unsupported("reader: cannot tokenise at offset %d" % pos)
        if m.group("t") is not None:
            toks.append(m.group("t"))
            line_of.append(text.count("\n", 0, m.start()) + 1)
        pos = m.end()
    i = 0
    forms = []

    def parse():
        nonlocal i
        if i >= len(toks):
            raise Unsupported("reader: unexpected end of file")
        t = toks[i]
        i += 1
        if t == "(":
            out = []
            while True:
                if i >= len(toks):
                    raise Unsupported("reader: unclosed parenthesis")
                if toks[i] == ")":
                    i += 1
                    return out
                if toks[i] == ".":
                    i += 1
                    tail = parse()
                    if toks[i] != ")":
                        raise Unsupported("reader: bad dotted list")
                    i += 1
                    return ("dotted", out, tail)
                out.append(parse())
        if t == ")":
            raise Unsupported("reader: unbalanced )")
        if t == "'":
            return [Sym("quote"), parse()]
        if t == "`":
            return [Sym("quasiquote"), parse()]
        if t == ",":
            return [Sym("unquote"), parse()]
        if t == ",@":
            return [Sym("unquote-splicing"), parse()]
        if t == "#;":
            parse()
            return parse()
        if t == "#(":
            i -= 1
            toks[i] = "("
            return ("vector", parse())
        if t[0] == '"':
            return Str(bytes(t[1:-1], "utf-8").decode("unicode_escape"))
        if t in ("#t", "#true"):
            return True
        if t in ("#f", "#false"):
            return False
        if re.fullmatch(r"[-+]?\d+", t):
            return int(t)
        return Sym(t)

    while i < len(toks):
        start = line_of[i]
        f = parse()
        forms.append((start, line_of[i - 1], f))
    return forms


# ------------------------------------------------------------------ translator
def mangle(s):
    out = "v_"
    for c in s:
        if c.isalnum():
            out += c
        else:
            out += {"-": "_", "+": "_plus_", "%": "pct_", "?": "_p", "!": "_bang", "*": "_star_", ">": "_to_", "<": "_lt_",
                    "=": "_eq_", "/": "_sl_"}.get(c, "_x%02x_" % ord(c))
    return out


def coq_string(s):
    if any(ord(c) > 126 or ord(c) < 32 for c in s):
        raise Unsupported("non-printable / non-ASCII string literal %r" % s)
    return '"' + s.replace('"', '""') + '"'


def quote_sx(d):
    if isinstance(d, bool):
        return "(Bool %s)" % ("true" if d else "false")
    if isinstance(d, Sym):
        return "(Sym %s)" % coq_string(d)
    if isinstance(d, Str):
        return "(Str %s)" % coq_string(d)
    if isinstance(d, int):
        return "(Num (%d))" % d
    if isinstance(d, list):
        r = "Nil"
        for x in reversed(d):
            r = "(Pair %s %s)" % (quote_sx(x), r)
        return r
    if isinstance(d, tuple) and d[0] == "dotted":
        r = quote_sx(d[2])
        for x in reversed(d[1]):
            r = "(Pair %s %s)" % (quote_sx(x), r)
        return r
    raise Unsupported("quoted datum %r" % (d,))


class Tr:
    def __init__(self, defs, globals_=(), srcfile="lib/meta-7.scm"):
        self.globals = tuple(globals_)   # free variables of the source that become Section variables of type sx
        self.srcfile = srcfile
        self.defs = defs            # name -> (params, body, lines)
        self.n = 0
        self.funparams = {}         # fname -> set of indices of function parameters
        self.fuelled = set()
        self.calls = {}
        for f, (ps, body, _) in defs.items():
            self.funparams[f] = {i for i, p in enumerate(ps) if self._in_operator_position(p, body)}
            self.calls[f] = self._called(body)
        # fuelled: self-recursive, or calling a fuelled function (fixpoint)
        for f in defs:
            if f in self.calls[f]:
                self.fuelled.add(f)
        ch = True
        while ch:
            ch = False
            for f in defs:
                if f not in self.fuelled and self.calls[f] & self.fuelled:
                    self.fuelled.add(f)
                    ch = True
        # mutual recursion other than self-recursion is outside the subset
        for f in defs:
            for g in self.calls[f]:
                if g != f and g in defs and f in self._reach(g):
                    raise Unsupported("mutual recursion between %s and %s" % (f, g))

    def _reach(self, f, seen=None):
        seen = seen if seen is not None else set()
        for g in self.calls.get(f, ()):
            if g in self.defs and g not in seen:
                seen.add(g)
                self._reach(g, seen)
        return seen

    def _walk(self, e):
        yield e
        if isinstance(e, list):
            if e and e[0] == "quote":
                return
            for x in e:
                yield from self._walk(x)

    def _in_operator_position(self, p, body):
        return any(isinstance(e, list) and e and e[0] == p and isinstance(e[0], Sym) for b in body for e in self._walk(b))

    def _called(self, body):
        out = set()
        for b in body:
            for e in self._walk(b):
                if isinstance(e, Sym) and e in self.defs:
                    out.add(str(e))
        return out

    def fresh(self, base="t"):
        self.n += 1
        return "%s%d" % (base, self.n)

    # -- order of definitions: callees first
    def order(self):
        out, seen = [], set()

        def visit(f):
            if f in seen:
                return
            seen.add(f)
            for g in sorted(self.calls[f]):
                if g != f:
                    visit(g)
            out.append(f)
        for f in self.defs:
            visit(f)
        return out

    def bindall(self, exprs, env, k):
        """evaluate exprs left to right, then k(list of pure sx terms) -> res term"""
        names = []
        wraps = []
        for e in exprs:
            pure = self.pure(e, env)
            if pure is not None:
                names.append(pure)
            else:
                v = self.fresh()
                wraps.append((self.tr(e, env), v))
                names.append(v)
        body = k(names)
        for term, v in reversed(wraps):
            body = "(bind %s (fun %s =>\n %s))" % (term, v, body)
        return body

    def pure(self, e, env):
        """a Gallina term of type sx when e cannot fail and needs no evaluation, else None"""
        if isinstance(e, bool) or isinstance(e, int) or isinstance(e, Str):
            return quote_sx(e)
        if isinstance(e, Sym):
            if env.get(e) == "val":
                return mangle(e)
            return None
        if isinstance(e, list) and len(e) == 2 and e[0] == "quote" and "quote" not in env:
            return quote_sx(e[1])
        return None

    def body(self, es, env):
        if not es:
            raise Unsupported("empty body")
        if len(es) > 1:
            raise Unsupported("body with more than one expression (side effects) %r" % (es[0],))
        return self.tr(es[0], env)

    def fun_arg(self, e, env, arity=1):
        """e must denote a function sx -> res sx: a lambda, a function parameter or a translated function"""
        if isinstance(e, list) and e and e[0] == "lambda" and "lambda" not in env:
            ps = e[1]
            if not isinstance(ps, list) or len(ps) != arity or not all(isinstance(p, Sym) for p in ps):
                raise Unsupported("lambda list %r" % (ps,))
            env2 = dict(env)
            for p in ps:
                env2[p] = "val"
            return "(fun %s => %s)" % (" ".join(mangle(p) for p in ps), self.body(e[2:], env2))
        if isinstance(e, Sym) and env.get(e) == "fun":
            return mangle(e)
        if isinstance(e, Sym) and e in self.defs and e not in env and not self.funparams[e] and len(self.defs[e][0]) == arity:
            return "(%s)" % self.fcall_head(e)
        raise Unsupported("expression used as a function: %r" % (e,))

    def fcall_head(self, f):
        return NICE.get(f, mangle(f)) + (" fuel" if f in self.fuelled else "") + " W"

    def call_def(self, f, args, env):
        ps = self.defs[f][0]
        if len(args) != len(ps):
            raise Unsupported("arity of call to %s" % f)
        fi = self.funparams[f]
        fterms = {i: self.fun_arg(a, env) for i, a in enumerate(args) if i in fi}
        vals = [a for i, a in enumerate(args) if i not in fi]

        def k(names):
            it = iter(names)
            return "(%s %s)" % (self.fcall_head(f), " ".join(fterms[i] if i in fi else next(it) for i in range(len(args))))
        return self.bindall(vals, env, k)

    def tr(self, e, env):
        p = self.pure(e, env)
        if p is not None:
            return "(Ok %s)" % p
        if isinstance(e, Sym):
            raise Unsupported("free variable / function used as a value: %s" % e)
        if not isinstance(e, list) or not e:
            raise Unsupported("expression %r" % (e,))
        h = e[0]
        special = isinstance(h, Sym) and h not in env
        if special and h == "if":
            if len(e) not in (3, 4):
                raise Unsupported("if")
            t = self.fresh()
            return "(bind %s (fun %s =>\n if truthy %s then %s\n else %s))" % (
                self.tr(e[1], env), t, t, self.tr(e[2], env), self.tr(e[3], env) if len(e) == 4 else "(Ok Void)")
        if special and h == "cond":
            return self.cond(e[1:], env)
        if special and h == "case":
            k = self.fresh("k")
            out = "(Ok Void)"
            clauses = e[2:]
            for i, c in enumerate(reversed(clauses)):
                if c[0] == "else":
                    if i != 0:
                        raise Unsupported("else not last in case")
                    out = self.body(c[1:], env)
                else:
                    if not isinstance(c[0], list) or any(isinstance(d, (list, tuple, Str)) for d in c[0]):
                        raise Unsupported("case data %r" % (c[0],))
                    out = "(if case_mem %s [%s] then %s\n else %s)" % (k, "; ".join(quote_sx(d) for d in c[0]), self.body(c[1:], env), out)
            return "(bind %s (fun %s =>\n %s))" % (self.tr(e[1], env), k, out)
        if special and h == "and":
            if len(e) == 1:
                return "(Ok (Bool true))"
            out = self.tr(e[-1], env)
            for x in reversed(e[1:-1]):
                t = self.fresh()
                out = "(bind %s (fun %s => if truthy %s then %s else Ok %s))" % (self.tr(x, env), t, t, out, t)
            return out
        if special and h == "or":
            if len(e) == 1:
                return "(Ok (Bool false))"
            out = self.tr(e[-1], env)
            for x in reversed(e[1:-1]):
                t = self.fresh()
                out = "(bind %s (fun %s => if truthy %s then Ok %s else %s))" % (self.tr(x, env), t, t, t, out)
            return out
        if special and h in ("let", "let*"):
            if not isinstance(e[1], list):
                raise Unsupported("named let")
            env2 = dict(env)
            binds = []
            for b in e[1]:
                if not (isinstance(b, list) and len(b) == 2 and isinstance(b[0], Sym)):
                    raise Unsupported("let binding %r" % (b,))
                binds.append((b[0], self.tr(b[1], env2 if h == "let*" else env)))
                if h == "let*":
                    env2 = dict(env2)
                    env2[b[0]] = "val"
            for v, _ in binds:
                env2[v] = "val"
            out = self.body(e[2:], env2)
            for v, t in reversed(binds):
                out = "(bind %s (fun %s =>\n %s))" % (t, mangle(v), out)
            return out
        if special and h in ("lambda", "define", "set!", "do", "letrec", "letrec*", "quasiquote", "begin", "when", "unless",
                             "let-values", "guard", "delay", "define-syntax", "let-syntax", "case-lambda", "parameterize"):
            raise Unsupported("special form %s outside the subset" % h)
        if special and h == "quote":
            return "(Ok %s)" % quote_sx(e[1])
        # ---- applications
        args = e[1:]
        if isinstance(h, Sym) and env.get(h) == "fun":
            return self.bindall(args, env, lambda ns: "(%s %s)" % (mangle(h), " ".join(ns)))
        if isinstance(h, Sym) and h in env:
            raise Unsupported("application of the value variable %s" % h)
        if isinstance(h, Sym) and h in self.defs:
            return self.call_def(h, args, env)
        if isinstance(h, Sym) and h == "error":
            if not args or not isinstance(args[0], Str):
                raise Unsupported("error without a literal message")
            return self.bindall(args[1:], env, lambda ns: "(p_error %s [%s])" % (quote_sx(args[0]), "; ".join(ns)))
        if isinstance(h, Sym) and h in HOFS:
            if len(args) != 2:
                raise Unsupported("%s with %d arguments" % (h, len(args)))
            f = self.fun_arg(args[0], env)
            return self.bindall(args[1:], env, lambda ns: "(%s %s %s)" % (HOFS[h], f, ns[0]))
        if isinstance(h, Sym) and h == "substring":
            if len(args) == 2:
                return self.bindall(args, env, lambda ns: "(p_substring2 %s)" % " ".join(ns))
            if len(args) == 3:
                return self.bindall(args, env, lambda ns: "(p_substring3 %s)" % " ".join(ns))
            raise Unsupported("substring arity")
        if isinstance(h, Sym) and h in PRIMS:
            name, ar = PRIMS[h]
            if len(args) != ar:
                raise Unsupported("%s with %d arguments (model has the %d-argument form)" % (h, len(args), ar))
            return self.bindall(args, env, lambda ns: "(%s %s)" % (name, " ".join(ns)))
        if isinstance(h, Sym) and h in WORLD:
            name, ar = WORLD[h]
            if len(args) != ar:
                raise Unsupported("%s arity" % h)
            return self.bindall(args, env, lambda ns: "(%s W %s)" % (name, " ".join(ns)))
        if isinstance(h, list) and h and h[0] == "if" and "if" not in env and len(h) == 4 \
                and all(isinstance(x, Sym) and x in self.defs and x not in env and not self.funparams[x]
                        and len(self.defs[x][0]) == len(args) for x in h[2:]):
            # ((if c f g) arg ...): the operator is evaluated first, then the operands
            t = self.fresh()
            return "(bind %s (fun %s =>\n %s))" % (self.tr(h[1], env), t, self.bindall(
                args, env, lambda ns: "(if truthy %s then %s %s else %s %s)" % (
                    t, self.fcall_head(h[2]), " ".join(ns), self.fcall_head(h[3]), " ".join(ns))))
        raise Unsupported("application of %r" % (h,))

    def cond(self, clauses, env):
        if not clauses:
            return "(Ok Void)"
        c = clauses[0]
        if not isinstance(c, list) or not c:
            raise Unsupported("cond clause %r" % (c,))
        if c[0] == "else" and "else" not in env:
            if len(clauses) != 1:
                raise Unsupported("else not last in cond")
            return self.body(c[1:], env)
        t = self.fresh()
        rest = self.cond(clauses[1:], env)
        if len(c) == 1:
            then = "Ok %s" % t
        elif c[1] == "=>" and "=>" not in env:
            if len(c) != 3:
                raise Unsupported("cond => clause")
            then = "%s %s" % (self.fun_arg(c[2], env), t)
        else:
            then = self.body(c[1:], env)
        return "(bind %s (fun %s =>\n if truthy %s then %s\n else %s))" % (self.tr(c[0], env), t, t, then, rest)

    def define(self, f):
        ps, body, lines = self.defs[f]
        env = {g: "val" for g in self.globals}
        for i, p in enumerate(ps):
            env[p] = "fun" if i in self.funparams[f] else "val"
        params = " ".join("(%s : %s)" % (mangle(p), "sx -> res sx" if i in self.funparams[f] else "sx") for i, p in enumerate(ps))
        term = self.body(body, env)
        name = NICE.get(f, mangle(f))
        hdr = "(** %s:%d-%d  (define (%s %s) ...) *)\n" % (self.srcfile, lines[0], lines[1], f, " ".join(ps))
        if f in self.calls[f]:
            return hdr + "Fixpoint %s (fuel0 : nat) (W : sx) %s {struct fuel0} : res sx :=\n match fuel0 with O => Err OutOfFuel | S fuel =>\n %s\n end.\n" % (name, params, term)
        if f in self.fuelled:
            return hdr + "Definition %s (fuel : nat) (W : sx) %s : res sx :=\n %s.\n" % (name, params, term)
        return hdr + "Definition %s (W : sx) %s : res sx :=\n %s.\n" % (name, params, term)


def _walk_all(f):
    yield f
    if isinstance(f, list):
        for x in f:
            yield from _walk_all(x)
    elif isinstance(f, tuple) and f and f[0] == "dotted":
        for x in f[1]:
            yield from _walk_all(x)
        yield from _walk_all(f[2])


def find_rewrite_export(forms):
    """(rewrite-export x) is written inside the quasi-quoted wrapper that define-library-transformer generates
    (meta-7.scm:321-329): every keyword is an unquoted variable `,_if` bound by the enclosing let to
    (rename 'if).  Find that let, check every `,_v` used against its binding, and return the definition with
    the keywords put back ((rename 'meta-define) is define: meta-7.scm `(define-syntax meta-define define)`)."""
    for (l0, l1, top) in forms:
        for f in _walk_all(top):
            if not (isinstance(f, list) and len(f) >= 3 and f[0] == "let" and isinstance(f[1], list)):
                continue
            ren = {}
            for b in f[1]:
                if isinstance(b, list) and len(b) == 2 and isinstance(b[0], Sym) and isinstance(b[1], list) and len(b[1]) == 2 \
                        and b[1][0] == "rename" and isinstance(b[1][1], list) and len(b[1][1]) == 2 and b[1][1][0] == "quote":
                    ren[str(b[0])] = str(b[1][1][1])
            if "_define" not in ren:
                continue
            for g in _walk_all(f[2:]):
                if isinstance(g, list) and len(g) >= 3 and g[0] == [Sym("unquote"), Sym("_define")] \
                        and isinstance(g[1], list) and g[1] and g[1][0] == "rewrite-export":
                    def unren(e):
                        if isinstance(e, list) and len(e) == 2 and e[0] == "unquote":
                            if isinstance(e[1], Sym) and str(e[1]) in ren:
                                return Sym({"meta-define": "define"}.get(ren[str(e[1])], ren[str(e[1])]))
                            raise Unsupported("rewrite-export: unquote of %r is not a renamed keyword" % (e[1],))
                        if isinstance(e, list):
                            return [unren(x) for x in e]
                        if isinstance(e, tuple):
                            raise Unsupported("rewrite-export: dotted form")
                        return e
                    d = unren(g)
                    if d[0] != "define":
                        raise Unsupported("rewrite-export is not introduced by define")
                    return (l0, l1, d)
    raise Unsupported("definition of rewrite-export not found in the library wrapper of define-library-transformer")


def translate(text):
    forms = read_all(text)
    forms = forms + [find_rewrite_export(forms)]
    defs = {}
    for (l0, l1, f) in forms:
        if isinstance(f, list) and len(f) >= 3 and f[0] == "define" and isinstance(f[1], list) and f[1] and f[1][0] in WANTED:
            name = str(f[1][0])
            if name in defs:
                raise Unsupported("%s defined twice" % name)
            ps = f[1][1:]
            if not all(isinstance(p, Sym) for p in ps):
                raise Unsupported("parameter list of %s" % name)
            defs[name] = (ps, f[2:], (l0, l1))
        elif isinstance(f, list) and len(f) >= 3 and f[0] == "define" and isinstance(f[1], tuple) and f[1][1] and f[1][1][0] in WANTED:
            raise Unsupported("%s has a rest parameter" % f[1][1][0])
        elif isinstance(f, list) and len(f) >= 3 and f[0] in ("define", "set!") and f[1] in WANTED:
            raise Unsupported("%s is defined/assigned as a variable" % f[1])
    missing = [w for w in WANTED if w not in defs]
    if missing:
        raise Unsupported("definitions not found in lib/meta-7.scm: %s" % missing)
    tr = Tr(defs)
    out = ["(** GENERATED by gen/c14_import.py from lib/meta-7.scm (sha256 %s) - do not edit. *)" % hashlib.sha256(text.encode()).hexdigest()[:16],
           "From ChibiV Require Import C14.Sx C14.World.", "Local Open Scope string_scope.", ""]
    for f in tr.order():
        out.append(tr.define(f))
    return "\n".join(out)


def _balanced_form(text, start):
    """the text of the form starting at text[start] == '(' (skips strings and ; comments)"""
    depth, i, n = 0, start, len(text)
    while i < n:
        c = text[i]
        if c == '"':
            i += 1
            while i < n and text[i] != '"':
                i += 2 if text[i] == "\\" else 1
        elif c == ";":
            while i < n and text[i] != "\n":
                i += 1
        elif c == "(":
            depth += 1
        elif c == ")":
            depth -= 1
            if depth == 0:
                return text[start:i + 1]
        i += 1
    raise Unsupported("unbalanced form")


def _subst(e, pat, rep):
    if e == pat:
        return rep(e) if callable(rep) else rep
    if isinstance(e, list):
        return [_subst(x, pat, rep) for x in e]
    return e


def translate_cond_expand(text):
    """lib/init-7.scm (define-syntax cond-expand (er-macro-transformer (lambda (expr rename compare) (define (check x) ...) (let expand ((ls (cdr expr))) ...)))):
    the feature-requirement evaluator [check] and the clause selection [expand] as Gallina.  Two source idioms are rewritten after
    being matched EXACTLY: (eval `(find-module ',(cadr x)) (%meta-env)) is the module-table look-up (find-module (cadr x)) of C14/World.v,
    and `(,(rename 'begin) ,@(cdar ls)) is (cons 'begin (cdar ls)) (the renamed begin is written as the symbol begin).  *features* becomes a
    Section variable."""
    at = text.find("(define-syntax cond-expand")
    if at < 0:
        raise Unsupported("(define-syntax cond-expand not found in lib/init-7.scm")
    line0 = text.count("\n", 0, at) + 1
    src = _balanced_form(text, at)
    forms = read_all(src)
    f = forms[0][2]
    S = Sym
    try:
        assert f[0] == "define-syntax" and f[1] == "cond-expand" and len(f) == 3
        er = f[2]
        assert er[0] == "er-macro-transformer" and len(er) == 2
        lam = er[1]
        assert lam[0] == "lambda" and lam[1] == [S("expr"), S("rename"), S("compare")] and len(lam) == 4
        dchk, loop = lam[2], lam[3]
        assert dchk[0] == "define" and dchk[1] == [S("check"), S("x")] and len(dchk) == 3
        assert loop[0] == "let" and loop[1] == "expand" and loop[2] == [[S("ls"), [S("cdr"), S("expr")]]] and len(loop) == 4
    except (AssertionError, IndexError, TypeError):
        raise Unsupported("cond-expand in lib/init-7.scm no longer has the shape (er-macro-transformer (lambda (expr rename compare) (define (check x) ..) (let expand ((ls (cdr expr))) ..)))")
    lib_idiom = [S("eval"), [S("quasiquote"), [S("find-module"), [S("quote"), [S("unquote"), [S("cadr"), S("x")]]]]], [S("%meta-env")]]
    begin_idiom = [S("quasiquote"), [[S("unquote"), [S("rename"), [S("quote"), S("begin")]]], [S("unquote-splicing"), [S("cdar"), S("ls")]]]]
    hits = {"lib": 0, "begin": 0}

    def r_lib(_):
        hits["lib"] += 1
        return [S("find-module"), [S("cadr"), S("x")]]

    def r_begin(_):
        hits["begin"] += 1
        return [S("cons"), [S("quote"), S("begin")], [S("cdar"), S("ls")]]
    chk = _subst(dchk[2], lib_idiom, r_lib)
    exp = _subst(loop[3], begin_idiom, r_begin)
    if hits["lib"] != 1 or hits["begin"] < 1:
        raise Unsupported("cond-expand: the (library ...) look-up or the `(,(rename 'begin) ,@(cdar ls)) result is no longer written as expected")
    for e in list(_walk_all(chk)) + list(_walk_all(exp)):
        if isinstance(e, Sym) and e in ("quasiquote", "unquote", "unquote-splicing", "eval", "rename", "compare", "expr"):
            raise Unsupported("cond-expand: %s outside the two known idioms" % e)
    l0 = line0 + forms[0][0] - 1
    defs = {"check": ([S("x")], [chk], (l0, l0 + src.count("\n"))), "expand": ([S("ls")], [exp], (l0, l0 + src.count("\n")))}
    tr = Tr(defs, globals_=["*features*"], srcfile="lib/init-7.scm")
    out = ["(** GENERATED by gen/c14_import.py from lib/init-7.scm cond-expand (sha256 of the form %s) - do not edit. *)" % hashlib.sha256(src.encode()).hexdigest()[:16],
           "From ChibiV Require Import C14.Sx C14.World.", "Local Open Scope string_scope.", "", "Section CondExpand.",
           "(** the value of *features* *)", "Variable %s : sx." % mangle("*features*"), ""]
    for fn in tr.order():
        out.append(tr.define(fn))
    out.append("End CondExpand.")
    return "\n".join(out)


def regen_cond_expand(ctx, repo=None):
    from vlib import build as B
    path = os.path.join(repo or B.REPO, "lib", "init-7.scm")
    try:
        text = translate_cond_expand(open(path).read())
    except Unsupported as e:
        ctx.broken("gen:C14_CondExpand", "cond-expand of lib/init-7.scm left the translator's subset: %s" % e)
        return False
    ctx.gen("C14_CondExpand", text)
    return True


def regen(ctx, repo=None):
    from vlib import build as B
    path = os.path.join(repo or B.REPO, "lib", "meta-7.scm")
    try:
        text = translate(open(path).read())
    except Unsupported as e:
        ctx.broken("gen:C14_ImportCode", "lib/meta-7.scm left the translator's subset: %s" % e)
        return False
    ctx.gen("C14_ImportCode", text)
    return True


if __name__ == "__main__":
    import sys
    print(translate(open(sys.argv[1]).read()))
