"""C10 round 3 (G): the STRUCT-MEMBER view of struct sexp_struct, regenerated from the tree under check, for the
closedness audit of harness/embed_c10_roots.c.

The H3 audit hook, the heap dumps and the DumpChecker all read the slots of an object through the type table
(_sexp_type_specs: field_base / field_len_base ...), i.e. through the same table the marker uses: a table entry
that is too short hides the dangling field from them.  This generator takes the other source: clang's AST of
include/chibi/sexp.h (the scratch build's headers and flags) gives, for every member struct of the `value` union,
the fields whose C type is `sexp` (or a fixed array of `sexp`); a compiled offsetof probe is not even needed — the
generated header uses offsetof itself.  The audit then requires of EVERY live object that EVERY such member is an
immediate, NULL, a static object outside the heaps, or the start of a live object.
(AST walk copied from gen/c02_layout.py, which turns the same information into a Coq obligation for C02.)
Fails closed: raises on a union member with sexp fields that has no known tag."""
import json, os, re, subprocess

# union member of struct sexp_struct -> the type tags (enum sexp_types constants) whose objects use it
TAGS_OF_MEMBER = {
    "type": ["SEXP_TYPE"], "pair": ["SEXP_PAIR"], "string": ["SEXP_STRING"], "ratio": ["SEXP_RATIO"], "complex": ["SEXP_COMPLEX"],
    "port": ["SEXP_IPORT", "SEXP_OPORT"], "exception": ["SEXP_EXCEPTION"], "procedure": ["SEXP_PROCEDURE"], "macro": ["SEXP_MACRO"],
    "synclo": ["SEXP_SYNCLO"], "env": ["SEXP_ENV"], "bytecode": ["SEXP_BYTECODE"], "core": ["SEXP_CORE"], "dl": ["SEXP_DL"],
    "opcode": ["SEXP_OPCODE"], "lambda": ["SEXP_LAMBDA"], "cnd": ["SEXP_CND"], "ref": ["SEXP_REF"], "set": ["SEXP_SET"],
    "set_syn": ["SEXP_SET_SYN"], "seq": ["SEXP_SEQ"], "lit": ["SEXP_LIT"], "context": ["SEXP_CONTEXT"], "uvector": ["SEXP_UNIFORM_VECTOR"],
    "promise": ["SEXP_PROMISE"], "ephemeron": ["SEXP_EPHEMERON"],
}
# members whose sexp fields are deliberately not part of the audit, with the reason
EXEMPT = {
    "cpointer": "Cpointer.parent: the base Cpointer type registers no traced slot (sexp.c); types made by sexp_register_c_type have their own entries",
    "stack": "Stack.data[]: only data[0..top) is live (the VM keeps top); covered by the type-table view of the audit",
    "vector": "Vector.data[]: flexible array; the audit reads `length` elements itself",
}


def _ast_records(d, name):
    src = os.path.join(d, "c10_ast.c")
    open(src, "w").write('#include "chibi/sexp.h"\n')
    r = subprocess.run(["clang", "-fsyntax-only", "-Xclang", "-ast-dump=json", "-Xclang", "-ast-dump-filter=" + name,
                        "-DSEXP_USE_VERIF_HOOKS=1", "-I" + os.path.join(d, "include"), src],
                       capture_output=True, text=True, timeout=300)
    if r.returncode != 0 or not r.stdout.strip():
        raise RuntimeError("clang AST dump failed: " + r.stderr[-500:])
    dec = json.JSONDecoder()
    txt, pos, recs = r.stdout, 0, []
    while True:
        m = re.compile(r"\{").search(txt, pos)
        if not m:
            break
        objv, pos = dec.raw_decode(txt, m.start())
        recs.append(objv)
    for o in recs:
        if o.get("kind") == "RecordDecl" and o.get("name") == name and o.get("completeDefinition"):
            return o
    raise RuntimeError("struct %s not found in the AST" % name)


def _sexp_fields_of(rec):
    fields = []
    for f in rec.get("inner", []):
        if f.get("kind") != "FieldDecl":
            continue
        qt = f["type"]["qualType"]
        if qt == "sexp":
            fields.append((f["name"], 1))
        else:
            m = re.fullmatch(r"sexp\s*\[(\d*)\]", qt)
            if m:
                fields.append((f["name"], int(m.group(1) or 0) or -1))
    return fields


def sexp_members(d):
    """{union member name: [(field name, array length | 1 scalar | -1 flexible)]} for fields of C type sexp"""
    root = _ast_records(d, "sexp_struct")
    union = None
    for c in root.get("inner", []):
        if c.get("kind") == "RecordDecl" and c.get("tagUsed") == "union":
            union = c
    if union is None:
        raise RuntimeError("value union not found")
    out = {}
    pending = None
    for c in union.get("inner", []):
        if c.get("kind") == "RecordDecl":
            pending = c
        elif c.get("kind") == "FieldDecl":
            qt = c["type"]["qualType"]
            m = re.fullmatch(r"struct (\w+)", qt)
            if m:
                out[c["name"]] = _sexp_fields_of(_ast_records(d, m.group(1)))
            elif pending is not None and "unnamed struct" in qt:
                out[c["name"]] = _sexp_fields_of(pending)
            else:
                out[c["name"]] = []
            pending = None
    if "pair" not in out or "context" not in out or "type" not in out or "exception" not in out:
        raise RuntimeError("unexpected shape of the value union: %s" % sorted(out))
    return out


def regen(d):
    """writes <build>/c10_members.h; returns (path, number of audited members, {member: fields})"""
    members = sexp_members(d)
    rows = []
    for mem, fields in sorted(members.items()):
        fs = [(f, n) for (f, n) in fields]
        if not fs:
            continue
        if mem in EXEMPT:
            continue
        if mem not in TAGS_OF_MEMBER:
            raise RuntimeError("gen/c10_layout: union member %r has sexp fields %s but no known type tag: extend TAGS_OF_MEMBER" % (mem, fs))
        for (f, n) in fs:
            if n < 0:
                raise RuntimeError("gen/c10_layout: flexible sexp array %s.%s needs a length rule" % (mem, f))
            for tag in TAGS_OF_MEMBER[mem]:
                rows.append('  {%s, (long)offsetof(struct sexp_struct, value.%s.%s), %d, "%s.%s"},' % (tag, mem, f, n, mem, f))
    text = ("/* GENERATED by gen/c10_layout.py from clang's AST of this tree's include/chibi/sexp.h - do not edit.\n"
            "   every member of C type sexp of struct sexp_struct, by the type tag of the objects that use the member */\n"
            "#include <stddef.h>\n"
            "static const struct c10_member { int tag; long off; int count; const char *name; } c10_members[] = {\n"
            + "\n".join(rows) + "\n  {-1, 0, 0, 0}\n};\n")
    path = os.path.join(d, "c10_members.h")
    old = open(path).read() if os.path.exists(path) else None
    if old != text:
        open(path, "w").write(text)
    return path, len(rows), members


if __name__ == "__main__":
    import sys
    p, n, m = regen(sys.argv[1])
    print(p, n)
    print({k: v for k, v in m.items() if v})
