"""C08 (G), round 4: regenerate, from the *current* sources of the checked tree,
  * the library writer's own character-name table  `escaped-chars`  of lib/srfi/38.scm
    (an alist  (#\\name . "text") ...; the #\\name literals are resolved as the native reader that
    loads the library resolves them: through the regenerated sexp_char_names table of sexp.c,
    a single character, or #\\x<hex>)                                  -> escaped_chars_38_gen
  * the two constants of sexp_read_float_tail's strtod path (sexp.c): SEXP_FLOAT_DIGITS_LEN and
    the bound of `fabsl(e) < N`                                         -> float_digits_len_gen,
                                                                            float_exp_bound_gen
into Gen/C08_Lib38.v.  Properties_C08.lib38_regenerated states that they equal the reference
copies the model (C08/Model3.v) and the proofs use.  Fails closed (Unsupported -> ctx.broken)."""
import os, re


class Unsupported(Exception):
    pass


def _balanced(s, i):
    """the parenthesised form starting at s[i] == '(' (strings and #\\ characters respected)"""
    assert s[i] == "("
    depth, j, n = 0, i, len(s)
    while j < n:
        c = s[j]
        if c == '"':
            j += 1
            while j < n and s[j] != '"':
                j += 2 if s[j] == "\\" else 1
        elif c == "#" and j + 1 < n and s[j + 1] == "\\":
            j += 2          # the character after #\ is taken literally (it may be a parenthesis)
        elif c == ";":
            while j < n and s[j] != "\n":
                j += 1
        elif c == "(":
            depth += 1
        elif c == ")":
            depth -= 1
            if depth == 0:
                return s[i:j + 1]
        j += 1
    raise Unsupported("unbalanced form")


def escaped_chars(build_dir, names):
    p = os.path.join(build_dir, "lib", "srfi", "38.scm")
    try:
        src = open(p, encoding="utf-8").read()
    except OSError as e:
        raise Unsupported("cannot read lib/srfi/38.scm: %s" % e)
    ms = [m.start() for m in re.finditer(r"\(define\s+escaped-chars\s", src)]
    if len(ms) != 1:
        raise Unsupported("expected exactly one (define escaped-chars ...), found %d" % len(ms))
    form = _balanced(src, ms[0])
    m = re.match(r"\(define\s+escaped-chars\s+'\(\s*(.*)\)\s*\)\s*$", form, re.S)
    if not m:
        raise Unsupported("escaped-chars is not a quoted list literal")
    body = m.group(1)
    by_name = {bytes(n).decode("latin-1"): c for n, c in names}
    out, pos = [], 0
    ent = re.compile(r'\s*\(\s*#\\(\S[^\s()]*)\s+\.\s+"([^"\\]*)"\s*\)')
    while pos < len(body):
        if not body[pos:].strip():
            break
        e = ent.match(body, pos)
        if not e:
            raise Unsupported("escaped-chars entry outside the shape (#\\name . \"text\"): %r" % body[pos:pos + 40])
        nm, txt = e.group(1), e.group(2)
        if len(nm) == 1:
            cp = ord(nm)
        elif nm in by_name:                      # case-sensitive, as sexp_read_raw compares (R7RS 6.6)
            cp = by_name[nm]
        elif re.fullmatch(r"x[0-9a-fA-F]+", nm):
            cp = int(nm[1:], 16)
        else:
            raise Unsupported("character name #\\%s is not in sexp_char_names" % nm)
        out.append((cp, list(txt.encode("utf-8"))))
        pos = e.end()
    if not out:
        raise Unsupported("escaped-chars is empty")
    return out


def _char_literal(nm, by_name):
    if len(nm) == 1:
        return ord(nm)
    if nm in by_name:                      # case-sensitive, as sexp_read_raw compares (R7RS 6.6)
        return by_name[nm]
    if re.fullmatch(r"x[0-9a-fA-F]+", nm):
        return int(nm[1:], 16)
    raise Unsupported("character name #\\%s is not in sexp_char_names" % nm)


def reader_tables(build_dir, names):
    """(define delimiters '(#\\; ...)) and (define named-chars `(("name" . #\\c | ,(integer->char N)) ...)) of lib/srfi/38.scm"""
    src = open(os.path.join(build_dir, "lib", "srfi", "38.scm"), encoding="utf-8").read()
    by_name = {bytes(n).decode("latin-1"): c for n, c in names}
    ms = [m.start() for m in re.finditer(r"\(define\s+delimiters\s", src)]
    if len(ms) != 1:
        raise Unsupported("expected exactly one (define delimiters ...), found %d" % len(ms))
    m = re.match(r"\(define\s+delimiters\s+'\((.*)\)\s*\)\s*$", _balanced(src, ms[0]), re.S)
    if not m:
        raise Unsupported("delimiters is not a quoted list literal")
    toks = m.group(1).split()
    if not toks or any(not t.startswith("#\\") or len(t) < 3 for t in toks):
        raise Unsupported("delimiters has an element that is not a character literal")
    delims = [_char_literal(t[2:], by_name) for t in toks]
    ms = [m.start() for m in re.finditer(r"\(define\s+named-chars\s", src)]
    if len(ms) != 1:
        raise Unsupported("expected exactly one (define named-chars ...), found %d" % len(ms))
    m = re.match(r"\(define\s+named-chars\s+`\(\s*(.*)\)\s*\)\s*$", _balanced(src, ms[0]), re.S)
    if not m:
        raise Unsupported("named-chars is not a quasiquoted list literal")
    body, pos, named = m.group(1), 0, []
    ent = re.compile(r'\s*\(\s*"([^"\\]*)"\s+\.\s+(?:#\\(\S[^\s()]*)|,\(integer->char\s+(\d+)\))\s*\)')
    while body[pos:].strip():
        e = ent.match(body, pos)
        if not e:
            raise Unsupported("named-chars entry outside the shape (\"name\" . #\\c) / (\"name\" . ,(integer->char N)): %r" % body[pos:pos + 40])
        named.append((list(e.group(1).encode("utf-8")), _char_literal(e.group(2), by_name) if e.group(2) else int(e.group(3))))
        pos = e.end()
    if not named:
        raise Unsupported("named-chars is empty")
    return delims, named


def float_constants(build_dir):
    try:
        src = open(os.path.join(build_dir, "sexp.c"), encoding="utf-8", errors="replace").read()
    except OSError as e:
        raise Unsupported("cannot read sexp.c: %s" % e)
    d = re.findall(r"^[ \t]*#[ \t]*define[ \t]+SEXP_FLOAT_DIGITS_LEN[ \t]+(\d+)[ \t]*$", src, re.M)
    if len(d) != 1:
        raise Unsupported("expected exactly one #define SEXP_FLOAT_DIGITS_LEN <int>, found %d" % len(d))
    i = src.find("sexp sexp_read_float_tail")
    if i < 0:
        raise Unsupported("sexp_read_float_tail not found")
    j = src.find("\n}\n", i)
    body = src[i:j]
    c = re.findall(r"if\s*\(\s*exactp\s*&&\s*whole\s*>=\s*0\s*&&\s*ndigits\s*<\s*SEXP_FLOAT_DIGITS_LEN\s*&&\s*e\s*==\s*\(long\)\s*e\s*&&\s*fabsl\s*\(\s*e\s*\)\s*<\s*(\d+)\s*\)", body)
    if len(c) != 1:
        raise Unsupported("the guard of the strtod path in sexp_read_float_tail is not `exactp && whole >= 0 && ndigits < SEXP_FLOAT_DIGITS_LEN && e == (long)e && fabsl(e) < N`")
    # the snprintf that starts the digit buffer and the one that appends the exponent
    if len(re.findall(r'snprintf\s*\(\s*digits\s*,\s*SEXP_FLOAT_DIGITS_LEN\s*,\s*"%\.0f"\s*,\s*whole\s*\)', body)) != 1:
        raise Unsupported('sexp_read_float_tail no longer starts the digits with snprintf(digits, SEXP_FLOAT_DIGITS_LEN, "%.0f", whole)')
    if len(re.findall(r'snprintf\s*\(\s*digits\s*\+\s*ndigits\s*,\s*32\s*,\s*"e%ld"\s*,\s*\(long\)\s*e\s*-\s*nfrac\s*\)', body)) != 1:
        raise Unsupported('sexp_read_float_tail no longer appends the exponent with snprintf(digits+ndigits, 32, "e%ld", (long)e - nfrac)')
    return int(d[0]), int(c[0])


def lib38_v(esc, dlen, ebound, delims=None, named=None):
    zs = lambda l: "[" + "; ".join(str(x) for x in l) + "]"
    t = ("(* GENERATED on every run by gen/c08_lib38.py from lib/srfi/38.scm and sexp.c of the checked repository. Do not edit. *)\n"
         "From Coq Require Import ZArith List.\nImport ListNotations.\nLocal Open Scope Z_scope.\n\n")
    t += "Definition escaped_chars_38_gen : list (Z * list Z) :=\n  [" + ";\n   ".join("(%d, %s)" % (c, zs(n)) for c, n in esc) + "].\n\n"
    t += "Definition float_digits_len_gen : Z := %d.\n" % dlen
    t += "Definition float_exp_bound_gen : Z := %d.\n" % ebound
    if delims is not None:
        t += "\nDefinition delimiters_38_gen : list Z := %s.\n" % zs(delims)
        t += "\nDefinition named_chars_38_gen : list (list Z * Z) :=\n  [" + ";\n   ".join("(%s, %d)" % (zs(n), c) for n, c in named) + "].\n"
    return t


def regen(ctx, build_dir, names):
    try:
        esc = escaped_chars(build_dir, names)
        dlen, eb = float_constants(build_dir)
        delims, named = reader_tables(build_dir, names)
        ctx.gen("C08_Lib38", lib38_v(esc, dlen, eb, delims, named))
        return True
    except Unsupported as e:
        ctx.broken("translator:C08_Lib38", "lib/srfi/38.scm escaped-chars or sexp_read_float_tail constants outside the handled shape: %s" % e)
        ctx.gen("C08_Lib38", "(* translator failed closed: %s *)\nDefinition c08_lib38_translation_failed : True := I.\n" % str(e).replace("*)", "* )"))
        return False


if __name__ == "__main__":
    import sys
    from gen import c08_tables
    s, n = c08_tables.tables(sys.argv[1])
    print(lib38_v(escaped_chars(sys.argv[1], n), *float_constants(sys.argv[1]), *reader_tables(sys.argv[1], n)))
