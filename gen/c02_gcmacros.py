"""C02 (G): the root-registration macro families of include/chibi/sexp.h, regenerated from the tree under check.

`sexp_gc_varK(x1..xK)`, `sexp_gc_preserveK(ctx, x1..xK)`, `sexp_gc_releaseK(ctx)` (sexp.h:669-723) are the documented
preservation interface: every C function that keeps a fresh object in a local across an allocation goes through them.
A slip in ONE arity (seed C10-c1: `sexp_gc_preserve7` pushes its 6th variable twice and never its 7th; the only user is the
Karatsuba branch of sexp_bignum_mul) compiles silently and unroots a variable in every user of that arity.

What this translator does (fails closed: GcMacroError on anything outside the subset):
  * arities = the `#define sexp_gc_var<K>` / `sexp_gc_preserve<K>` / `sexp_gc_release<K>` lines of the header as shipped
    in the build directory (the three families must define the same set of arities);
  * a probe file that includes chibi/sexp.h and expands, with the build's own -D/-I flags (cc -E), every member of the
    three families on fresh argument names `va1..vaK`, plus SEXP_VOID, NULL and sexp_context_saves(ctx);
  * the fully expanded token text is parsed into the item language of coq/C02/GcMacros.v:
        sexp x = <SEXP_VOID>;                                   DVar x true      (any other initialiser: DVar x false)
        struct sexp_gc_var_t p = {<NULL>, <NULL>};              DRec p true true
        (p).var = &(x);                                         SetVar p x
        (p).next = <saves>;                                     SetNext p
        <saves> = &(p);                                         SetSaves p
        (<saves> = p.next)                                      Restore p
        (p).name = "x";   (SEXP_USE_DEBUG_GC)                   no item
    -> coq/Gen/C02_GcMacros.v (`gc_macro_table`), proved by coq/C02/GcMacrosCheck.v to register exactly the K distinct
    arguments in order and to release exactly K;
  * use sites: every `sexp_gc_varK(...)` of every C file of the build directory (core, compiled libraries incl. the
    chibi-ffi generated ones) must be followed, up to the next declaration, only by `sexp_gc_preserveK` with the SAME
    arity and the SAME argument list, and `sexp_gc_releaseK` of the same arity; every arity used must be in the table.
"""
import os, re, subprocess, glob
from gen import c02_vmtop as VT


class GcMacroError(Exception):
    pass


def _norm(s):
    return re.sub(r"\s+", "", s)


def _strip(s):
    """remove redundant outer parentheses"""
    while s.startswith("(") and s.endswith(")"):
        depth = 0
        for i, c in enumerate(s):
            depth += c == "("
            depth -= c == ")"
            if depth == 0 and i < len(s) - 1:
                return s
        s = s[1:-1]
    return s


def _split(s, sep=";"):
    out, depth, cur = [], 0, ""
    for c in s:
        if c in "({":
            depth += 1
        elif c in ")}":
            depth -= 1
        if c == sep and depth == 0:
            out.append(cur)
            cur = ""
        else:
            cur += c
    out.append(cur)
    return [x for x in out if x != ""]


IDENT = re.compile(r"^[A-Za-z_]\w*$")


def _ident(s, what):
    s = _strip(s)
    if not IDENT.match(s):
        raise GcMacroError("%s: `%s` is not an identifier" % (what, s))
    return s


def arities(header_text):
    fam = {}
    for kind in ("var", "preserve", "release"):
        fam[kind] = sorted(int(k) for k in re.findall(r"^\s*#\s*define\s+sexp_gc_%s(\d+)\s*\(" % kind, header_text, re.M))
    # the header defines every family twice (Boehm / native): keep the set
    sets = {k: sorted(set(v)) for k, v in fam.items()}
    if not sets["var"] or sets["var"] != sets["preserve"] or sets["var"] != sets["release"]:
        raise GcMacroError("the three macro families define different arities: %s" % sets)
    if sets["var"] != list(range(1, len(sets["var"]) + 1)):
        raise GcMacroError("arities are not 1..n: %s" % sets["var"])
    return sets["var"]


def expand(d, ks, work):
    flags = VT.build_flags(d)
    src = os.path.join(work, "gcmacros-probe.c")
    lines = ['#include "chibi/sexp.h"', "@@VOID SEXP_VOID", "@@NIL NULL", "@@SAVES sexp_context_saves(VCTX)"]
    for k in ks:
        args = ", ".join("va%d" % i for i in range(1, k + 1))
        lines.append("@@VAR%d sexp_gc_var%d(%s)" % (k, k, args))
        lines.append("@@PRES%d sexp_gc_preserve%d(VCTX, %s)" % (k, k, args))
        lines.append("@@REL%d sexp_gc_release%d(VCTX)" % (k, k))
    lines.append("@@END")
    open(src, "w").write("\n".join(lines) + "\n")
    r = subprocess.run(["cc", "-E", "-P"] + flags + [src], cwd=d, capture_output=True, text=True, timeout=120)
    if r.returncode != 0:
        raise GcMacroError("cc -E of the probe failed: " + r.stderr[-300:])
    txt = r.stdout[r.stdout.index("@@VOID"):]
    out = {}
    for m in re.finditer(r"@@(\w+)(.*?)(?=@@)", txt, re.S):
        out[m.group(1)] = _norm(m.group(2))
    return out


def parse_var(text, void, null):
    items = []
    for stmt in _split(text):
        m = re.match(r"^sexp([A-Za-z_]\w*)=(.*)$", stmt)
        if m and not stmt.startswith("structsexp_gc_var_t"):
            items.append(("DVar", m.group(1), _strip(m.group(2)) == _strip(void)))
            continue
        m = re.match(r"^sexp([A-Za-z_]\w*)$", stmt)
        if m:
            items.append(("DVar", m.group(1), False))           # declared without an initialiser
            continue
        m = re.match(r"^structsexp_gc_var_t([A-Za-z_]\w*)(?:=\{(.*)\})?$", stmt)
        if m:
            init = _split(m.group(2), ",") if m.group(2) is not None else []
            if len(init) not in (0, 2):
                raise GcMacroError("preserver record with %d initialisers (SEXP_USE_DEBUG_GC layout?): %s" % (len(init), stmt))
            a = len(init) == 2 and _strip(init[0]) == _strip(null)
            b = len(init) == 2 and _strip(init[1]) == _strip(null)
            items.append(("DRec", m.group(1), a, b))
            continue
        raise GcMacroError("declaration outside the subset: " + stmt)
    return items


def parse_stmt(stmt, saves):
    s = _strip(stmt)
    if "=" not in s:
        raise GcMacroError("statement outside the subset: " + stmt)
    lhs, rhs = s.split("=", 1)
    if rhs.startswith("="):
        raise GcMacroError("statement outside the subset: " + stmt)
    sv = _strip(saves)
    if _strip(lhs) == sv:
        r = _strip(rhs)
        if r.startswith("&"):
            return ("SetSaves", _ident(r[1:], stmt))
        m = re.match(r"^(.*)\.next$", r)
        if m:
            return ("Restore", _ident(m.group(1), stmt))
        raise GcMacroError("store into the saves list outside the subset: " + stmt)
    m = re.match(r"^(.*)\.(var|next|name)$", _strip(lhs))
    if not m:
        raise GcMacroError("statement outside the subset: " + stmt)
    p, fld = _ident(m.group(1), stmt), m.group(2)
    if fld == "name":
        if not re.match(r'^"[^"]*"$', _strip(rhs)):
            raise GcMacroError("statement outside the subset: " + stmt)
        return None
    if fld == "var":
        r = _strip(rhs)
        if not r.startswith("&"):
            raise GcMacroError("statement outside the subset: " + stmt)
        return ("SetVar", p, _ident(r[1:], stmt))
    if _strip(rhs) != sv:
        raise GcMacroError("`next` is set to something else than the saves list: " + stmt)
    return ("SetNext", p)


def parse_body(text, saves):
    items = []
    for blk in _split(text):
        m = re.match(r"^do\{(.*)\}while\(0\)$", blk)
        stmts = _split(m.group(1)) if m else [blk]
        for st in stmts:
            it = parse_stmt(st, saves)
            if it:
                items.append(it)
    return items


def coq_item(it):
    q = lambda s: '"%s"' % s
    b = lambda v: "true" if v else "false"
    if it[0] == "DVar":
        return "DVar %s %s" % (q(it[1]), b(it[2]))
    if it[0] == "DRec":
        return "DRec %s %s %s" % (q(it[1]), b(it[2]), b(it[3]))
    if it[0] == "SetVar":
        return "SetVar %s %s" % (q(it[1]), q(it[2]))
    return "%s %s" % (it[0], q(it[1]))


def strip_defines(txt):
    """blank out #define blocks (with continuation lines), keeping the line structure"""
    out, cont = [], False
    for l in txt.split("\n"):
        if cont or re.match(r"^\s*#\s*define\b", l):
            cont = l.rstrip().endswith("\\")
            out.append("")
        else:
            out.append(l)
    return "\n".join(out)


USE = re.compile(r"\bsexp_gc_(var|preserve|release)(\d+)\s*\(([^()]*)\)")


def use_sites(d, ks):
    """returns (number of uses, {arity: uses}, problems)"""
    files = sorted(glob.glob(os.path.join(d, "*.c")) + glob.glob(os.path.join(d, "lib", "**", "*.c"), recursive=True))
    nuse, per, bad = 0, {}, []
    for f in files:
        txt = strip_defines(open(f, errors="replace").read())
        cur = None
        rel = os.path.relpath(f, d)
        for m in USE.finditer(txt):
            line = txt.count("\n", 0, m.start()) + 1
            kind, k = m.group(1), int(m.group(2))
            args = [a.strip() for a in m.group(3).split(",")]
            nuse += 1
            per[k] = per.get(k, 0) + 1
            if k not in ks:
                bad.append((rel, line, "arity %d is not defined by the header" % k))
            if kind == "var":
                cur = (k, args, line)
                if len(args) != k or len(set(args)) != k:
                    bad.append((rel, line, "sexp_gc_var%d with arguments %s" % (k, args)))
            elif cur is None:
                bad.append((rel, line, "sexp_gc_%s%d without a preceding sexp_gc_var declaration" % (kind, k)))
            elif kind == "preserve":
                if k != cur[0] or args[1:] != cur[1]:
                    bad.append((rel, line, "sexp_gc_preserve%d(%s) does not register exactly the variables of sexp_gc_var%d(%s) declared at line %d" % (
                        k, ", ".join(args[1:]), cur[0], ", ".join(cur[1]), cur[2])))
            else:
                if k != cur[0]:
                    bad.append((rel, line, "sexp_gc_release%d after sexp_gc_var%d (line %d)" % (k, cur[0], cur[2])))
    return nuse, per, bad


def regen(ctx, d, work):
    hdr = open(os.path.join(d, "include", "chibi", "sexp.h")).read()
    ks = arities(hdr)
    ex = expand(d, ks, work)
    for key in ("VOID", "NIL", "SAVES"):
        if not ex.get(key):
            raise GcMacroError("probe line %s missing" % key)
    if "VCTX" not in ex["SAVES"]:
        raise GcMacroError("sexp_context_saves does not mention its context: " + ex["SAVES"])
    rows, table = [], []
    for k in ks:
        var = parse_var(ex["VAR%d" % k], ex["VOID"], ex["NIL"])
        pres = parse_body(ex["PRES%d" % k], ex["SAVES"])
        rel = parse_body(ex["REL%d" % k], ex["SAVES"])
        args = ["va%d" % i for i in range(1, k + 1)]
        table.append(dict(k=k, args=args, var=var, pres=pres, rel=rel))
        lst = lambda l: "[" + "; ".join(coq_item(i) for i in l) + "]"
        rows.append("  mkMacro %d [%s]\n    %s\n    %s\n    %s" % (k, "; ".join('"%s"' % a for a in args), lst(var), lst(pres), lst(rel)))
    text = ("(* GENERATED by gen/c02_gcmacros.py from include/chibi/sexp.h of the tree under check (cc -E with the build's flags). *)\n"
            "From Coq Require Import List String.\nFrom ChibiV Require Import C02.GcMacros.\nImport ListNotations.\nOpen Scope string_scope.\n\n"
            "Definition gc_macro_table : list macro := [\n" + ";\n".join(rows) + "\n].\n\n"
            "Definition gc_macro_report := map macro_report gc_macro_table.\n")
    ctx.gen("C02_GcMacros", text)
    nuse, per, bad = use_sites(d, ks)
    return dict(arities=ks, table=table, uses=nuse, uses_per_arity=per, bad_use_sites=bad)


def py_check(row):
    """python mirror of macro_okb (to name the offending macro in the report); returns a reason or None"""
    k, args = row["k"], row["args"]
    dv = [(i[1], i[2]) for i in row["var"] if i[0] == "DVar"]
    dr = [(i[1], i[2] and i[3]) for i in row["var"] if i[0] == "DRec"]
    if dv != [(a, True) for a in args]:
        return "sexp_gc_var%d declares %s (name, initialised to SEXP_VOID), expected exactly %s" % (k, dv, args)
    if len(dr) != k or len(set(p for p, _ in dr)) != k or not all(ok for _, ok in dr):
        return "sexp_gc_var%d declares the preserver records %s, expected %d distinct records initialised {NULL, NULL}" % (k, dr, k)
    saves, nxt, var = "OUT", {p: None for p, _ in dr}, {p: None for p, _ in dr}
    for it in row["pres"] + [("MARK",)] + row["rel"]:
        if it[0] == "MARK":
            chain, q, n = [], saves, 0
            while q not in (None, "OUT") and n <= k + 1:
                if var.get(q):
                    chain.append(var[q])
                q, n = nxt.get(q), n + 1
            if q != "OUT" or chain != args[::-1]:
                return "after sexp_gc_preserve%d(ctx, %s) the saves list holds %s%s, expected exactly %s" % (
                    k, ", ".join(args), chain, "" if q == "OUT" else " and does not lead back to the caller's list", args[::-1])
            continue
        if it[1] not in nxt:
            return "%s uses the undeclared record %s" % (it[0], it[1])
        if it[0] == "SetVar":
            var[it[1]] = it[2]
        elif it[0] == "SetNext":
            nxt[it[1]] = saves
        elif it[0] == "SetSaves":
            saves = it[1]
        elif it[0] == "Restore":
            saves = nxt[it[1]]
    if saves != "OUT":
        return "after sexp_gc_release%d(ctx) the saves list is %s, expected the caller's list (exactly %d records released)" % (k, saves, k)
    return None
