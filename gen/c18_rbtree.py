"""C18 (G): regenerate from lib/srfi/146/rbtree.scm the `tree-match` clause tables of the red-black tree -- `blacken`, `redden`,
`white->black`, `balance`, `rotate`, `min+delete` and the table of the `remove` continuation inside `tree-search` -- as Gallina
`match` expressions over the tree type of coq/C18/RBDefs.v.  A Coq `match` with overlapping deep patterns has the same first-match
semantics as `tree-match` (rbtree.scm:48-66: the clauses are tried in order, "tree does not match any pattern" otherwise = None).
Emitted on every run as coq/Gen/C18_RBTables.v; coq/C18/RBTie.v proves every generated function equal (by conversion) to the
hand-written model function of coq/C18/RBTree.v that the theorems are about, so a swapped pattern variable, a changed colour or a
reordered clause in the Scheme source re-opens the proofs instead of leaving the model silently behind the code.

Pattern subset (rbtree.scm:73-117 compile-pattern; anything else raises Unsupported => ctx.broken, fail closed):
  _            any tree                  x           any tree, bound to x
  (black) (white)                        a leaf of that colour
  (red a x b) (black a x b) (white a x b)   a non-leaf node of that colour; a, b patterns, x an identifier or _
  (node c a x b)                         a non-leaf node, c an identifier (BOUND to the colour, not tested) or _
  (red? x) (black? x) (white? x)         a tree of that colour, leaf or not, bound to x
  (and t p)                              p, the whole tree also bound to t
Expression subset: identifiers bound by the pattern / parameters; (red a x b) (black a x b) (white a x b) (node c a x b)
(black-leaf) (white-leaf); calls of blacken redden balance (total) and white->black rotate min+delete (may raise: option);
(values e1 e2) as a result; (receive (v1 v2) (min+delete e) body)."""
import os
from gen.c18_cov import read_all


class Unsupported(Exception):
    pass


COLORS = {"red": "Red", "black": "Black", "white": "White"}
PREDS = {"red?": "Red", "black?": "Black", "white?": "White"}
KEYWORDS = {"end", "at", "as", "in", "then", "else", "with", "match", "fun", "return", "let", "if", "fix", "Some", "None", "Lf", "Nd",
            "Red", "Black", "White"}
# scheme name -> (generated name, result kind): total -> rbt; opt -> option rbt; opt2 -> option (item * rbt)
FUNS = {"blacken": ("gen_blacken", "total"), "redden": ("gen_redden", "total"), "white->black": ("gen_white_to_black", "opt"),
        "balance": ("gen_balance", "total"), "rotate": ("gen_rotate", "opt"), "min+delete": ("gen_min_delete", "opt2")}
ORDER = ["blacken", "redden", "white->black", "balance", "rotate", "min+delete"]


def ident(name):
    n = name.replace("+", "_").replace("-", "_").replace("?", "_p").replace("!", "_x").replace(">", "_to_")
    if not n.replace("_", "a").isalnum() or n[0].isdigit():
        raise Unsupported("identifier %r" % name)
    return n + "_" if n in KEYWORDS else n


def is_sym(nd):
    return nd.kids is None


def pat(nd, bound):
    """-> gallina pattern text; appends the bound scheme identifiers to `bound`"""
    def bind(s):
        if s in bound:
            raise Unsupported("pattern variable %s bound twice" % s)
        if s in COLORS or s in PREDS or s in ("node", "and", "?"):
            # rbtree.scm black-height: a bare `red` / `black` in a pattern is a VARIABLE (F-C18-14); not translated
            raise Unsupported("the literal %s used as a pattern variable" % s)
        bound.append(s)
        return ident(s)
    if is_sym(nd):
        return "_" if nd.text == "_" else bind(nd.text)
    if nd.quoted or not nd.kids or not is_sym(nd.kids[0]):
        raise Unsupported("pattern at offset %d" % nd.start)
    h, args = nd.kids[0].text, nd.kids[1:]
    if h in ("black", "white") and not args:
        return "Lf %s" % COLORS[h]
    if h in COLORS and len(args) == 3:
        if not is_sym(args[1]):
            raise Unsupported("item pattern at offset %d" % args[1].start)
        a = pat(args[0], bound); x = pat(args[1], bound); b = pat(args[2], bound)
        return "Nd %s %s %s %s" % (COLORS[h], paren(a), x, paren(b))
    if h == "node" and len(args) == 4:
        if not is_sym(args[0]) or not is_sym(args[2]):
            raise Unsupported("colour / item pattern at offset %d" % nd.start)
        c = pat(args[0], bound); a = pat(args[1], bound); x = pat(args[2], bound); b = pat(args[3], bound)
        return "Nd %s %s %s %s" % (c, paren(a), x, paren(b))
    if h in PREDS and len(args) == 1 and is_sym(args[0]) and args[0].text != "_":
        return "(Lf %s | Nd %s _ _ _) as %s" % (PREDS[h], PREDS[h], bind(args[0].text))
    if h == "and" and len(args) == 2 and is_sym(args[0]) and args[0].text != "_":
        v = bind(args[0].text)
        return "%s as %s" % (paren(pat(args[1], bound)), v)
    raise Unsupported("pattern (%s ...) at offset %d" % (h, nd.start))


def paren(t):
    return t if (" " not in t) else "(" + t + ")"


class Tr:
    def __init__(self, kind, self_name=None):
        self.kind, self.n, self.self_name = kind, 0, self_name

    def fresh(self):
        self.n += 1
        return "o%d" % self.n

    def tree(self, nd, env, k):
        """translate a tree-valued expression; k(text) builds the rest of the clause (continuation style so that calls which
        may raise are hoisted into a match on their option result)"""
        if is_sym(nd):
            if nd.text not in env:
                raise Unsupported("unbound identifier %s" % nd.text)
            return k(env[nd.text])
        if nd.quoted or not nd.kids or not is_sym(nd.kids[0]):
            raise Unsupported("expression at offset %d" % nd.start)
        h, args = nd.kids[0].text, nd.kids[1:]
        if h in ("black-leaf", "white-leaf") and not args:
            return k("(Lf %s)" % COLORS[h.split("-")[0]])
        if h in COLORS and len(args) == 3:
            return self.tree(args[0], env, lambda a: self.sym(args[1], env, lambda x: self.tree(args[2], env, lambda b:
                             k("(Nd %s %s %s %s)" % (COLORS[h], a, x, b)))))
        if h == "node" and len(args) == 4:
            return self.sym(args[0], env, lambda c: self.tree(args[1], env, lambda a: self.sym(args[2], env, lambda x:
                            self.tree(args[3], env, lambda b: k("(Nd %s %s %s %s)" % (c, a, x, b))))))
        if h in FUNS and len(args) == 1:
            g, kind = FUNS[h]
            if kind == "total":
                return self.tree(args[0], env, lambda a: k("(%s %s)" % (g, a)))
            if kind == "opt":
                if self.kind == "total":
                    raise Unsupported("%s (may raise) called from a function modelled as total" % h)
                def call(a):
                    v = self.fresh()
                    return "match %s %s with Some %s => %s | None => None end" % (g, a, v, k(v))
                return self.tree(args[0], env, call)
        raise Unsupported("expression (%s ...) at offset %d" % (h, nd.start))

    def sym(self, nd, env, k):
        if not is_sym(nd) or nd.text not in env:
            raise Unsupported("expected a bound identifier at offset %d" % nd.start)
        return k(env[nd.text])

    def result(self, nd, env):
        """the body of a clause"""
        if not is_sym(nd) and nd.kids and is_sym(nd.kids[0]):
            h, args = nd.kids[0].text, nd.kids[1:]
            if h == "values" and len(args) == 2 and self.kind == "opt2":
                return self.sym(args[0], env, lambda x: self.tree(args[1], env, lambda t: "Some (%s, %s)" % (x, t)))
            if h == "receive" and len(args) == 3 and self.kind in ("opt", "opt2"):
                formals, call, body = args
                if (is_sym(formals) or len(formals.kids) != 2 or not all(is_sym(f) for f in formals.kids) or is_sym(call) or len(call.kids) != 2
                        or not is_sym(call.kids[0]) or call.kids[0].text != "min+delete"):
                    raise Unsupported("receive form at offset %d" % nd.start)
                v1, v2 = formals.kids[0].text, formals.kids[1].text
                env2 = dict(env); env2[v1] = ident(v1); env2[v2] = ident(v2)
                g = self.self_name if self.self_name else FUNS["min+delete"][0]
                return self.tree(call.kids[1], env, lambda a: "match %s %s with Some (%s, %s) => %s | None => None end"
                                 % (g, a, ident(v1), ident(v2), self.result(body, env2)))
        if self.kind == "opt2":
            raise Unsupported("min+delete clause that does not end in (values item tree) at offset %d" % nd.start)
        return self.tree(nd, env, (lambda t: t) if self.kind == "total" else (lambda t: "Some %s" % t))


def table(tm, scrut, params, kind, self_name=None):
    """tm: the (tree-match scrut clause ...) form -> the text of a Gallina match"""
    if tm.head() != "tree-match" or len(tm.kids) < 3 or not is_sym(tm.kids[1]) or tm.kids[1].text != scrut:
        raise Unsupported("expected (tree-match %s ...) at offset %d" % (scrut, tm.start))
    lines = ["  match %s with" % ident(scrut)]
    last_catch_all = False
    for cl in tm.kids[2:]:
        if is_sym(cl) or len(cl.kids) != 2:
            raise Unsupported("tree-match clause with %s body expressions at offset %d" % ("no" if is_sym(cl) else len(cl.kids) - 1, cl.start))
        bound = []
        p = pat(cl.kids[0], bound)
        env = {q: ident(q) for q in params}
        env.update({b: ident(b) for b in bound})
        lines.append("  | %s =>\n      %s" % (p, Tr(kind, self_name).result(cl.kids[1], env)))
        last_catch_all = is_sym(cl.kids[0])
    if not last_catch_all:
        if kind == "total":
            raise Unsupported("a function modelled as total has no catch-all clause")
        lines.append("  | _ => None")       # "tree does not match any pattern"
    lines.append("  end")
    return "\n".join(lines)


def find_define(tops, name):
    found = [t for t in tops if t.kids and t.head() == "define" and len(t.kids) >= 3 and t.kids[1].kids is not None and t.kids[1].kids
             and is_sym(t.kids[1].kids[0]) and t.kids[1].kids[0].text == name]
    if len(found) != 1:
        raise Unsupported("%d definitions of %s" % (len(found), name))
    return found[0]


def find_forms(nd, head, scrut, acc):
    if nd.kids is None or nd.quoted:
        return acc
    if nd.head() == head and len(nd.kids) > 1 and is_sym(nd.kids[1]) and nd.kids[1].text == scrut:
        acc.append(nd)
        return acc
    for k in nd.kids:
        find_forms(k, head, scrut, acc)
    return acc


def mentions(nd, name):
    if nd.kids is None:
        return nd.text == name
    return any(mentions(k, name) for k in nd.kids)


RESULT_TY = {"total": "rbt", "opt": "option rbt", "opt2": "option (item * rbt)"}


def translate(src):
    tops = read_all(src)
    out = ["(* GENERATED by gen/c18_rbtree.py from lib/srfi/146/rbtree.scm - do not edit *)",
           "From Coq Require Import ZArith.", "From ChibiV Require Import C18.RBDefs.", ""]
    for name in ORDER:
        d = find_define(tops, name)
        g, kind = FUNS[name]
        params = [k.text for k in d.kids[1].kids[1:]]
        if len(params) != 1 or len(d.kids) != 3:
            raise Unsupported("shape of the definition of %s" % name)
        rec = mentions(d.kids[2], name)
        body = table(d.kids[2], params[0], params, kind, g if rec else None)
        out.append("%s %s (%s : rbt) %s: %s :=\n%s.\n" % ("Fixpoint" if rec else "Definition", g, ident(params[0]),
                                                          "{struct %s} " % ident(params[0]) if rec else "", RESULT_TY[kind], body))
    # the table of the `remove` continuation of tree-search: (tree-match t ...) with c a b free (the matched node (node c a x b))
    ts = find_define(tops, "tree-search")
    tms = find_forms(ts, "tree-match", "t", [])
    if len(tms) != 1:
        raise Unsupported("%d (tree-match t ...) forms inside tree-search" % len(tms))
    body = table(tms[0], "t", ["t", "c", "a", "b"], "opt")
    out.append("Definition gen_remove_at (t : rbt) (c : color) (a : rbt) (b : rbt) : option rbt :=\n%s.\n" % body)
    return "\n".join(out)


def regen(ctx, repo=None):
    from vlib import build as B
    path = os.path.join(repo or B.REPO, "lib", "srfi", "146", "rbtree.scm")
    try:
        text = translate(open(path).read())
    except (Unsupported, ValueError, OSError) as e:
        ctx.broken("gen:C18_RBTables", "lib/srfi/146/rbtree.scm left the translator's subset: %s" % e)
        return False
    ctx.gen("C18_RBTables", text)
    return True


if __name__ == "__main__":
    import sys
    print(translate(open(os.path.join(sys.argv[1], "srfi", "146", "rbtree.scm")).read()))
