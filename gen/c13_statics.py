"""C13 (G): inventory of process-wide mutable state of the *built* chibi-scheme.

From the hook-less scratch build (variant `nohooks`: the product code, the verification hooks keep
process-wide counters of their own) of $VERIF_REPO this translator lists, for libchibi-scheme.so and every
compiled library lib/**/*.so:

  * every symbol that lives in a writable, allocated section that can hold program data (.data, .bss,
    .tdata, .tbss; .data.rel.ro is listed too, marked `relro` = read-only after relocation), with section and
    size, *including function-local statics* (they are local symbols of the same sections);
  * every run of bytes of .data/.bss/.tdata/.tbss that no symbol covers and that is larger than alignment
    padding, as a pseudo symbol `<anon>+off` (so data cannot hide from the inventory);
  * for each such symbol the functions of the same shared object (and of the other scanned shared objects,
    through GOT entries) that
        W  store to it       (rip-relative or GOT/lea-derived memory operand in destination position,
                              read-modify-write and locked instructions included),
        A  take its address  (lea / GOT load whose register then escapes: passed on, stored, or live at a
                              call; data relocations that store its address in another object appear as
                              `data:<holder>`),
        R  only load from it (not emitted per function; the count is kept for the evidence).

The scan is a conservative disassembly scan (objdump + readelf), i.e. it works on what the compiler actually
emitted for this build: macros, generated FFI stubs and inlining are all seen.  It fails closed: an unknown
writable section, an unparsable rip-relative reference into a data section or a TLS symbol it cannot attribute
raise ScanError, and the check reports the construct.

Output: coq/Gen/C13_Statics.v  (Definition table : list static)."""
import os, re, subprocess

DATA_SECS = {".data", ".bss", ".tdata", ".tbss"}
RELRO_SECS = {".data.rel.ro"}
# writable sections that hold linker/loader bookkeeping only (never C objects of the program)
LINKER_SECS = {".init_array", ".fini_array", ".dynamic", ".got", ".got.plt", ".jcr", ".tm_clone_table", ".ctors", ".dtors",
               ".preinit_array"}
PAD = 32          # largest alignment padding tolerated between two symbols of a data section

READ_ONLY_2 = ("cmp", "test", "bt ", "ucomis", "comis", "vucomis", "vcomis", "ptest", "vptest")
WRITE_1 = ("inc", "dec", "neg", "not", "set", "pop", "fst", "fist", "fisttp", "shl", "shr", "sar", "sal", "rol", "ror", "rcl", "rcr",
           "stmxcsr", "fnstcw", "fnstsw", "fxsave", "xsave")
WRITE_ANY = ("xchg", "xadd", "cmpxchg")
CALLEE_SAVED = {"rbx", "rbp", "r12", "r13", "r14", "r15"}


class ScanError(Exception):
    pass


def sh(cmd):
    r = subprocess.run(cmd, capture_output=True, text=True, timeout=300)
    if r.returncode != 0:
        raise ScanError("%s failed: %s" % (" ".join(cmd), r.stderr[-500:]))
    return r.stdout


def reg64(r):
    """canonical 64-bit name of a register operand like %eax, %r12d, %dil"""
    r = r.lstrip("%")
    m = re.match(r"^r(\d+)[dwb]?$", r)
    if m:
        return "r" + m.group(1)
    t = {"eax": "rax", "ax": "rax", "al": "rax", "ah": "rax", "ebx": "rbx", "bx": "rbx", "bl": "rbx", "bh": "rbx",
         "ecx": "rcx", "cx": "rcx", "cl": "rcx", "ch": "rcx", "edx": "rdx", "dx": "rdx", "dl": "rdx", "dh": "rdx",
         "esi": "rsi", "si": "rsi", "sil": "rsi", "edi": "rdi", "di": "rdi", "dil": "rdi",
         "ebp": "rbp", "bp": "rbp", "bpl": "rbp", "esp": "rsp", "sp": "rsp", "spl": "rsp"}
    return t.get(r, r)


def split_ops(s):
    out, depth, cur = [], 0, ""
    for ch in s:
        if ch == "(":
            depth += 1
        elif ch == ")":
            depth -= 1
        if ch == "," and depth == 0:
            out.append(cur.strip()); cur = ""
        else:
            cur += ch
    if cur.strip():
        out.append(cur.strip())
    return out


def mem_kind(mn, ops, idx):
    """how the memory operand ops[idx] of instruction mn is accessed: 'W', 'R' or 'A' (lea)"""
    if mn.startswith("lea"):
        return "A"
    if mn.startswith(WRITE_ANY) or mn.startswith("lock"):
        return "W"
    if len(ops) == 1:
        return "W" if mn.startswith(WRITE_1) else "R"
    if idx == len(ops) - 1:
        return "R" if (mn + " ").startswith(READ_ONLY_2) else "W"
    return "R"


class SO:
    def __init__(self, root, rel):
        self.rel, self.path = rel, os.path.join(root, rel)
        self.secs = []        # (name, addr, size, flags, type)
        self.syms = []        # dict(name, addr, size, sec, bind, type)
        self.undef_objects = set()
        self._sections()
        self._symbols()

    def _sections(self):
        for line in sh(["readelf", "-S", "-W", self.path]).split("\n"):
            m = re.match(r"\s*\[\s*(\d+)\]\s+(\S+)\s+(\S+)\s+([0-9a-f]+)\s+([0-9a-f]+)\s+([0-9a-f]+)\s+([0-9a-f]+)\s+([A-Za-z]*)\s", line)
            if m:
                self.secs.append(dict(idx=int(m.group(1)), name=m.group(2), type=m.group(3), addr=int(m.group(4), 16),
                                      size=int(m.group(6), 16), flags=m.group(8)))
        for s in self.secs:
            if "W" in s["flags"] and "A" in s["flags"]:
                if s["name"] not in DATA_SECS | RELRO_SECS | LINKER_SECS:
                    raise ScanError("%s: writable section %s is not one the inventory knows how to read" % (self.rel, s["name"]))

    def sec_of(self, addr, names):
        for s in self.secs:
            if s["name"] in names and s["addr"] <= addr < s["addr"] + max(s["size"], 1) and "T" not in s["flags"]:
                return s
        return None

    def _symbols(self):
        byidx = {s["idx"]: s for s in self.secs}
        seen = set()
        for line in sh(["readelf", "-s", "-W", self.path]).split("\n"):
            m = re.match(r"\s*\d+:\s+([0-9a-f]+)\s+(\d+|0x[0-9a-f]+)\s+(\S+)\s+(\S+)\s+(\S+)\s+(\S+)\s*(\S*)", line)
            if not m:
                continue
            addr, size, typ, bind, ndx, name = int(m.group(1), 16), int(m.group(2), 0), m.group(3), m.group(4), m.group(6), m.group(7)
            name = name.split("@")[0]
            if ndx == "UND":
                if typ in ("OBJECT", "TLS", "NOTYPE") and name:
                    self.undef_objects.add(name)
                continue
            if not ndx.isdigit() or typ in ("SECTION", "FILE", "FUNC", "IFUNC"):
                continue
            sec = byidx.get(int(ndx))
            if not sec or sec["name"] not in DATA_SECS | RELRO_SECS:
                continue
            if size == 0 and name == "__dso_handle":
                size = 8        # crtbegin's handle: a pointer-sized object declared without a size
            if size == 0:
                continue        # section-end markers (_edata, __bss_start, __TMC_END__ ...)
            key = (name, addr)
            if key in seen:
                continue
            seen.add(key)
            self.syms.append(dict(name=name, addr=addr, size=size, sec=sec["name"], bind=bind, type=typ))
        # uncovered runs of the data sections
        for sec in self.secs:
            if sec["name"] not in DATA_SECS:
                continue
            cov = sorted((s["addr"], s["addr"] + s["size"]) for s in self.syms if s["sec"] == sec["name"])
            pos = sec["addr"]
            gaps = []
            for a, b in cov:
                if a > pos:
                    gaps.append((pos, a))
                pos = max(pos, b)
            if sec["addr"] + sec["size"] > pos:
                gaps.append((pos, sec["addr"] + sec["size"]))
            for a, b in gaps:
                if b - a > PAD:
                    self.syms.append(dict(name="<anon>+%x" % (a - sec["addr"]), addr=a, size=b - a, sec=sec["name"], bind="LOCAL", type="ANON"))
        self.syms.sort(key=lambda s: (s["sec"], s["addr"], s["name"]))

    def sym_at(self, addr):
        for s in self.syms:
            if s["type"] != "TLS" and s["addr"] <= addr < s["addr"] + s["size"]:
                return s
        return None

    def got_map(self):
        """GOT slot address -> symbol name, and data relocations (holder address -> target symbol/addend)"""
        got, datarel = {}, []
        for line in sh(["readelf", "-r", "-W", self.path]).split("\n"):
            m = re.match(r"([0-9a-f]+)\s+[0-9a-f]+\s+(R_X86_64_\w+)\s+(.*)$", line)
            if not m:
                continue
            off, typ, rest = int(m.group(1), 16), m.group(2), m.group(3).strip()
            if typ == "R_X86_64_RELATIVE":
                datarel.append((off, None, int(rest, 16)))
            elif typ in ("R_X86_64_GLOB_DAT", "R_X86_64_64"):
                mm = re.match(r"[0-9a-f]+\s+(\S+)\s*\+\s*([0-9a-f]+)", rest)
                if mm:
                    name = mm.group(1).split("@")[0]
                    if self.sec_of(off, {".got"}):
                        got[off] = name
                    else:
                        datarel.append((off, name, int(mm.group(2), 16)))
            elif typ in ("R_X86_64_TPOFF64", "R_X86_64_DTPMOD64", "R_X86_64_DTPOFF64", "R_X86_64_TLSDESC"):
                mm = re.match(r"[0-9a-f]+\s+(\S+)", rest)
                got[off] = "<tls>" + (mm.group(1) if mm else "")
        return got, datarel


def scan_so(so, writable_globals, refs, stats):
    """refs[(lib, name)] -> dict(W=set(), A=set(), R=int)"""
    got, datarel = so.got_map()

    def ref(target, kind, fn):
        e = refs.setdefault(target, dict(W=set(), A=set(), R=0))
        if kind == "R":
            e["R"] += 1
        else:
            e[kind].add(fn)

    def resolve_name(name):
        """a symbol name reached through the GOT: which inventory entry is it?"""
        for s in so.syms:
            if s["name"] == name and s["bind"] != "LOCAL":
                return (so.rel, name)
        if name in writable_globals:
            return writable_globals[name]
        return None

    # data relocations: the address of a tracked object stored inside another data object
    for off, name, addend in datarel:
        tgt = None
        if name is None:
            s = so.sym_at(addend)
            if s:
                tgt = (so.rel, s["name"])
        else:
            tgt = resolve_name(name)
        if tgt:
            h = so.sym_at(off)
            hs = so.sec_of(off, DATA_SECS | RELRO_SECS | LINKER_SECS)
            holder = h["name"] if h else (hs["name"] if hs else "?")
            if holder not in (".got", ".got.plt"):
                ref(tgt, "A", "data:" + holder)

    fn = None
    regs = {}
    text = sh(["objdump", "-d", "--no-show-raw-insn", "-w", so.path])
    in_plt = False
    for line in text.split("\n"):
        m = re.match(r"^[0-9a-f]+ <(.+)>:$", line)
        if m:
            rawfn = re.sub(r"\.(part|constprop|cold|isra|lto_priv)\b.*$", "", m.group(1))
            fn = rawfn
            regs = {}
            continue
        m = re.match(r"^Disassembly of section (\S+):", line)
        if m:
            in_plt = m.group(1).startswith(".plt")
            continue
        if in_plt or fn is None or "\t" not in line:
            continue
        parts = line.split("\t")
        if len(parts) < 2:
            continue
        ins = parts[1].strip()
        comment = None
        if "#" in ins:
            ins, comment = ins.split("#", 1)
            ins = ins.strip()
        mm = re.match(r"^((?:lock |rep |repz |repnz |notrack |bnd |data16 )*)(\S+)\s*(.*)$", ins)
        if not mm:
            continue
        mn = (("lock " if "lock" in mm.group(1) else "") + mm.group(2))
        ops = split_ops(mm.group(3))
        stats["insns"] += 1
        # ---- uses of tracked registers (before this instruction redefines anything)
        if regs:
            for i, op in enumerate(ops):
                bm = re.match(r"^(?:%[a-z]s:)?(-?0x[0-9a-f]+|-?\d+)?\((%[a-z0-9]+)?(?:,(%[a-z0-9]+))?(?:,\d)?\)$", op)
                if bm:
                    base = reg64(bm.group(2)) if bm.group(2) else None
                    idxr = reg64(bm.group(3)) if bm.group(3) else None
                    for r_ in (base, idxr):
                        if r_ in regs:
                            k = mem_kind(mn, ops, i)
                            if k == "A":
                                # lea off(%reg),%dst : derived pointer, keep tracking in dst
                                pass
                            else:
                                ref(regs[r_], k, fn)
                elif op.startswith("%") and reg64(op) in regs:
                    src = reg64(op)
                    is_dst = (i == len(ops) - 1 and len(ops) > 1) or (len(ops) == 1 and mn.startswith(("pop", "set")))
                    if not is_dst:
                        # the pointer value is used as data: copied, pushed, compared, passed
                        if mn.startswith("mov") and len(ops) == 2 and ops[1].startswith("%") and "(" not in ops[1]:
                            pass            # reg -> reg copy, handled below (alias)
                        elif (mn + " ").startswith(READ_ONLY_2):
                            pass
                        else:
                            ref(regs[src], "A", fn)
        # ---- rip-relative operand
        if "(%rip)" in ins:
            ridx = [i for i, op in enumerate(ops) if "(%rip)" in op]
            cm = re.match(r"\s*([0-9a-f]+)\b", comment or "")
            if ridx and cm:
                addr = int(cm.group(1), 16)
                k = mem_kind(mn, ops, ridx[0])
                tgt = None
                if so.sec_of(addr, {".got"}):
                    name = got.get(addr)
                    if name and name.startswith("<tls>"):
                        tgt = (so.rel, name)
                        k = "A"
                    elif name:
                        tgt = resolve_name(name)
                        if tgt and k == "R" and mn.startswith("mov") and len(ops) == 2:
                            k = "GOT"
                        elif tgt:
                            k = "A"
                elif so.sec_of(addr, DATA_SECS | RELRO_SECS):
                    s = so.sym_at(addr)
                    if s is None:
                        sec = so.sec_of(addr, DATA_SECS | RELRO_SECS)
                        # padding between symbols is not an object; anything else must be attributable
                        raise ScanError("%s: %s references %s+0x%x which no symbol covers" % (so.rel, fn, sec["name"], addr - sec["addr"]))
                    tgt = (so.rel, s["name"])
                elif so.sec_of(addr, LINKER_SECS):
                    pass
                if tgt:
                    stats["refs"] += 1
                    if k in ("A", "GOT"):
                        dst = ops[-1] if ops and ops[-1].startswith("%") and "(" not in ops[-1] else None
                        if dst and (mn.startswith("lea") or k == "GOT"):
                            # defined below after clobber handling
                            pending = (reg64(dst), tgt)
                        else:
                            pending = None
                            ref(tgt, "A", fn)
                    else:
                        pending = None
                        ref(tgt, k, fn)
                else:
                    pending = None
            elif ridx and not cm:
                raise ScanError("%s: cannot read the target of: %s" % (so.rel, line.strip()))
            else:
                pending = None
        else:
            pending = None
        # ---- register state update
        if regs or pending:
            if mn.startswith("call"):
                # the pointer is live across a call: it may have been passed (argument registers) -> escapes
                for r_ in list(regs):
                    if r_ in ("rdi", "rsi", "rdx", "rcx", "r8", "r9"):
                        ref(regs[r_], "A", fn)
                    if r_ not in CALLEE_SAVED:
                        del regs[r_]
            elif mn.startswith("jmp") and re.search(r"<%s(\.[a-z_]+\.\d+|\.cold)?(\+0x[0-9a-f]+)?>\s*$" % re.escape(rawfn), mm.group(3) or "") \
                    and re.search(r"\+0x[0-9a-f]+>\s*$", mm.group(3) or ""):
                pass                           # jump inside the same function: the tracked registers stay valid
            elif mn.startswith(("ret", "jmp")):
                if mn.startswith("jmp"):       # tail call: argument registers escape
                    for r_ in list(regs):
                        if r_ in ("rdi", "rsi", "rdx", "rcx", "r8", "r9", "rax"):
                            ref(regs[r_], "A", fn)
                else:
                    if "rax" in regs:
                        ref(regs["rax"], "A", fn)      # returned to the caller
                regs = {}
            else:
                if len(ops) >= 1 and ops[-1].startswith("%") and "(" not in ops[-1] and not (mn + " ").startswith(READ_ONLY_2):
                    dst = reg64(ops[-1])
                    srcalias = None
                    if mn.startswith("mov") and len(ops) == 2 and ops[0].startswith("%") and reg64(ops[0]) in regs:
                        srcalias = regs[reg64(ops[0])]
                    elif mn.startswith("lea") and len(ops) == 2:
                        bm = re.match(r"^(-?0x[0-9a-f]+|-?\d+)?\((%[a-z0-9]+)", ops[0])
                        if bm and reg64(bm.group(2)) in regs:
                            srcalias = regs[reg64(bm.group(2))]
                    elif mn.startswith(("add", "sub")) and dst in regs:
                        srcalias = regs[dst]           # pointer arithmetic keeps pointing into the object (conservative)
                    if srcalias:
                        regs[dst] = srcalias
                    elif dst in regs:
                        del regs[dst]
        if pending:
            regs[pending[0]] = pending[1]
    # pointers still tracked when the text ends: nothing to do
    return


def coq_str(s):
    return '"' + s.replace('"', '""') + '"'


def coq_list(xs):
    return "[" + "; ".join(coq_str(x) for x in xs) + "]"


def inventory(d):
    sos = ["libchibi-scheme.so"]
    for dp, dn, fn in os.walk(os.path.join(d, "lib")):
        for f in fn:
            if f.endswith(".so"):
                sos.append(os.path.relpath(os.path.join(dp, f), d))
    sos = [sos[0]] + sorted(sos[1:])
    objs = [SO(d, rel) for rel in sos]
    writable_globals = {}
    for so in objs:
        for s in so.syms:
            if s["bind"] != "LOCAL":
                writable_globals.setdefault(s["name"], (so.rel, s["name"]))
    refs, stats = {}, dict(insns=0, refs=0)
    for so in objs:
        scan_so(so, writable_globals, refs, stats)
    table = []
    for so in objs:
        for s in so.syms:
            e = refs.get((so.rel, s["name"]), dict(W=set(), A=set(), R=0))
            sec = s["sec"]
            if s["type"] == "TLS":
                # thread-local: accesses go through %fs / __tls_get_addr and are not attributed
                e = dict(W={"<tls-unattributed>"}, A=set(), R=0)
            table.append(dict(lib=so.rel, name=s["name"], sec=sec, size=s["size"], bind=s["bind"],
                              writers=sorted(e["W"]), addr=sorted(e["A"]), reads=e["R"]))
    return table, stats, sos


def render(table, stats, sos, src_hash):
    out = []
    out.append("(* GENERATED by gen/c13_statics.py from the hook-less scratch build of $VERIF_REPO (source hash %s).\n"
               "   Do not edit: rebuilt on every run of ./check C13.\n"
               "   %d shared objects, %d instructions scanned, %d references into data sections attributed. *)" % (src_hash, len(sos), stats["insns"], stats["refs"]))
    out.append("From Coq Require Import String List ZArith.\nFrom ChibiV Require Import C13.Defs.\nImport ListNotations.\nLocal Open Scope string_scope.\nLocal Open Scope Z_scope.\n")
    out.append("Definition libs : list string := %s.\n" % coq_list(sos))
    out.append("Definition table : list static := [")
    rows = []
    for t in table:
        rows.append("  mk_static %s %s %s %d %s %s" % (coq_str(t["lib"]), coq_str(t["name"]), coq_str(t["sec"]), t["size"],
                                                        coq_list(t["writers"]), coq_list(t["addr"])))
    out.append(";\n".join(rows))
    out.append("].\n")
    return "\n".join(out)


def regen(ctx, d=None):
    from vlib import build as B
    if d is None:
        d = ctx.build("nohooks")
    try:
        table, stats, sos = inventory(d)
    except ScanError as e:
        ctx.broken("gen:C13_Statics", "inventory scan failed closed: %s" % e)
        raise
    ctx.gen("C13_Statics", render(table, stats, sos, B.source_hash()))
    return table, stats, sos


if __name__ == "__main__":
    import sys, json
    t, st, sos = inventory(sys.argv[1])
    for r in t:
        print("%-28s %-26s %-12s %6d W=%s A=%s R=%d" % (r["lib"], r["name"], r["sec"], r["size"], r["writers"], r["addr"], r["reads"]))
    print(st)
