"""C13 round 4 — two regenerated inventories beside gen/c13_statics.py:

(1) IMPORTS: the undefined dynamic symbols (`nm -D --undefined-only`) of libchibi-scheme.so and of every compiled
    library .so of the hook-less scratch build, and for those the table coq/C13/Libc.v lists as not thread-safe /
    process-wide (glibc attributes(7) "MT-Unsafe ..." annotations, POSIX.1-2017 2.9.1 list, hidden generator state)
    the FUNCTIONS that reference them (objdump -d: call/jmp through the PLT or GOT).  State shared inside the C library
    (static struct tm of ctime/localtime, static passwd of getpwuid, signgam of lgamma ...) is invisible to the
    writable-statics inventory: this one sees the calls.      -> coq/Gen/C13_Imports.v `imports`
(2) CREATION SITES: every flags expression of the Scheme libraries (lib/**/*.scm, *.sld) that contains `open/create`,
    with the other open/... flags beside it, the top-level form it sits in and whether that form derives a file name
    from the process id / clock (current-process-id, current-second(s), current-jiffy, random-integer); plus the
    non-atomic creators (open-output-file, call-with-output-file ...) inside such name-generating forms.
    Names derived from pid + clock are NOT unique between independent contexts of one process: creation must be atomic
    (open/exclusive, mkdir).                                  -> coq/Gen/C13_Imports.v `sites`
Both fail closed (a file that cannot be tokenised, an unsafe import nobody can be shown to call)."""
import os, re, subprocess

HERE = os.path.dirname(os.path.abspath(__file__))
LIBC_V = os.path.join(HERE, "..", "coq", "C13", "Libc.v")


class ScanError(Exception):
    pass


def sh(cmd):
    r = subprocess.run(cmd, capture_output=True, text=True, errors="replace", timeout=300)
    if r.returncode != 0:
        raise ScanError("%s: rc=%d %s" % (" ".join(cmd), r.returncode, r.stderr[-300:]))
    return r.stdout


def unsafe_names():
    """names of the table mt_unsafe of coq/C13/Libc.v (the Coq obligation is the authority: an unsafe import whose callers
    this scan did not collect has an empty caller list, which the Coq check rejects)"""
    txt = open(LIBC_V).read()
    txt = re.sub(r"\(\*.*?\*\)", "", txt, flags=re.S)
    return set(re.findall(r'mk_unsafe\s+"([^"]+)"', txt))


def shared_objects(d):
    sos = []
    for dp, dn, fn in os.walk(os.path.join(d, "lib")):
        for f in fn:
            if f.endswith(".so"):
                sos.append(os.path.relpath(os.path.join(dp, f), d))
    return ["libchibi-scheme.so"] + sorted(sos)


def callers_of(path, names):
    """{name: sorted functions of the shared object with an instruction that references name@plt / name@GLIBC}"""
    out = {n: set() for n in names}
    if not names:
        return out
    dis = sh(["objdump", "-d", "--no-show-raw-insn", path])
    cur = None
    pat = re.compile(r"<(%s)@" % "|".join(re.escape(n) for n in sorted(names)))
    for line in dis.split("\n"):
        m = re.match(r"^[0-9a-f]+ <([^>]+)>:$", line)
        if m:
            cur = m.group(1)
            continue
        m = pat.search(line)
        if m and cur is not None and not cur.endswith("@plt") and not cur.startswith(".plt") and cur != m.group(1) + "@plt":
            out[m.group(1)].add(cur)
    return {n: sorted(v) for n, v in out.items()}


def imports(d):
    unsafe = unsafe_names()
    rows = []
    for rel in shared_objects(d):
        p = os.path.join(d, rel)
        names = []
        for line in sh(["nm", "-D", "--undefined-only", p]).split("\n"):
            f = line.split()
            if len(f) >= 2:
                names.append(f[-1].split("@")[0])
        names = sorted(set(names))
        hot = [n for n in names if n in unsafe]
        cs = callers_of(p, hot)
        for n in names:
            if n.startswith("sexp_") or n.startswith("_sexp") :
                continue          # chibi's own API, defined in libchibi-scheme.so (covered by the statics inventory)
            c = cs.get(n, [])
            if n in unsafe and not c:
                c = ["<unattributed>"]
            rows.append(dict(lib=rel, sym=n, callers=c))
    return rows


# ------------------------------------------------------------------ creation sites of the Scheme libraries

GENERATORS = ("current-process-id", "current-second", "current-seconds", "current-jiffy", "random-integer", "random-real")
NONATOMIC = ("create-directory*", "open-output-file", "open-binary-output-file", "call-with-output-file", "with-output-to-file", "open-output-file/append")


def tokenize(txt, path):
    """-> list of (kind, text) with kind in '(' ')' 'a' (atom) 's' (string)"""
    toks, i, n = [], 0, len(txt)
    while i < n:
        c = txt[i]
        if c.isspace():
            i += 1
        elif c == ";":
            while i < n and txt[i] != "\n":
                i += 1
        elif txt.startswith("#|", i):
            depth, i = 1, i + 2
            while i < n and depth:
                if txt.startswith("|#", i):
                    depth, i = depth - 1, i + 2
                elif txt.startswith("#|", i):
                    depth, i = depth + 1, i + 2
                else:
                    i += 1
        elif txt.startswith("#;", i):
            i += 2                      # datum comment: the datum is still tokenised (conservative: its sites count)
        elif txt.startswith("#\\", i):
            j = i + 3
            while j < n and (txt[j].isalnum() or txt[j] in "-_"):
                j += 1
            toks.append(("a", txt[i:j]))
            i = j
        elif c in "([":
            toks.append(("(", c)); i += 1
        elif c in ")]":
            toks.append((")", c)); i += 1
        elif c == '"':
            j = i + 1
            while j < n and txt[j] != '"':
                j += 2 if txt[j] == "\\" else 1
            if j >= n:
                raise ScanError("%s: unterminated string" % path)
            toks.append(("s", txt[i:j + 1])); i = j + 1
        elif c == "|":
            j = txt.find("|", i + 1)
            if j < 0:
                raise ScanError("%s: unterminated |symbol|" % path)
            toks.append(("a", txt[i:j + 1])); i = j + 1
        elif c in "'`,":
            i += 2 if txt.startswith(",@", i) else 1
        else:
            j = i
            while j < n and not txt[j].isspace() and txt[j] not in "()[]\";":
                j += 1
            toks.append(("a", txt[i:j])); i = max(j, i + 1)
    return toks


def parse(toks, path):
    stack, top = [[]], None
    for k, t in toks:
        if k == "(":
            stack.append([])
        elif k == ")":
            if len(stack) < 2:
                raise ScanError("%s: unbalanced )" % path)
            l = stack.pop()
            stack[-1].append(l)
        else:
            stack[-1].append(t)
    if len(stack) != 1:
        raise ScanError("%s: unbalanced (" % path)
    return stack[0]


def atoms(x):
    if isinstance(x, list):
        for y in x:
            yield from atoms(y)
    else:
        yield x


def form_name(f):
    if isinstance(f, list) and len(f) >= 2 and isinstance(f[0], str):
        h = f[1]
        while isinstance(h, list) and h:
            h = h[0]
        if isinstance(h, str):
            return "%s %s" % (f[0], h)
    return "<toplevel>"


def sites(d):
    rows = []
    root = os.path.join(d, "lib")
    for dp, dn, fn in os.walk(root):
        for f in sorted(fn):
            if not (f.endswith(".scm") or f.endswith(".sld")) or "test" in f:
                continue
            p = os.path.join(dp, f)
            txt = open(p, errors="replace").read()
            if "open/create" not in txt and not any(g in txt for g in GENERATORS):
                continue
            rel = os.path.relpath(p, d)
            forms = parse(tokenize(txt, rel), rel)
            # library declarations: look inside (define-library ... (begin ...)) one level down
            flat = []
            for fm in forms:
                if isinstance(fm, list) and fm and fm[0] in ("define-library", "library", "module"):
                    for sub in fm[1:]:
                        if isinstance(sub, list) and sub and sub[0] == "begin":
                            flat.extend(sub[1:])
                        elif isinstance(sub, list) and sub and sub[0] == "cond-expand":
                            for cl in sub[1:]:
                                for b in (cl[1:] if isinstance(cl, list) else []):
                                    if isinstance(b, list) and b and b[0] == "begin":
                                        flat.extend(b[1:])
                else:
                    flat.append(fm)
            for fm in flat:
                al = list(atoms(fm))
                gens = sorted({a for a in al if a in GENERATORS})
                name = form_name(fm)

                def walk(x):
                    if not isinstance(x, list):
                        return
                    if "open/create" in [y for y in x if isinstance(y, str)] and not (x[0] == "define" and x[1:2] == ["open/create"]):
                        rows.append(dict(file=rel, form=name, kind="open-flags", flags=sorted({y for y in x if isinstance(y, str) and y.startswith("open/")}), generated=bool(gens)))
                    if gens and x and isinstance(x[0], str) and x[0] in NONATOMIC:
                        rows.append(dict(file=rel, form=name, kind=x[0], flags=[], generated=True))
                    for y in x:
                        walk(y)
                walk(fm)
    rows.sort(key=lambda r: (r["file"], r["form"], r["kind"], r["flags"]))
    return [r for k, r in enumerate(rows) if k == 0 or r != rows[k - 1]]


def coq_str(s):
    return '"' + s.replace('"', '""') + '"'


def coq_list(xs):
    return "[" + "; ".join(coq_str(x) for x in xs) + "]"


def render(imps, sts, src_hash):
    out = ["(* GENERATED by gen/c13_imports.py from the hook-less scratch build of $VERIF_REPO (source hash %s).\n"
           "   Do not edit: rebuilt on every run of ./check C13. *)" % src_hash,
           "From Coq Require Import String List.\nFrom ChibiV Require Import C13.Libc.\nImport ListNotations.\nLocal Open Scope string_scope.\n",
           "Definition imports : list import := ["]
    out.append(";\n".join("  mk_import %s %s %s" % (coq_str(r["lib"]), coq_str(r["sym"]), coq_list(r["callers"])) for r in imps))
    out.append("].\n\nDefinition sites : list site := [")
    out.append(";\n".join("  mk_site %s %s %s %s %s" % (coq_str(r["file"]), coq_str(r["form"]), coq_str(r["kind"]), coq_list(r["flags"]),
                                                       "true" if r["generated"] else "false") for r in sts))
    out.append("].\n")
    return "\n".join(out)


def regen(ctx, d=None):
    from vlib import build as B
    if d is None:
        d = ctx.build("nohooks")
    try:
        imps, sts = imports(d), sites(d)
    except ScanError as e:
        ctx.broken("gen:C13_Imports", "import / creation-site scan failed closed: %s" % e)
        raise
    ctx.gen("C13_Imports", render(imps, sts, B.source_hash()))
    return imps, sts


if __name__ == "__main__":
    import sys
    un = unsafe_names() if os.path.exists(LIBC_V) else set()
    for r in imports(sys.argv[1]):
        if r["sym"] in un or r["callers"]:
            print("%-28s %-14s %s" % (r["lib"], r["sym"], r["callers"]))
    for r in sites(sys.argv[1]):
        print(r)
