"""C15 (G): which hash function a hash-table constructor picks when it is given only an equivalence.
Translated on every run into coq/Gen/C15_OptHash.v:
  lib/srfi/125/hash.scm   (define (opt-hash eq-fn o) (if (pair? o) (car o) DECISION))          -> opt_hash_125
  lib/srfi/69/interface.scm  make-hash-table: (hash-fn (if (and (pair? o) (pair? (cdr o))) (car (cdr o)) DECISION)) -> opt_hash_69
  lib/srfi/128/comparators.scm  (define (make-{eq,eqv,equal}-comparator) (make-comparator _ EQ _ HASH)) -> comparators_128
DECISION ::= hash-name | (if TEST DECISION DECISION) | (cond (TEST DECISION) ... (else DECISION))
TEST     ::= (eq? PRED eq-fn) | (eq? eq-fn PRED) | (or TEST ...) | (and TEST ...) | (not TEST)
Anything else: Unsupported -> `broken gen:C15_OptHash' (fail closed).  The callers of opt-hash are pinned by exact text."""
import os
from gen.c14_import import read_all, Sym, Unsupported

PREDS = {"eq?": "EqEq", "eqv?": "EqEqv", "equal?": "EqEqual", "string=?": "EqStringEq", "string-ci=?": "EqStringCi"}
HASHES = {"hash": "HHash", "hash-by-identity": "HIdentity", "string-hash": "HStringHash", "string-ci-hash": "HStringCiHash"}

PINNED_125 = {
    "make-hash-table": """(define (make-hash-table x . o)
  (if (comparator? x)
      (%make-hash-table (comparator-equality-predicate x)
                        (comparator-hash-function x))
      (%make-hash-table x (opt-hash x o))))""",
    "alist->hash-table": """(define (alist->hash-table alist x . o)
  (if (comparator? x)
      (%alist->hash-table alist
                          (comparator-equality-predicate x)
                          (comparator-hash-function x))
      (%alist->hash-table alist x (opt-hash x o))))""",
}


def head(e):
    return e[0] if isinstance(e, list) and e and isinstance(e[0], Sym) else None


def tr_test(e, var):
    h = head(e)
    if h == "eq?" and len(e) == 3:
        a, b = e[1], e[2]
        if b == var and isinstance(a, Sym) and a in PREDS:
            return "eqname_eqb %s e" % PREDS[a]
        if a == var and isinstance(b, Sym) and b in PREDS:
            return "eqname_eqb %s e" % PREDS[b]
        raise Unsupported("eq? test on something else than a known predicate and %s: %r" % (var, e))
    if h in ("or", "and") and len(e) >= 2:
        op = " || " if h == "or" else " && "
        return "(" + op.join(tr_test(x, var) for x in e[1:]) + ")"
    if h == "not" and len(e) == 2:
        return "negb (%s)" % tr_test(e[1], var)
    raise Unsupported("test %r" % (e,))


def tr_dec(e, var):
    if isinstance(e, Sym):
        if e in HASHES:
            return HASHES[e]
        raise Unsupported("unknown hash function %s" % e)
    h = head(e)
    if h == "if" and len(e) == 4:
        return "(if %s then %s else %s)" % (tr_test(e[1], var), tr_dec(e[2], var), tr_dec(e[3], var))
    if h == "cond" and len(e) >= 2:
        cl = e[1:]
        if not (isinstance(cl[-1], list) and len(cl[-1]) == 2 and cl[-1][0] == "else"):
            raise Unsupported("cond without else")
        out = tr_dec(cl[-1][1], var)
        for c in reversed(cl[:-1]):
            if not (isinstance(c, list) and len(c) == 2):
                raise Unsupported("cond clause %r" % (c,))
            out = "(if %s then %s else %s)" % (tr_test(c[0], var), tr_dec(c[1], var), out)
        return out
    raise Unsupported("decision %r" % (e,))


def find_define(forms, name):
    for f in forms:
        if head(f) == "define" and len(f) >= 3:
            sig = f[1][1] if isinstance(f[1], tuple) and f[1] and f[1][0] == "dotted" else f[1]
            if isinstance(sig, list) and sig and sig[0] == name:
                return f
    raise Unsupported("no (define (%s ...)) found" % name)


def translate(repo):
    f125 = [f for (_, _, f) in read_all(open(os.path.join(repo, "lib/srfi/125/hash.scm")).read())]
    d = find_define(f125, "opt-hash")
    if not (len(d) == 3 and len(d[1]) == 3 and head(d[2]) == "if" and len(d[2]) == 4
            and d[2][1] == [Sym("pair?"), d[1][2]] and d[2][2] == [Sym("car"), d[1][2]]):
        raise Unsupported("opt-hash is not (define (opt-hash eq-fn o) (if (pair? o) (car o) DECISION))")
    dec125 = tr_dec(d[2][3], d[1][1])
    for nm, txt in PINNED_125.items():
        if find_define(f125, nm) != read_all(txt)[0][2]:
            raise Unsupported("(srfi 125) %s differs from the pinned text (how the equivalence / hash of a comparator or opt-hash reach the table)" % nm)
    f69 = [f for (_, _, f) in read_all(open(os.path.join(repo, "lib/srfi/69/interface.scm")).read())]
    m = find_define(f69, "make-hash-table")
    body = m[2]
    ok = head(body) == "let*" and len(body[1]) == 2 and body[1][0] == [Sym("eq-fn"), [Sym("if"), [Sym("pair?"), Sym("o")], [Sym("car"), Sym("o")], Sym("equal?")]]
    hb = body[1][1] if ok else None
    ok = ok and hb[0] == "hash-fn" and head(hb[1]) == "if" and len(hb[1]) == 4 and \
        hb[1][1] == [Sym("and"), [Sym("pair?"), Sym("o")], [Sym("pair?"), [Sym("cdr"), Sym("o")]]] and hb[1][2] == [Sym("car"), [Sym("cdr"), Sym("o")]]
    if not ok:
        raise Unsupported("(srfi 69) make-hash-table is not (let* ((eq-fn (if (pair? o) (car o) equal?)) (hash-fn (if (and (pair? o) (pair? (cdr o))) (car (cdr o)) DECISION))) ...)")
    dec69 = tr_dec(hb[1][3], Sym("eq-fn"))
    f128 = [f for (_, _, f) in read_all(open(os.path.join(repo, "lib/srfi/128/comparators.scm")).read())]
    cmps = []
    for nm in ("make-eq-comparator", "make-eqv-comparator", "make-equal-comparator"):
        c = find_define(f128, nm)
        b = c[2] if len(c) == 3 else None
        if not (b and head(b) == "make-comparator" and len(b) == 5 and isinstance(b[2], Sym) and b[2] in PREDS and isinstance(b[4], Sym) and b[4] in HASHES):
            raise Unsupported("%s is not (make-comparator type-test <known predicate> order <known hash>)" % nm)
        cmps.append("(%s, %s)" % (PREDS[b[2]], HASHES[b[4]]))
    return """(** GENERATED by gen/c15_opthash.py from lib/srfi/125/hash.scm, lib/srfi/69/interface.scm, lib/srfi/128/comparators.scm — do not edit. *)
From Coq Require Import List Bool.
From ChibiV Require Import C15.DefaultHash.
Import ListNotations.

(** (srfi 125) opt-hash: the hash function for an equivalence procedure given without one *)
Definition opt_hash_125 (e : eqname) : hashname := %s.
(** (srfi 69) make-hash-table / alist->hash-table: the same choice *)
Definition opt_hash_69 (e : eqname) : hashname := %s.
(** (srfi 128) make-eq-comparator, make-eqv-comparator, make-equal-comparator: (equality, hash function) *)
Definition comparators_128 : list (eqname * hashname) := [%s].
""" % (dec125, dec69, "; ".join(cmps))


def regen(ctx, repo=None):
    from vlib import build as B
    try:
        text = translate(repo or B.REPO)
    except (Unsupported, OSError, IndexError, TypeError) as e:
        ctx.broken("gen:C15_OptHash", "the default-hash choice of the hash-table constructors left the translator's subset: %s" % e)
        return False
    ctx.gen("C15_OptHash", text)
    return True


if __name__ == "__main__":
    import sys
    print(translate(sys.argv[1]))
