"""C02 (G): regenerate coq/Gen/C02_Layout.v from the scratch build of $VERIF_REPO.

Two sources, both from the tree under check:
  * the type table of a fresh context, printed by harness/embed_c02.c in probe mode (the 13 numeric
    fields of every core type after preprocessing, the SEXP_CONTEXT tag, the mark byte mask);
  * struct sexp_struct as clang parses it (-ast-dump=json of include/chibi/sexp.h with the build's
    flags): for every member struct of the `value` union the fields whose C type is `sexp` (or an
    array of `sexp`), with their byte offsets obtained from a generated offsetof probe.
Fails closed: raises on anything it cannot parse."""
import json, os, re, subprocess
from vlib import build as B

HERE = os.path.dirname(os.path.abspath(__file__))
HARNESS = os.path.join(HERE, "..", "harness", "embed_c02.c")

FIELDS = ["field_base", "field_eq_len_base", "field_len_base", "field_len_off", "field_len_scale",
          "size_base", "size_off", "size_scale", "weak_base", "weak_len_base", "weak_len_off",
          "weak_len_scale", "weak_len_extra"]


def probe(d):
    """returns (consts dict, {tag: [13 ints] or None})"""
    exe = B.cc_embed(d, HARNESS, os.path.join(d, "embed_c02"))
    outp = os.path.join(d, "c02_probe.txt")
    r = subprocess.run([exe, "/dev/null", outp, "probe"], capture_output=True, text=True, env=B.chibi_env(d), timeout=120)
    if r.returncode != 0:
        raise RuntimeError("layout probe failed: " + r.stderr[-500:])
    consts, types = {}, {}
    for line in open(outp):
        f = line.split()
        if f[0] == "K":
            consts[f[1]] = f[2]
        elif f[0] == "t":
            types[int(f[1])] = None if f[2] == "-" else [int(x) for x in f[2:]]
    if "num_core_types" not in consts or len(types) < int(consts["num_core_types"]):
        raise RuntimeError("layout probe: incomplete output")
    return consts, types


def _ast_records(d, name):
    src = os.path.join(d, "c02_ast.c")
    open(src, "w").write('#include "chibi/sexp.h"\n')
    r = subprocess.run(["clang", "-fsyntax-only", "-Xclang", "-ast-dump=json", "-Xclang", "-ast-dump-filter=" + name,
                        "-DSEXP_USE_VERIF_HOOKS=1", "-I" + os.path.join(d, "include"), src],
                       capture_output=True, text=True, timeout=300)
    if r.returncode != 0 or not r.stdout.strip():
        raise RuntimeError("clang AST dump failed: " + r.stderr[-500:])
    # the filter prints several top-level JSON objects one after the other
    dec = json.JSONDecoder()
    txt, pos, recs = r.stdout, 0, []
    while True:
        m = re.compile(r"\{").search(txt, pos)
        if not m:
            break
        objv, pos = dec.raw_decode(txt, m.start())
        recs.append(objv)
    for o in recs:
        if o.get("kind") == "RecordDecl" and o.get("name") == name and o.get("completeDefinition"):
            return o
    raise RuntimeError("struct %s not found in the AST" % name)


def _sexp_fields_of(rec):
    fields = []
    for f in rec.get("inner", []):
        if f.get("kind") != "FieldDecl":
            continue
        qt = f["type"]["qualType"]
        if qt == "sexp":
            fields.append((f["name"], 0))
        else:
            m = re.fullmatch(r"sexp\s*\[(\d*)\]", qt)
            if m:
                fields.append((f["name"], int(m.group(1) or 0) or -1))
    return fields


def sexp_members(d):
    """{union member name: [(field name, array length | 0 scalar | -1 flexible)]} for fields of C type sexp"""
    root = _ast_records(d, "sexp_struct")
    union = None
    for c in root.get("inner", []):
        if c.get("kind") == "RecordDecl" and c.get("tagUsed") == "union":
            union = c
    if union is None:
        raise RuntimeError("value union not found")
    out = {}
    pending = None
    # anonymous member structs are RecordDecls immediately followed by the FieldDecl naming them
    for c in union.get("inner", []):
        if c.get("kind") == "RecordDecl":
            pending = c
        elif c.get("kind") == "FieldDecl":
            qt = c["type"]["qualType"]
            m = re.fullmatch(r"struct (\w+)", qt)
            if m:
                out[c["name"]] = _sexp_fields_of(_ast_records(d, m.group(1)))
            elif pending is not None and "unnamed struct" in qt:
                out[c["name"]] = _sexp_fields_of(pending)
            else:
                out[c["name"]] = []
            pending = None
    if "pair" not in out or "context" not in out or "type" not in out:
        raise RuntimeError("unexpected shape of the value union: %s" % sorted(out))
    return out


def offsets(d, members):
    """byte offset of every sexp field, via a compiled offsetof probe"""
    lines = ['#include "chibi/sexp.h"', "#include <stdio.h>", "#include <stddef.h>", "int main(void){"]
    for m, fs in sorted(members.items()):
        for (f, n) in fs:
            lines.append('printf("%s %s %%ld %d\\n", (long)offsetof(struct sexp_struct, value.%s.%s));' % (m, f, n, m, f))
    lines.append("return 0;}")
    src = os.path.join(d, "c02_off.c")
    open(src, "w").write("\n".join(lines))
    exe = os.path.join(d, "c02_off")
    r = subprocess.run(["cc", "-DSEXP_USE_VERIF_HOOKS=1", "-I" + os.path.join(d, "include"), "-o", exe, src], capture_output=True, text=True)
    if r.returncode != 0:
        raise RuntimeError("offset probe does not compile: " + r.stderr[-800:])
    res = {}
    for line in subprocess.run([exe], capture_output=True, text=True, check=True).stdout.split("\n"):
        f = line.split()
        if f:
            res.setdefault(f[0], []).append((f[1], int(f[2]), int(f[3])))
    return res


# which union member describes the objects of a core type (sexp_types enum name -> member); types not
# listed have no reference fields in their struct
MEMBER_OF_TAG_NAME = {
    "Type": "type", "Pair": "pair", "String": "string", "Vector": "vector", "Ratio": "ratio", "Complex": "complex",
    "Input-Port": "port", "Output-Port": "port", "Exception": "exception", "Procedure": "procedure", "Macro": "macro",
    "Sc": "synclo", "Environment": "env", "Bytecode": "bytecode", "Core-Form": "core", "Dynamic-Library": "dl",
    "Opcode": "opcode", "Lambda": "lambda", "If": "cnd", "Ref": "ref", "Set!": "set", "Set-Syn!": "set_syn", "Seq": "seq", "Lit": "lit",
    "Stack": "stack", "Context": "context", "Cpointer": "cpointer", "Uniform-Vector": "uvector", "Promise": "promise",
    "Ephemeron": "ephemeron", "Symbol": "symbol", "Byte-Vector": "bytes", "Flonum": "flonum", "Bignum": "bignum",
    "File-Descriptor": "fileno",
}


def type_names(d):
    """core type names in table order, read from sexp.c's _sexp_type_specs after preprocessing"""
    r = subprocess.run(["cc", "-E", "-DSEXP_USE_VERIF_HOOKS=1", "-I" + os.path.join(d, "include"), os.path.join(d, "sexp.c")],
                       capture_output=True, text=True, timeout=120)
    if r.returncode != 0:
        raise RuntimeError("cpp sexp.c failed")
    m = re.search(r"_sexp_type_specs\[\]\s*=\s*\{(.*?)\n\};", r.stdout, re.S)
    if not m:
        raise RuntimeError("_sexp_type_specs not found")
    return re.findall(r'\{\(sexp\)"([^"]+)"', m.group(1))


def zl(x):
    return "(%d)" % x if x < 0 else "%d" % x


def regen(ctx, d):
    consts, types = probe(d)
    ncore = int(consts["num_core_types"])
    names = type_names(d)
    if len(names) != ncore:
        raise RuntimeError("type name list (%d) and SEXP_NUM_CORE_TYPES (%d) differ" % (len(names), ncore))
    members = sexp_members(d)
    offs = offsets(d, members)
    specs = []
    for i in range(ncore):
        if types.get(i) is None:
            raise RuntimeError("core type %d missing from the probe" % i)
        specs.append(types[i])
    lines = ["(** GENERATED by gen/c02_layout.py from the scratch build of the tree under check - do not edit. *)",
             "From ChibiV Require Import C02.Model.", "Local Open Scope Z_scope.", "",
             "Definition core_layout : layout := mklayout ["]
    lines.append(";\n".join("  (* %2d %-16s *) mkspec %s" % (i, names[i], " ".join(zl(v) for v in s)) for i, s in enumerate(specs)))
    lines.append("] %s." % consts["context_tag"])
    lines.append("")
    lines.append("(** (tag, byte offsets of the struct fields of C type sexp; an array field of unknown length contributes its first element only,")
    lines.append("    flagged by the boolean) for every core type whose struct has such fields *)")
    lines.append("Definition sexp_fields : list (Z * list Z * bool) := [")
    rows = []
    for i, nm in enumerate(names):
        mem = MEMBER_OF_TAG_NAME.get(nm)
        if mem is None:
            if nm in ("Object", "Integer", "Number", "Char", "Boolean", "String-Cursor"):
                continue
            raise RuntimeError("core type %r has no known struct member: extend MEMBER_OF_TAG_NAME" % nm)
        if mem not in members:
            raise RuntimeError("union member %r not found in struct sexp_struct" % mem)
        fl, flex = [], False
        for (f, off, n) in offs.get(mem, []):
            if n == 0:
                fl.append(off)
            elif n > 0:
                fl.extend(off + 8 * k for k in range(n))
            else:
                flex = True
                fl.append(off)
        rows.append("  (* %-16s *) (%d, [%s], %s)" % (nm, i, "; ".join(str(o) for o in sorted(fl)), "true" if flex else "false"))
    lines.append(";\n".join(rows))
    lines.append("].")
    lines.append("")
    text = "\n".join(lines) + "\n"
    ctx.gen("C02_Layout", text)
    return dict(consts=consts, types=types, names=names, members={k: v for k, v in offs.items()})
