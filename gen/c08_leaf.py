"""C08 (G): mini C -> Gallina translation (cut-down copy of gen/c12_leaf.py, see there for the
semantics) of the reader/writer leaves of sexp.c into Gen/C08_Leaf.v:

  digit_value, hex_digit, is_precision_indicator, sexp_is_separator, sexp_utf8_char_byte_count,
  sexp_decode_utf8_char   (whole functions), and from inside sexp_write_one the two conditions
  that decide whether a symbol is written between bars:
     sym_quote_head str_0 str_1 str_2 str_3 len   = condition of  c = (<cond>) ? '|' : EOF
     sym_quote_char c                             = condition of  if (<cond>) c = '|'   (str[i] -> c)

Additions to the C12 subset: calls of isdigit/isxdigit/isspace/tolower (-> c_isdigit … of C08/CSem.v;
sexp.c is parsed with -D__NO_CTYPE so that glibc's macros do not hide them), calls of
sexp_is_separator, the global table sexp_separators[e] (-> nth of Gen/C08_Tables), `x->….length`
(-> parameter len), `str[i]` with a variable index inside the loop condition (-> parameter c).
Fails closed (Unsupported -> ctx.broken)."""
import json, os, re, subprocess

from gen.c08_tables import Unsupported

INT_TYPES = {
    "int": (32, True), "unsigned int": (32, False), "long": (64, True), "unsigned long": (64, False),
    "long long": (64, True), "unsigned long long": (64, False), "short": (16, True), "unsigned short": (16, False),
    "char": (8, True), "signed char": (8, True), "unsigned char": (8, False), "_Bool": (1, False),
    "sexp_sint_t": (64, True), "sexp_uint_t": (64, False), "size_t": (64, False), "ssize_t": (64, True),
}
CTYPE_CALLS = {"isdigit": "c_isdigit", "isxdigit": "c_isxdigit", "isspace": "c_isspace", "tolower": "c_tolower",
               "sexp_is_separator": "sexp_is_separator"}
FUNCTIONS = ["digit_value", "hex_digit", "is_precision_indicator", "sexp_is_separator",
             "sexp_utf8_char_byte_count", "sexp_decode_utf8_char"]


def qtype(n):
    t = n.get("type", {})
    return t.get("desugaredQualType") or t.get("qualType") or ""


def int_type(q):
    q = re.sub(r"\b(const|volatile|register)\b", "", q).strip()
    q = re.sub(r"\s+", " ", q)
    return INT_TYPES.get(q)


def asts(build_dir, filt):
    cmd = ["clang", "-fsyntax-only", "-I" + os.path.join(build_dir, "include"), "-DSEXP_USE_VERIF_HOOKS=1", "-D__NO_CTYPE",
           "-Xclang", "-ast-dump=json", "-Xclang", "-ast-dump-filter=" + filt, os.path.join(build_dir, "sexp.c")]
    r = subprocess.run(cmd, capture_output=True, text=True, timeout=180, cwd=build_dir)
    s, dec, i, out = r.stdout, json.JSONDecoder(), 0, []
    while i < len(s):
        while i < len(s) and s[i].isspace():
            i += 1
        if i >= len(s):
            break
        o, i = dec.raw_decode(s, i)
        out.append(o)
    return out, r.stderr


def fn_ast(build_dir, fn):
    found = None
    out, err = asts(build_dir, fn)
    for o in out:
        if o.get("kind") == "FunctionDecl" and o.get("name") == fn and any(c.get("kind") == "CompoundStmt" for c in o.get("inner", [])):
            if found is not None:
                raise Unsupported("two definitions of %s" % fn)
            found = o
    if found is None:
        raise Unsupported("no definition of %s found by clang (%s)" % (fn, err[-300:]))
    return found


def conj(terms):
    terms = [t for t in terms if t != "true"]
    return "(" + " && ".join(terms) + ")" if terms else "true"


def strip(n, kinds=("ParenExpr", "ImplicitCastExpr", "ConstantExpr")):
    while n.get("kind") in kinds:
        n = n["inner"][0]
    return n


class Fn:
    def __init__(self, name, var_index_param=None, member_params=None):
        self.name = name
        self.ints = {}
        self.ptr = None
        self.ptr_max = -1
        self.uses_strlen = False
        self.params = []
        self.ptr_candidates = set()
        self.var_index_param = var_index_param      # name of the parameter that stands for ptr[<variable>]
        self.member_params = member_params or {}    # member name -> parameter
        self.used_members = set()
        self.ret_type = "int"

    def byte(self, pname, k):
        if pname not in self.ptr_candidates:
            raise Unsupported("%s: dereference of %s which is not a byte pointer" % (self.name, pname))
        if self.ptr is None:
            self.ptr = pname
        if self.ptr != pname:
            raise Unsupported("%s: more than one byte pointer (%s, %s)" % (self.name, self.ptr, pname))
        self.ptr_max = max(self.ptr_max, k)
        return "%s_%d" % (pname, k)

    def ptr_name(self, n):
        while n["kind"] in ("ParenExpr", "ImplicitCastExpr", "CStyleCastExpr") and n.get("castKind", "LValueToRValue") in ("LValueToRValue", "NoOp", "BitCast", "ArrayToPointerDecay"):
            n = n["inner"][0]
        if n["kind"] == "DeclRefExpr":
            return n["referencedDecl"]["name"]
        raise Unsupported("%s: pointer expression of kind %s" % (self.name, n["kind"]))

    def cond(self, n):
        k = n["kind"]
        if k in ("ParenExpr", "ConstantExpr"):
            return self.cond(n["inner"][0])
        if k == "BinaryOperator":
            op = n["opcode"]
            if op in ("<", ">", "<=", ">=", "==", "!="):
                a, sa = self.expr(n["inner"][0])
                b, sb = self.expr(n["inner"][1])
                if op == "!=":
                    return "(negb (%s =? %s))" % (a, b), sa + sb
                cop = {"<": "<?", ">": ">?", "<=": "<=?", ">=": ">=?", "==": "=?"}[op]
                return "(%s %s %s)" % (a, cop, b), sa + sb
            if op in ("&&", "||"):
                a, sa = self.cond(n["inner"][0])
                b, sb = self.cond(n["inner"][1])
                if op == "&&":
                    return "(%s && %s)" % (a, b), sa + ([("(if %s then %s else true)" % (a, conj(sb)))] if conj(sb) != "true" else [])
                return "(%s || %s)" % (a, b), sa + ([("(if %s then true else %s)" % (a, conj(sb)))] if conj(sb) != "true" else [])
        if k == "UnaryOperator" and n["opcode"] == "!":
            a, sa = self.cond(n["inner"][0])
            return "(negb %s)" % a, sa
        if k == "ImplicitCastExpr" and n.get("castKind") in ("IntegralToBoolean",):
            return self.cond(n["inner"][0])
        a, sa = self.expr(n)
        return "(negb (%s =? 0))" % a, sa

    def expr(self, n):
        k = n["kind"]
        if k in ("ParenExpr", "ConstantExpr"):
            return self.expr(n["inner"][0])
        if k == "IntegerLiteral":
            v = int(n["value"])
            return (str(v) if v >= 0 else "(%d)" % v), []
        if k == "CharacterLiteral":
            return str(int(n["value"])), []
        if k == "DeclRefExpr":
            nm = n["referencedDecl"]["name"]
            if nm in self.ints:
                return self.ints[nm], []
            raise Unsupported("%s: reference to %s, which is not an integer parameter/local" % (self.name, nm))
        if k == "MemberExpr":
            nm = n.get("name")
            if nm in self.member_params:
                self.used_members.add(nm)
                return self.member_params[nm], []
            raise Unsupported("%s: member access .%s" % (self.name, nm))
        if k in ("ImplicitCastExpr", "CStyleCastExpr"):
            ck = n.get("castKind")
            inner = n["inner"][0]
            if ck in ("LValueToRValue", "NoOp"):
                return self.expr(inner)
            if ck == "IntegralCast":
                a, sa = self.expr(inner)
                src, dst = int_type(qtype(inner)), int_type(qtype(n))
                if src is None or dst is None:
                    raise Unsupported("%s: integral cast %s -> %s" % (self.name, qtype(inner), qtype(n)))
                return self.convert(a, src, dst), sa
            raise Unsupported("%s: cast kind %s" % (self.name, ck))
        if k == "UnaryOperator":
            op = n["opcode"]
            if op == "*":
                return self.byte(self.ptr_name(n["inner"][0]), 0), []
            a, sa = self.expr(n["inner"][0])
            t = int_type(qtype(n))
            if t is None:
                raise Unsupported("%s: unary %s on type %s" % (self.name, op, qtype(n)))
            if op == "-":
                return self.arith("(- %s)" % a, t, sa)
            if op == "+":
                return a, sa
            if op == "!":
                c, sc = self.cond(n["inner"][0])
                return "(if %s then 0 else 1)" % c, sc
            raise Unsupported("%s: unary operator %s" % (self.name, op))
        if k == "ArraySubscriptExpr":
            base, idx = n["inner"]
            bname = self.ptr_name(base)
            if bname == "sexp_separators":
                i, si = self.expr(idx)
                # reading the table outside 0..127 would be undefined: side condition
                return "(nth (Z.to_nat %s) sexp_separators 0)" % i, si + ["(0 <=? %s)" % i, "(%s <? Z.of_nat (length sexp_separators))" % i]
            idx0 = strip(idx)
            if idx0["kind"] != "IntegerLiteral":
                if self.var_index_param and idx0["kind"] == "DeclRefExpr" and bname in self.ptr_candidates:
                    return self.var_index_param, []
                raise Unsupported("%s: array index that is not a literal" % self.name)
            return self.byte(bname, int(idx0["value"])), []
        if k == "BinaryOperator":
            op = n["opcode"]
            if op in ("<", ">", "<=", ">=", "==", "!=", "&&", "||"):
                c, sc = self.cond(n)
                return "(if %s then 1 else 0)" % c, sc
            t = int_type(qtype(n))
            if t is None:
                raise Unsupported("%s: binary %s on type %s" % (self.name, op, qtype(n)))
            a, sa = self.expr(n["inner"][0])
            b, sb = self.expr(n["inner"][1])
            s = sa + sb
            if op in ("+", "-", "*"):
                return self.arith("(%s %s %s)" % (a, op, b), t, s)
            if op == "<<":
                lt = int_type(qtype(n["inner"][0])) or t
                extra = ["(0 <=? %s)" % b, "(%s <? %d)" % (b, lt[0])]
                if t[1]:
                    extra.append("(0 <=? %s)" % a)
                return self.arith("(Z.shiftl %s %s)" % (a, b), t, s + extra)
            if op == ">>":
                lt = int_type(qtype(n["inner"][0])) or t
                return "(Z.shiftr %s %s)" % (a, b), s + ["(0 <=? %s)" % b, "(%s <? %d)" % (b, lt[0])]
            if op in ("&", "|", "^"):
                f = {"&": "Z.land", "|": "Z.lor", "^": "Z.lxor"}[op]
                return "(%s %s %s)" % (f, a, b), s
            raise Unsupported("%s: binary operator %s" % (self.name, op))
        if k == "ConditionalOperator":
            c, sc = self.cond(n["inner"][0])
            a, sa = self.expr(n["inner"][1])
            b, sb = self.expr(n["inner"][2])
            s = sc
            if conj(sa) != "true" or conj(sb) != "true":
                s = s + ["(if %s then %s else %s)" % (c, conj(sa), conj(sb))]
            return "(if %s then %s else %s)" % (c, a, b), s
        if k == "CallExpr":
            callee = strip(n["inner"][0])
            cname = callee.get("referencedDecl", {}).get("name")
            if cname == "strlen" and len(n["inner"]) == 2:
                p = self.ptr_name(n["inner"][1])
                if p not in self.ptr_candidates or (self.ptr not in (None, p)):
                    raise Unsupported("%s: strlen of something else than the byte pointer" % self.name)
                self.ptr = p
                self.uses_strlen = True
                # size_t -> whatever the context converts it to
                return "%s_strlen" % p, []
            if cname in CTYPE_CALLS and len(n["inner"]) == 2:
                a, sa = self.expr(n["inner"][1])
                return "(%s %s)" % (CTYPE_CALLS[cname], a), sa
            raise Unsupported("%s: call of %s" % (self.name, cname))
        raise Unsupported("%s: expression kind %s" % (self.name, k))

    def convert(self, a, src, dst):
        slo, shi = (-(1 << (src[0] - 1)), (1 << (src[0] - 1)) - 1) if src[1] else (0, (1 << src[0]) - 1)
        dlo, dhi = (-(1 << (dst[0] - 1)), (1 << (dst[0] - 1)) - 1) if dst[1] else (0, (1 << dst[0]) - 1)
        if dlo <= slo and shi <= dhi:
            return a
        return "(%s %d %s)" % ("swrap" if dst[1] else "wrap", dst[0], a)

    def arith(self, term, t, safes):
        bits, signed = t
        if signed:
            return term, safes + ["(in_s %d %s)" % (bits, term)]
        return "(wrap %d %s)" % (bits, term), safes

    # ---------------------------------------------------------------- statements (return/if/decl only)
    def always_returns(self, stmts):
        for s in stmts:
            k = s["kind"]
            if k == "ReturnStmt":
                return True
            if k == "CompoundStmt" and self.always_returns(s.get("inner", [])):
                return True
            if k == "IfStmt":
                parts = s["inner"]
                if len(parts) == 3 and self.always_returns([parts[1]]) and self.always_returns([parts[2]]):
                    return True
        return False

    def stmts(self, ss):
        if not ss:
            raise Unsupported("%s: control reaches the end of the function without return" % self.name)
        s, rest = ss[0], ss[1:]
        k = s["kind"]
        if k == "CompoundStmt":
            return self.stmts(list(s.get("inner", [])) + rest)
        if k == "NullStmt":
            return self.stmts(rest)
        if k == "ReturnStmt":
            e = s["inner"][0]
            v, sf = self.expr(e)
            rt, et = int_type(self.ret_type), int_type(qtype(e))
            if rt and et:
                v = self.convert(v, et, rt)
            return v, conj(sf)
        if k == "DeclStmt":
            lets = []
            for d in s["inner"]:
                if d["kind"] != "VarDecl" or not int_type(qtype(d)) or not d.get("inner"):
                    raise Unsupported("%s: declaration of %s" % (self.name, d.get("name")))
                v, sf = self.expr(d["inner"][0])
                it, dt = int_type(qtype(d["inner"][0])), int_type(qtype(d))
                if it and dt:
                    v = self.convert(v, it, dt)
                g = d["name"] + "_"
                lets.append((g, v, conj(sf)))
                self.ints[d["name"]] = g
            v, sf = self.stmts(rest)
            for g, e, es in reversed(lets):
                v = "(let %s := %s in %s)" % (g, e, v)
                sf = "(let %s := %s in %s)" % (g, e, conj([es, sf]))
            return v, sf
        if k == "IfStmt":
            parts = s["inner"]
            c, sc = self.cond(parts[0])
            then = [parts[1]]
            els = [parts[2]] if len(parts) == 3 else []
            if self.always_returns(then):
                tv, ts = self.stmts(then)
                ev, es = self.stmts(els + rest)
                return "(if %s then %s else %s)" % (c, tv, ev), conj(sc + ["(if %s then %s else %s)" % (c, ts, es)])
            # general case: the statements after the `if` are translated once per branch
            tv, ts = self.stmts(then + rest)
            ev, es = self.stmts(els + rest)
            return "(if %s then %s else %s)" % (c, tv, ev), conj(sc + ["(if %s then %s else %s)" % (c, ts, es)])
        raise Unsupported("%s: statement kind %s" % (self.name, k))

    def translate_function(self, decl):
        self.ret_type = qtype(decl).split("(")[0].strip()
        if not int_type(self.ret_type):
            raise Unsupported("%s: return type %s" % (self.name, self.ret_type))
        body = None
        for c in decl["inner"]:
            if c["kind"] == "ParmVarDecl":
                q = qtype(c)
                if int_type(q):
                    self.ints[c["name"]] = c["name"]
                    self.params.append(c["name"])
                elif q.replace("const ", "").strip() in ("unsigned char *", "char *"):
                    self.ptr_candidates.add(c["name"])
                else:
                    raise Unsupported("%s: parameter %s of type %s" % (self.name, c["name"], q))
            elif c["kind"] == "CompoundStmt":
                body = c
        val, sf = self.stmts([body])
        params = list(self.params)
        if self.ptr is not None:
            params = ["%s_%d" % (self.ptr, k) for k in range(self.ptr_max + 1)] + (["%s_strlen" % self.ptr] if self.uses_strlen else []) + params
        return self.emit(params, val, sf)

    def emit(self, params, val, sf):
        binder = " ".join("(%s : Z)" % p for p in params)
        txt = "Definition %s %s : Z :=\n  %s.\n\n" % (self.name, binder, val)
        txt += "Definition %s_safe %s : bool :=\n  %s.\n\n" % (self.name, binder, sf)
        return txt


def walk(n):
    yield n
    for c in n.get("inner", []) or []:
        if isinstance(c, dict):
            yield from walk(c)


def is_assign_to(n, var):
    if n.get("kind") != "BinaryOperator" or n.get("opcode") != "=":
        return False
    lhs = strip(n["inner"][0])
    return lhs.get("kind") == "DeclRefExpr" and lhs["referencedDecl"]["name"] == var


def const_val(n):
    n = strip(n, ("ParenExpr", "ImplicitCastExpr", "ConstantExpr", "CStyleCastExpr"))
    if n.get("kind") in ("IntegerLiteral", "CharacterLiteral"):
        return int(n["value"])
    if n.get("kind") == "UnaryOperator" and n.get("opcode") == "-":
        v = const_val(n["inner"][0])
        return None if v is None else -v
    return None


def symbol_conditions(build_dir):
    """the two conditions of the SEXP_SYMBOL arm of sexp_write_one"""
    w = fn_ast(build_dir, "sexp_write_one")
    heads, loops = [], []
    for n in walk(w):
        if is_assign_to(n, "c"):
            rhs = strip(n["inner"][1], ("ParenExpr", "ImplicitCastExpr", "ConstantExpr", "CStyleCastExpr"))
            if rhs.get("kind") == "ConditionalOperator" and const_val(rhs["inner"][1]) == 124 and const_val(rhs["inner"][2]) == -1:
                heads.append(rhs["inner"][0])
        if n.get("kind") == "IfStmt" and len(n["inner"]) == 2:
            th = n["inner"][1]
            if th.get("kind") == "CompoundStmt" and len(th.get("inner", [])) == 1:
                th = th["inner"][0]
            if is_assign_to(th, "c") and const_val(th["inner"][1]) == 124:
                loops.append(n["inner"][0])
    if len(heads) != 1 or len(loops) != 1:
        raise Unsupported("sexp_write_one: expected exactly one `c = (…) ? '|' : EOF` and one `if (…) c = '|'` (found %d, %d)" % (len(heads), len(loops)))
    f = Fn("sym_quote_head", member_params={"length": "len"})
    f.ptr_candidates.add("str")
    c, sc = f.cond(heads[0])
    if f.ptr_max > 3:
        raise Unsupported("sym_quote_head looks at str[%d]" % f.ptr_max)
    head = f.emit(["str_0", "str_1", "str_2", "str_3", "len"], "(if %s then 1 else 0)" % c, conj(sc))
    g = Fn("sym_quote_char", var_index_param="c")
    g.ptr_candidates.add("str")
    c2, sc2 = g.cond(loops[0])
    if g.ptr is not None:
        raise Unsupported("sym_quote_char looks at a fixed position of str")
    return head + g.emit(["c"], "(if %s then 1 else 0)" % c2, conj(sc2))


def intern_conditions(build_dir):
    """sexp_intern: the two conditions under which a symbol is NOT made an immediate (huffman) symbol
    before the bit budget is looked at: `if (<head>) goto normal_intern;` and, per character c = *p,
    `if (<char>) goto normal_intern;`"""
    w = fn_ast(build_dir, "sexp_intern")
    conds = []
    for n in walk(w):
        if n.get("kind") == "IfStmt" and len(n["inner"]) == 2:
            th = n["inner"][1]
            if th.get("kind") == "CompoundStmt" and len(th.get("inner", [])) == 1:
                th = th["inner"][0]
            if th.get("kind") == "GotoStmt":
                conds.append(n["inner"][0])
    if len(conds) != 3:
        raise Unsupported("sexp_intern: expected three `if (…) goto normal_intern;` (found %d)" % len(conds))
    f = Fn("intern_head")
    f.ptr_candidates.add("p")
    f.ints["len"] = "len"
    c, sc = f.cond(conds[0])
    if f.ptr_max > 0:
        raise Unsupported("intern_head looks at p[%d]" % f.ptr_max)
    head = f.emit(["p_0", "len"], "(if %s then 1 else 0)" % c, conj(sc))
    g = Fn("intern_char")
    g.ints["c"] = "c"
    c2, sc2 = g.cond(conds[1])
    return head + g.emit(["c"], "(if %s then 1 else 0)" % c2, conj(sc2))


def translate_all(build_dir):
    parts = ["(* GENERATED on every run by gen/c08_leaf.py from sexp.c of the checked repository. Do not edit. *)\n"
             "From Coq Require Import ZArith List Bool.\nFrom ChibiV Require Import C08.Datum C08.CSem Gen.C08_Tables.\n"
             "Local Open Scope Z_scope.\nLocal Open Scope bool_scope.\n\n"]
    for fn in FUNCTIONS:
        f = Fn(fn)
        parts.append("(* sexp.c : %s *)\n" % fn)
        parts.append(f.translate_function(fn_ast(build_dir, fn)))
    parts.append("(* sexp.c : sexp_write_one, SEXP_SYMBOL arm *)\n")
    parts.append(symbol_conditions(build_dir))
    parts.append("(* sexp.c : sexp_intern, conditions that keep a symbol out of the immediate encoding *)\n")
    parts.append(intern_conditions(build_dir))
    return "".join(parts)


def regen(ctx, build_dir=None):
    if build_dir is None:
        build_dir = ctx.build("default")
    try:
        txt = translate_all(build_dir)
    except Unsupported as e:
        ctx.broken("translator:C08_Leaf", "construct outside the translated C subset: %s" % e)
        ctx.gen("C08_Leaf", "(* translator failed closed: %s *)\nDefinition c08_leaf_translation_failed : True := I.\n" % str(e).replace("*)", "* )"))
        return False
    ctx.gen("C08_Leaf", txt)
    return True


if __name__ == "__main__":
    import sys
    print(translate_all(sys.argv[1]))
