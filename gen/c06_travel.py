"""C06 (G): translate `travel-to-point!` (lib/init-7.scm) from $VERIF_REPO's working tree to Gallina.

Output: coq/Gen/C06_Travel.v defining
    Fixpoint travel_to_point (h : heap) (fuel : nat) (<here> <target> : nat) : tr
over the combinators of coq/C06/Defs.v (a point is its heap address; `eq?` on points is address
equality; calling a point's in/out thunk is recorded as a `WIn p` / `WOut p` event; recursion is on
fuel, exhaustion = None).  coq/C06/WindProofs.v proves, about THIS generated function, that it runs
exactly the R7RS wind script — so reordering its arms, swapping in/out or recursing on the wrong
point makes the proof fail.

Subset (anything else raises Unsupported; the check then reports the construct — fail closed):
  (define (travel-to-point! A B) E)
  E ::= (cond (T E ...) ... [(else E ...)]) | (if T E E) | (begin E ...) | 'sym | (quote sym)
      | (travel-to-point! P P) | ((%point-in P)) | ((%point-out P))
  T ::= (eq? P P) | (< D D) | (> D D) | (<= D D) | (>= D D) | (= D D) | (not T)
  D ::= (%point-depth P)           P ::= A | B | (%point-parent P)
A cond without else / falling off the end is rejected (the Scheme value would be unspecified but the
trace well defined; we refuse rather than guess).
"""
import os, re, sys


class Unsupported(Exception):
    pass


# ---------------------------------------------------------------------------- reader
def read_form(text, pos):
    """read one datum starting at text[pos:]; returns (datum, newpos).  A dot in a list is kept as the symbol "."
    (the translator rejects it as an unknown expression).  datum: list | str (symbol) |
    ('quote', d) as list ['quote', d].  Handles ; comments and strings (strings become ('str', s))."""
    n = len(text)

    def skip(i):
        while i < n:
            c = text[i]
            if c in " \t\r\n":
                i += 1
            elif c == ";":
                while i < n and text[i] != "\n":
                    i += 1
            elif text.startswith("#|", i):
                j = text.find("|#", i)
                if j < 0:
                    raise Unsupported("unterminated block comment")
                i = j + 2
            else:
                break
        return i

    def rd(i):
        i = skip(i)
        if i >= n:
            raise Unsupported("unexpected end of file")
        c = text[i]
        if c in "([":
            out = []
            i += 1
            while True:
                i = skip(i)
                if i >= n:
                    raise Unsupported("unterminated list")
                if text[i] in ")]":
                    return out, i + 1
                d, i = rd(i)
                out.append(d)
        if c in ")]":
            raise Unsupported("unbalanced )")
        if c == "'":
            d, i = rd(i + 1)
            return ["quote", d], i
        if c in "`,":
            raise Unsupported("quasiquote")
        if c == '"':
            j = i + 1
            while j < n and text[j] != '"':
                j += 2 if text[j] == "\\" else 1
            return ("str", text[i + 1:j]), j + 1
        j = i
        while j < n and text[j] not in " \t\r\n()[];\"'":
            j += 1
        return text[i:j], j

    return rd(pos)


def find_define(text, name):
    """the top-level (define (name ...) ...) form; exactly one must exist"""
    pat = re.compile(r"^\(define\s+\(" + re.escape(name) + r"[\s)]", re.M)
    ms = list(pat.finditer(text))
    if len(ms) != 1:
        raise Unsupported("expected exactly one top-level definition of %s, found %d" % (name, len(ms)))
    d, _ = read_form(text, ms[0].start())
    return d


# ---------------------------------------------------------------------------- translator
def ident(s):
    if not isinstance(s, str) or not re.fullmatch(r"[a-z][a-z0-9\-]*", s):
        raise Unsupported("parameter name %r" % (s,))
    g = s.replace("-", "_")
    if g in ("h", "fuel", "travel_to_point", "depth", "parent", "tr", "heap", "fix", "match", "end", "if", "then", "else", "fun", "let", "in"):
        g = g + "_"
    return g


class Tr:
    def __init__(self, fname, params):
        self.fname = fname
        self.params = params           # scheme name -> gallina name

    def P(self, d):
        if isinstance(d, str):
            if d not in self.params:
                raise Unsupported("free variable %s in a point expression" % d)
            return self.params[d]
        if isinstance(d, list) and len(d) == 2 and d[0] == "%point-parent":
            return "(parent h %s)" % self.P(d[1])
        raise Unsupported("point expression %r" % (d,))

    def D(self, d):
        if isinstance(d, list) and len(d) == 2 and d[0] == "%point-depth":
            return "(depth h %s)" % self.P(d[1])
        raise Unsupported("depth expression %r" % (d,))

    def T(self, d):
        if isinstance(d, list) and len(d) == 3 and d[0] == "eq?":
            return "(Nat.eqb %s %s)" % (self.P(d[1]), self.P(d[2]))
        if isinstance(d, list) and len(d) == 3 and d[0] in ("<", ">", "<=", ">=", "="):
            a, b = self.D(d[1]), self.D(d[2])
            return {"<": "(Nat.ltb %s %s)" % (a, b), ">": "(Nat.ltb %s %s)" % (b, a),
                    "<=": "(Nat.leb %s %s)" % (a, b), ">=": "(Nat.leb %s %s)" % (b, a),
                    "=": "(Nat.eqb %s %s)" % (a, b)}[d[0]]
        if isinstance(d, list) and len(d) == 2 and d[0] == "not":
            return "(negb %s)" % self.T(d[1])
        raise Unsupported("test %r" % (d,))

    def seq(self, es):
        if not es:
            raise Unsupported("empty body")
        out = self.E(es[-1])
        for e in reversed(es[:-1]):
            out = "(t_seq %s %s)" % (self.E(e), out)
        return out

    def E(self, d):
        if isinstance(d, list) and len(d) == 2 and d[0] == "quote" and isinstance(d[1], str):
            return "t_done"
        if isinstance(d, list) and d and d[0] == self.fname:
            if len(d) != 3:
                raise Unsupported("recursive call arity %r" % (d,))
            return "(travel_to_point h fuel %s %s)" % (self.P(d[1]), self.P(d[2]))
        if isinstance(d, list) and len(d) == 1 and isinstance(d[0], list) and len(d[0]) == 2 and d[0][0] in ("%point-in", "%point-out"):
            return "(%s %s)" % ("t_in" if d[0][0] == "%point-in" else "t_out", self.P(d[0][1]))
        if isinstance(d, list) and d and d[0] == "begin":
            return self.seq(d[1:])
        if isinstance(d, list) and len(d) == 4 and d[0] == "if":
            return "(if %s then %s else %s)" % (self.T(d[1]), self.E(d[2]), self.E(d[3]))
        if isinstance(d, list) and d and d[0] == "cond":
            cls = d[1:]
            if not cls or not isinstance(cls[-1], list) or not cls[-1] or cls[-1][0] != "else":
                raise Unsupported("cond without a final else clause")
            out = self.seq(cls[-1][1:])
            for c in reversed(cls[:-1]):
                if not isinstance(c, list) or len(c) < 2 or c[0] == "else" or "=>" in c:
                    raise Unsupported("cond clause %r" % (c,))
                out = "(if %s then %s\n      else %s)" % (self.T(c[0]), self.seq(c[1:]), out)
            return out
        raise Unsupported("expression %r" % (d,))


def translate(text):
    d = find_define(text, "travel-to-point!")
    if not (isinstance(d, list) and len(d) == 3 and d[0] == "define" and isinstance(d[1], list) and len(d[1]) == 3):
        raise Unsupported("shape of the definition of travel-to-point!: %r" % (d[:2],))
    a, b = ident(d[1][1]), ident(d[1][2])
    if a == b:
        raise Unsupported("duplicate parameter")
    t = Tr("travel-to-point!", {d[1][1]: a, d[1][2]: b})
    body = t.E(d[2])
    return ("(** GENERATED by gen/c06_travel.py from lib/init-7.scm (travel-to-point!) — do not edit. *)\n"
            "From Coq Require Import List Arith Bool.\nFrom ChibiV Require Import C06.Defs.\nImport ListNotations.\n\n"
            "Fixpoint travel_to_point (h : heap) (fuel : nat) (%s %s : nat) {struct fuel} : tr :=\n"
            "  match fuel with\n  | O => None\n  | S fuel =>\n      %s\n  end.\n" % (a, b, body))


def source_text():
    from vlib import build as B
    return open(os.path.join(B.REPO, "lib", "init-7.scm")).read()


def regen(ctx):
    try:
        coq = translate(source_text())
    except Unsupported as e:
        ctx.broken("gen:C06_Travel", "translator gen/c06_travel.py cannot translate travel-to-point!: %s" % e)
        return False
    ctx.gen("C06_Travel", coq)
    return True


if __name__ == "__main__":
    sys.path.insert(0, os.path.join(os.path.dirname(os.path.abspath(__file__)), ".."))
    txt = translate(source_text())
    out = os.path.join(os.path.dirname(os.path.abspath(__file__)), "..", "coq", "Gen", "C06_Travel.v")
    os.makedirs(os.path.dirname(out), exist_ok=True)
    if not os.path.exists(out) or open(out).read() != txt:
        open(out, "w").write(txt)
    print(txt)
