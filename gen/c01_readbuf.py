"""C01 translator (G), round 4: the buffer constants of the reader's token collectors -> coq/Gen/C01_ReadBuf.v

From THIS sexp.c (text level, inside the bodies of sexp_read_string, sexp_read_symbol, sexp_read_float_tail,
sexp_utf8_char_byte_count), failing closed on any shape outside the subset:
  * the initial size (the on-stack array and the `size` variable must be declared with the same macro) and the macro's value;
  * the H of the one expansion test `if (i+H >= size)` (`i >= size`: H = 0; `i > size`: H = -1);
  * the expansion itself must be malloc(size*2) / memcpy(tmp, buf, i) / size *= 2;
  * the writes: `buf[i++] = ...` (1 byte, directly followed by the test or, before the loop, at i = 0), the escape
    `sexp_utf8_encode_char(... buf + i, len, c); i += len; goto maybe_expand;` with len = sexp_utf8_char_byte_count(c)
    (largest `return N;` of that function), the final `buf[i] = '\\0'`; any other store through buf is rejected;
  * the digit buffer: `char digits[SEXP_FLOAT_DIGITS_LEN + K]`, every `digits[ndigits++] =` under `ndigits < SEXP_FLOAT_DIGITS_LEN`,
    `snprintf(digits+ndigits, N, ...)` under the same test, the first `snprintf(digits, SEXP_FLOAT_DIGITS_LEN, ...)`."""
import os, re
from gen.c01_vmguards import Unsupported


def _body(src, header_re, name):
    m = re.search(header_re, src)
    if not m:
        raise Unsupported("%s not found in sexp.c" % name)
    i = src.index("{", m.end() - 1)
    depth, j = 0, i
    while j < len(src):
        if src[j] == "{":
            depth += 1
        elif src[j] == "}":
            depth -= 1
            if depth == 0:
                return src[i:j + 1]
        j += 1
    raise Unsupported("unbalanced braces in %s" % name)


def _strip_comments(t):
    return re.sub(r"/\*.*?\*/", " ", t, flags=re.S)


def _collector(src, header_re, name, allow_encode):
    b = _strip_comments(_body(src, header_re, name))
    m = re.search(r"\bsize\s*=\s*([A-Z_][A-Z0-9_]*)\s*[;,]", b)
    a = re.search(r"char\s+initbuf\s*\[\s*([A-Z_][A-Z0-9_]*)\s*\]", b)
    if not m or not a or m.group(1) != a.group(1):
        raise Unsupported("%s: initial size of `size` and of initbuf not declared with one macro" % name)
    if not re.search(r"\*\s*buf\s*=\s*initbuf\b", b):
        raise Unsupported("%s: buf does not start at initbuf" % name)
    tests = re.findall(r"if\s*\(\s*i\s*(?:\+\s*(\d+)\s*)?(>=|>)\s*size\s*\)", b)
    if len(tests) != 1:
        raise Unsupported("%s: %d expansion tests of the shape `if (i[+H] >= size)`" % (name, len(tests)))
    head = int(tests[0][0] or 0) - (1 if tests[0][1] == ">" else 0)
    exp = re.search(r"if\s*\(\s*i\s*(?:\+\s*\d+\s*)?(?:>=|>)\s*size\s*\)\s*\{(.*?)\n\s*\}", b, re.S)
    body = re.sub(r"\s+", "", exp.group(1)) if exp else ""
    want = ["tmp=(char*)sexp_malloc(size*2);", "memcpy(tmp,buf,i);", "buf=tmp;", "size*=2;"]
    pos = -1
    for w in want:
        k = body.find(w, pos + 1)
        if k < 0:
            raise Unsupported("%s: expansion is not malloc(size*2) / memcpy(tmp, buf, i) / buf = tmp / size *= 2 (missing `%s`)" % (name, w))
        pos = k
    flat = re.sub(r"\s+", " ", b)
    stores = [mm.group(0) for mm in re.finditer(r"\bbuf\s*\[[^\]]*\]\s*=(?!=)\s*[^;]*;", flat)]
    ok1 = [s for s in stores if re.match(r"buf\s*\[\s*i\+\+\s*\]\s*=\s*\w+\s*;", s)]
    okn = [s for s in stores if re.match(r"buf\s*\[\s*i\s*\]\s*=\s*'\\0'\s*;", s)]
    if len(ok1) + len(okn) != len(stores) or len(okn) != 1 or not ok1:
        raise Unsupported("%s: stores through buf outside `buf[i++] = c` and the final `buf[i] = '\\0'`: %s" % (name, stores))
    # every one-byte store inside the loop is directly followed by the expansion test (a label may stand between)
    for mm in re.finditer(r"buf\s*\[\s*i\+\+\s*\]\s*=\s*(\w+)\s*;", flat):
        rest = flat[mm.end():mm.end() + 60]
        if mm.group(1) == "init":
            continue            # before the loop, i = 0
        if not re.match(r"\s*(?:maybe_expand\s*:\s*)?if\s*\(\s*i", rest):
            raise Unsupported("%s: a store `buf[i++] = %s` is not directly followed by the expansion test" % (name, mm.group(1)))
    maxw = 1
    enc = re.findall(r"sexp_utf8_encode_char\s*\(([^;]*)\)\s*;", flat)
    if enc:
        if not allow_encode or len(enc) != 1:
            raise Unsupported("%s: unexpected sexp_utf8_encode_char" % name)
        if not re.search(r"len\s*=\s*sexp_utf8_char_byte_count\s*\(\s*c\s*\)\s*;\s*sexp_utf8_encode_char\s*\(\s*\(unsigned char\s*\*\)\s*buf\s*\+\s*i\s*,\s*len\s*,\s*c\s*\)\s*;\s*i\s*\+=\s*len\s*;\s*goto\s+maybe_expand\s*;", flat):
            raise Unsupported("%s: the escape is not `len = sexp_utf8_char_byte_count(c); sexp_utf8_encode_char(buf + i, len, c); i += len; goto maybe_expand;`" % name)
        bc = _strip_comments(_body(src, r"\nint\s+sexp_utf8_char_byte_count\s*\(\s*int\s+c\s*\)\s*\{", "sexp_utf8_char_byte_count"))
        rets = re.findall(r"return\s+([^;]+);", bc)
        if not rets or not all(r.strip().isdigit() for r in rets):
            raise Unsupported("sexp_utf8_char_byte_count: a return that is not a literal: %s" % rets)
        maxw = max(int(r) for r in rets)
    if re.search(r"memcpy\s*\(\s*buf|strcpy|strcat|sprintf\s*\(\s*buf", flat):
        raise Unsupported("%s: bulk store into buf" % name)
    return m.group(1), head, maxw


def translate(d):
    src = open(os.path.join(d, "sexp.c"), encoding="utf-8", errors="replace").read()
    mac_s, head_s, maxw_s = _collector(src, r"\nsexp\s+sexp_read_string\s*\([^)]*\)\s*\{", "sexp_read_string", True)
    mac_y, head_y, maxw_y = _collector(src, r"\nsexp\s+sexp_read_symbol\s*\([^)]*\)\s*\{", "sexp_read_symbol", False)
    vals = {}
    for mac in {mac_s, mac_y}:
        m = re.search(r"#define\s+%s\s+(\d+)\s*\n" % mac, src)
        if not m:
            raise Unsupported("%s is not defined as a literal in sexp.c" % mac)
        vals[mac] = int(m.group(1))
    fb = re.sub(r"\s+", " ", _strip_comments(_body(src, r"\nsexp\s+sexp_read_float_tail\s*\([^)]*\)\s*\{", "sexp_read_float_tail")))
    m = re.search(r"char digits\s*\[\s*SEXP_FLOAT_DIGITS_LEN\s*(?:\+\s*(\d+)\s*)?\]", fb)
    ml = re.search(r"#define\s+SEXP_FLOAT_DIGITS_LEN\s+(\d+)\s*\n", src)
    if not m or not ml:
        raise Unsupported("sexp_read_float_tail: digit buffer is not `char digits[SEXP_FLOAT_DIGITS_LEN + K]`")
    slack, flen = int(m.group(1) or 0), int(ml.group(1))
    if not re.search(r"ndigits = snprintf\s*\(\s*digits\s*,\s*SEXP_FLOAT_DIGITS_LEN\s*,\s*\"%\.0f\"\s*,\s*whole\s*\)", fb):
        raise Unsupported("sexp_read_float_tail: the whole part is not printed by snprintf(digits, SEXP_FLOAT_DIGITS_LEN, \"%.0f\", whole)")
    st = re.findall(r"digits\s*\[[^\]]*\]\s*=(?!=)", fb)
    if len(st) != 1 or not re.search(r"if\s*\(\s*ndigits\s*<\s*SEXP_FLOAT_DIGITS_LEN\s*\)\s*\{\s*digits\s*\[\s*ndigits\+\+\s*\]\s*=\s*c\s*;", fb):
        raise Unsupported("sexp_read_float_tail: digit stores outside `if (ndigits < SEXP_FLOAT_DIGITS_LEN) { digits[ndigits++] = c;`: %s" % st)
    sn = re.findall(r"snprintf\s*\(\s*digits\s*\+\s*ndigits\s*,\s*(\d+)\s*,", fb)
    if len(sn) != 1 or not re.search(r"ndigits\s*<\s*SEXP_FLOAT_DIGITS_LEN\s*&&[^{;]*\)\s*\{\s*snprintf\s*\(\s*digits\s*\+\s*ndigits", fb):
        raise Unsupported("sexp_read_float_tail: the exponent suffix is not printed by one snprintf(digits+ndigits, N, ..) under `ndigits < SEXP_FLOAT_DIGITS_LEN`")
    if len(re.findall(r"snprintf\s*\(\s*digits", fb)) != 2 or re.search(r"sprintf\s*\(\s*digits|strcpy\s*\(\s*digits|memcpy\s*\(\s*digits", fb.replace("snprintf", "")):
        raise Unsupported("sexp_read_float_tail: other bulk stores into digits")
    nsn = int(sn[0])
    lines = ["(* GENERATED by gen/c01_readbuf.py from sexp.c of the scratch build.  Do not edit. *)",
             "From Coq Require Import ZArith.", "From ChibiV Require Import C01.ReadBuf.", "Local Open Scope Z_scope.", "",
             "(* sexp_read_string: %s = %d, test `i + %d >= size`, largest write per iteration %d *)" % (mac_s, vals[mac_s], head_s, maxw_s),
             "Definition read_string_params : rbparams := mkrb %d (%d) %d." % (vals[mac_s], head_s, maxw_s),
             "(* sexp_read_symbol: %s = %d, test `i + (%d) >= size`, largest write per iteration %d *)" % (mac_y, vals[mac_y], head_y, maxw_y),
             "Definition read_symbol_params : rbparams := mkrb %d (%d) %d." % (vals[mac_y], head_y, maxw_y),
             "(* sexp_read_float_tail: digits[%d + %d], snprintf(digits+ndigits, %d, ..); \"%%.0f\" of a double: at most 309 digits + NUL *)" % (flen, slack, nsn),
             "Definition float_digits_params : fbparams := mkfb %d %d %d 310." % (flen, slack, nsn), ""]
    return dict(coq="\n".join(lines), read_string=(vals[mac_s], head_s, maxw_s), read_symbol=(vals[mac_y], head_y, maxw_y), float_digits=(flen, slack, nsn))


def regen(ctx):
    d = ctx.build("default")
    t = translate(d)
    ctx.gen("C01_ReadBuf", t["coq"])
    return t
