; C09 corpus: hand-written let-fragment programs at the case-split boundaries of simplify.c (one program per line; run first)
; shadowing: the same name bound by nested lets, constants propagated at both levels
((lambda (x) ((lambda (x) (+ x 1)) (+ x 1))) 1)
((lambda (x) ((lambda (x) (out x) ((lambda (x) (* x x)) 3)) (- x 1))) 10)
; a parameter that is assigned must not be propagated (lambda-set-vars), also when the set! is in an inner let
((lambda (x y) (set! x (+ x y)) (out x) ((lambda (y) (+ x y)) 10)) 1 2)
((lambda (x) ((lambda (y) (set! x y) x) 3)) 1)
((lambda (x) (begin (set! x 5)) x) 1)
((lambda (x) (if (= x 1) (set! x 2) (set! x 3)) (out x) x) 1)
; folds whose evaluation raises stay in place
((lambda (x) (quotient x 0)) 0)
((lambda (x) (if #f (remainder 1 0) x)) 5)
((lambda (x) (+ 1 #t)) 5)
((lambda (x) (- "s1")) 5)
; folds beyond the fixnum range, nested folds, zero- and one-argument forms
((lambda (x) (out (* x 4611686018427387903 4)) (+ (* 4611686018427387903 2) (- -4611686018427387904 1))) 3)
((lambda (x) (+ (+) (*) (+ x) (* x) (- x))) 7)
((lambda (x) (quotient (* 3037000500 3037000500) (+ x 0))) -7)
; literal tests of every constant class, test that folds to a literal
((lambda (x y) (if x y (out 1))) #f 7)
((lambda (x) (if 0 (if "s1" (if 'q1 (if (+ 1 2) x 1) 2) 3) 4)) 9)
((lambda (x) (if (if #t #f #t) 1 x)) 9)
; statements in non-tail position: values are dropped, effects stay, in order
((lambda (x) 1 x "s1" (out x) 'q2 (out (+ x 1)) (set! x 4) x) 3)
((lambda (x) (begin (begin 1 2) (out 3) (begin x)) (begin (out 4) 5)) 3)
; arguments with effects: right-to-left evaluation, deleted literal arguments in between
((lambda (x y z) (+ x z)) (begin (out 1) 1) 2 (begin (out 3) 3))
; rest parameter: counted by neither sexp_length nor the deletion walk
((lambda (x . r) x) 1)
((lambda (x y . r) (+ x y)) 1 2 3)
