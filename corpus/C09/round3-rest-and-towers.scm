; round 3: the pass removes the only assignment to a rest parameter (dead branch behind a literal / propagated test); the set-vars still list it
; (defect found in round 3, fixes/C09-unused-rest-stale-set-vars.patch: default build printed (3 (r . 2) 1))
((lambda (g) (list (g 3) 2 1)) (lambda (a . r) (if #f (set! r 5) a)))
((lambda (g) (list (g 3) 2 1)) (lambda (a . r) (if '#f (begin (set! r (cons a r)) r) a)))
((lambda (h) (list (h 3) (h 4 5) 1)) (lambda (a . r) ((lambda (k) (if k a (set! r 1))) #t)))
((lambda (g) (+ (g 1) 10)) (lambda (a . r) (if (+ '#f) (set! r 2) (* a 2))))
; seeded b1 (usedp not counting an assignment as a use): a LIVE assignment of the rest parameter
((lambda (g) (list (g 3) 2 1)) (lambda (a . r) (set! r 5) a))
((lambda (f) (+ (f 1) 10)) (lambda (a . r) (set! r (cons a r)) (car r)))
; seeded b2 (SIMPLIFY=0 only: a reference to a boxed variable as a statement)
((lambda (x) ((lambda (x) (+ x 1)) (+ x 1))) 1)
((lambda (x) (set! x (+ x 1)) x (out x) x 'done) 1)
; an operator that only BECOMES a lambda: let handling on the simplified operator, body simplified a second time
((lambda (z) ((if #t (lambda (x y) (+ x y 1)) 0) 5 z)) 7)
((lambda (z) ((if '#f 1 (lambda (x) ((if x (lambda (k) (+ k x)) 9) 4))) 3)) 0)
((lambda (z) ((begin 'a (lambda (x y . r) (if x (+ y 1) r))) '#f 2)) 0)
((lambda (z) ((begin 1 "s" (lambda (x y) (set! y (+ y x)) (out y) (+ x y))) (+ 1 2) z)) 4)
((lambda (z) ((if (- 1 1) (lambda (x) (out x) ((if x (lambda () (quotient x 0)) 0))) z) 6)) 0)
; parameter deletion in a let with a rest parameter: only with exactly the fixed count
((lambda (z) ((lambda (x y . r) (cons (+ x y) r)) 1 2)) 0)
((lambda (z) ((lambda (x y . r) (cons (+ x y) r)) 1 2 3 z)) 0)
((lambda (z) ((lambda (x . r) (set! r (cons x r)) (out (length r)) (car r)) '5)) 0)
((lambda (z) ((lambda (x y . r) (null? r)) 1)) 0)
