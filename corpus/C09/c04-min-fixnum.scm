; found by the thorough tier (seed 1) on /repo e154318: all four builds print 0 / -4611686018427387904, Z says -1 / 0.
; Exact-arithmetic defect of bignum.c (FIX_BIG case of sexp_quotient / sexp_remainder), repaired by
; fixes/C04-quotient-min-fixnum-by-bignum.patch; reported here under the signature arith:min-fixnum-quotient-remainder-by-bignum
((lambda (w z x) (if w (quotient -4611686018427387904 x) 12)) -4 "s2" 4611686018427387904)
((lambda (y x) (remainder y (- y))) -4611686018427387904 2)
