;; C11 replay (B'): thread-terminate! of a thread whose body has already
;; returned must not change its end-result (SRFI 18: no effect on a terminated thread).
;; expected: body-result / (returned body-result)
;; pinned:   body-result / (raised "thread terminated")
(import (scheme base) (scheme write) (srfi 18))
(define t (make-thread (lambda () 'body-result) 't))
(thread-start! t)
(write (thread-join! t)) (newline)
(thread-terminate! t)
(write (guard (e (#t (list 'raised (if (error-object? e) (error-object-message e) e))))
         (list 'returned (thread-join! t))))
(newline)
