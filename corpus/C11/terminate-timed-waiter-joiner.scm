;; C11 replay (A1): thread-terminate! of a paused thread with a pending timeout
;; while another paused thread has an earlier timeout.  Pinned code: the dead
;; victim (still waitp=1) is put back on the paused list by sexp_scheduler
;; ("the only thread available was waiting"), so the thread joining it is not
;; woken before the victim's own, cancelled, timeout (1000 s).
;; env: CHIBI_VERIF_SCHED_CLOCK=1000 (also reproduces with the real clock, 5.5 s)
;; expected output: p-done / j-done      pinned: p-done / joiner-not-woken
(import (scheme base) (scheme write) (srfi 18))
(define m (make-mutex))
(mutex-lock! m)
(define v (make-thread (lambda () (mutex-lock! m 1000) 'v-done) 'victim))
(define j (make-thread
           (lambda ()
             (guard (e (#t #f)) (thread-join! v 2000 'j-timeout))
             'j-done)
           'joiner))
(define p (make-thread (lambda () (thread-sleep! 0.5) 'p-done) 'sleeper))
(thread-start! v) (thread-start! j) (thread-start! p)
(thread-sleep! 0.05)               ; v, j, p are all blocked now
(thread-terminate! v)
(write (thread-join! p 5 'p-timeout)) (newline)
(write (thread-join! j 5 'joiner-not-woken)) (newline)
