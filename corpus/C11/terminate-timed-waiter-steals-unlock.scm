;; C11 replay (A3): the dead victim, back on the paused list with its stale
;; event, takes the wake-up of mutex-unlock! away from a live untimed waiter
;; (lost wake-up: the mutex is free and the waiter sleeps for ever).
;; env: CHIBI_VERIF_SCHED_CLOCK=1000 (also with the real clock)
;; expected output: w-done      pinned: waiter-not-woken
(import (scheme base) (scheme write) (srfi 18))
(define m (make-mutex))
(mutex-lock! m)
(define v (make-thread (lambda () (mutex-lock! m 1000) 'v-done) 'victim))
(define w (make-thread (lambda () (mutex-lock! m) (mutex-unlock! m) 'w-done) 'waiter))
(define p (make-thread (lambda () (thread-sleep! 0.5) 'p-done) 'sleeper))
(thread-start! v) (thread-start! w) (thread-start! p)
(thread-sleep! 0.05)               ; v, w, p are all blocked now
(thread-terminate! v)
(thread-sleep! 0.05)               ; the scheduler runs with v at the head of the queue
(mutex-unlock! m)
(write (thread-join! w 5 'waiter-not-woken)) (newline)
