;; C11 replay (A2): the dead victim (waitp=1, pending timeout) is dequeued while
;; the terminating thread is still runnable; sexp_scheduler pulls an unrelated
;; sleeper out of the paused list in its place, and the sleeper's next
;; scheduler call re-inserts it untimed: it sleeps for ever.
;; env: CHIBI_VERIF_SCHED_CLOCK=1000 (also with the real clock, 5 s)
;; expected output: p-done      pinned: sleeper-never-woke
(import (scheme base) (scheme write) (srfi 18))
(define m (make-mutex))
(mutex-lock! m)
(define v (make-thread (lambda () (mutex-lock! m 1000) 'v-done) 'victim))
(define p (make-thread (lambda () (thread-sleep! 0.5) 'p-done) 'sleeper))
(thread-start! v) (thread-start! p)
(thread-sleep! 0.05)               ; v and p are blocked now
(thread-terminate! v)
(let lp ((i 0)) (if (< i 100000) (lp (+ i 1))))   ; stay runnable over a slice end
(write (thread-join! p 5 'sleeper-never-woke)) (newline)
