;; analyze (eval.c) keeps the fresh Ref node of an opcode called with the wrong number of arguments in an unregistered
;; C local while it analyzes the arguments: a collection there sweeps it and the compiled code refers to freed memory
(define (show . xs) (for-each (lambda (x) (write x) (display " ")) xs) (newline))
(define (try thunk) (call-with-current-continuation (lambda (k) (with-exception-handler (lambda (e) (k (let ((p (open-output-string))) (print-exception e p) (get-output-string p)))) thunk))))
(define (g1) (cons (lambda (a) (vector a a a (list a (lambda (b) (list a b)))))))
(define (g2 y) (quotient (let loop ((i 0) (acc '())) (if (< i 3) (loop (+ i 1) (cons (lambda () i) acc)) (length acc)))))
(define (g3) (car (list 1 2 3) (lambda (z) (string-append "a" (number->string z))) (vector 1 2 3)))
(show (try g1) (try (lambda () (g2 5))) (try g3))
(show (eval '(try (lambda () (vector-ref (make-vector 3 (lambda (q) (cons q q))))))))
(show 'done)
