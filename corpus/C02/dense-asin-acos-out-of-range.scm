;; (asin x) / (acos x) for a real x outside [-1, 1]: the fresh complex number built by define_complex_math_op (eval.c) was passed
;; unrooted to sexp_complex_asin / sexp_complex_acos, which allocate before they read it (defect 8, found by gen/c02_gcvars.py)
(define (show . xs) (for-each (lambda (x) (write x) (display " ")) xs) (newline))
(show (asin 2) (acos 2) (asin -3.5) (acos 1e10))
(show (map (lambda (i) (asin (+ i 1.5))) '(1 2 3 4 5 6 7 8)))
