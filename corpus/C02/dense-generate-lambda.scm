;; minimised from the first disagreement found on the pinned code (fixes/C02-generate-lambda-ctx2-root.patch):
;; compiling any lambda allocates with the parent context while the child compilation context is only held
;; in a C local (vm.c generate_lambda); a collection at one of those two allocations swept it.
(define (make-adder n) (lambda (x) (+ x n)))
(define (compose f g) (lambda (x) (f (g x))))
(write ((compose (make-adder 1) (make-adder 2)) 3))
(newline)
(write (map (lambda (p) (p 10)) (list (make-adder 5) (lambda (y) (* y y)) (let ((k 7)) (lambda (z) (- z k))))))
(newline)
