;; minimised from a disagreement found by the thorough tier (tests/r7rs-tests.scm under a seeded schedule):
;; (primitive-environment 7) / (null-environment 5) copy the static opcode / core-form tables into heap
;; objects that are registered GC roots while their name/data slots still hold raw C strings; a collection
;; inside treats those char* as objects (fixes/C02-primitive-env-raw-cstrings.patch).
(define e (primitive-environment 7))
(write (eval '(+ 1 2) e))
(newline)
(define n (null-environment 5))
(write (eval '(if #t 1 2) n))
(newline)
(write (eval '((lambda (x) (cons x x)) 5) (primitive-environment 7)))
(newline)
