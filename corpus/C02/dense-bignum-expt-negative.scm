;; (expt <bignum> <negative fixnum>): sexp_bignum_expt passed a fresh bignum 1 unrooted to sexp_div, which allocates the ratio
;; before it stores the numerator (defect 9, found by gen/c02_gcvars.py)
(define (show . xs) (for-each (lambda (x) (write x) (display " ")) xs) (newline))
(define big 1234567890123456789012345)
(show (expt big -2))
(show (expt (- big) -3) (expt (* big big) -1))
