;; string-cursor-ref on an invalid UTF-8 position allocates its exception without publishing the VM stack top:
;; the fresh port (only on the VM stack, above the stale published top) is swept by a collection at that allocation
(define c (string-cursor-end "ab"))
(define s (string-append "a" (string (integer->char 955))))
(define (try)
  (%with-exception-handler
   (lambda (e) #\?)
   (lambda () (list (string-cursor-ref s c) (flonum? c) (open-output-string)))))
(define r (try))
(write (list (car r) (cadr r) (output-port? (car (cddr r))))) (newline)
(write (let ((p (car (cddr (try))))) (write 'hello p) (get-output-string p))) (newline)
