;; complex - real (and complex - complex through the negated-result path of sexp_sub, bignum.c): the intermediate difference was kept
;; in a plain C local while sexp_complex_copy allocates (defect 10, found by gen/c02_gcvars.py)
(define (show . xs) (for-each (lambda (x) (write x) (display " ")) xs) (newline))
(define big 1234567890123456789012345)
(define z (make-rectangular 1 2))
(define zz (make-rectangular big (* big 3)))
(show (- z 5) (- z big) (- z 1.5) (- zz 7) (- zz big) (- z zz) (- zz z))
(show (map (lambda (i) (- zz (* i big))) '(1 2 3 4 5 6)))
