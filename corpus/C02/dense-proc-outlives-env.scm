;; procedures that outlive the environment they were compiled in: compiled code refers to a global binding cell by a raw
;; pointer word inside the bytecode (SEXP_OP_GLOBAL_REF / GLOBAL_KNOWN_REF / the cell pushed for set!), which the marker does
;; not trace; generate_ref / generate_set keep the cell alive through the bytecode's literals (bytecode_preserve).  Once the
;; environment is garbage the cells live only through that.  Expected output is schedule independent.
(define (show . xs) (for-each (lambda (x) (write x) (display " ")) xs) (newline))
(define (iota* n) (let lp ((i (- n 1)) (acc '())) (if (< i 0) acc (lp (- i 1) (cons i acc)))))
(define (garbage n) (let lp ((i 0) (acc '())) (if (< i n) (lp (+ i 1) (cons (make-vector 3 i) acc)) (length acc))))
(define (mk i)
  (let ((e (primitive-environment 7)))
    (eval (list 'define 'counter (* i 10)) e)
    (eval (list 'define 'label (list 'quote (list 'env i))) e)
    (eval '(define (bump! n) (set! counter (+ counter n)) counter) e)
    (eval '(lambda (k) (cons label (cons (bump! k) (cons counter (bump! 1))))) e)))
(define procs (map mk (iota* 5)))
(show (garbage 40))
(show (map (lambda (p) (p 100)) procs))
(show (garbage 40))
(show (map (lambda (p) (p 1000)) procs))
