#!/bin/sh
# tools/suite_compare.sh [build dir]: compare per-test group summaries of the current /repo/_build run with the pinned baseline
B=${1:-/repo/_build}
python3 /verif/tools/suite_summary.py $B > /tmp/cur_suite_summary.txt
norm() { sed -E 's/in [0-9.e-]+ seconds//g; s/\x1b\[[0-9;]*m//g' "$1"; }
norm /verif/tools/baseline_suite_summary.txt > /tmp/_b.txt; norm /tmp/cur_suite_summary.txt > /tmp/_c.txt
diff /tmp/_b.txt /tmp/_c.txt && echo "suite summaries identical to the pinned baseline"
