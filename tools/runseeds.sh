#!/bin/sh
exec python3 /verif/tools/runseeds.py "$@"
