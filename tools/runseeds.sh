#!/bin/sh
cd /verif
for s in "$@"; do python3 tools/run_seed.py seeded/$s 2>&1 | tail -n 1 | cut -c1-300; done
