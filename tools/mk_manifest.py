#!/usr/bin/env python3
"""Regenerate /verif/MANIFEST.json from props/meta.json (one entry per integrated property).
props/meta.json: { "Cxx": {"text":…, "note":…, "technique":…, "design_ref":…} , … }
Properties without an entry are listed under not_applicable with the reason in NOT_BUILT
(or meta["_not_applicable"][id])."""
import json, os, subprocess, sys
ROOT = os.path.dirname(os.path.dirname(os.path.abspath(__file__)))
meta = json.load(open(os.path.join(ROOT, "props", "meta.json")))
ids = [json.loads(l)["id"] for l in open(os.path.join(ROOT, "properties.jsonl")) if l.strip()]
na = meta.get("_not_applicable", {})
hooks_commits = meta.get("_hook_commits", [])
claimed = [i for i in ids if i in meta and os.path.exists(os.path.join(ROOT, "props", i + ".py"))]
NOT_BUILT = "check not built yet (work in progress; see DESIGN.md section 4 for the plan)"
m = {
 "version": 1,
 "setup_cmd": "./check --setup",
 "hooks": {
  "guard": "SEXP_USE_VERIF_HOOKS",
  "enable": "make CPPFLAGS=-DSEXP_USE_VERIF_HOOKS=1 (done by vlib/build.py in a scratch copy of /repo's working tree)",
  "baseline_off_cmd": "cmake -G Ninja -S /repo -B /repo/_build && cmake --build /repo/_build && ctest --test-dir /repo/_build -j8 --timeout 900",
  "source_commits": hooks_commits,
  "add_only": True,
 },
 "engines": [{
  "name": "coq", "path": "/verif/coq", "serves_properties": claimed,
  "kind_free_text": "Coq 8.16.1 development (models, theorems; parts regenerated from /repo by the translators under /verif/gen), extracted to OCaml for correspondence with the implementation",
 }],
 "checks": [],
 "notes": "see DESIGN.md; known_findings.json lists recorded and fixed defects; seeded/ holds independently written breaking changes and which check catches each",
 "not_applicable": [],
}
for i in ids:
    if i in claimed:
        e = meta[i]
        m["checks"].append({
         "property_id": i,
         "quick_cmd": "./check %s --tier quick" % i,
         "thorough_cmd": "./check %s --tier thorough" % i,
         "evidence_file": "/verif/evidence/%s.json" % i,
         "replay_cmd_template": "./check %s --replay {path}" % i,
         "engine": "coq",
         "level_claimed": {"category": "proof", "text": e["text"], "design_ref": e.get("design_ref", "DESIGN.md section 4, " + i)},
         "level_note": e["note"],
         "technique": e["technique"],
        })
    else:
        m["not_applicable"].append({"property_id": i, "reason": na.get(i, NOT_BUILT)})
json.dump(m, open(os.path.join(ROOT, "MANIFEST.json"), "w"), indent=1)
print("claimed:", " ".join(claimed))
