#!/bin/sh
# tools/run_quick_all.sh Cxx...: quick tier of each property against /repo (writes /verif/evidence), one line per property
cd /verif
for p in "$@"; do
  ./check $p --tier quick > /var/tmp/quick-$p.log 2>&1; rc=$?
  echo "$p rc=$rc $(grep -v '^KNOWN-FINDING' /var/tmp/quick-$p.log | tail -n 1 | cut -c1-200)"
done
