#!/usr/bin/env python3
"""tools/suite_summary.py <build dir>: per-ctest-test summary of chibi (test) group results from Testing/Temporary/LastTest.log,
so that a fix can be compared with the pinned baseline below the granularity of ctest's pass/fail."""
import re, sys
log = open(sys.argv[1] + "/Testing/Temporary/LastTest.log", errors="replace").read()
cur = None; out = {}
for line in log.split("\n"):
    m = re.match(r"^\d+/\d+ Test: (\S+)", line)
    if m: cur = m.group(1); out[cur] = []
    elif cur and re.search(r"\d+ out of \d+ .*(passed|pass)|\d+ (failed|errors?|failures?)\b|tests? passed|FAIL", line) and len(line) < 200:
        out[cur].append(line.strip())
for k in sorted(out):
    print(k, "|", " ; ".join(out[k][-6:]))
