#!/bin/sh
# sequential verification of breaker deliverables; args like C03 or C03:b (suffix)
for a in "$@"; do p=${a%%:*}; s=""; case "$a" in *:*) s=${a#*:};; esac; python3 /verif/tools/verify_seed.py $p $s > /tmp/breakers/verify-$p$s.log 2>&1; done
