#!/bin/sh
# tools/run_thorough.sh Cxx...: run the thorough tier of each property against /repo, evidence to a scratch dir
# (so the committed quick evidence stays), one summary line per property appended to /var/tmp/thorough/summary.txt
cd /verif
for p in "$@"; do
  s=$(date +%s)
  VERIF_EVIDENCE_DIR=/var/tmp/thorough/evidence timeout 5400 ./check $p --tier thorough > /var/tmp/thorough/$p.log 2>&1
  rc=$?
  echo "$p rc=$rc wall=$(( $(date +%s) - s ))s $(grep -v '^KNOWN-FINDING' /var/tmp/thorough/$p.log | tail -n 1 | cut -c1-200)" >> /var/tmp/thorough/summary.txt
done
