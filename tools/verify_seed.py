#!/usr/bin/env python3
"""tools/verify_seed.py <Cxx> [suffix]  — lead's own confirmation of a breaker's deliverables in /tmp/breakers/<Cxx><suffix>/:
for each change<k>.diff: apply to a scratch worktree /tmp/brk-<Cxx><suffix> of /repo HEAD, build (cmake/ninja as the baseline does),
run the pinned test suite (ctest), run the demo (must FAIL); revert, rebuild, run the demo (must PASS).
Confirmed changes are installed as /verif/seeded/<Cxx>-<suffix><k>/{patch.diff, demo.*, meta.json}."""
import json, os, re, shutil, subprocess, sys, glob, time
ROOT = os.path.dirname(os.path.dirname(os.path.abspath(__file__)))
pid = sys.argv[1]; suffix = sys.argv[2] if len(sys.argv) > 2 else ""
src = "/tmp/breakers/%s%s" % (pid, suffix)
wt = "/tmp/brk-%s%s" % (pid, suffix)
FLAKY = {"lib_chibi_weak-test"}

def sh(cmd, **kw):
    return subprocess.run(cmd, shell=True, capture_output=True, text=True, **kw)

def build():
    r = sh("cd %s && (test -d _build || cmake -G Ninja -B _build >/dev/null) && cmake --build _build -j8 2>&1 | tail -5" % wt)
    return r.returncode == 0 and os.path.exists(wt + "/_build/chibi-scheme"), r.stdout[-600:]

def ctest():
    r = sh("ctest --test-dir %s/_build -j8 --timeout 900 2>&1 | tail -15" % wt)
    failed = re.findall(r"^\s*\d+ - (\S+) \(", r.stdout, re.M)
    m = re.search(r"(\d+)% tests passed, (\d+) tests failed out of (\d+)", r.stdout)
    return [f for f in failed if f not in FLAKY], (m.group(0) if m else r.stdout[-300:])

def demo_cmd(path):
    env = "CHIBI_IGNORE_SYSTEM_PATH=1 CHIBI_MODULE_PATH=%s/_build/lib:%s/lib LD_LIBRARY_PATH=%s/_build " % (wt, wt, wt)
    if path.endswith(".scm"):
        return env + "timeout 900 %s/_build/chibi-scheme -I %s/_build/lib %s" % (wt, wt, path)
    if path.endswith(".sh"):
        return env + "timeout 1800 sh %s %s" % (path, wt)
    if path.endswith(".c"):
        exe = "/tmp/seed-demo-%s" % os.getpid()
        return ("cc -O1 -I%s/include -I%s/_build/include -o %s %s -L%s/_build -Wl,-rpath,%s/_build -lchibi-scheme -lm -ldl -lpthread && " % (wt, wt, exe, path, wt, wt)) + env + "timeout 900 " + exe
    raise SystemExit("unknown demo type " + path)

def run_demo(path):
    r = sh(demo_cmd(path), cwd=wt)
    return r.returncode, (r.stdout + r.stderr)[-400:]

sh("git -C /repo worktree remove --force %s" % wt)
r = sh("git -C /repo worktree add --detach %s HEAD" % wt)
assert r.returncode == 0, r.stderr
ok, log = build(); assert ok, log
base_failed, base_sum = ctest()
print("baseline ctest:", base_sum, "non-flaky failures:", base_failed)
results = []
for diff in sorted(glob.glob(src + "/change*.diff")):
    k = re.search(r"change(\d+)\.diff", diff).group(1)
    demos = [d for d in glob.glob(src + "/demo%s.*" % k) if not d.endswith(".md")]
    if not demos:
        print("change", k, ": no demo"); continue
    demo = sorted(demos, key=lambda d: (not d.endswith(".sh"), d))[0]   # a .sh wrapper wins over the .scm/.c it drives
    res = dict(k=k, demo=os.path.basename(demo))
    sh("git -C %s checkout -- . && git -C %s clean -fdq -e _build" % (wt, wt))
    rc0, out0 = run_demo(demo)
    res["demo_rc_without_change"] = rc0
    a = sh("git -C %s apply %s" % (wt, diff))
    if a.returncode != 0:
        res["error"] = "patch does not apply: " + a.stderr[-300:]; results.append(res); print(res); continue
    # the cmake build does not track C files #included by a .stub: touch the stubs next to changed lib C files
    for f in re.findall(r"^\+\+\+ b/(lib/\S+\.c)$", open(diff).read(), re.M):
        sh("touch %s/%s/*.stub" % (wt, os.path.dirname(f)))
    ok, log = build()
    res["builds"] = ok
    if ok:
        failed, summ = ctest()
        res["ctest"] = summ; res["ctest_failed_nonflaky"] = failed
        rc1, out1 = run_demo(demo)
        res["demo_rc_with_change"] = rc1; res["demo_out_with_change"] = out1[-300:]
    sh("git -C %s checkout -- . && git -C %s clean -fdq -e _build" % (wt, wt))
    ok2, _ = build()
    res["confirmed"] = bool(ok and not res.get("ctest_failed_nonflaky") and res.get("demo_rc_with_change", 0) != 0 and rc0 == 0)
    results.append(res); print(json.dumps(res))
    if res["confirmed"]:
        dst = os.path.join(ROOT, "seeded", "%s-%s%s" % (pid, suffix, k))
        os.makedirs(dst, exist_ok=True)
        shutil.copy(diff, dst + "/patch.diff")
        for d in demos:
            shutil.copy(d, dst + "/" + os.path.basename(d))
        md = src + "/change%s.md" % k
        if os.path.exists(md):
            shutil.copy(md, dst + "/change.md")
        meta = dict(property=pid, breaks=open(md).read()[:1500] if os.path.exists(md) else "",
                    origin="independent breaker sub-agent (property text + scratch worktree only)",
                    lead_confirmation=dict(date=time.strftime("%Y-%m-%d"), repo_head=sh("git -C /repo rev-parse --short HEAD").stdout.strip(),
                                           commands=["git apply patch.diff", "cmake --build _build", "ctest --test-dir _build -j8", demo_cmd(demo).replace(src, "<seed dir>")],
                                           builds=True, ctest=res["ctest"], demo_rc_with_change=res["demo_rc_with_change"], demo_rc_without_change=rc0),
                    caught_by=None)
        json.dump(meta, open(dst + "/meta.json", "w"), indent=1)
sh("git -C /repo worktree remove --force %s" % wt)
json.dump(results, open(src + "/lead_verification.json", "w"), indent=1)
print("confirmed:", [r["k"] for r in results if r.get("confirmed")])
