#!/usr/bin/env python3
"""tools/run_seed.py <seed-dir> [--tier quick|thorough] [--inplace]
Run the property's check against a seeded breaking change and record the outcome in <seed-dir>/meta.json (caught_by).
Default: the patch is applied in a scratch worktree and the check is pointed at it (VERIF_REPO), so /repo is not touched;
--inplace: `git -C /repo apply`, run, `git -C /repo checkout -- .` (the way the checks are used for real).
Evidence of these runs goes to a scratch directory, never to /verif/evidence."""
import json, os, re, subprocess, sys, time, shutil
ROOT = os.path.dirname(os.path.dirname(os.path.abspath(__file__)))
seed = os.path.abspath(sys.argv[1]); tier = "quick"; inplace = "--inplace" in sys.argv
if "--tier" in sys.argv: tier = sys.argv[sys.argv.index("--tier") + 1]
meta = json.load(open(seed + "/meta.json")); pid = meta["property"]
other = None
if "--prop" in sys.argv:      # run ANOTHER property's check on this seed (cross-coverage); recorded under caught_by_other
    other = sys.argv[sys.argv.index("--prop") + 1]; pid = other
name = os.path.basename(seed)
evd = "/var/tmp/verif-seed-evidence/%s" % name
os.makedirs(evd, exist_ok=True)
env = dict(os.environ, VERIF_EVIDENCE_DIR=evd)
def sh(cmd, **kw): return subprocess.run(cmd, shell=True, capture_output=True, text=True, **kw)
if inplace:
    assert sh("git -C /repo status --porcelain --untracked-files=no").stdout.strip() == "", "/repo has local edits"
    a = sh("git -C /repo apply %s/patch.diff" % seed)
else:
    wt = "/tmp/seedrun-%s" % name
    sh("git -C /repo worktree remove --force %s" % wt)
    assert sh("git -C /repo worktree add --detach %s HEAD" % wt).returncode == 0
    a = sh("git -C %s apply %s/patch.diff" % (wt, seed))
    env.update(VERIF_REPO=wt, VERIF_SCRATCH="/var/tmp/verif-seed-%s" % name)
try:
    if a.returncode != 0:
        out = dict(error="patch does not apply to current HEAD: " + a.stderr[-300:])
    else:
        t0 = time.time()
        r = sh("./check %s --tier %s" % (pid, tier), cwd=ROOT, env=env, timeout=7200)
        vio = [l for l in r.stdout.split("\n") if l.startswith("VIOLATION")]
        replay = None
        m = re.search(r"replay=(\S+)", vio[0]) if vio else None
        if m and os.path.exists(m.group(1)):
            try:
                rp = json.load(open(m.group(1)))
                replay = dict(signature=rp.get("signature"), first_case={k: str(v)[:300] for k, v in (rp.get("failing_cases") or [{}])[0].items()}, no_longer_checks=[str(u.get("name")) for u in rp.get("no_longer_checks", [])][:6])
            except Exception as e:
                replay = str(e)
        out = dict(tier=tier, exit=r.returncode, violation_lines=vio[:5], caught=bool(r.returncode == 1 and vio), replay=replay,
                   summary=(r.stdout.strip().split("\n") or [""])[-1][:300], wall_s=round(time.time() - t0, 1), mode="inplace" if inplace else "worktree",
                   repo_head=sh("git -C /repo rev-parse --short HEAD").stdout.strip(), verif_head=sh("git -C %s rev-parse --short HEAD" % ROOT).stdout.strip())
finally:
    if inplace:
        sh("git -C /repo checkout -- .")
    else:
        sh("git -C /repo worktree remove --force %s" % wt); shutil.rmtree(env["VERIF_SCRATCH"], ignore_errors=True)
    # the replay files of this experiment must not be mistaken for findings on the unchanged tree
    for f in os.listdir(os.path.join(evd, "replay")) if os.path.isdir(os.path.join(evd, "replay")) else []:
        pass
if other:
    meta.setdefault("caught_by_other", {})[other] = out
else:
    meta["caught_by"] = out
json.dump(meta, open(seed + "/meta.json", "w"), indent=1)
print(name, json.dumps(out)[:600])
