#!/usr/bin/env python3
"""print the prompt for an independent 'breaker' sub-agent for property <id> (property text only; nothing from /verif)"""
import json, sys, os
ROOT = os.path.dirname(os.path.dirname(os.path.abspath(__file__)))
pid = sys.argv[1]
suffix = sys.argv[2] if len(sys.argv) > 2 else ""
p = [json.loads(l) for l in open(os.path.join(ROOT, "properties.jsonl")) if l.strip() and json.loads(l)["id"] == pid][0]
for k in ("added_in_round", "source"):
    p.pop(k, None)
wt = "/tmp/brk-%s%s" % (pid, suffix)
out = "/tmp/breakers/%s%s" % (pid, suffix)
print(f"""You are testing how robust a semantic property of the ashinn/chibi-scheme interpreter is against realistic regressions. You get ONE property (below) and your own scratch git worktree of the repository. Your job: produce up to THREE independent source changes to chibi-scheme (C or Scheme library code), each of which BREAKS the property while the code still compiles and the repository's existing test suite still passes, and for each a small demonstration (a Scheme program or a small C/shell test) that FAILS with the change applied and PASSES on the unchanged code.

Setup (do this first):
  git -C /repo worktree add --detach {wt} HEAD
  cd {wt} && cmake -G Ninja -B _build >/dev/null && cmake --build _build -j4 >/dev/null   # ~1 min
  test suite: ctest --test-dir {wt}/_build -j4 --timeout 900     (about 90 tests; all must pass — except `lib_chibi_weak-test`, which is known to be flaky on the unchanged code)
  run programs with: {wt}/_build/chibi-scheme  — check how the tests set the module path (see CMakeLists.txt: tests run with CHIBI_IGNORE_SYSTEM_PATH=1 and CHIBI_MODULE_PATH={wt}/lib or similar and LD_LIBRARY_PATH={wt}/_build); after changing C code re-run `cmake --build _build -j4`; Scheme library changes under lib/ take effect immediately.
Work ONLY inside {wt} and {out} (create it). Never touch /repo itself or /verif (do not read /verif either). Never use `pkill`; kill processes by PID only. Never use `git stash` (the stash is shared by all worktrees of /repo and other people use it): save a change with `git diff > file` and undo it with `git checkout -- .`. Use at most 4 parallel jobs.

What kind of change: a plausible maintenance edit a reviewer could let through — an off-by-one, a dropped or inverted condition, a lost update, a wrong variable, a missing case, an "optimisation" shortcut, a reordering, two cooperating sites that each look fine alone. It must need something SPECIFIC to manifest: an unusual input or boundary value, a multi-step sequence of operations, a particular interleaving/schedule, a fault or collection at a particular point, a rarely used code path — NOT something ordinary use or the existing tests would expose at once (the whole existing suite must still pass). The three changes should exercise DIFFERENT mechanisms/code sites of the property (use the anchors). Do not rely on defects already present in the unchanged code: the demonstration must pass on the unchanged worktree. Keep each change small (a few lines).

For each change k = 1..3 deliver in {out}/:
  change<k>.diff      `git diff` of the worktree for that change alone (apply each on a clean tree: `git checkout -- .` between changes)
  demo<k>.scm / demo<k>.sh / demo<k>.c   the demonstration, self-contained, exit status 0 = property holds, non-zero = broken (state at the top how to run it)
  change<k>.md        what was changed, which clause of the property it breaks, what it needs in order to manifest, why the existing tests do not notice, and the exact commands you ran with their results (build ok, ctest summary line, demo exit status with and without the change)
Verify everything yourself: (a) with the change: builds, ctest passes (all but possibly the flaky weak-test), demo fails; (b) without: demo passes. If a candidate change makes an existing test fail, discard it and find a subtler one. Fewer, fully verified changes are better than three unverified ones.

When finished: `git -C {wt} checkout -- . ; git -C /repo worktree remove --force {wt}` (removes the worktree and its build), and reply with a short list of the changes delivered (one line each: file/site, what it needs to manifest, verified yes/no).

THE PROPERTY ({pid}):
{json.dumps(p, indent=1)}
""")
