#!/usr/bin/env python3
"""tools/runseeds.py seed...: run_seed on each, one summary line per seed"""
import json, subprocess, sys, os
ROOT = os.path.dirname(os.path.dirname(os.path.abspath(__file__)))
for s in sys.argv[1:]:
    r = subprocess.run([sys.executable, os.path.join(ROOT, "tools/run_seed.py"), os.path.join(ROOT, "seeded", s)], capture_output=True, text=True)
    try:
        d = json.load(open(os.path.join(ROOT, "seeded", s, "meta.json"))).get("caught_by") or {}
        rp = d.get("replay") if isinstance(d.get("replay"), dict) else {}
        print(s, "CAUGHT" if d.get("caught") else ("ERR " + d["error"][:80] if d.get("error") else "MISSED"), rp.get("signature") or ("no-failing-input" if d.get("caught") else ""), flush=True)
    except Exception as e:
        print(s, "runner-error", e, r.stderr[-200:], flush=True)
