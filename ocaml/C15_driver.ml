(* C15 line protocol.
   objects (one field, tokens separated by ','):
     i<hex>            immediate, unsigned raw word
     f<hex>            flonum, 64 bits
     b<+|->:<w.w.w>    bignum, sign and ALL allocated words (hex, low first)
     y<hexbytes>       bytevector ("y" alone = empty)
     s<off>:<len>:<hexbytes-of-store>   string
     m<hexbytes>       heap symbol
     p  followed by two objects;   v<n> followed by n objects
   requests:
     eqb <obj> <obj> <depth-hex> <bound-hex>   -> F | U | B<hex>
     equal <obj> <obj>                         -> 0|1
     eqv <obj> <obj>                           -> 0|1
     hash <obj> <bound-hex>                    -> hex
     shash <obj> <bound-hex>                   -> hex
     ohist <kind> <obj;obj;...> <ops>          -> per op: size/nbuckets/k:v,k:v/v,-,v  joined by '|'
     mhist <cls,cls,...> <ops>                 -> per op: size/k:v,k:v/v,-,v           joined by '|'
     geq <graph> <a> <b>                       -> <m> <s>: m = regenerated equiv? (0|1|U), s = SPEC bisim_dec (0|1)
     gmod <graph> <a> <b>                      -> <m>
     gtop <graph> <res: F | hex> <a> <b>   -> 0|1|U   whole (scheme base) equal? given the bounded pass's answer
   graph: nodes separated by ';', node i = i-th: P<a>.<d> | V<i>.<j>... ("V" = empty vector) | L<obj>
   ops (separated by ';'): s<k>:<v>  d<k>  c  u<k>:<d>  k  x   (decimal key index, hex value); c = continue on a copy and keep
   the original as `the other' table, k = keep a copy aside, x = swap the two; per op the dump of the current table and,
   after '&', of the other one; round 4: e = no-op (an update whose procedure raised), E<k> = update! without default
     cdel <kind> <keys> <cells> <k>    -> addresses (position in the given chain) of the chain after sexp_hash_table_delete
     crelink <kind> <keys> <b0|b1|..>  -> per new bucket the old spine addresses (numbered bucket by bucket) after the RELINKING regrow
     cregrow <kind> <keys> <b0|b1|..>  -> per new bucket the cells k:v after the functional regrow *)
open Model
open Common

let bytes_of_hex (h : string) : z list =
  let n = String.length h / 2 in
  List.init n (fun i -> z_of_hex (String.sub h (2 * i) 2))

let parse_obj (s : string) : obj =
  let toks = ref (String.split_on_char ',' s) in
  let next () = match !toks with t :: r -> toks := r; t | [] -> failwith "object: out of tokens" in
  let rec go () =
    let t = next () in
    let body = String.sub t 1 (String.length t - 1) in
    match t.[0] with
    | 'i' -> Imm (z_of_hex body)
    | 'f' -> Flo (z_of_hex body)
    | 'b' ->
        let sign = if body.[0] = '-' then z_of_hex "-1" else z_of_hex "1" in
        let ws = String.sub body 2 (String.length body - 2) in
        Big (sign, (if ws = "" then [] else List.map z_of_hex (String.split_on_char '.' ws)))
    | 'y' -> Byt (bytes_of_hex body)
    | 'm' -> Sym (bytes_of_hex body)
    | 's' ->
        (match String.split_on_char ':' body with
         | [o; l; h] -> Str (bytes_of_hex h, nat_of_int (int_of_string o), nat_of_int (int_of_string l))
         | _ -> failwith "string token")
    | 'p' -> let a = go () in let d = go () in Pair (a, d)
    | 'v' -> let n = int_of_string body in
        let rec many k = if k = 0 then [] else let x = go () in x :: many (k - 1) in
        Vec (many n)
    | _ -> failwith ("object token " ^ t) in
  let o = go () in
  if !toks <> [] then failwith "object: trailing tokens";
  o

let parse_ops (s : string) : hop list =
  if s = "_" || s = "" then [] else
  List.map (fun t ->
      let body = String.sub t 1 (String.length t - 1) in
      match t.[0] with
      | 's' -> (match String.split_on_char ':' body with
                | [k; v] -> HSet (nat_of_int (int_of_string k), z_of_hex v) | _ -> failwith "op s")
      | 'u' -> (match String.split_on_char ':' body with
                | [k; v] -> HUpd (nat_of_int (int_of_string k), z_of_hex v) | _ -> failwith "op u")
      | 'd' -> HDel (nat_of_int (int_of_string body))
      | 'c' -> HCopy
      | 'k' -> HKeep
      | 'x' -> HSwap
      | 'e' -> HNop
      | 'E' -> HUpdP (nat_of_int (int_of_string body))
      | _ -> failwith ("op " ^ t)) (String.split_on_char ';' s)

let str_alist l = String.concat "," (List.map (fun (k, v) -> string_of_int (int_of_nat k) ^ ":" ^ hex_of_z v) l)
let str_lookups l = String.concat "," (List.map (function None -> "-" | Some v -> hex_of_z v) l)
(* pointer-level chain requests (round 4): cells "k:v,k:v" ("-" = empty chain), buckets separated by '|' *)
let parse_cells (s : string) : (nat * z) list =
  if s = "-" || s = "" then [] else
  List.map (fun t -> match String.split_on_char ':' t with
      | [k; v] -> (nat_of_int (int_of_string k), z_of_hex v) | _ -> failwith "cell") (String.split_on_char ',' s)
let str_addrs l = if l = [] then "-" else String.concat "," (List.map (fun a -> string_of_int (int_of_nat a)) l)
let str_eres = function EFalse -> "F" | EFuel -> "U" | EBound b -> "B" ^ hex_of_z b

let parse_graph (s : string) : obj node list =
  List.map (fun t ->
      let body = String.sub t 1 (String.length t - 1) in
      let ids b = if b = "" then [] else List.map (fun x -> nat_of_int (int_of_string x)) (String.split_on_char '.' b) in
      match t.[0] with
      | 'P' -> (match ids body with [a; d] -> NPair (a, d) | _ -> failwith "node P")
      | 'V' -> NVec (ids body)
      | 'L' -> NLeaf (parse_obj body)
      | _ -> failwith ("node " ^ t)) (String.split_on_char ';' s)
let str_ob = function None -> "U" | Some true -> "1" | Some false -> "0"
let nat_s x = nat_of_int (int_of_string x)

let handle = function
  | ["geq"; g; a; b] -> let (m, sp) = q_geq (parse_graph g) (nat_s a) (nat_s b) in str_ob m ^ " " ^ (if sp then "1" else "0")
  | ["gmod"; g; a; b] -> str_ob (q_gmodel (parse_graph g) (nat_s a) (nat_s b))
  | ["gtop"; g; r; a; b] ->
      str_ob (q_gtop (parse_graph g) (if r = "F" then None else Some (z_of_hex r)) (nat_s a) (nat_s b))
  | ["eqb"; a; b; d; bd] -> str_eres (q_equal_bound (parse_obj a) (parse_obj b) (z_of_hex d) (z_of_hex bd))
  | ["equal"; a; b] -> string_of_bool (q_equal (parse_obj a) (parse_obj b))
  | ["eqv"; a; b] -> string_of_bool (q_eqv (parse_obj a) (parse_obj b))
  | ["hash"; a; bd] -> hex_of_z (q_hash (parse_obj a) (z_of_hex bd))
  | ["shash"; a; bd] -> hex_of_z (q_string_hash (parse_obj a) (z_of_hex bd))
  | ["ohist"; kind; keys; ops] ->
      let ks = List.map parse_obj (String.split_on_char ';' keys) in
      let r = obj_hist (nat_of_int (int_of_string kind)) ks (parse_ops ops) in
      String.concat "|" (List.map (fun st -> String.concat "&" (List.map (fun (((sz, nb), al), lk) ->
          hex_of_z sz ^ "/" ^ string_of_int (int_of_nat nb) ^ "/" ^ str_alist al ^ "/" ^ str_lookups lk) st)) r)
  | ["mhist"; cls; ops] ->
      let cs = List.map z_of_hex (String.split_on_char ',' cls) in
      let r = map_hist cs (parse_ops ops) in
      String.concat "|" (List.map (fun st -> String.concat "&" (List.map (fun ((sz, al), lk) ->
          hex_of_z sz ^ "/" ^ str_alist al ^ "/" ^ str_lookups lk) st)) r)
  | ["cdel"; kind; keys; cells; k] ->
      let ks = List.map parse_obj (String.split_on_char ';' keys) in
      (match q_chain_delete (nat_of_int (int_of_string kind)) ks (parse_cells cells) (nat_of_int (int_of_string k)) with
       | Some l -> str_addrs l | None -> "NONE")
  | ["crelink"; kind; keys; bs] ->
      let ks = List.map parse_obj (String.split_on_char ';' keys) in
      (match q_regrow_relink (nat_of_int (int_of_string kind)) ks (List.map parse_cells (String.split_on_char '|' bs)) with
       | Some l -> String.concat "|" (List.map str_addrs l) | None -> "NONE")
  | ["cregrow"; kind; keys; bs] ->
      let ks = List.map parse_obj (String.split_on_char ';' keys) in
      String.concat "|" (List.map str_alist (q_regrow_cells (nat_of_int (int_of_string kind)) ks (List.map parse_cells (String.split_on_char '|' bs))))
  | f -> "ERR unknown request " ^ String.concat " " f

let () = serve handle
