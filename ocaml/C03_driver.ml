(* C03 / C05 line-protocol driver around the extracted model.
   Requests (one per line, ASTs are s-expressions in the format of harness/embed_c03.c with
   names replaced by numbers):
     annot <ast>            -> the AST with every lambda's fv recomputed by the model
     code <ast>             -> compile_toplevel: (code (NAME operand..) ..)
     wf <ast>               -> 1 | 0
     restflags <ast>        -> ((id rest? unused?) ..) per lambda in preorder, by the model's rest_unused_p (set-vars first, then usedp)
     sem <fuel> <ast>..     -> V <value> | E <class> | OUT      (SPEC interpreter, whole program)
     vm <fuel> <ast>..      -> V <value> | E <class> | OUT      (model compiler + model VM)
     tail <ast>             -> C05: list of (tail? nargs) per general application, code order (spec side)
     calls <ast>            -> C05: the same list read off the generated code  *)
open Model
open Common

type sx = A of string | L of sx list

let tokenize (s : string) : string list =
  let toks = ref [] and buf = Buffer.create 16 in
  let flush () = if Buffer.length buf > 0 then (toks := Buffer.contents buf :: !toks; Buffer.clear buf) in
  String.iter (fun c -> match c with
    | '(' | ')' -> flush (); toks := String.make 1 c :: !toks
    | ' ' | '\t' | '\r' | '\n' -> flush ()
    | c -> Buffer.add_char buf c) s;
  flush ();
  List.rev !toks

let rec parse_one (toks : string list) : sx * string list =
  match toks with
  | [] -> failwith "parse: unexpected end"
  | "(" :: r -> let (items, r') = parse_list r [] in (L items, r')
  | ")" :: _ -> failwith "parse: unexpected )"
  | t :: r -> (A t, r)
and parse_list toks acc =
  match toks with
  | ")" :: r -> (List.rev acc, r)
  | [] -> failwith "parse: missing )"
  | _ -> let (x, r) = parse_one toks in parse_list r (x :: acc)

let rec parse_all toks = match toks with [] -> [] | _ -> let (x, r) = parse_one toks in x :: parse_all r

let nat_of_string s = nat_of_int (int_of_string s)
let name_of = function A n -> nat_of_string n | _ -> failwith "name"
let loc_of = function A "g" -> Global | A n -> Local (nat_of_string n) | _ -> failwith "loc"
(* (opq n) = the n-th uninterpreted constant of the program (string, char, flonum, bignum, vector, quoted pair);
   (node l) = a SEXP_LIT node of the AST holding l *)
let rec lit_of = function
  | L [A "int"; A z] -> LInt (z_of_int (int_of_string z))
  | L [A "bool"; A b] -> LBool (b = "1")
  | L [A "nil"] -> LNil | L [A "void"] -> LVoid | L [A "undef"] -> LUndef
  | L [A "sym"; A n] -> LSym (nat_of_string n)
  | L [A "opq"; A n] -> LOpaque (nat_of_string n)
  | L [A "node"; l] -> LNode (lit_of l)
  | _ -> failwith "unsupported literal"
let prim_of = function
  | "+" -> PAdd | "-" -> PSub | "*" -> PMul | "<" -> PLt | "<=" -> PLe | ">" -> PGt | ">=" -> PGe
  | "=" -> PEqn | "eq?" -> PEq | "cons" -> PCons | "car" -> PCar | "cdr" -> PCdr
  | "null?" -> PNullp | "pair?" -> PPairp | "not" -> PNot
  | s -> failwith ("unsupported primitive " ^ s)
let names_of = function L l -> List.map name_of l | _ -> failwith "names"
let rec ast_of (x : sx) : ast =
  match x with
  | L [A "lit"; l] -> Lit (lit_of l)
  | L [A "ref"; n; o] -> Ref (name_of n, loc_of o)
  | L [A "set"; n; o; v] -> SetV (name_of n, loc_of o, ast_of v)
  | L [A "cnd"; t; p; f] -> Cnd (ast_of t, ast_of p, ast_of f)
  | L (A "seq" :: es) -> Seq (List.map ast_of es)
  | L [A "lam"; id; ps; r; ls; sv; L fv; b] ->
      Lam (name_of id, names_of ps, (match r with A "#f" -> None | r -> Some (name_of r)), names_of ls, names_of sv,
           List.map (function L [n; o] -> (name_of n, loc_of o) | _ -> failwith "fv") fv, ast_of b)
  | L (A "app" :: f :: args) -> App (ast_of f, List.map ast_of args)
  | L (A "op" :: A p :: args) -> OpApp (prim_of p, List.map ast_of args)
  | _ -> failwith "unsupported ast node"

let si n = string_of_int (int_of_nat n)
let sz z = string_of_int (int_of_z z)
let rec pr_lit = function
  | LInt z -> "(int " ^ sz z ^ ")" | LBool b -> if b then "(bool 1)" else "(bool 0)"
  | LNil -> "(nil)" | LVoid -> "(void)" | LUndef -> "(undef)" | LSym n -> "(sym " ^ si n ^ ")"
  | LOpaque n -> "(opq " ^ si n ^ ")" | LNode l -> "(node " ^ pr_lit l ^ ")"
let pr_loc = function Global -> "g" | Local n -> si n
let pr_prim = function
  | PAdd -> "+" | PSub -> "-" | PMul -> "*" | PLt -> "<" | PLe -> "<=" | PGt -> ">" | PGe -> ">="
  | PEqn -> "=" | PEq -> "eq?" | PCons -> "cons" | PCar -> "car" | PCdr -> "cdr"
  | PNullp -> "null?" | PPairp -> "pair?" | PNot -> "not"
let pr_names l = "(" ^ String.concat " " (List.map si l) ^ ")"
let rec pr_ast = function
  | Lit l -> "(lit " ^ pr_lit l ^ ")"
  | Ref (n, o) -> "(ref " ^ si n ^ " " ^ pr_loc o ^ ")"
  | SetV (n, o, v) -> "(set " ^ si n ^ " " ^ pr_loc o ^ " " ^ pr_ast v ^ ")"
  | Cnd (t, p, f) -> "(cnd " ^ pr_ast t ^ " " ^ pr_ast p ^ " " ^ pr_ast f ^ ")"
  | Seq es -> "(seq " ^ String.concat " " (List.map pr_ast es) ^ ")"
  | Lam (id, ps, r, ls, sv, fv, b) ->
      "(lam " ^ si id ^ " " ^ pr_names ps ^ " " ^ (match r with None -> "#f" | Some x -> si x) ^ " " ^ pr_names ls
      ^ " " ^ pr_names sv ^ " (" ^ String.concat " " (List.map (fun (n, o) -> "(" ^ si n ^ " " ^ pr_loc o ^ ")") fv)
      ^ ") " ^ pr_ast b ^ ")"
  | App (f, args) -> "(app " ^ String.concat " " (List.map pr_ast (f :: args)) ^ ")"
  | OpApp (p, args) -> "(op " ^ String.concat " " (pr_prim p :: List.map pr_ast args) ^ ")"

let opname = function
  | PAdd -> "ADD" | PSub -> "SUB" | PMul -> "MUL" | PLt | PGt -> "LT" | PLe | PGe -> "LE" | PEqn -> "EQN"
  | PEq -> "EQ" | PCons -> "CONS" | PCar -> "CAR" | PCdr -> "CDR" | PNullp -> "NULL?" | PPairp -> "PAIR?"
  | PNot -> "NOT"
let rec pr_code c = "(code " ^ String.concat " " (List.map pr_instr c) ^ ")"
and pr_instr = function
  | IPush l -> "(PUSH " ^ pr_lit l ^ ")"
  | IPushProc (f, n, c) -> "(PUSH (proc " ^ si f ^ " " ^ si n ^ " " ^ pr_code c ^ "))"
  | IMakeProc (f, n, c) -> "(MAKE-PROCEDURE " ^ si f ^ " " ^ si n ^ " " ^ pr_code c ^ ")"
  | ILocalRef k -> "(LOCAL-REF " ^ sz k ^ ")" | ILocalSet k -> "(LOCAL-SET " ^ sz k ^ ")"
  | IClosureRef k -> "(CLOSURE-REF " ^ si k ^ ")"
  | IGlobalRef g -> "(GLOBAL-REF " ^ si g ^ ")" | IPushCell g -> "(PUSH (cell " ^ si g ^ "))"
  | ICdr -> "(CDR)" | ISetCdr -> "(SET-CDR)" | ICons -> "(CONS)" | IMakeVector -> "(MAKE-VECTOR)"
  | IStackRef k -> "(STACK-REF " ^ si k ^ ")" | IVectorSet -> "(VECTOR-SET)" | IDrop -> "(DROP)"
  | IJumpUnless n -> "(JUMP-UNLESS " ^ si n ^ ")" | IJump n -> "(JUMP " ^ si n ^ ")"
  | ICall n -> "(CALL " ^ si n ^ ")" | ITailCall n -> "(TAIL-CALL " ^ si n ^ ")"
  | IRet -> "(RET)" | IDone -> "(DONE)"
  | IPrim p -> "(" ^ opname p ^ ")"

let pr_err = function
  | ENotProc -> "not-procedure" | ENotEnoughArgs -> "not-enough-args" | ETooManyArgs -> "too-many-args"
  | EType -> "type" | EUndefGlobal -> "undefined-variable" | EStuck -> "STUCK"

(* VM values, following the heap; depth-limited *)
let rec pr_value (h : hobj list) (d : int) (v : value) : string =
  if d > 200 then "..." else
  match v with
  | VLit (LInt z) -> sz z | VLit (LBool b) -> if b then "#t" else "#f"
  | VLit LNil -> "()" | VLit LVoid -> "#<void>" | VLit LUndef -> "#<undef>" | VLit (LSym n) -> "sym:" ^ si n
  | VLit (LOpaque n) -> "opq:" ^ si n ^ ";" | VLit (LNode _) -> "#<literal-node>"
  | VPair a -> "(" ^ pr_vtail h d v ^ ")"
  | VVec _ -> "#<vector>" | VProc _ -> "#<procedure>" | VCell _ -> "#<cell>"
and pr_vtail h d v =
  match v with
  | VPair a ->
      (match List.nth_opt h (int_of_nat a) with
       | Some (HPair (x, y)) ->
           pr_value h (d + 1) x ^
           (match y with VLit LNil -> "" | VPair _ -> " " ^ pr_vtail h (d + 1) y | _ -> " . " ^ pr_value h (d + 1) y)
       | _ -> "#<bad-pair>")
  | _ -> pr_value h d v

let rec pr_sval (v : sval) : string =
  match v with
  | SLit (LInt z) -> sz z | SLit (LBool b) -> if b then "#t" else "#f"
  | SLit LNil -> "()" | SLit LVoid -> "#<void>" | SLit LUndef -> "#<undef>" | SLit (LSym n) -> "sym:" ^ si n
  | SLit (LOpaque n) -> "opq:" ^ si n ^ ";" | SLit (LNode _) -> "#<literal-node>"
  | SPair _ -> "(" ^ pr_stail v ^ ")"
  | SClo _ -> "#<procedure>"
and pr_stail v =
  match v with
  | SPair (x, y) -> pr_sval x ^ (match y with SLit LNil -> "" | SPair _ -> " " ^ pr_stail y | _ -> " . " ^ pr_sval y)
  | _ -> pr_sval v

let asts_of_fields fields = List.map ast_of (parse_all (tokenize (String.concat " " fields)))
let one fields = match asts_of_fields fields with [a] -> a | _ -> failwith "expected one ast"

(* (id rest? unused?) of every lambda, preorder: the model's [rest_unused_p] (the function of theorems
   rest_unused_sound_with_set_vars / unused_rest_prologue_never_boxes_rest_slot) on the same tree the harness asked the real sexp_rest_unused_p about *)
let rec rest_flags (e : ast) : string list =
  match e with
  | Lit _ | Ref _ -> []
  | SetV (_, _, v) -> rest_flags v
  | Cnd (t, p, f) -> rest_flags t @ rest_flags p @ rest_flags f
  | Seq es -> List.concat_map rest_flags es
  | Lam (id, _, r, _, sv, _, b) ->
      ("(" ^ si id ^ " " ^ (match r with None -> "0" | Some _ -> "1") ^ " "
       ^ (if rest_unused_p true id r sv b then "1" else "0") ^ ")") :: rest_flags b
  | App (f, args) -> rest_flags f @ List.concat_map rest_flags args
  | OpApp (_, args) -> List.concat_map rest_flags args

let handle = function
  | "restflags" :: rest -> "(" ^ String.concat " " (rest_flags (one rest)) ^ ")"
  | "annot" :: rest -> pr_ast (annotate (one rest))
  | "code" :: rest -> pr_code (compile_toplevel (one rest))
  | "wf" :: rest -> string_of_bool (wf_program (one rest))
  | "sem" :: fuel :: rest ->
      (match eval_program (nat_of_int (int_of_string fuel)) (asts_of_fields rest) { cells = []; sglobals = [] } with
       | SVal (v, _) -> "V " ^ pr_sval v | SErr e -> "E " ^ pr_err e | SOut -> "OUT")
  | "vm" :: fuel :: rest ->
      (match run_program (nat_of_int (int_of_string fuel)) (asts_of_fields rest) [] [] with
       | Done (v, s) -> "V " ^ pr_value s.heap 0 v | Error e -> "E " ^ pr_err e | OutOfFuel -> "OUT")
  | f -> "ERR unknown request " ^ String.concat " " f

let () = serve handle
