(* C17 line protocol.  A number is  f<signed hex>  (fixnum)  or  b<sign>:<words>  (bignum: sign 1|-1,
   words comma separated hex, low word first).  harness/embed_c17.c prints the same syntax. *)
open Model
open Common

let num_of (s : string) : num =
  if String.length s = 0 then failwith "empty number"
  else if s.[0] = 'f' then Fix (z_of_hex (String.sub s 1 (String.length s - 1)))
  else if s.[0] = 'b' then
    (match String.split_on_char ':' (String.sub s 1 (String.length s - 1)) with
     | [sg; ws] -> Big (z_of_hex sg, zlist_of_string ws)
     | _ -> failwith ("bad bignum " ^ s))
  else failwith ("bad number " ^ s)

let string_of_num = function
  | Fix z -> "f" ^ hex_of_z z
  | Big (s, ws) -> "b" ^ hex_of_z s ^ ":" ^ string_of_zlist ws

let string_of_res = function
  | Val z -> "V " ^ hex_of_z z
  | Bool b -> "B " ^ string_of_bool b
  | Undefined -> "UNDEF"


(* the definitions REGENERATED from lib/srfi/151/bitwise.scm (coq/Gen/C17_Bitwise.v), evaluated on the same arguments as the
   real library: validates the translator.  Fuelled loops get far more fuel than any field width / length used. *)
let fuel = nat_of_int 100000
let z_is_zero = function Z0 -> true | _ -> false
let vz z = "V " ^ hex_of_z z
let vb b = "B " ^ string_of_bool b
let vo = function Some z -> vz z | None -> "FUEL"
let bools_of (l : z list) = List.map (fun x -> not (z_is_zero x)) l
let string_of_bools l = "L " ^ String.concat "" (List.map (fun b -> if b then "1" else "0") l)
let gen name (a : z list) : string =
  match name, a with
  | "bitwise-not", [i] -> vz (s_bitwise_not i)
  | "bitwise-and", l -> vz (s_bitwise_and l)
  | "bitwise-ior", l -> vz (s_bitwise_ior l)
  | "bitwise-xor", l -> vz (s_bitwise_xor l)
  | "bitwise-eqv", l -> vz (s_bitwise_eqv l)
  | "bitwise-nand", l -> vz (s_bitwise_nand l)
  | "bitwise-nor", l -> vz (s_bitwise_nor l)
  | "bitwise-andc1", [i; j] -> vz (s_bitwise_andc1 i j)
  | "bitwise-andc2", [i; j] -> vz (s_bitwise_andc2 i j)
  | "bitwise-orc1", [i; j] -> vz (s_bitwise_orc1 i j)
  | "bitwise-orc2", [i; j] -> vz (s_bitwise_orc2 i j)
  | "any-bit-set?", [t; i] -> vb (s_any_bit_set_p t i)
  | "every-bit-set?", [t; i] -> vb (s_every_bit_set_p t i)
  | "first-set-bit", [i] -> vz (s_first_set_bit i)
  | "bitwise-if", [m; i; j] -> vz (s_bitwise_if m i j)
  | "bit-field", [n; s; e] -> vz (s_bit_field n s e)
  | "bit-field-any?", [n; s; e] -> vb (s_bit_field_any_p n s e)
  | "bit-field-every?", [n; s; e] -> vb (s_bit_field_every_p n s e)
  | "bit-field-clear", [n; s; e] -> vz (s_bit_field_clear n s e)
  | "bit-field-set", [n; s; e] -> vz (s_bit_field_set n s e)
  | "bit-field-replace", [d; r; s; e] -> vz (s_bit_field_replace d r s e)
  | "bit-field-replace-same", [d; r; s; e] -> vz (s_bit_field_replace_same d r s e)
  | "bit-field-rotate", [n; c; s; e] -> vz (s_bit_field_rotate n c s e)
  | "bit-field-reverse", [i; s; e] -> vo (s_bit_field_reverse fuel i s e)
  | "copy-bit", [idx; i; b] -> vz (s_copy_bit idx i (not (z_is_zero b)))
  | "bit-swap", [i1; i2; i] -> vz (s_bit_swap i1 i2 i)
  | "bits->list", n :: o -> (match s_bits_to_list fuel n o with Some l -> string_of_bools l | None -> "FUEL")
  | "bits->vector", n :: o -> (match s_bits_to_vector fuel n o with Some l -> string_of_bools l | None -> "FUEL")
  | "list->bits", l -> vo (s_list_to_bits fuel (bools_of l))
  | "vector->bits", l -> vo (s_vector_to_bits fuel (bools_of l))
  | "bits", l -> vo (s_bits fuel (bools_of l))
  | "bitwise-fold", [i] -> (match s_bitwise_fold fuel (fun b acc -> b :: acc) [] i with Some l -> string_of_bools l | None -> "FUEL")
  | "generator", [i; k] ->
      let rec go st n acc = if n = 0 then List.rev acc else
        let (b, st') = s_make_bitwise_generator_step st in go st' (n - 1) (b :: acc) in
      string_of_bools (go i (int_of_z k) [])
  | _ -> "ERR unknown generated definition " ^ name

let handle = function
  | ["and"; x; y] -> string_of_num (bit_and (num_of x) (num_of y))
  | ["ior"; x; y] -> string_of_num (bit_ior (num_of x) (num_of y))
  | ["xor"; x; y] -> string_of_num (bit_xor (num_of x) (num_of y))
  | ["shift"; x; c] -> string_of_num (arithmetic_shift (num_of x) (z_of_hex c))
  | ["count"; x] -> string_of_num (bit_count (num_of x))
  | ["length"; x] -> string_of_num (integer_length (num_of x))
  | ["bitset"; i; x] -> string_of_bool (bit_set_p (z_of_hex i) (num_of x))
  | ["bcw"; w] -> hex_of_z (bit_count_w (z_of_hex w))
  | ["ilog2"; w] -> hex_of_z (integer_log2 (z_of_hex w))
  | "spec" :: op :: args -> string_of_res (spec (nat_of_int (int_of_string op)) (List.map z_of_hex args))
  | "gen" :: name :: args -> gen name (List.map z_of_hex args)
  | f -> "ERR unknown request " ^ String.concat " " f

let () = serve handle
