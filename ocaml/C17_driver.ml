(* C17 line protocol.  A number is  f<signed hex>  (fixnum)  or  b<sign>:<words>  (bignum: sign 1|-1,
   words comma separated hex, low word first).  harness/embed_c17.c prints the same syntax. *)
open Model
open Common

let num_of (s : string) : num =
  if String.length s = 0 then failwith "empty number"
  else if s.[0] = 'f' then Fix (z_of_hex (String.sub s 1 (String.length s - 1)))
  else if s.[0] = 'b' then
    (match String.split_on_char ':' (String.sub s 1 (String.length s - 1)) with
     | [sg; ws] -> Big (z_of_hex sg, zlist_of_string ws)
     | _ -> failwith ("bad bignum " ^ s))
  else failwith ("bad number " ^ s)

let string_of_num = function
  | Fix z -> "f" ^ hex_of_z z
  | Big (s, ws) -> "b" ^ hex_of_z s ^ ":" ^ string_of_zlist ws

let string_of_res = function
  | Val z -> "V " ^ hex_of_z z
  | Bool b -> "B " ^ string_of_bool b
  | Undefined -> "UNDEF"

let handle = function
  | ["and"; x; y] -> string_of_num (bit_and (num_of x) (num_of y))
  | ["ior"; x; y] -> string_of_num (bit_ior (num_of x) (num_of y))
  | ["xor"; x; y] -> string_of_num (bit_xor (num_of x) (num_of y))
  | ["shift"; x; c] -> string_of_num (arithmetic_shift (num_of x) (z_of_hex c))
  | ["count"; x] -> string_of_num (bit_count (num_of x))
  | ["length"; x] -> string_of_num (integer_length (num_of x))
  | ["bitset"; i; x] -> string_of_bool (bit_set_p (z_of_hex i) (num_of x))
  | ["bcw"; w] -> hex_of_z (bit_count_w (z_of_hex w))
  | ["ilog2"; w] -> hex_of_z (integer_log2 (z_of_hex w))
  | "spec" :: op :: args -> string_of_res (spec (nat_of_int (int_of_string op)) (List.map z_of_hex args))
  | f -> "ERR unknown request " ^ String.concat " " f

let () = serve handle
