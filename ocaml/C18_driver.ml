open Model
open Common

let b s = s = "1"
let opt f = function Some l -> f l | None -> "NONE"
let zl = string_of_zlist

(* ---------------------------------------------------------------- container histories *)
let zi = z_of_int
let iz = int_of_z
let ni = nat_of_int
let s_int x = string_of_int (iz x)
let dump_list l = "[" ^ String.concat " " (List.map s_int l) ^ "]"
let dump_alist l = "[" ^ String.concat " " (List.map (fun (k, v) -> s_int k ^ ":" ^ s_int v) l) ^ "]"
let bs x = if x then "#t" else "#f"
let len l = List.length l
let pmod a m = ((a mod m) + m) mod m

type value = L of z list | P of (z * z) list | T of tree | D of z dq | R of z ralist | M of rbt
type res = V of value | Q of string
(* the model's tree of an iset, printed like harness/c18_hist.scm iset-shape *)
let rec shape = function
  | Nil -> "_"
  | Node (s, e, bits, l, r) ->
    "(" ^ s_int s ^ " " ^ s_int e ^ " " ^ (match bits with Some b -> hex_of_z b | None -> "#f") ^ " " ^ shape l ^ " " ^ shape r ^ ")"
let some = function Some x -> x | None -> failwith "the model reports an error (a Scheme error on this input)"
let ion = int_of_nat
let spaced l = String.concat " " (List.map s_int l)
let mark ok name = if ok then "" else name
let zeq a b = iz a = iz b
let zplus a b = zi (iz a + iz b)
let rec last_of = function [x] -> Some x | _ :: l -> last_of l | [] -> None
(* SRFI 134 inside the model (coq/C18/Deque.v): the record like harness/c18_hist.scm dump-deque; the marks apply the
   model's own observers to the model's own listing (theorem dq_observers_refine_lists: never printed) *)
let dq_shape (d : z dq) = "(" ^ string_of_int (ion d.lenf) ^ ":" ^ spaced d.fr ^ ":" ^ string_of_int (ion d.lenr) ^ ":" ^ spaced d.rr ^ ")"
let dq_marks (d : z dq) =
  let l = dq_to_list d in
  let n = List.length l in
  let yes _ = true in
  mark (ion (dq_length d) = n) "!len" ^ mark (dq_is_empty d = (n = 0)) "!empty"
  ^ (if n = 0 then "" else
       mark (dq_front d = Some (List.hd l)) "!front" ^ mark (dq_back d = last_of l) "!back"
       ^ mark (dq_to_list (some (dq_remove_front d)) = List.tl l) "!remf"
       ^ mark (dq_to_list (some (dq_remove_back d)) = seq_remove_back l) "!remb"
       ^ mark (dq_ref d (ni 0) = Some (List.hd l)) "!ref0" ^ mark (dq_ref d (ni (n - 1)) = last_of l) "!reflast"
       ^ mark (dq_ref d (ni (n / 2)) = Some (List.nth l (n / 2))) "!refmid"
       ^ mark (dq_find yes d = Some (List.hd l)) "!find" ^ mark (dq_find_right yes d = last_of l) "!findr")
  ^ mark (dq_fold (fun x acc -> x :: acc) [] d = List.rev l) "!fold" ^ mark (dq_fold_right (fun x acc -> x :: acc) [] d = l) "!foldr"
  ^ mark (ion (dq_count yes d) = n) "!count" ^ mark (dq_for_each_order d = l) "!foreach" ^ mark (dq_for_each_right_order d = List.rev l) "!foreachr"
  ^ mark (dq_drain (ni n) d = Some l) "!generator" ^ mark (dq_to_list (dq_reverse d) = List.rev l) "!reverse"
  ^ mark (dq_equal zeq d (dq_of_list l)) "!eqlist"
(* SRFI 101 inside the model (coq/C18/RaList.v): cached sizes / listing by car+cdr / the model's own marks *)
let ra_listing (v : z ralist) = some (ra_to_list (ra_length v) v)
let ra_marks (v : z ralist) =
  let l = ra_listing v in
  let n = List.length l in
  let c = ra_of_list l and m = some (ra_make_list (ni n) (zi 0)) in
  mark (ion (ra_length v) = n) "!len" ^ mark (ra_flat v = l) "!flat" ^ mark (ra_equal zeq v c) "!equal"
  ^ mark (match ra_map2 zplus v m with Some r -> ra_flat r = l | None -> false) "!map2mk"
  ^ mark (match ra_map2 zplus m v with Some r -> ra_flat r = l | None -> false) "!map2mk'"
  ^ mark (match ra_map3 (fun x y z -> zplus x (zplus y z)) c v m with Some r -> ra_flat r = List.map (fun x -> zplus x x) l | None -> false) "!map3"
  ^ mark (ra_for_each2 zplus v m = Some l) "!foreach2"
  ^ mark (List.for_all (fun i -> ra_list_ref v (ni i) = Some (List.nth l i)) (List.init (min n 40) (fun i -> i))) "!ref"
(* SRFI 146 mapping inside the model (coq/C18/RBTree.v): the tree printed like harness/c18_hist.scm rb-shape; the marks apply the
   model's own observers to the model's own listing (theorems of RBContent.v: never printed) *)
let rec rb_shape = function
  | Lf Black -> "B" | Lf White -> "W" | Lf Red -> "R"
  | Nd (c, l, (k, v), r) ->
    "(" ^ (match c with Red -> "r" | Black -> "b" | White -> "w") ^ " " ^ s_int k ^ ":" ^ s_int v ^ " " ^ rb_shape l ^ " " ^ rb_shape r ^ ")"
let rec rb_bh = function          (* like harness/c18_hist.scm rb-bh *)
  | Lf Black -> Some 0 | Lf _ -> None
  | Nd (White, _, _, _) -> None
  | Nd (c, l, _, r) ->
    let col = function Lf c -> c | Nd (c, _, _, _) -> c in
    (match rb_bh l, rb_bh r with
     | Some hl, Some hr when hl = hr && (c = Black || (col l = Black && col r = Black)) -> Some (if c = Black then hl + 1 else hl)
     | _ -> None)
let rb_marks m =
  let l = some (mapping_to_alist m) in
  mark ((match m with Lf Black | Nd (Black, _, _, _) -> true | _ -> false) && rb_bh m <> None) "!rbinv"
  ^ mark (iz (some (mapping_size m)) = List.length l) "!s"
  ^ String.concat "" (List.map (fun (k, v) -> mark (mapping_ref m k = Some (Some v)) ("!r" ^ s_int k)) l)
let dump = function L l -> dump_list l | P l -> dump_alist l | T t -> shape t ^ "/" ^ dump_list (to_list t)
                    | M m -> "(rb " ^ rb_shape m ^ ")/" ^ dump_alist (some (mapping_to_alist m)) ^ rb_marks m
                    | D d -> dq_shape d ^ "/" ^ dump_list (dq_to_list d) ^ dq_marks d
                    | R v -> "(" ^ String.concat " " (List.map (fun s -> string_of_int (ion s)) (ra_sizes v)) ^ ")/" ^ dump_list (ra_listing v) ^ ra_marks v
let gl = function L l -> l | _ -> failwith "expected a list version"
let gp = function P l -> l | _ -> failwith "expected an alist version"
let gt = function T t -> t | _ -> failwith "expected a tree version"
let gd = function D d -> d | _ -> failwith "expected a deque version"
let gr = function R r -> r | _ -> failwith "expected a random-access list version"
let gm = function M m -> m | _ -> failwith "expected a mapping version"
let iota n x = List.init n (fun i -> zi (x + i))
(* the predicate (k, t) of harness/c18_hist.scm pred-of *)
let pred k t : z -> bool = fun y ->
  let yi = iz y in
  match pmod k 5 with
  | 0 -> pmod yi (2 + (abs t) mod 2) = 0
  | 1 -> yi < t
  | 2 -> yi >= t
  | 3 -> yi <> t
  | _ -> yi = t

(* SRFI 134: the versions are the model's records (coq/C18/Deque.v), one model call per operation *)
let deque_step op (a : int array) (vs : value array) : res =
  let v k = gd vs.(a.(k)) and x k = zi a.(k) in
  let vd d = V (D d) in
  let n0 () = ion (dq_length (v 0)) in
  let pos k = ni (pmod a.(k) (n0 () + 1)) in
  let p () = pred a.(1) a.(2) in
  let inc y = zi (iz y + 1) in
  let opt = function Some r -> s_int r | None -> "-" in
  let guard f = if dq_is_empty (v 0) then Q "-" else Q (s_int (some (f ()))) in
  match op with
  | "addf" -> vd (dq_add_front (v 0) (x 1))
  | "addb" -> vd (dq_add_back (v 0) (x 1))
  | "remf" -> if dq_is_empty (v 0) then vd (v 0) else vd (some (dq_remove_front (v 0)))
  | "remb" -> if dq_is_empty (v 0) then vd (v 0) else vd (some (dq_remove_back (v 0)))
  | "take" -> vd (some (dq_take (v 0) (pos 1)))
  | "drop" -> vd (some (dq_drop (v 0) (pos 1)))
  | "taker" -> vd (some (dq_take_right (v 0) (pos 1)))
  | "dropr" -> vd (some (dq_drop_right (v 0) (pos 1)))
  | "splita" -> vd (fst (some (dq_split_at (v 0) (pos 1))))
  | "splitb" -> vd (snd (some (dq_split_at (v 0) (pos 1))))
  | "append" -> vd (dq_append (v 0) (v 1))
  | "append3" -> vd (dq_append_all [v 0; v 1; v 2])
  | "reverse" -> vd (dq_reverse (v 0))
  | "map1" -> vd (dq_map inc (v 0))
  | "filter" -> vd (dq_filter (fun y -> pmod (iz y) a.(1) = 0) (v 0))
  | "filterp" -> vd (dq_filter (p ()) (v 0))
  | "removep" -> vd (dq_remove (p ()) (v 0))
  | "parta" -> vd (fst (dq_partition (p ()) (v 0)))
  | "partb" -> vd (snd (dq_partition (p ()) (v 0)))
  | "takew" -> vd (dq_take_while (p ()) (v 0))
  | "dropw" -> vd (dq_drop_while (p ()) (v 0))
  | "takewr" -> vd (dq_take_while_right (p ()) (v 0))
  | "dropwr" -> vd (dq_drop_while_right (p ()) (v 0))
  | "spana" -> vd (fst (dq_span (p ()) (v 0)))
  | "spanb" -> vd (snd (dq_span (p ()) (v 0)))
  | "breaka" -> vd (fst (dq_break (p ()) (v 0)))
  | "breakb" -> vd (snd (dq_break (p ()) (v 0)))
  | "filtermap" -> let q = p () in vd (dq_filter_map (fun y -> if q y then Some (inc y) else None) (v 0))
  | "appendmap" -> let q = p () and big = n0 () > 60 in vd (dq_append_map (fun y -> if q y && not big then [y; y] else [y]) (v 0))
  | "zip" -> vd (dq_map (fun (y, z) -> zplus y z) (dq_zip2 (v 0) (v 1)))
  | "oflist" -> vd (dq_of_list [x 0; x 1; x 2])
  | "ofn" | "ofgen" | "unfold" -> vd (dq_of_list (iota (pmod a.(0) 100) a.(1)))
  | "unfoldr" -> vd (dq_of_list (List.rev (iota (pmod a.(0) 100) a.(1))))
  | "tab" -> vd (dq_tabulate (ni (pmod a.(0) 100)) (fun i -> zi (ion i + a.(1))))
  | "front" -> guard (fun () -> dq_front (v 0))
  | "back" -> guard (fun () -> dq_back (v 0))
  | "ref" -> guard (fun () -> dq_ref (v 0) (ni (pmod a.(1) (n0 ()))))
  | "len" -> Q (string_of_int (n0 ()))
  | "sum" -> Q (s_int (dq_fold zplus (zi 0) (v 0)))
  | "empty" -> Q (bs (dq_is_empty (v 0)))
  | "eq" -> Q (bs (dq_equal zeq (v 0) (v 1)))
  | "anyp" -> Q (bs (dq_any (p ()) (v 0)))
  | "everyp" -> Q (bs (dq_every (p ()) (v 0)))
  | "findp" -> Q (opt (dq_find (p ()) (v 0)))
  | "findrp" -> Q (opt (dq_find_right (p ()) (v 0)))
  | "countp" -> Q (string_of_int (ion (dq_count (p ()) (v 0))))
  | _ -> failwith ("unknown deque op " ^ op)

(* SRFI 101: the versions are the model's kons chains (coq/C18/RaList.v) *)
let ra_step op (a : int array) (vs : value array) : res =
  let v k = gr vs.(a.(k)) and x k = zi a.(k) in
  let vr r = V (R r) in
  let len k = ion (ra_length (v k)) in
  let inc y = zi (iz y + 1) in
  match op with
  | "cons" -> vr (ra_cons (x 1) (v 0))
  | "cdr" -> if v 0 = [] then vr (v 0) else vr (some (ra_cdr (v 0)))
  | "set" -> if v 0 = [] then vr (v 0) else vr (some (ra_list_set (v 0) (ni (pmod a.(1) (len 0))) (x 2)))
  | "refupd" -> if v 0 = [] then vr (v 0) else vr (snd (some (ra_list_ref_update (v 0) (ni (pmod a.(1) (len 0))) inc)))
  | "tail" -> vr (some (ra_list_tail (v 0) (ni (pmod a.(1) (len 0 + 1)))))
  | "append" -> vr (ra_append (v 0) (v 1))
  | "append3" -> vr (ra_append (v 0) (ra_append (v 1) (v 2)))
  | "reverse" -> vr (ra_reverse (v 0))
  | "map1" -> vr (ra_map inc (v 0))
  | "map2" -> let n = min (len 0) (len 1) in
    let p = some (ra_list_tail (v 0) (ni (len 0 - n))) and q = some (ra_list_tail (v 1) (ni (len 1 - n))) in
    vr (some (ra_map2 zplus p q))
  | "oflist" -> vr (ra_of_list [x 0; x 1; x 2])
  | "mklist" -> vr (some (ra_make_list (ni (pmod a.(0) 300)) (x 1)))
  | "listn" | "ofn" -> vr (ra_of_list (iota (pmod a.(0) 300) a.(1)))
  | "car" -> if v 0 = [] then Q "-" else Q (s_int (some (ra_car (v 0))))
  | "ref" -> if v 0 = [] then Q "-" else Q (s_int (some (ra_list_ref (v 0) (ni (pmod a.(1) (len 0))))))
  | "len" -> Q (string_of_int (len 0))
  | "equal" -> Q (bs (ra_equal zeq (v 0) (v 1)))
  | _ -> failwith ("unknown ra op " ^ op)

(* (chibi iset) inside the model (coq/C18/ISet.v): the versions are the model's trees *)
let isett_step op (a : int array) (vs : value array) : res =
  let v k = gt vs.(a.(k)) and x k = zi a.(k) in
  let vt t = V (T t) in
  match op with
  | "adjoin" | "adjoinx" -> vt (adjoin1 (v 0) (x 1))
  | "adjoin2" -> vt (adjoin_list (v 0) [x 1; x 2])
  | "delete" | "deletex" -> vt (delete1 (v 0) (x 1))
  | "union" | "unionx" -> vt (union2 (v 0) (v 1))
  | "inter" | "interx" -> vt (some (intersection2 (v 0) (v 1)))
  | "diff" | "diffx" -> vt (some (difference2 (v 0) (v 1)))
  | "copy" -> vt (v 0)
  | "oflist" -> vt (adjoin_list make_iset0 [x 0; x 1; x 2])
  | "has" -> Q (bs (contains (v 0) (x 1)))
  | "size" -> Q (s_int (iset_size (v 0)))
  | "sum" -> Q (s_int (zsum (to_list (v 0))))
  | "empty" -> Q (bs (is_empty (v 0)))
  | _ -> failwith ("unknown isett op " ^ op)

let set_step op (a : int array) (vs : value array) : res =
  let v k = gl vs.(a.(k)) and x k = zi a.(k) in
  let vl l = V (L l) in
  match op with
  | "adjoin" | "adjoinx" -> vl (set_adjoin (x 1) (v 0))
  | "adjoin2" -> vl (set_adjoin (x 2) (set_adjoin (x 1) (v 0)))
  | "delete" | "deletex" -> vl (set_delete (x 1) (v 0))
  | "delete2" -> vl (set_delete (x 2) (set_delete (x 1) (v 0)))
  | "union" | "unionx" -> vl (set_union (v 0) (v 1))
  | "inter" | "interx" -> vl (set_inter (v 0) (v 1))
  | "diff" | "diffx" -> vl (set_diff (v 0) (v 1))
  | "xor" | "xorx" -> vl (set_xor (v 0) (v 1))
  | "filter" -> vl (set_filter_mod (x 1) (v 0))
  | "remove" -> vl (set_remove_mod (x 1) (v 0))
  | "maphalf" -> vl (set_map_half (v 0))
  | "copy" -> vl (v 0)
  | "oflist" -> vl (set_of_list [x 0; x 1; x 2])
  | "has" -> Q (bs (set_mem (x 1) (v 0)))
  | "size" -> Q (string_of_int (len (v 0)))
  | "subset" -> Q (bs (set_subset (v 0) (v 1)))
  | "psubset" -> Q (bs (set_subset (v 0) (v 1) && not (set_equal (v 0) (v 1))))
  | "equal" -> Q (bs (set_equal (v 0) (v 1)))
  | "disjoint" -> Q (bs (set_disjoint (v 0) (v 1)))
  | "countmod" -> Q (string_of_int (len (set_filter_mod (x 1) (v 0))))
  | "sum" -> Q (s_int (zsum (v 0)))
  | "empty" -> Q (bs (v 0 = []))
  | _ -> failwith ("unknown set op " ^ op)

let bag_step op a vs =
  let v k = gp vs.(a.(k)) and x k = zi a.(k) in
  let vp l = V (P l) in
  match op with
  | "adjoin" -> vp (bag_incr (x 1) (zi 1) (v 0))
  | "incr" -> vp (bag_incr (x 1) (x 2) (v 0))
  | "decr" -> vp (bag_incr (x 1) (zi (- a.(2))) (v 0))
  | "union" -> vp (bag_union (v 0) (v 1))
  | "inter" -> vp (bag_inter (v 0) (v 1))
  | "sum" -> vp (bag_sum (v 0) (v 1))
  | "diff" -> vp (bag_diff (v 0) (v 1))
  | "copy" -> vp (v 0)
  | "oflist" -> vp (bag_of_list [x 0; x 1; x 2])
  | "count" -> Q (s_int (bag_count (x 1) (v 0)))
  | "size" -> Q (s_int (bag_size (v 0)))
  | "usize" -> Q (string_of_int (len (v 0)))
  | "has" -> Q (bs (iz (bag_count (x 1) (v 0)) > 0))
  | "empty" -> Q (bs (v 0 = []))
  | _ -> failwith ("unknown bag op " ^ op)

(* SRFI 146 mappings: the versions are the model's red-black trees (coq/C18/RBTree.v), one model call per operation *)
let rbmap_step op (a : int array) (vs : value array) : res =
  let v k = gm vs.(a.(k)) and x k = zi a.(k) in
  let vm o = V (M (some o)) in
  match op with
  | "set" | "setx" -> vm (mapping_set (v 0) (x 1) (x 2))
  | "adjoin" -> vm (mapping_adjoin (v 0) (x 1) (x 2))
  | "replace" -> vm (mapping_replace (v 0) (x 1) (x 2))
  | "delete" -> vm (mapping_delete (v 0) (x 1))
  | "delete2" -> vm (mapping_delete_all (v 0) [x 1; x 2])
  | "bump" -> vm (mapping_update (v 0) (x 1) (fun y -> zi (iz y + 1)) (x 2))
  | "union" -> vm (mapping_union (v 0) (v 1))
  | "inter" -> vm (mapping_intersection (v 0) (v 1))
  | "diff" -> vm (mapping_difference (v 0) (v 1))
  | "xor" -> vm (mapping_xor (v 0) (v 1))
  | "filter" -> vm (mapping_filter (fun k _ -> Some (pmod (iz k) a.(1) = 0)) (v 0))
  | "copy" -> V (M (v 0))
  | "ref" -> Q (match some (mapping_ref (v 0) (x 1)) with Some r -> s_int r | None -> "-")
  | "has" -> Q (bs (some (mapping_contains (v 0) (x 1))))
  | "size" -> Q (s_int (some (mapping_size (v 0))))
  | "sumv" -> Q (s_int (some (tree_fold (fun _ v acc -> zplus v acc) (zi 0) (v 0))))
  | "keys" -> Q (dump_list (some (mapping_keys (v 0))))
  | "empty" -> Q (bs (some (mapping_empty (v 0))))
  | _ -> failwith ("unknown map op " ^ op)

let map_step op a vs =
  let v k = gp vs.(a.(k)) and x k = zi a.(k) in
  let vp l = V (P l) in
  match op with
  | "set" | "setx" -> vp (map_set (x 1) (x 2) (v 0))
  | "adjoin" -> vp (map_adjoin (x 1) (x 2) (v 0))
  | "replace" -> vp (map_replace (x 1) (x 2) (v 0))
  | "delete" -> vp (map_delete (x 1) (v 0))
  | "delete2" -> vp (map_delete (x 2) (map_delete (x 1) (v 0)))
  | "bump" -> vp (map_bump (x 1) (x 2) (v 0))
  | "union" -> vp (map_union (v 0) (v 1))
  | "inter" -> vp (map_inter (v 0) (v 1))
  | "diff" -> vp (map_diff (v 0) (v 1))
  | "xor" -> vp (map_xor (v 0) (v 1))
  | "filter" -> vp (map_filter_mod (x 1) (v 0))
  | "copy" -> vp (v 0)
  | "rlt" -> vp (map_range_lt (x 1) (v 0))
  | "rle" -> vp (map_range_le (x 1) (v 0))
  | "rgt" -> vp (map_range_gt (x 1) (v 0))
  | "rge" -> vp (map_range_ge (x 1) (v 0))
  (* mapping-catenate (range< m x) x val (range> m x) = the mapping with x set to val *)
  | "cat" -> vp (map_set (x 1) (x 2) (v 0))
  (* mapping-catenate of the part of v0 below x and the part of v1 above x around the pivot x *)
  | "cat2" -> vp (map_set (x 2) (x 3) (map_range_lt (x 2) (v 0) @ map_range_gt (x 2) (v 1)))
  | "ref" -> Q (match map_ref (x 1) (v 0) with Some r -> s_int r | None -> "-")
  | "has" -> Q (bs (map_has (x 1) (v 0)))
  | "size" -> Q (string_of_int (len (v 0)))
  | "sumv" -> Q (s_int (zsum (List.map snd (v 0))))
  | "keys" -> Q (dump_list (List.map fst (v 0)))
  | "empty" -> Q (bs (v 0 = []))
  | _ -> failwith ("unknown map op " ^ op)

(* random-access lists, deques, SRFI 1 lists, SRFI 133 vectors: all sequences *)
let seq_step fam op a vs =
  let v k = gl vs.(a.(k)) and x k = zi a.(k) in
  let vl l = V (L l) in
  let n0 () = len (v 0) in
  let pos k = pmod a.(k) (n0 () + 1) in
  let idx k = pmod a.(k) (n0 ()) in
  let two k = let p = pos k and q = pos (k + 1) in if p <= q then (p, q) else (q, p) in
  let qi i = Q (s_int i) in
  let guard f = if v 0 = [] then Q "-" else f () in
  let nth l i = List.nth l i in
  match fam, op with
  | _, "oflist" -> vl [x 0; x 1; x 2]
  | _, "len" -> Q (string_of_int (n0 ()))
  | _, "append" | _, "concat" -> vl (v 0 @ v 1)
  | _, "reverse" -> vl (List.rev (v 0))
  | _, "map1" -> vl (seq_map1 (v 0))
  | _, "sum" -> qi (zsum (v 0))
  | ("ra" | "l1"), "cons" -> vl (x 1 :: v 0)
  | "ra", "cdr" -> vl (seq_remove_front (v 0))
  | "ra", "set" -> if v 0 = [] then vl [] else vl (seq_set (ni (idx 1)) (x 2) (v 0))
  | "ra", "refupd" -> if v 0 = [] then vl [] else vl (seq_set (ni (idx 1)) (nth (seq_map1 (v 0)) (idx 1)) (v 0))
  | "ra", "tail" -> vl (seq_drop (ni (pos 1)) (v 0))
  | "ra", "car" -> guard (fun () -> qi (List.hd (v 0)))
  | ("ra" | "deque"), "ref" -> guard (fun () -> qi (nth (v 0) (idx 1)))
  (* list oracle of the operations added with the Coq models of SRFI 101 / 134: the right-hand sides of the refinement theorems *)
  | _, "append3" -> vl (v 0 @ v 1 @ v 2)
  | "ra", "map2" -> let n = min (len (v 0)) (len (v 1)) in
    vl (List.map2 zplus (seq_drop (ni (len (v 0) - n)) (v 0)) (seq_drop (ni (len (v 1) - n)) (v 1)))
  | "ra", "mklist" -> vl (List.init (pmod a.(0) 300) (fun _ -> x 1))
  | "ra", ("listn" | "ofn") -> vl (iota (pmod a.(0) 300) a.(1))
  | "ra", "equal" -> Q (bs (List.length (v 0) = List.length (v 1) && List.for_all2 zeq (v 0) (v 1)))
  | "deque", "splita" -> vl (seq_take (ni (pos 1)) (v 0))
  | "deque", "splitb" -> vl (seq_drop (ni (pos 1)) (v 0))
  | "deque", "filterp" | "deque", "parta" -> vl (List.filter (pred a.(1) a.(2)) (v 0))
  | "deque", "removep" | "deque", "partb" -> vl (remove_list (pred a.(1) a.(2)) (v 0))
  | "deque", "takew" | "deque", "spana" -> vl (fst (span_list (pred a.(1) a.(2)) (v 0)))
  | "deque", "dropw" | "deque", "spanb" -> vl (snd (span_list (pred a.(1) a.(2)) (v 0)))
  | "deque", "breaka" -> vl (fst (break_list (pred a.(1) a.(2)) (v 0)))
  | "deque", "breakb" -> vl (snd (break_list (pred a.(1) a.(2)) (v 0)))
  | "deque", "takewr" -> vl (List.rev (fst (span_list (pred a.(1) a.(2)) (List.rev (v 0)))))
  | "deque", "dropwr" -> vl (List.rev (snd (span_list (pred a.(1) a.(2)) (List.rev (v 0)))))
  | "deque", "filtermap" -> vl (List.map (fun y -> zi (iz y + 1)) (List.filter (pred a.(1) a.(2)) (v 0)))
  | "deque", "appendmap" -> let q = pred a.(1) a.(2) and big = n0 () > 60 in
    vl (List.concat_map (fun y -> if q y && not big then [y; y] else [y]) (v 0))
  | "deque", "zip" -> let n = min (len (v 0)) (len (v 1)) in vl (List.map2 zplus (seq_take (ni n) (v 0)) (seq_take (ni n) (v 1)))
  | "deque", ("ofn" | "ofgen" | "unfold" | "tab") -> vl (iota (pmod a.(0) 100) a.(1))
  | "deque", "unfoldr" -> vl (List.rev (iota (pmod a.(0) 100) a.(1)))
  | "deque", "anyp" -> Q (bs (List.exists (pred a.(1) a.(2)) (v 0)))
  | "deque", "everyp" -> Q (bs (List.for_all (pred a.(1) a.(2)) (v 0)))
  | "deque", "findp" -> Q (match List.find_opt (pred a.(1) a.(2)) (v 0) with Some r -> s_int r | None -> "-")
  | "deque", "findrp" -> Q (match List.find_opt (pred a.(1) a.(2)) (List.rev (v 0)) with Some r -> s_int r | None -> "-")
  | "deque", "countp" -> Q (string_of_int (len (List.filter (pred a.(1) a.(2)) (v 0))))
  | "deque", "addf" -> vl (x 1 :: v 0)
  | "deque", "addb" -> vl (seq_add_back (v 0) (x 1))
  | "deque", "remf" -> vl (seq_remove_front (v 0))
  | "deque", "remb" -> vl (seq_remove_back (v 0))
  | ("deque" | "l1"), "take" -> vl (seq_take (ni (pos 1)) (v 0))
  | ("deque" | "l1"), "drop" -> vl (seq_drop (ni (pos 1)) (v 0))
  | ("deque" | "l1"), "taker" -> vl (seq_take_right (ni (pos 1)) (v 0))
  | ("deque" | "l1"), "dropr" -> vl (seq_drop_right (ni (pos 1)) (v 0))
  | ("deque" | "l1"), "filter" -> vl (seq_filter_mod (x 1) (v 0))
  | "deque", "front" -> guard (fun () -> qi (List.hd (v 0)))
  | "deque", "back" -> guard (fun () -> qi (seq_back (v 0)))
  | "deque", "empty" -> Q (bs (v 0 = []))
  | "deque", "eq" -> Q (bs (seq_equal (v 0) (v 1)))
  | "l1", "appendrev" -> vl (seq_append_reverse (v 0) (v 1))
  | "l1", "delete" -> vl (seq_delete (x 1) (v 0))
  | "l1", "dedup" -> vl (seq_delete_dups (v 0))
  | "l1", "remove" -> vl (seq_remove_mod (x 1) (v 0))
  | "l1", "takewhile" -> vl (seq_take_while_mod (x 1) (v 0))
  | "l1", "dropwhile" -> vl (seq_drop_while_mod (x 1) (v 0))
  | "l1", "iota" -> vl (seq_iota (ni (pmod a.(0) 7)) (x 1))
  | "l1", "partition" -> let (i, o) = seq_partition_mod (x 1) (v 0) in Q (dump_list i ^ dump_list o)
  | "l1", "splitat" -> Q (dump_list (seq_take (ni (pos 1)) (v 0)) ^ dump_list (seq_drop (ni (pos 1)) (v 0)))
  | "l1", "span" -> Q (dump_list (seq_take_while_mod (x 1) (v 0)) ^ dump_list (seq_drop_while_mod (x 1) (v 0)))
  | ("l1" | "v133"), "index" -> qi (seq_index_mod (x 1) (v 0))
  | ("l1" | "v133"), "count" -> qi (seq_count_mod (x 1) (v 0))
  | "l1", "last" -> guard (fun () -> qi (seq_back (v 0)))
  | "l1", "any" -> Q (bs (seq_any_mod (x 1) (v 0)))
  | "l1", "every" -> Q (bs (seq_every_mod (x 1) (v 0)))
  | "l1", "foldr" -> Q (dump_list (v 0))
  | "l1", "foldl" -> Q (dump_list (List.rev (v 0)))
  | "v133", "push" -> vl (seq_add_back (v 0) (x 1))
  | "v133", "revcopy" -> let (s, e) = two 1 in vl (List.rev (seq_sub (ni s) (ni e) (v 0)))
  | "v133", "subcopy" -> let (s, e) = two 1 in vl (seq_sub (ni s) (ni e) (v 0))
  | "v133", "cumulate" -> vl (seq_cumulate (zi 0) (v 0))
  | "v133", "swapx" -> if v 0 = [] then vl [] else vl (seq_swap (ni (idx 1)) (ni (idx 2)) (v 0))
  | "v133", "reversex" -> let (s, e) = two 1 in vl (seq_reverse_range (ni s) (ni e) (v 0))
  | "v133", "fillx" -> let (s, e) = two 2 in vl (seq_fill_range (x 1) (ni s) (ni e) (v 0))
  | "v133", "skip" -> qi (seq_skip_mod (x 1) (v 0))
  | "v133", "indexr" -> qi (seq_index_right_mod (x 1) (v 0))
  | "v133", "partition" -> let (i, o) = seq_partition_mod (x 1) (v 0) in Q (dump_list (i @ o) ^ string_of_int (len i))
  | "v133", "bsearch" -> Q (if set_mem (x 1) (v 0) then s_int (x 1) else "-")
  | _ -> failwith ("unknown " ^ fam ^ " op " ^ op)

let parse_op tok =
  match String.split_on_char ',' tok with
  | name :: args -> (name, Array.of_list (List.map int_of_string args))
  | [] -> failwith "empty op"

let run_hist fam toks =
  let prog = List.map parse_op toks in
  let empty = match fam with "bag" | "mapo" | "hmap" | "omap" -> P [] | "isett" -> T make_iset0 | "map" -> M make_tree | "deque" -> D dq_empty | "ra" -> R [] | _ -> L [] in
  let vs = Array.make (List.length prog + 1) empty in
  let n = ref 1 in
  let buf = Buffer.create 1024 in
  let step = match fam with
    | "set" | "iset" -> set_step
    | "isett" -> isett_step
    | "bag" -> bag_step
    | "map" -> rbmap_step
    | "mapo" | "hmap" | "omap" -> map_step
    | "deque" -> deque_step
    | "ra" -> ra_step
    | "dequeo" -> seq_step "deque"
    | "rao" -> seq_step "ra"
    | "l1" | "v133" -> seq_step fam
    | _ -> failwith ("unknown family " ^ fam) in
  List.iter (fun (op, a) ->
      (match step op a vs with
       | V nv -> vs.(!n) <- nv; incr n; Buffer.add_string buf (dump nv)
       | Q s -> Buffer.add_string buf s);
      Buffer.add_char buf ';') prog;
  Buffer.add_char buf '|';
  for i = 0 to !n - 1 do Buffer.add_string buf (dump vs.(i)) done;
  Buffer.contents buf

(* SRFI 117 inside the model (coq/C18/LQueue.v): three mutable queues = three (first, last) records over ONE heap of pairs
   (store-passing); one model command per operation.  After every operation the three listings are printed, with a mark when
   the model's own invariant check (last = last-pair of first) or an observer disagrees with the listing (theorems
   lq_mutators_keep_invariant_and_refine_lists / lq_observers_refine_lists: never printed). *)
let lq_unit st c = match lqs_run c st with Some (st', _) -> st' | None -> failwith "the list-queue model reports an error (a Scheme error on this input)"
let lq_ask st c = match lqs_run c st with Some (_, r) -> r | None -> failwith "the list-queue model reports an error (a Scheme error on this input)"
let lq_listing st k = match lq_ask st (CList (ni k)) with RList l -> l | _ -> failwith "CList"
let lq_dump_all st =
  String.concat "" (List.map (fun k ->
      let l = lq_listing st k in
      dump_list l
      ^ mark (lq_ask st (CWf (ni k)) = RBool true) ("!last" ^ string_of_int k)
      ^ mark (lq_ask st (CEmptyP (ni k)) = RBool (l = [])) ("!empty" ^ string_of_int k)
      ^ (if l = [] then "" else
           mark (lq_ask st (CFront (ni k)) = RInt (List.hd l)) ("!front" ^ string_of_int k)
           ^ mark (Some (match lq_ask st (CBack (ni k)) with RInt z -> z | _ -> zi 0) = last_of l) ("!back" ^ string_of_int k))
      ^ mark (lq_ask st (CForEach (ni k)) = RList l) ("!foreach" ^ string_of_int k)) [0; 1; 2])
let run_lq toks =
  let prog = List.map parse_op toks in
  let st = ref lqs_init in
  let buf = Buffer.create 1024 in
  List.iter (fun (op, a) ->
      let s = a.(0) in
      let x k = zi a.(k) in
      let empty k = lq_listing !st k = [] in
      let cmd c = st := lq_unit !st c; "" in
      let pop c = (match lqs_run c !st with
          | Some (st', RInt z) -> st := st'; s_int z
          | _ -> failwith "the list-queue model reports an error (a Scheme error on this input)") in
      let ans = match op with
        | "addf" -> cmd (CAddFront (ni s, x 1))
        | "addb" -> cmd (CAddBack (ni s, x 1))
        | "remf" -> if empty s then "-" else pop (CRemoveFront (ni s))
        | "remb" -> if empty s then "-" else pop (CRemoveBack (ni s))
        | "copy" -> cmd (CCopy (ni s, ni a.(1)))
        | "append" -> cmd (CConcat (ni s, [ni a.(1); ni a.(2)]))
        | "concat" -> cmd (CConcat (ni s, [ni a.(1); ni a.(2); ni a.(1)]))
        | "appendx" -> cmd (CAppendBang (ni s, [ni a.(1); ni a.(2)]))
        | "setlist" -> cmd (CSetListNew (ni s, [x 1; x 2; x 3]))
        | "removeall" -> (match lqs_run (CRemoveAll (ni s)) !st with
            | Some (st', RList l) -> st := st'; dump_list l
            | _ -> failwith "the list-queue model reports an error (a Scheme error on this input)")
        | "map1x" -> cmd (CMapBang (ni s, zi 1, zi 1))
        | "map1" -> cmd (CMap (ni s, ni a.(1), zi 1, zi 1))
        (* (list-queue-unfold (lambda (i) (>= i n)) (lambda (i) (+ i x)) (lambda (i) (+ i 1)) 0 [queue]) with n = a1 mod 12 *)
        | "unf" -> cmd (CUnfold (ni s, false, zi 0, zi (pmod a.(1) 12), zi 1, x 2))
        | "unfq" -> cmd (CUnfold (ni s, true, zi 0, zi (pmod a.(1) 12), zi 1, x 2))
        | "unfr" -> cmd (CUnfoldRight (ni s, false, zi 0, zi (pmod a.(1) 12), zi 1, x 2))
        | "unfrq" -> cmd (CUnfoldRight (ni s, true, zi 0, zi (pmod a.(1) 12), zi 1, x 2))
        | "front" -> if empty s then "-" else (match lq_ask !st (CFront (ni s)) with RInt z -> s_int z | _ -> "?")
        | "back" -> if empty s then "-" else (match lq_ask !st (CBack (ni s)) with RInt z -> s_int z | _ -> "?")
        | "empty" -> (match lq_ask !st (CEmptyP (ni s)) with RBool b -> bs b | _ -> "?")
        | _ -> failwith ("unknown lq op " ^ op) in
      Buffer.add_string buf ans;
      Buffer.add_string buf (lq_dump_all !st);
      Buffer.add_char buf ';') prog;
  Buffer.contents buf

(* SRFI 117 on the abstract list oracle (family lqo): the right-hand sides of the refinement theorems *)
let run_lq_oracle toks =
  let prog = List.map parse_op toks in
  let qs = Array.make 3 [] in
  let buf = Buffer.create 1024 in
  List.iter (fun (op, a) ->
      let s = a.(0) in
      let x k = zi a.(k) in
      let unf k = iota (pmod a.(1) 12) a.(k) in
      let ans = match op with
        | "addf" -> qs.(s) <- x 1 :: qs.(s); ""
        | "addb" -> qs.(s) <- seq_add_back qs.(s) (x 1); ""
        | "remf" -> if qs.(s) = [] then "-" else (let h = List.hd qs.(s) in qs.(s) <- seq_remove_front qs.(s); s_int h)
        | "remb" -> if qs.(s) = [] then "-" else (let h = seq_back qs.(s) in qs.(s) <- seq_remove_back qs.(s); s_int h)
        | "copy" -> qs.(s) <- qs.(a.(1)); ""
        | "append" | "appendx" -> qs.(s) <- qs.(a.(1)) @ qs.(a.(2)); ""
        | "concat" -> qs.(s) <- qs.(a.(1)) @ qs.(a.(2)) @ qs.(a.(1)); ""
        | "setlist" -> qs.(s) <- [x 1; x 2; x 3]; ""
        | "removeall" -> let l = qs.(s) in qs.(s) <- []; dump_list l
        | "map1x" -> qs.(s) <- seq_map1 qs.(s); ""
        | "map1" -> qs.(s) <- seq_map1 qs.(a.(1)); ""
        | "unf" -> qs.(s) <- unf 2; ""
        | "unfq" -> qs.(s) <- unf 2 @ qs.(s); ""
        | "unfr" -> qs.(s) <- List.rev (unf 2); ""
        | "unfrq" -> qs.(s) <- qs.(s) @ List.rev (unf 2); ""
        | "front" -> if qs.(s) = [] then "-" else s_int (List.hd qs.(s))
        | "back" -> if qs.(s) = [] then "-" else s_int (seq_back qs.(s))
        | "empty" -> bs (qs.(s) = [])
        | _ -> failwith ("unknown lq op " ^ op) in
      Buffer.add_string buf ans;
      Array.iter (fun q -> Buffer.add_string buf (dump_list q)) qs;
      Buffer.add_char buf ';') prog;
  Buffer.contents buf

let handle = function
  | ["sort"; d; k] -> zl (spec_sort (b d) (zlist_of_string k))
  | ["msortl"; d; k] -> opt zl (model_sort_less (b d) (zlist_of_string k))
  | ["msortb"; d; k] -> opt zl (model_sort_basic (b d) (zlist_of_string k))
  | ["scratch"; d; k] -> opt zl (model_scratch_less (b d) (zlist_of_string k))
  | ["merge"; d; k1; k2] -> zl (spec_merge (b d) (zlist_of_string k1) (zlist_of_string k2))
  | ["mmerge95"; d; k1; k2] -> opt zl (model_merge95 (b d) (zlist_of_string k1) (zlist_of_string k2))
  | ["mvmerge"; d; k1; k2] -> zl (model_vmerge132 (b d) (zlist_of_string k1) (zlist_of_string k2))
  | ["sorted"; d; k] -> string_of_bool (spec_sorted (b d) (zlist_of_string k))
  | ["select"; k; i] -> hex_of_z (spec_select (zlist_of_string k) (nat_of_int (int_of_string i)))
  | ["dedup"; k] -> zl (spec_dedup (zlist_of_string k))
  | "hist" :: "lq" :: toks -> run_lq toks
  | "hist" :: "lqo" :: toks -> run_lq_oracle toks
  | "hist" :: fam :: toks -> run_hist fam toks
  | f -> "ERR unknown request " ^ String.concat " " f

let () = serve handle
