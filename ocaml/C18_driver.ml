open Model
open Common

let b s = s = "1"
let opt f = function Some l -> f l | None -> "NONE"
let zl = string_of_zlist

(* ---------------------------------------------------------------- container histories *)
let zi = z_of_int
let iz = int_of_z
let ni = nat_of_int
let s_int x = string_of_int (iz x)
let dump_list l = "[" ^ String.concat " " (List.map s_int l) ^ "]"
let dump_alist l = "[" ^ String.concat " " (List.map (fun (k, v) -> s_int k ^ ":" ^ s_int v) l) ^ "]"
let bs x = if x then "#t" else "#f"
let len l = List.length l
let pmod a m = ((a mod m) + m) mod m

type value = L of z list | P of (z * z) list | T of tree
type res = V of value | Q of string
(* the model's tree of an iset, printed like harness/c18_hist.scm iset-shape *)
let rec shape = function
  | Nil -> "_"
  | Node (s, e, bits, l, r) ->
    "(" ^ s_int s ^ " " ^ s_int e ^ " " ^ (match bits with Some b -> hex_of_z b | None -> "#f") ^ " " ^ shape l ^ " " ^ shape r ^ ")"
let dump = function L l -> dump_list l | P l -> dump_alist l | T t -> shape t ^ "/" ^ dump_list (to_list t)
let gl = function L l -> l | _ -> failwith "expected a list version"
let gp = function P l -> l | _ -> failwith "expected an alist version"
let gt = function T t -> t | _ -> failwith "expected a tree version"

(* (chibi iset) inside the model (coq/C18/ISet.v): the versions are the model's trees *)
let isett_step op (a : int array) (vs : value array) : res =
  let v k = gt vs.(a.(k)) and x k = zi a.(k) in
  let vt t = V (T t) in
  match op with
  | "adjoin" | "adjoinx" -> vt (adjoin1 (v 0) (x 1))
  | "adjoin2" -> vt (adjoin_list (v 0) [x 1; x 2])
  | "delete" | "deletex" -> vt (delete1 (v 0) (x 1))
  | "union" | "unionx" -> vt (union2 (v 0) (v 1))
  | "copy" -> vt (v 0)
  | "oflist" -> vt (adjoin_list make_iset0 [x 0; x 1; x 2])
  | "has" -> Q (bs (contains (v 0) (x 1)))
  | "size" -> Q (s_int (iset_size (v 0)))
  | "sum" -> Q (s_int (zsum (to_list (v 0))))
  | "empty" -> Q (bs (is_empty (v 0)))
  | _ -> failwith ("unknown isett op " ^ op)

let set_step op (a : int array) (vs : value array) : res =
  let v k = gl vs.(a.(k)) and x k = zi a.(k) in
  let vl l = V (L l) in
  match op with
  | "adjoin" | "adjoinx" -> vl (set_adjoin (x 1) (v 0))
  | "adjoin2" -> vl (set_adjoin (x 2) (set_adjoin (x 1) (v 0)))
  | "delete" | "deletex" -> vl (set_delete (x 1) (v 0))
  | "delete2" -> vl (set_delete (x 2) (set_delete (x 1) (v 0)))
  | "union" | "unionx" -> vl (set_union (v 0) (v 1))
  | "inter" | "interx" -> vl (set_inter (v 0) (v 1))
  | "diff" | "diffx" -> vl (set_diff (v 0) (v 1))
  | "xor" | "xorx" -> vl (set_xor (v 0) (v 1))
  | "filter" -> vl (set_filter_mod (x 1) (v 0))
  | "remove" -> vl (set_remove_mod (x 1) (v 0))
  | "maphalf" -> vl (set_map_half (v 0))
  | "copy" -> vl (v 0)
  | "oflist" -> vl (set_of_list [x 0; x 1; x 2])
  | "has" -> Q (bs (set_mem (x 1) (v 0)))
  | "size" -> Q (string_of_int (len (v 0)))
  | "subset" -> Q (bs (set_subset (v 0) (v 1)))
  | "psubset" -> Q (bs (set_subset (v 0) (v 1) && not (set_equal (v 0) (v 1))))
  | "equal" -> Q (bs (set_equal (v 0) (v 1)))
  | "disjoint" -> Q (bs (set_disjoint (v 0) (v 1)))
  | "countmod" -> Q (string_of_int (len (set_filter_mod (x 1) (v 0))))
  | "sum" -> Q (s_int (zsum (v 0)))
  | "empty" -> Q (bs (v 0 = []))
  | _ -> failwith ("unknown set op " ^ op)

let bag_step op a vs =
  let v k = gp vs.(a.(k)) and x k = zi a.(k) in
  let vp l = V (P l) in
  match op with
  | "adjoin" -> vp (bag_incr (x 1) (zi 1) (v 0))
  | "incr" -> vp (bag_incr (x 1) (x 2) (v 0))
  | "decr" -> vp (bag_incr (x 1) (zi (- a.(2))) (v 0))
  | "union" -> vp (bag_union (v 0) (v 1))
  | "inter" -> vp (bag_inter (v 0) (v 1))
  | "sum" -> vp (bag_sum (v 0) (v 1))
  | "diff" -> vp (bag_diff (v 0) (v 1))
  | "copy" -> vp (v 0)
  | "oflist" -> vp (bag_of_list [x 0; x 1; x 2])
  | "count" -> Q (s_int (bag_count (x 1) (v 0)))
  | "size" -> Q (s_int (bag_size (v 0)))
  | "usize" -> Q (string_of_int (len (v 0)))
  | "has" -> Q (bs (iz (bag_count (x 1) (v 0)) > 0))
  | "empty" -> Q (bs (v 0 = []))
  | _ -> failwith ("unknown bag op " ^ op)

let map_step op a vs =
  let v k = gp vs.(a.(k)) and x k = zi a.(k) in
  let vp l = V (P l) in
  match op with
  | "set" | "setx" -> vp (map_set (x 1) (x 2) (v 0))
  | "adjoin" -> vp (map_adjoin (x 1) (x 2) (v 0))
  | "replace" -> vp (map_replace (x 1) (x 2) (v 0))
  | "delete" -> vp (map_delete (x 1) (v 0))
  | "delete2" -> vp (map_delete (x 2) (map_delete (x 1) (v 0)))
  | "bump" -> vp (map_bump (x 1) (x 2) (v 0))
  | "union" -> vp (map_union (v 0) (v 1))
  | "inter" -> vp (map_inter (v 0) (v 1))
  | "diff" -> vp (map_diff (v 0) (v 1))
  | "xor" -> vp (map_xor (v 0) (v 1))
  | "filter" -> vp (map_filter_mod (x 1) (v 0))
  | "copy" -> vp (v 0)
  | "rlt" -> vp (map_range_lt (x 1) (v 0))
  | "rle" -> vp (map_range_le (x 1) (v 0))
  | "rgt" -> vp (map_range_gt (x 1) (v 0))
  | "rge" -> vp (map_range_ge (x 1) (v 0))
  (* mapping-catenate (range< m x) x val (range> m x) = the mapping with x set to val *)
  | "cat" -> vp (map_set (x 1) (x 2) (v 0))
  (* mapping-catenate of the part of v0 below x and the part of v1 above x around the pivot x *)
  | "cat2" -> vp (map_set (x 2) (x 3) (map_range_lt (x 2) (v 0) @ map_range_gt (x 2) (v 1)))
  | "ref" -> Q (match map_ref (x 1) (v 0) with Some r -> s_int r | None -> "-")
  | "has" -> Q (bs (map_has (x 1) (v 0)))
  | "size" -> Q (string_of_int (len (v 0)))
  | "sumv" -> Q (s_int (zsum (List.map snd (v 0))))
  | "keys" -> Q (dump_list (List.map fst (v 0)))
  | "empty" -> Q (bs (v 0 = []))
  | _ -> failwith ("unknown map op " ^ op)

(* random-access lists, deques, SRFI 1 lists, SRFI 133 vectors: all sequences *)
let seq_step fam op a vs =
  let v k = gl vs.(a.(k)) and x k = zi a.(k) in
  let vl l = V (L l) in
  let n0 () = len (v 0) in
  let pos k = pmod a.(k) (n0 () + 1) in
  let idx k = pmod a.(k) (n0 ()) in
  let two k = let p = pos k and q = pos (k + 1) in if p <= q then (p, q) else (q, p) in
  let qi i = Q (s_int i) in
  let guard f = if v 0 = [] then Q "-" else f () in
  let nth l i = List.nth l i in
  match fam, op with
  | _, "oflist" -> vl [x 0; x 1; x 2]
  | _, "len" -> Q (string_of_int (n0 ()))
  | _, "append" | _, "concat" -> vl (v 0 @ v 1)
  | _, "reverse" -> vl (List.rev (v 0))
  | _, "map1" -> vl (seq_map1 (v 0))
  | _, "sum" -> qi (zsum (v 0))
  | ("ra" | "l1"), "cons" -> vl (x 1 :: v 0)
  | "ra", "cdr" -> vl (seq_remove_front (v 0))
  | "ra", "set" -> if v 0 = [] then vl [] else vl (seq_set (ni (idx 1)) (x 2) (v 0))
  | "ra", "refupd" -> if v 0 = [] then vl [] else vl (seq_set (ni (idx 1)) (nth (seq_map1 (v 0)) (idx 1)) (v 0))
  | "ra", "tail" -> vl (seq_drop (ni (pos 1)) (v 0))
  | "ra", "car" -> guard (fun () -> qi (List.hd (v 0)))
  | ("ra" | "deque"), "ref" -> guard (fun () -> qi (nth (v 0) (idx 1)))
  | "deque", "addf" -> vl (x 1 :: v 0)
  | "deque", "addb" -> vl (seq_add_back (v 0) (x 1))
  | "deque", "remf" -> vl (seq_remove_front (v 0))
  | "deque", "remb" -> vl (seq_remove_back (v 0))
  | ("deque" | "l1"), "take" -> vl (seq_take (ni (pos 1)) (v 0))
  | ("deque" | "l1"), "drop" -> vl (seq_drop (ni (pos 1)) (v 0))
  | ("deque" | "l1"), "taker" -> vl (seq_take_right (ni (pos 1)) (v 0))
  | ("deque" | "l1"), "dropr" -> vl (seq_drop_right (ni (pos 1)) (v 0))
  | ("deque" | "l1"), "filter" -> vl (seq_filter_mod (x 1) (v 0))
  | "deque", "front" -> guard (fun () -> qi (List.hd (v 0)))
  | "deque", "back" -> guard (fun () -> qi (seq_back (v 0)))
  | "deque", "empty" -> Q (bs (v 0 = []))
  | "deque", "eq" -> Q (bs (seq_equal (v 0) (v 1)))
  | "l1", "appendrev" -> vl (seq_append_reverse (v 0) (v 1))
  | "l1", "delete" -> vl (seq_delete (x 1) (v 0))
  | "l1", "dedup" -> vl (seq_delete_dups (v 0))
  | "l1", "remove" -> vl (seq_remove_mod (x 1) (v 0))
  | "l1", "takewhile" -> vl (seq_take_while_mod (x 1) (v 0))
  | "l1", "dropwhile" -> vl (seq_drop_while_mod (x 1) (v 0))
  | "l1", "iota" -> vl (seq_iota (ni (pmod a.(0) 7)) (x 1))
  | "l1", "partition" -> let (i, o) = seq_partition_mod (x 1) (v 0) in Q (dump_list i ^ dump_list o)
  | "l1", "splitat" -> Q (dump_list (seq_take (ni (pos 1)) (v 0)) ^ dump_list (seq_drop (ni (pos 1)) (v 0)))
  | "l1", "span" -> Q (dump_list (seq_take_while_mod (x 1) (v 0)) ^ dump_list (seq_drop_while_mod (x 1) (v 0)))
  | ("l1" | "v133"), "index" -> qi (seq_index_mod (x 1) (v 0))
  | ("l1" | "v133"), "count" -> qi (seq_count_mod (x 1) (v 0))
  | "l1", "last" -> guard (fun () -> qi (seq_back (v 0)))
  | "l1", "any" -> Q (bs (seq_any_mod (x 1) (v 0)))
  | "l1", "every" -> Q (bs (seq_every_mod (x 1) (v 0)))
  | "l1", "foldr" -> Q (dump_list (v 0))
  | "l1", "foldl" -> Q (dump_list (List.rev (v 0)))
  | "v133", "push" -> vl (seq_add_back (v 0) (x 1))
  | "v133", "revcopy" -> let (s, e) = two 1 in vl (List.rev (seq_sub (ni s) (ni e) (v 0)))
  | "v133", "subcopy" -> let (s, e) = two 1 in vl (seq_sub (ni s) (ni e) (v 0))
  | "v133", "cumulate" -> vl (seq_cumulate (zi 0) (v 0))
  | "v133", "swapx" -> if v 0 = [] then vl [] else vl (seq_swap (ni (idx 1)) (ni (idx 2)) (v 0))
  | "v133", "reversex" -> let (s, e) = two 1 in vl (seq_reverse_range (ni s) (ni e) (v 0))
  | "v133", "fillx" -> let (s, e) = two 2 in vl (seq_fill_range (x 1) (ni s) (ni e) (v 0))
  | "v133", "skip" -> qi (seq_skip_mod (x 1) (v 0))
  | "v133", "indexr" -> qi (seq_index_right_mod (x 1) (v 0))
  | "v133", "partition" -> let (i, o) = seq_partition_mod (x 1) (v 0) in Q (dump_list (i @ o) ^ string_of_int (len i))
  | "v133", "bsearch" -> Q (if set_mem (x 1) (v 0) then s_int (x 1) else "-")
  | _ -> failwith ("unknown " ^ fam ^ " op " ^ op)

let parse_op tok =
  match String.split_on_char ',' tok with
  | name :: args -> (name, Array.of_list (List.map int_of_string args))
  | [] -> failwith "empty op"

let run_hist fam toks =
  let prog = List.map parse_op toks in
  let empty = match fam with "bag" | "map" | "hmap" | "omap" -> P [] | "isett" -> T make_iset0 | _ -> L [] in
  let vs = Array.make (List.length prog + 1) empty in
  let n = ref 1 in
  let buf = Buffer.create 1024 in
  let step = match fam with
    | "set" | "iset" -> set_step
    | "isett" -> isett_step
    | "bag" -> bag_step
    | "map" | "hmap" | "omap" -> map_step
    | "ra" | "deque" | "l1" | "v133" -> seq_step fam
    | _ -> failwith ("unknown family " ^ fam) in
  List.iter (fun (op, a) ->
      (match step op a vs with
       | V nv -> vs.(!n) <- nv; incr n; Buffer.add_string buf (dump nv)
       | Q s -> Buffer.add_string buf s);
      Buffer.add_char buf ';') prog;
  Buffer.add_char buf '|';
  for i = 0 to !n - 1 do Buffer.add_string buf (dump vs.(i)) done;
  Buffer.contents buf

(* SRFI 117: three mutable queues *)
let run_lq toks =
  let prog = List.map parse_op toks in
  let qs = Array.make 3 [] in
  let buf = Buffer.create 1024 in
  List.iter (fun (op, a) ->
      let s = a.(0) in
      let x k = zi a.(k) in
      let ans = match op with
        | "addf" -> qs.(s) <- x 1 :: qs.(s); ""
        | "addb" -> qs.(s) <- seq_add_back qs.(s) (x 1); ""
        | "remf" -> if qs.(s) = [] then "-" else (let h = List.hd qs.(s) in qs.(s) <- seq_remove_front qs.(s); s_int h)
        | "remb" -> if qs.(s) = [] then "-" else (let h = seq_back qs.(s) in qs.(s) <- seq_remove_back qs.(s); s_int h)
        | "copy" -> qs.(s) <- qs.(a.(1)); ""
        | "append" -> qs.(s) <- qs.(a.(1)) @ qs.(a.(2)); ""
        | "concat" -> qs.(s) <- qs.(a.(1)) @ qs.(a.(2)) @ qs.(a.(1)); ""
        | "setlist" -> qs.(s) <- [x 1; x 2; x 3]; ""
        | "removeall" -> let l = qs.(s) in qs.(s) <- []; dump_list l
        | "map1x" -> qs.(s) <- seq_map1 qs.(s); ""
        | "map1" -> qs.(s) <- seq_map1 qs.(a.(1)); ""
        | "front" -> if qs.(s) = [] then "-" else s_int (List.hd qs.(s))
        | "back" -> if qs.(s) = [] then "-" else s_int (seq_back qs.(s))
        | "empty" -> bs (qs.(s) = [])
        | _ -> failwith ("unknown lq op " ^ op) in
      Buffer.add_string buf ans;
      Array.iter (fun q -> Buffer.add_string buf (dump_list q)) qs;
      Buffer.add_char buf ';') prog;
  Buffer.contents buf

let handle = function
  | ["sort"; d; k] -> zl (spec_sort (b d) (zlist_of_string k))
  | ["msortl"; d; k] -> opt zl (model_sort_less (b d) (zlist_of_string k))
  | ["msortb"; d; k] -> opt zl (model_sort_basic (b d) (zlist_of_string k))
  | ["scratch"; d; k] -> opt zl (model_scratch_less (b d) (zlist_of_string k))
  | ["merge"; d; k1; k2] -> zl (spec_merge (b d) (zlist_of_string k1) (zlist_of_string k2))
  | ["mmerge95"; d; k1; k2] -> opt zl (model_merge95 (b d) (zlist_of_string k1) (zlist_of_string k2))
  | ["mvmerge"; d; k1; k2] -> zl (model_vmerge132 (b d) (zlist_of_string k1) (zlist_of_string k2))
  | ["sorted"; d; k] -> string_of_bool (spec_sorted (b d) (zlist_of_string k))
  | ["select"; k; i] -> hex_of_z (spec_select (zlist_of_string k) (nat_of_int (int_of_string i)))
  | ["dedup"; k] -> zl (spec_dedup (zlist_of_string k))
  | "hist" :: "lq" :: toks -> run_lq toks
  | "hist" :: fam :: toks -> run_hist fam toks
  | f -> "ERR unknown request " ^ String.concat " " f

let () = serve handle
