open Model
open Common

let big_of s l = (z_of_hex s, zlist_of_string l)
let string_of_big (s, l) = hex_of_z s ^ " " ^ string_of_zlist l

(* numbers: f:<signed hex> | b:<sign>:<words> *)
let num_of s =
  match String.split_on_char ':' s with
  | ["f"; z] -> Fix (z_of_hex z)
  | ["b"; sg; ws] -> Big (z_of_hex sg, zlist_of_string ws)
  | _ -> failwith ("bad num " ^ s)
let string_of_num = function
  | Fix z -> "f:" ^ hex_of_z z
  | Big (s, d) -> "b:" ^ hex_of_z s ^ ":" ^ string_of_zlist d
let mulfuel a b = nat_of_int (2 * (List.length a + List.length b) + 16)

let string_of_res = function
  | Val l -> "V " ^ string_of_zlist l
  | Bool b -> "B " ^ string_of_bool b
  | DivZero -> "DIVZERO"
  | Undefined -> "UNDEF"

let handle = function
  | ["spec2"; op; a; b] -> string_of_res (spec2 (nat_of_int (int_of_string op)) (z_of_hex a) (z_of_hex b))
  | ["spec1"; op; a] -> string_of_res (spec1 (nat_of_int (int_of_string op)) (z_of_hex a))
  | ["add_digits"; a; b] -> string_of_zlist (add_digits (zlist_of_string a) (zlist_of_string b))
  | ["sub_digits"; a; b] -> string_of_zlist (sub_digits (zlist_of_string a) (zlist_of_string b))
  | ["compare_abs"; a; b] -> hex_of_z (compare_abs (zlist_of_string a) (zlist_of_string b))
  | ["bignum_add"; sa; a; sb; b] -> string_of_big (bignum_add (big_of sa a) (big_of sb b))
  | ["bignum_sub"; sa; a; sb; b] -> string_of_big (bignum_sub (big_of sa a) (big_of sb b))
  | ["fxadd"; a; b] -> string_of_zlist (fxadd (zlist_of_string a) (z_of_hex b))
  | ["fxsub"; sa; a; b] ->
     let (r, c) = fxsub (big_of sa a) (z_of_hex b) in
     if c <> Z0 then "ERR borrow-out" else string_of_big r
  | ["fxmul"; a; b; off] -> string_of_zlist (fxmul (zlist_of_string a) (z_of_hex b) (nat_of_int (int_of_string off)))
  | ["fxdiv"; a; b; off] ->
     let (q, r) = fxdiv (zlist_of_string a) (z_of_hex b) (nat_of_int (int_of_string off)) in
     string_of_zlist q ^ " " ^ hex_of_z r
  | ["fxrem"; sa; a; b] ->
     (match fxrem (big_of sa a) (z_of_hex b) with Some z -> string_of_num (Fix z) | None -> "EXC")
  | ["normalize"; sa; a] -> string_of_num (normalize (Big (z_of_hex sa, zlist_of_string a)))
  | ["bignum_mul"; sa; a; sb; b] ->
     let x = big_of sa a and y = big_of sb b in
     (match bignum_mul (mulfuel (snd x) (snd y)) x y with Some r -> string_of_big r | None -> "FUEL")
  | ["quot_rem"; sa; a; sb; b] ->
     let x = big_of sa a and y = big_of sb b in
     (match quot_rem (nat_of_int (2 * List.length (snd x) + 8)) (mulfuel (snd x) (snd y)) x y with
      | QR (q, r) -> string_of_num q ^ " " ^ string_of_num r ^ " | " ^ string_of_big x ^ " " ^ string_of_big y
      | QDivZero -> "DIVZERO"
      | QFuel -> "FUEL")
  | ["num_add"; a; b] -> string_of_num (num_add (num_of a) (num_of b))
  | ["num_sub"; a; b] -> string_of_num (num_sub (num_of a) (num_of b))
  | ["num_mul"; a; b] ->
     let x = num_of a and y = num_of b in
     let l = function Fix _ -> 1 | Big (_, d) -> List.length d in
     (match num_mul (nat_of_int (2 * (l x + l y) + 16)) x y with Some r -> string_of_num r | None -> "FUEL")
  | ["vm_add"; a; b] -> string_of_num (vm_add (num_of a) (num_of b))
  | ["vm_sub"; a; b] -> string_of_num (vm_sub (num_of a) (num_of b))
  | f -> "ERR unknown request " ^ String.concat " " f

let () = serve handle
