open Model
open Common

let big_of s l = (z_of_hex s, zlist_of_string l)
let string_of_big (s, l) = hex_of_z s ^ " " ^ string_of_zlist l

let string_of_res = function
  | Val l -> "V " ^ string_of_zlist l
  | Bool b -> "B " ^ string_of_bool b
  | DivZero -> "DIVZERO"
  | Undefined -> "UNDEF"

let handle = function
  | ["spec2"; op; a; b] -> string_of_res (spec2 (nat_of_int (int_of_string op)) (z_of_hex a) (z_of_hex b))
  | ["spec1"; op; a] -> string_of_res (spec1 (nat_of_int (int_of_string op)) (z_of_hex a))
  | ["add_digits"; a; b] -> string_of_zlist (add_digits (zlist_of_string a) (zlist_of_string b))
  | ["sub_digits"; a; b] -> string_of_zlist (sub_digits (zlist_of_string a) (zlist_of_string b))
  | ["compare_abs"; a; b] -> hex_of_z (compare_abs (zlist_of_string a) (zlist_of_string b))
  | ["bignum_add"; sa; a; sb; b] -> string_of_big (bignum_add (big_of sa a) (big_of sb b))
  | ["bignum_sub"; sa; a; sb; b] -> string_of_big (bignum_sub (big_of sa a) (big_of sb b))
  | f -> "ERR unknown request " ^ String.concat " " f

let () = serve handle
