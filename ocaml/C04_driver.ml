open Model
open Common

let big_of s l = (z_of_hex s, zlist_of_string l)
let string_of_big (s, l) = hex_of_z s ^ " " ^ string_of_zlist l

(* numbers: f:<signed hex> | b:<sign>:<words> *)
let num_of s =
  match String.split_on_char ':' s with
  | ["f"; z] -> Fix (z_of_hex z)
  | ["b"; sg; ws] -> Big (z_of_hex sg, zlist_of_string ws)
  | _ -> failwith ("bad num " ^ s)
let string_of_num = function
  | Fix z -> "f:" ^ hex_of_z z
  | Big (s, d) -> "b:" ^ hex_of_z s ^ ":" ^ string_of_zlist d
(* the fuel proved sufficient for every operand pair (theorem mul_karatsuba_fuel_bound): a FUEL answer of bignum_mul is impossible *)
let mulfuel a b = nat_of_int (64 * (List.length a + List.length b) + 3)

let string_of_rres = function
  | RInt v -> string_of_num v
  | RRat (n, d) -> "R " ^ string_of_num n ^ " " ^ string_of_num d
  | RErr -> "EXC"
  | RFuel -> "FUEL"

let string_of_res = function
  | Val l -> "V " ^ string_of_zlist l
  | Bool b -> "B " ^ string_of_bool b
  | DivZero -> "DIVZERO"
  | Undefined -> "UNDEF"

let handle = function
  | ["spec2"; op; a; b] -> string_of_res (spec2 (nat_of_int (int_of_string op)) (z_of_hex a) (z_of_hex b))
  | ["spec1"; op; a] -> string_of_res (spec1 (nat_of_int (int_of_string op)) (z_of_hex a))
  | ["specq2"; op; n1; d1; n2; d2] ->
     string_of_res (specq2 (nat_of_int (int_of_string op)) (z_of_hex n1) (z_of_hex d1) (z_of_hex n2) (z_of_hex d2))
  | ["specq1"; op; n1; d1] -> string_of_res (specq1 (nat_of_int (int_of_string op)) (z_of_hex n1) (z_of_hex d1))
  | ["specc2"; op; a1; b1; a2; b2; c1; d1; c2; d2] ->
     let z = z_of_hex in
     string_of_res (specc2 (nat_of_int (int_of_string op)) (z a1) (z b1) (z a2) (z b2) (z c1) (z d1) (z c2) (z d2))
  | ["specc_expt"; a1; b1; a2; b2; e] -> string_of_res (specc_expt (z_of_hex a1) (z_of_hex b1) (z_of_hex a2) (z_of_hex b2) (z_of_hex e))
  | ["spec_q"; n; d] -> string_of_res (spec_q (z_of_hex n) (z_of_hex d))
  | ["spec_radix_c"; r; a; b; c; d] -> string_of_res (spec_radix_c (z_of_hex r) (z_of_hex a) (z_of_hex b) (z_of_hex c) (z_of_hex d))
  | ["spec_radix_q"; r; n; d] -> string_of_res (spec_radix_q (z_of_hex r) (z_of_hex n) (z_of_hex d))
  | ["spec_exact_bits"; b] -> string_of_res (spec_exact_bits (z_of_hex b))
  | ["spec_inexact_bits"; n; d] -> string_of_res (spec_inexact_bits (z_of_hex n) (z_of_hex d))
  | ["model_exact_bits"; b] ->
     (* the model of sexp_inexact_to_exact on the decoded double; fuel 1100 is the proved bound *)
     (match inexact_to_exact (nat_of_int 1100) (nat_of_int 400) (nat_of_int 100) (nat_of_int 100) (b64_decode (z_of_hex b)) with
      | XNum (RInt v) -> "M " ^ string_of_num v ^ " f:1"
      | XNum (RRat (n, d)) -> "M " ^ string_of_num n ^ " " ^ string_of_num d
      | XNum RErr -> "EXC" | XNum RFuel -> "FUEL" | XNotFinite -> "NOTFINITE" | XLoopFuel -> "FUEL")
  | ["g_op"; op; a; b; c; d; e; f; g; h] ->
     let xnum_of n d = if d = "f:1" then XInt (num_of n) else XRat (num_of n, num_of d) in
     let gnum_of rn rd inn id = if inn = "f:0" then GR (xnum_of rn rd) else GC (xnum_of rn rd, xnum_of inn id) in
     let sx = function XInt v -> string_of_num v ^ " f:1" | XRat (n, d) -> string_of_num n ^ " " ^ string_of_num d in
     let x = gnum_of a b c d and y = gnum_of e f g h in
     let fu = nat_of_int 600 and qf = nat_of_int 120 and mf = nat_of_int 120 in
     (match (match op with "0" -> g_add fu qf mf x y | "1" -> g_sub fu qf mf x y | "2" -> g_mul fu qf mf x y | _ -> g_div fu qf mf x y) with
      | GV (GR r) -> "M " ^ sx r ^ " f:0 f:1"
      | GV (GC (re, im)) -> "M " ^ sx re ^ " " ^ sx im
      | GErr -> "EXC" | GFuel -> "FUEL")
  | ["spec_cmpx2"; op; ka; na; da; kb; nb; db] ->
     let z = z_of_hex in
     string_of_res (spec_cmpx2 (nat_of_int (int_of_string op)) (z ka) (z na) (z da) (z kb) (z nb) (z db))
  | ["spec_cmpx_sgn"; ka; na; da; kb; nb; db] ->
     let z = z_of_hex in string_of_res (spec_cmpx_sgn (z ka) (z na) (z da) (z kb) (z nb) (z db))
  | ["spec_cmpx_all"; ka; na; da; kb; nb; db] ->
     let z = z_of_hex in string_of_res (spec_cmpx_all (z ka) (z na) (z da) (z kb) (z nb) (z db))
  | ["spec_cmpx3_all"; ka; na; da; kb; nb; db; kc; nc; dc] ->
     let z = z_of_hex in
     string_of_res (spec_cmpx3_all (z ka) (z na) (z da) (z kb) (z nb) (z db) (z kc) (z nc) (z dc))
  | ["spec_maxmin"; op; ka; na; da; kb; nb; db] ->
     let z = z_of_hex in
     string_of_res (spec_maxmin (nat_of_int (int_of_string op)) (z ka) (z na) (z da) (z kb) (z nb) (z db))
  | [("x_compare" | "vm_cmp0" | "vm_cmp1" | "vm_cmp2" | "vm_cmp3" | "vm_cmp4") as fn; ka; a1; a2; kb; b1; b2] ->
     (* operand: n <num> - | q <num> <den> | d <bits of a finite double> - | i +/- - | x - - *)
     let opnd k x y = (match k with
       | "n" -> (match num_of x with Fix z -> CFix z | Big (s, d) -> CBig (s, d))
       | "q" -> CRat (num_of x, num_of y)
       | "d" -> (match b64_decode (z_of_hex x) with Some (m, e) -> CFlo (FFin (m, e)) | None -> failwith "not a finite double")
       | "i" -> CFlo (FInf (x = "-"))
       | _ -> CFlo FNan) in
     let a = opnd ka a1 a2 and b = opnd kb b1 b2 in
     (* fuels: 1100 is the proved bound of the conversion loops (exact_of_double_exact); the others as for g_op *)
     let fu = nat_of_int 1100 and rf = nat_of_int 2000 and qf = nat_of_int 400 and mf = nat_of_int 4000 in
     if fn = "x_compare" then
       (match x_compare fu rf qf mf a b with
        | CV Z0 -> "0" | CV (Zpos _) -> "1" | CV (Zneg _) -> "-1" | CNan -> "NAN" | CFuel -> "FUEL")
     else
       (match vm_cmp (nat_of_int (Char.code fn.[6] - 48)) fu rf qf mf a b with
        | Some b -> string_of_res (Bool b) | None -> "FUEL")
  | ["spec_radix"; r; z] -> string_of_res (spec_radix (z_of_hex r) (z_of_hex z))
  | ["add_digits"; a; b] -> string_of_zlist (add_digits (zlist_of_string a) (zlist_of_string b))
  | ["sub_digits"; a; b] -> string_of_zlist (sub_digits (zlist_of_string a) (zlist_of_string b))
  | ["compare_abs"; a; b] -> hex_of_z (compare_abs (zlist_of_string a) (zlist_of_string b))
  | ["bignum_add"; sa; a; sb; b] -> string_of_big (bignum_add (big_of sa a) (big_of sb b))
  | ["bignum_sub"; sa; a; sb; b] -> string_of_big (bignum_sub (big_of sa a) (big_of sb b))
  | ["fxadd"; a; b] -> string_of_zlist (fxadd (zlist_of_string a) (z_of_hex b))
  | ["fxsub"; sa; a; b] ->
     let (r, c) = fxsub (big_of sa a) (z_of_hex b) in
     if c <> Z0 then "ERR borrow-out" else string_of_big r
  | ["fxmul"; a; b; off] -> string_of_zlist (fxmul (zlist_of_string a) (z_of_hex b) (nat_of_int (int_of_string off)))
  | ["fxdiv"; a; b; off] ->
     let (q, r) = fxdiv (zlist_of_string a) (z_of_hex b) (nat_of_int (int_of_string off)) in
     string_of_zlist q ^ " " ^ hex_of_z r
  | ["fxrem"; sa; a; b] ->
     (match fxrem (big_of sa a) (z_of_hex b) with Some z -> string_of_num (Fix z) | None -> "EXC")
  | ["normalize"; sa; a] -> string_of_num (normalize (Big (z_of_hex sa, zlist_of_string a)))
  | ["bignum_mul"; sa; a; sb; b] ->
     let x = big_of sa a and y = big_of sb b in
     (match bignum_mul (mulfuel (snd x) (snd y)) x y with Some r -> string_of_big r | None -> "FUEL")
  | ["quot_rem"; sa; a; sb; b] ->
     let x = big_of sa a and y = big_of sb b in
     (match quot_rem (nat_of_int (2 * List.length (snd x) + 8)) (mulfuel (snd x) (snd y)) x y with
      | QR (q, r) -> string_of_num q ^ " " ^ string_of_num r ^ " | " ^ string_of_big x ^ " " ^ string_of_big y
      | QDivZero -> "DIVZERO"
      | QFuel -> "FUEL")
  | ["num_add"; a; b] -> string_of_num (num_add (num_of a) (num_of b))
  | ["num_sub"; a; b] -> string_of_num (num_sub (num_of a) (num_of b))
  | ["num_mul"; a; b] ->
     let x = num_of a and y = num_of b in
     let l = function Fix _ -> 1 | Big (_, d) -> List.length d in
     (match num_mul (nat_of_int (2 * (l x + l y) + 16)) x y with Some r -> string_of_num r | None -> "FUEL")
  | [("num_quotient" | "num_remainder" | "vm_quotient" | "vm_remainder") as fn; a; b] ->
     let x = num_of a and y = num_of b in
     let l = function Fix _ -> 1 | Big (_, d) -> List.length d in
     let fuel = nat_of_int (2 * l x + 8) and mf = nat_of_int (2 * (l x + l y) + 16) in
     let r = (match fn with
              | "num_quotient" -> num_quotient fuel mf x y | "num_remainder" -> num_remainder fuel mf x y
              | "vm_quotient" -> vm_quotient fuel mf x y | _ -> vm_remainder fuel mf x y) in
     (match r with NV v -> string_of_num v | NDivZero -> "EXC" | NFuel -> "FUEL")
  | ["bignum_expt"; sa; a; e] ->
     let x = big_of sa a in let ei = int_of_string e in
     (match bignum_expt (nat_of_int 80) (nat_of_int (4 * (List.length (snd x)) * (ei + 2) + 32)) x (z_of_int ei) with
      | Some v -> string_of_num v | None -> "FUEL")
  | ["write_bignum"; a; base] ->
     let x = zlist_of_string a in
     (match write_bignum_digits (nat_of_int (64 * List.length x + 2)) x (z_of_int (int_of_string base)) with
      | Some ds -> String.concat "" (List.map (fun d -> String.make 1 "0123456789ABCDEFGHIJKLMNOPQRSTUVWXYZ".[int_of_z d]) ds)
      | None -> "FUEL")
  | ["read_number"; base; txt] ->
     let dv c = if c <= '9' then Char.code c - 48 else Char.code (Char.lowercase_ascii c) - 87 in
     let ds = List.map (fun c -> z_of_int (dv c)) (List.of_seq (String.to_seq txt)) in
     string_of_num (read_number_digits (z_of_int (int_of_string base)) ds Z0)
  | ["num_compare"; a; b] ->
     (match num_compare (num_of a) (num_of b) with Z0 -> "0" | Zpos _ -> "1" | Zneg _ -> "-1")
  | ["bignum_sqrt"; a] ->
     (* any estimate gives the same root (theorem sqrt_newton_sound); start from 2^ceil(bits/2) >= sqrt a *)
     let x = zlist_of_string a in
     let n = List.length x in
     let sig_words = List.rev (let rec drop = function Z0 :: t -> drop t | l -> l in drop (List.rev x)) in
     let ns = max 1 (List.length sig_words) in
     let top = (match List.rev sig_words with [] -> "0" | t :: _ -> hex_of_z t) in
     let lead = (match top.[0] with '0' -> 0 | '1' -> 1 | '2' | '3' -> 2 | '4' .. '7' -> 3 | _ -> 4) in
     let bits = 64 * (ns - 1) + 4 * (String.length top - 1) + lead in
     let e = (bits + 1) / 2 in
     let k = e mod 64 in
     let w = z_of_hex (String.make 1 "1248".[k mod 4] ^ String.make (k / 4) '0') in
     let seed = Big (z_of_int 1, List.init (e / 64) (fun _ -> Z0) @ [w]) in
     (match sqrt_loop (nat_of_int (n + 40)) (nat_of_int (2 * n + 8)) (nat_of_int (8 * n + 32)) (Big (z_of_int 1, x)) seed with
      | SV (s, r) -> string_of_num s ^ " " ^ string_of_num r
      | SFuel -> "FUEL" | SDivZero -> "EXC")
  | [("ratio_round" | "ratio_trunc" | "ratio_floor" | "ratio_ceiling") as fn; n; d] ->
     let x = num_of n and y = num_of d in
     let l = function Fix _ -> 1 | Big (_, d) -> List.length d in
     let k = l x + l y in
     let qf = nat_of_int (2 * k + 8) and mf = nat_of_int (4 * k + 32) in
     let r = (match fn with
              | "ratio_round" -> ratio_round qf mf x y | "ratio_trunc" -> ratio_trunc qf mf x y
              | "ratio_floor" -> ratio_floor qf mf x y | _ -> ratio_ceiling qf mf x y) in
     (match r with NV v -> string_of_num v | NDivZero -> "EXC" | NFuel -> "FUEL")
  | ["ratio_sub"; na; da; nb; db] ->
     let na = num_of na and da = num_of da and nb = num_of nb and db = num_of db in
     let l = function Fix _ -> 1 | Big (_, d) -> List.length d in
     let k = l na + l da + l nb + l db in
     string_of_rres (ratio_sub (nat_of_int (100 * k + 40)) (nat_of_int (2 * k + 8)) (nat_of_int (4 * k + 32)) na da nb db)
  | ["ratio_normalize"; n; d] ->
     let x = num_of n and y = num_of d in
     let l = function Fix _ -> 1 | Big (_, d) -> List.length d in
     let k = l x + l y in
     string_of_rres (ratio_normalize (nat_of_int (100 * k + 40)) (nat_of_int (2 * k + 8)) (nat_of_int (4 * k + 32)) x y)
  | [("ratio_add" | "ratio_mul" | "ratio_div" | "ratio_compare") as fn; na; da; nb; db] ->
     let na = num_of na and da = num_of da and nb = num_of nb and db = num_of db in
     let l = function Fix _ -> 1 | Big (_, d) -> List.length d in
     let k = l na + l da + l nb + l db in
     let fuel = nat_of_int (100 * k + 40) and qf = nat_of_int (2 * k + 8) and mf = nat_of_int (4 * k + 32) in
     (match fn with
      | "ratio_add" -> string_of_rres (ratio_add fuel qf mf na da nb db)
      | "ratio_mul" -> string_of_rres (ratio_mul fuel qf mf na da nb db)
      | "ratio_div" -> string_of_rres (ratio_div fuel qf mf na da nb db)
      | _ -> (match ratio_compare mf na da nb db with
              | Some Z0 -> "0" | Some (Zpos _) -> "1" | Some (Zneg _) -> "-1" | None -> "FUEL"))
  | ["vm_mul"; a; b] ->
     let x = num_of a and y = num_of b in
     let l = function Fix _ -> 1 | Big (_, d) -> List.length d in
     (match vm_mul (nat_of_int (2 * (l x + l y) + 16)) x y with Some r -> string_of_num r | None -> "FUEL")
  | ["vm_add"; a; b] -> string_of_num (vm_add (num_of a) (num_of b))
  | ["vm_sub"; a; b] -> string_of_num (vm_sub (num_of a) (num_of b))
  | f -> "ERR unknown request " ^ String.concat " " f

let () = serve handle
