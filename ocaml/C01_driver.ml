open Model
open Common

(* operand values:  f<hex> fixnum | c<hex> cursor | h<hex> char | i immediate | p<T>:<len hex>:<0|1> object *)
let tag_of = function "P" -> TPair | "V" -> TVector | "B" -> TBytes | "S" -> TString | "I" -> TIPort | "W" -> TOPort | _ -> TOther
let rest s = String.sub s 1 (String.length s - 1)
let val_of (s : string) : val0 =
  match s.[0] with
  | 'f' -> Fix (z_of_hex (rest s))
  | 'c' -> Cur (z_of_hex (rest s))
  | 'h' -> Chr (z_of_hex (rest s))
  | 'i' -> Imm
  | 'p' -> (match String.split_on_char ':' (rest s) with
            | [t; l; m] -> Ptr { o_tag = tag_of t; o_len = z_of_hex l; o_imm = (m = "1") }
            | _ -> failwith ("bad object " ^ s))
  | _ -> failwith ("bad value " ^ s)

let prim_of = function
  | "vector-ref" -> PrVectorRef | "vector-set!" -> PrVectorSet | "vector-length" -> PrVectorLength
  | "bytevector-u8-ref" -> PrBytesRef | "bytevector-u8-set!" -> PrBytesSet | "bytevector-length" -> PrBytesLength
  | "string-cursor-ref" -> PrStringCursorRef | "string-cursor-set!" -> PrStringCursorSet
  | "string-cursor-next" -> PrStringCursorNext | "string-cursor-prev" -> PrStringCursorPrev
  | "string-cursor-end" -> PrStringCursorEnd | "string-length" -> PrStringLength
  | "car" -> PrCar | "cdr" -> PrCdr | "set-car!" -> PrSetCar | "set-cdr!" -> PrSetCdr
  | "make-vector" -> PrMakeVector
  | "char->integer" -> PrCharToInt | "integer->char" -> PrIntToChar | "char-upcase" -> PrCharUpcase | "char-downcase" -> PrCharDowncase
  | "write-char" -> PrWriteChar | "read-char" -> PrReadChar | "peek-char" -> PrPeekChar
  | s -> failwith ("unknown primitive " ^ s)

let string_of_verdict = function MustValue -> "V" | MustError -> "E" | Either -> "X"

let arg l n = match List.nth_opt l n with Some s -> val_of s | None -> Imm

let opt_val s = if s = "F" then None else Some (val_of s)
let string_of_outcome = function
  | PErr ETyp -> "E type"
  | PErr ERange -> "E range"
  | POk [] -> "V -"
  | POk (r :: _) -> "V " ^ hex_of_z r.r_off ^ " " ^ hex_of_z r.r_len
let bytes_of_hex h =
  let n = String.length h / 2 in
  List.init n (fun i -> z_of_hex (String.sub h (2 * i) 2))
let string_of_grow = function Some l -> "S " ^ hex_of_z l | None -> "N"

let handle = function
  | "run" :: k :: vs -> hex_of_z (run_entry vm_table (z_of_hex k) (arg vs 0) (arg vs 1) (arg vs 2) (arg vs 3))
  | "spec" :: p :: vs -> string_of_verdict (spec (prim_of p) (List.map val_of vs))
  | "safe" :: k :: [] ->
     (match List.filter (fun (k', _) -> k' = z_of_hex k) vm_table with
      | e :: _ -> string_of_bool (entry_safe e)
      | [] -> "ERR no such entry")
  | ["substring"; a; b; c] -> string_of_outcome (prim_substring (val_of a) (val_of b) (opt_val c))
  | ["subbytes"; a; b; c] -> string_of_outcome (prim_subbytes (val_of a) (val_of b) (opt_val c))
  | ["cursor2index"; a; b] -> string_of_outcome (prim_cursor_to_index (val_of a) (val_of b))
  | ["makevector"; m; h; w; c] -> string_of_outcome (prim_make_vector (z_of_hex m) (z_of_hex h) (z_of_hex w) (z_of_hex c))
  | ["makebytes"; a] -> string_of_outcome (prim_make_bytes (val_of a))
  | ["index2cursor"; h; a] ->
     let (o, j) = prim_index_to_cursor (bytes_of_hex (if h = "-" then "" else h)) (val_of a) in
     (match o with POk _ -> "V " ^ hex_of_z j | _ -> string_of_outcome o)
  | ["utf8ref"; h; i] -> string_of_outcome (prim_utf8_ref_checked (bytes_of_hex (if h = "-" then "" else h)) (z_of_hex i))
  | ["utf8set"; h; i; n] ->
     (* all regions of the repaired string-set! inside their buffers?  and the length of the new byte store *)
     let rs = prim_utf8_set true (bytes_of_hex (if h = "-" then "" else h)) (z_of_hex i) (z_of_hex n) in
     (if List.for_all in_boundsb rs then "V " else "O ") ^ (match List.rev rs with r :: _ -> hex_of_z r.r_cap | [] -> "-")
  | ["fix2cur"; z] -> hex_of_z (fix_to_cur (z_of_hex z))
  | ["ensure"; m; l; t; n] -> string_of_grow (gen_ensure_stack (z_of_hex m) (z_of_hex l) (z_of_hex t) (z_of_hex n))
  | "wtrunc" :: wb :: lines ->
     (* a C stack of sexp_write_one activations that goes through the call sites at these source lines (looked up in
        the REGENERATED table): how many of the calls happen before an activation refuses to recurse *)
     let rec nat_of_int n = if n <= 0 then O else S (nat_of_int (n - 1)) in
     let rec int_of_nat = function O -> 0 | S n -> 1 + int_of_nat n in
     let wbn = nat_of_int (int_of_string wb) in
     let site_at l = match List.filter (fun (l', _) -> int_of_nat l' = l) write_sites with
       | (_, s) :: _ -> s | [] -> Unknown in
     let tbl = Hashtbl.create 16 in
     let site l = match Hashtbl.find_opt tbl l with Some s -> s | None -> let s = site_at l in Hashtbl.add tbl l s; s in
     let rec go f k = function
       | [] -> k
       | l :: tl -> (match step wbn f (site (int_of_string l)) with Some f' -> go f' (k + 1) tl | None -> k) in
     string_of_int (go (Bounded O) 0 lines)
  | f -> "ERR unknown request " ^ String.concat " " f

let () = serve handle
