(* C13 line protocol:  rtrace <rel 0|1> <number of libraries> <op>;<op>;...
   op = n:<ctx>:<p|s|d> | o:<ctx> | w:<ctx>:<k> | i:<ctx>:<lib> | c:<ctx>:<lib> | x:<ctx>
   answer: one item per op, separated by ';':  <ok 0|1>/<open resource ids ,>/<mapped library ids ,> *)
open Model
open Common

let nat s = nat_of_int (int_of_string s)
let op_of s =
  match String.split_on_char ':' s with
  | ["n"; i; "p"] -> RNew (nat i, Plain)
  | ["n"; i; "s"] -> RNew (nat i, Std1)
  | ["n"; i; "d"] -> RNew (nat i, Dup0)
  | ["o"; i] -> ROpen (nat i)
  | ["w"; i; k] -> RWrite (nat i, nat k)
  | ["i"; i; l] -> RImport (nat i, nat l)
  | ["c"; i; l] -> RCall (nat i, nat l)
  | ["x"; i] -> RDestroy (nat i)
  | _ -> failwith ("bad op " ^ s)
let ints l = String.concat "," (List.map (fun n -> string_of_int (int_of_nat n)) l)

let handle = function
  | ["rtrace"; rel; nl; ops] ->
     let pi = List.map op_of (List.filter (fun s -> s <> "") (String.split_on_char ';' ops)) in
     let tr = rtrace (rel = "1") (nat nl) pi rw0 in
     String.concat ";" (List.map (fun (ok, (rs, ls)) -> (if ok then "1" else "0") ^ "/" ^ ints rs ^ "/" ^ ints ls) tr)
  | _ -> failwith "unknown request"

let () = serve handle
