(* C13 line protocol:
   rtrace <rel 0|1> <number of libraries> <op>;<op>;...
     op = n:<ctx>:<p|s|d> | o:<ctx> | w:<ctx>:<k> | i:<ctx>:<lib> | c:<ctx>:<lib> | x:<ctx>
     answer: one item per op, separated by ';':  <ok 0|1>/<open resource ids ,>/<mapped library ids ,>
   strace <number of context ids> <op>;...          (coq/C13/Sig.v)
     op = n:<ctx> | h:<ctx>:<sig> (install handler) | g:<ctx>:<sig> (ignore) | r:<sig> (raise) | u:<ctx> (run) | x:<ctx>
     answer per op:  <ok>/<ctx>=<pending .>|<got .>,<ctx>=...
   ttrace <ncore> <number of context ids> <op>;...  (coq/C13/Tab.v)
     op = N:<ctx>:<heap units> | R:<ctx>:<name key>:<parent id|-> | I:<ctx>:<name> | D:<ctx>:<name>:<value>
        | L:<ctx>:<lib>:<types>:<symbols> | X:<ctx> | K:<ctx>:<name> (lookup) | F:<ctx>:<name> (find)
     answer per op:  <result>/<ctx>=<ntypes>.<cap>.<nsyms>.<nenv>.<nmods>.<globals>.<symtab>.<tarr>.<closed 0|1>,...|<all pairs disjoint 0|1>
     result = fail | ok | id:<n> | sym:<bucket>:<fresh> | val:<n|-> | found:<0|1> *)
open Model
open Common

let nat s = nat_of_int (int_of_string s)
let op_of s =
  match String.split_on_char ':' s with
  | ["n"; i; "p"] -> RNew (nat i, Plain)
  | ["n"; i; "s"] -> RNew (nat i, Std1)
  | ["n"; i; "d"] -> RNew (nat i, Dup0)
  | ["o"; i] -> ROpen (nat i)
  | ["w"; i; k] -> RWrite (nat i, nat k)
  | ["i"; i; l] -> RImport (nat i, nat l)
  | ["c"; i; l] -> RCall (nat i, nat l)
  | ["x"; i] -> RDestroy (nat i)
  | _ -> failwith ("bad op " ^ s)
let ints l = String.concat "," (List.map (fun n -> string_of_int (int_of_nat n)) l)
let dots l = String.concat "." (List.map (fun n -> string_of_int (int_of_nat n)) l)
let i2s n = string_of_int (int_of_nat n)

let sop_of s =
  match String.split_on_char ':' s with
  | ["n"; i] -> SNew (nat i)
  | ["h"; i; g] -> SInstall (nat i, nat g)
  | ["g"; i; g] -> SIgnore (nat i, nat g)
  | ["r"; g] -> SRaise (nat g)
  | ["u"; i] -> SRun (nat i)
  | ["x"; i] -> SDestroy (nat i)
  | _ -> failwith ("bad signal op " ^ s)

let name_of (s : Stdlib.String.t) : n list =
  List.init (String.length s) (fun k -> n_of_hex (Printf.sprintf "%x" (Char.code s.[k])))

let top_of s =
  match String.split_on_char ':' s with
  | ["N"; i; hs] -> TNew (nat i, nat hs)
  | ["R"; i; nm; "-"] -> TReg (nat i, nat nm, None)
  | ["R"; i; nm; p] -> TReg (nat i, nat nm, Some (nat p))
  | ["I"; i; nm] -> TIntern (nat i, name_of nm)
  | ["D"; i; nm; v] -> TDefine (nat i, name_of nm, nat v)
  | ["L"; i; l; nt; ns] -> TLoad (nat i, nat l, nat nt, nat ns)
  | ["X"; i] -> TDestroy (nat i)
  | ["K"; i; nm] -> TLookup (nat i, name_of nm)
  | ["F"; i; nm] -> TFind (nat i, name_of nm)
  | _ -> failwith ("bad table op " ^ s)

let tres_text = function
  | XFail -> "fail"
  | XOk -> "ok"
  | XId n -> "id:" ^ i2s n
  | XSym (b, f) -> "sym:" ^ i2s b ^ ":" ^ (if f then "1" else "0")
  | XVal None -> "val:-"
  | XVal (Some v) -> "val:" ^ i2s v
  | XFound b -> "found:" ^ (if b then "1" else "0")

let split_ops ops = List.filter (fun s -> s <> "") (String.split_on_char ';' ops)

(* ttrace by hand (the extracted ttrace gives the observations; closedness / disjointness of the model world are
   evaluated with the extracted executable invariant ctx_closed / ctxs_disjoint on the same worlds) *)
let rec ttrace_full ?(k = 0) ncore n pi w =
  match pi with
  | [] -> []
  | o :: r ->
     (* the executable invariant is evaluated on every 16th world and on the last one (it is quadratic in unary numbers) *)
     let check = (k mod 16 = 15) || r = [] in
     let (w', x) = tstep ncore w o in
     let ids = List.init (int_of_nat n) (fun k -> nat_of_int k) in
     let live = List.filter_map (fun i -> match w'.tcx i with Some c -> Some (i, c) | None -> None) ids in
     let one (i, c) =
       Printf.sprintf "%s=%s.%s.%s.%s.%s.%s.%s.%s.%s" (i2s i) (i2s (List.length c.types |> nat_of_int)) (i2s c.tcap)
         (i2s (List.length c.syms |> nat_of_int)) (i2s (List.length c.env |> nat_of_int)) (i2s (List.length c.mods |> nat_of_int))
         (i2s c.globals) (i2s c.symtab) (i2s c.tarr) (if (not check) || ctx_closed c then "1" else "0") in
     let disj = (not check) || List.for_all (fun (i, c) -> List.for_all (fun (j, d) -> i = j || ctxs_disjoint c d) live) live in
     (tres_text x ^ "/" ^ String.concat "," (List.map one live) ^ "|" ^ (if disj then "1" else "0")) :: ttrace_full ~k:(k + 1) ncore n r w'

let handle = function
  | ["rtrace"; rel; nl; ops] ->
     let pi = List.map op_of (split_ops ops) in
     let tr = rtrace (rel = "1") (nat nl) pi rw0 in
     String.concat ";" (List.map (fun (ok, (rs, ls)) -> (if ok then "1" else "0") ^ "/" ^ ints rs ^ "/" ^ ints ls) tr)
  | ["strace"; n; ops] ->
     let pi = List.map sop_of (split_ops ops) in
     let tr = strace (nat n) pi sw0 in
     String.concat ";" (List.map (fun (ok, cs) ->
         (if ok then "1" else "0") ^ "/" ^ String.concat "," (List.map (fun (i, (p, g)) -> i2s i ^ "=" ^ dots p ^ "|" ^ dots g) cs)) tr)
  | ["ttrace"; ncore; n; ops] ->
     let pi = List.map top_of (split_ops ops) in
     String.concat ";" (ttrace_full (nat ncore) (nat n) pi tw0)
  | _ -> failwith "unknown request"

let () = serve handle
