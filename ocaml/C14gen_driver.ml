(* C14 driver for the code TRANSLATED from lib/meta-7.scm (Gen/C14_ImportCode.v).
     world ((name...) <exports: #f | (id ...)> ) ...   ids: sym or (to . from)      -> "ok"
     resolve <datum>            -> the printed result of (%resolve-import 'datum), or "ERR <kind> <message>"
     drop <a> <b> / append <a> <b>   -> symbol-drop / symbol-append on two symbols
   Data are read generically (symbols, numbers, #t/#f, proper and dotted lists). *)
type ostring = string
let olen = String.length
let oget = String.get
let osub = String.sub
let oconcat = String.concat
let omake = String.make
open Model

let coq_of_char (c : char) : ascii =
  let n = Char.code c in
  let b k = (n lsr k) land 1 = 1 in
  Ascii (b 0, b 1, b 2, b 3, b 4, b 5, b 6, b 7)
let char_of_coq (a : ascii) : char =
  match a with Ascii (b0, b1, b2, b3, b4, b5, b6, b7) ->
    let v b k = if b then 1 lsl k else 0 in
    Char.chr (v b0 0 + v b1 1 + v b2 2 + v b3 3 + v b4 4 + v b5 5 + v b6 6 + v b7 7)
let coq_of_ostring (s : ostring) : string =
  let r = ref EmptyString in
  for i = olen s - 1 downto 0 do r := String (coq_of_char (oget s i), !r) done; !r
let rec ostring_of_coq (s : string) : ostring =
  match s with EmptyString -> "" | String (a, r) -> omake 1 (char_of_coq a) ^ ostring_of_coq r

let rec pos_of_int (i : int) : positive =
  if i = 1 then XH else if i land 1 = 1 then XI (pos_of_int (i lsr 1)) else XO (pos_of_int (i lsr 1))
let z_of_int (i : int) : z = if i = 0 then Z0 else if i > 0 then Zpos (pos_of_int i) else Zneg (pos_of_int (- i))
let rec int_of_pos = function XH -> 1 | XO p -> 2 * int_of_pos p | XI p -> 2 * int_of_pos p + 1
let int_of_z = function Z0 -> 0 | Zpos p -> int_of_pos p | Zneg p -> - (int_of_pos p)
let rec nat_of_int (i : int) : nat = if i <= 0 then O else S (nat_of_int (i - 1))

let is_num (a : ostring) =
  let n = olen a in
  n > 0 && (let st = if oget a 0 = '-' then 1 else 0 in st < n &&
            (let ok = ref true in for i = st to n - 1 do if oget a i < '0' || oget a i > '9' then ok := false done; !ok))

let parse (s : ostring) : sx list =
  let n = olen s in
  let pos = ref 0 in
  let rec skip () = if !pos < n && (oget s !pos = ' ' || oget s !pos = '\t') then (incr pos; skip ()) in
  let rec one () : sx =
    skip ();
    if !pos >= n then failwith "parse: eof";
    if oget s !pos = '(' then begin
      incr pos; tail ()
    end else if oget s !pos = ')' then failwith "parse: )"
    else if oget s !pos = '"' then begin
      let st = !pos + 1 in
      pos := st;
      while !pos < n && oget s !pos <> '"' do incr pos done;
      let a = osub s st (!pos - st) in
      incr pos; Str (coq_of_ostring a)
    end else if oget s !pos = '|' then begin
      let st = !pos + 1 in
      pos := st;
      while !pos < n && oget s !pos <> '|' do incr pos done;
      let a = osub s st (!pos - st) in
      incr pos; Sym (coq_of_ostring a)
    end else begin
      let st = !pos in
      while !pos < n && (let c = oget s !pos in c <> ' ' && c <> '(' && c <> ')') do incr pos done;
      let a = osub s st (!pos - st) in
      if a = "#t" then Bool true else if a = "#f" then Bool false
      else if is_num a then Num (z_of_int (int_of_string a))
      else Sym (coq_of_ostring a)
    end
  and tail () : sx =
    skip ();
    if !pos >= n then failwith "parse: unclosed";
    if oget s !pos = ')' then (incr pos; Nil)
    else if oget s !pos = '.' && !pos + 1 < n && oget s (!pos + 1) = ' ' then begin
      incr pos;
      let d = one () in
      skip ();
      if !pos < n && oget s !pos = ')' then (incr pos; d) else failwith "parse: dotted"
    end else begin
      let a = one () in
      let d = tail () in
      Pair (a, d)
    end in
  let out = ref [] in
  let rec all () = skip (); if !pos < n then (out := one () :: !out; all ()) in
  all (); List.rev !out

let symtext (s : string) : ostring =
  let o = ostring_of_coq s in
  if o = "" then "||" else o

let rec show (v : sx) : ostring =
  match v with
  | Nil -> "()"
  | Sym s -> symtext s
  | Str s -> "\"" ^ ostring_of_coq s ^ "\""
  | Num z -> string_of_int (int_of_z z)
  | Bool true -> "#t"
  | Bool false -> "#f"
  | Void -> "#<void>"
  | Pair (a, d) -> "(" ^ show a ^ show_tail d
and show_tail = function
  | Nil -> ")"
  | Pair (a, d) -> " " ^ show a ^ show_tail d
  | v -> " . " ^ show v ^ ")"

let world : sx ref = ref Nil
let fuel = nat_of_int 5000

let show_res = function
  | Ok v -> show v
  | Err OutOfFuel -> "ERR fuel"
  | Err (SchemeError m) -> "ERR scheme " ^ ostring_of_coq m
  | Err (TypeError m) -> "ERR type " ^ ostring_of_coq m

(* module object = (exports . env-exports); env-exports unused for libraries with an export list *)
let rec mk_world = function
  | [] -> Nil
  | Pair (name, Pair (exports, Nil)) :: r -> Pair (Pair (name, Pair (exports, Nil)), mk_world r)
  | _ -> failwith "world entry"

let handle (line : ostring) : ostring =
  let sp = try String.index line ' ' with Not_found -> olen line in
  let verb = osub line 0 sp in
  let rest = if sp < olen line then osub line (sp + 1) (olen line - sp - 1) else "" in
  match verb, parse rest with
  | "world", entries -> world := mk_world entries; "ok"
  | "resolve", [x] -> show_res (resolve_import fuel !world x)
  | "drop", [a; b] -> show_res (symbol_drop !world a b)
  | "append", [a; b] -> show_res (symbol_append !world a b)
  | "condexpand", [feats; clauses] -> show_res (ce_expand feats fuel !world clauses)   (* Gen/C14_CondExpand.v: *features*, fuel, W, clause list *)
  | _ -> "ERR bad request"

let () =
  (try
     while true do
       let line = input_line stdin in
       let out = try handle line with Failure m -> "ERR " ^ m | Not_found -> "ERR not_found" | Stack_overflow -> "ERR stack_overflow" in
       print_string out; print_char '\n'
     done
   with End_of_file -> ());
  flush stdout
