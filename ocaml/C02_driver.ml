(* C02 driver.  One request per line:
     <cmd> <context tag, hex> <specs> <root, hex> <objects>
   specs   = spec;spec;...   spec = 13 signed hex numbers separated by ','  ("-" = no such type)
   objects = obj;obj;...     obj  = addr:tag:marked:w0,w1,...:s1,s2,...   (hex; saves may be empty)
   cmd: mark   -> "OK a1,a2,..." (marked addresses, ascending) | "ERR <kind>"
        gc     -> "OK a1,a2,..." (addresses present after mark+sweep, ascending; all unmarked) | "ERR <kind>"
        layout -> "OK p.ns.size;..." per object in request order ("?" when the model has no layout)
        wf     -> "OK 1" | "OK 0"   (heap_ok)
        all    -> "L <layout> | W <0/1> | M <marked> | G <survivors>"  (one parse of the heap for the four answers)
   or the single word  gcmacros  -> "OK K:chain:release;..." (see below) *)
open Model
open Common
(* the extracted GcMacros model brings Coq's [string] type with it: in this file `string` is OCaml's *)
type string = Stdlib.String.t

(* hex -> Z without the intermediate bit string of Common.z_of_hex (the dumps carry ~10^5 words) *)
let z_of_hex_fast (s : string) : z =
  let n = String.length s in
  let neg = n > 0 && s.[0] = '-' in
  let acc = ref XH and started = ref false in
  for i = (if neg then 1 else 0) to n - 1 do
    let c = s.[i] in
    let v = match c with
      | '0' .. '9' -> Char.code c - 48
      | 'a' .. 'f' -> Char.code c - 87
      | 'A' .. 'F' -> Char.code c - 55
      | _ -> failwith ("bad hex digit in " ^ s) in
    for k = 3 downto 0 do
      let b = (v lsr k) land 1 = 1 in
      if !started then acc := (if b then XI !acc else XO !acc)
      else if b then started := true
    done
  done;
  if not !started then Z0 else if neg then Zneg !acc else Zpos !acc
let z_of_hex = z_of_hex_fast

let zl s = if s = "" then [] else List.map z_of_hex (String.split_on_char ',' s)

let nospec = { field_base = Z0; field_eq_len_base = Z0; field_len_base = Z0; field_len_off = Zneg XH; field_len_scale = Z0;
               size_base = Z0; size_off = Zneg XH; size_scale = Z0; weak_base = Z0; weak_len_base = Z0; weak_len_off = Z0;
               weak_len_scale = Z0; weak_len_extra = Z0 }

let spec_of_string s =
  if s = "-" then nospec else
  match zl s with
  | [a; b; c; d; e; f; g; h; i; j; k; l; m] ->
     { field_base = a; field_eq_len_base = b; field_len_base = c; field_len_off = d; field_len_scale = e;
       size_base = f; size_off = g; size_scale = h; weak_base = i; weak_len_base = j; weak_len_off = k;
       weak_len_scale = l; weak_len_extra = m }
  | _ -> failwith "bad spec"

let obj_of_string s =
  match String.split_on_char ':' s with
  | [a; t; m; ws; ss] -> (z_of_hex a, { tag = z_of_hex t; marked = (m = "1"); words = zl ws; saves = zl ss })
  | _ -> failwith "bad object"

let string_of_err = function OutOfFuel -> "OutOfFuel" | BadPtr -> "BadPtr" | BadTag -> "BadTag" | BadLayout -> "BadLayout"

let addrs_of h keep =
  let l = PositiveMap.fold (fun k o acc -> if keep o then k :: acc else acc) h [] in
  let l = List.map (fun p -> hex_of_pos p) l in
  let l = List.sort (fun a b -> let c = compare (String.length a) (String.length b) in if c <> 0 then c else compare a b) l in
  String.concat "," l

let handle = function
  | [cmd; ct; specs; root; objs] ->
     let l = { specs = List.map spec_of_string (String.split_on_char ';' specs); context_tag = z_of_hex ct } in
     let ol = if objs = "" then [] else List.map obj_of_string (String.split_on_char ';' objs) in
     let h = heap_of_list ol in
     let r = z_of_hex root in
     (match cmd with
      | "mark" -> (match mark l h r with Ok h' -> "OK " ^ addrs_of h' (fun o -> o.marked) | Err e -> "ERR " ^ string_of_err e)
      | "gc" -> (match gc l h r with
                 | Ok h' -> if PositiveMap.fold (fun _ o acc -> acc && not o.marked) h' true then "OK " ^ addrs_of h' (fun _ -> true) else "ERR mark-left-set"
                 | Err e -> "ERR " ^ string_of_err e)
      | "layout" ->
         "OK " ^ String.concat ";" (List.map (fun (_, o) -> match layout_of l o with
                                       | Some ((p, ns), sz) -> Printf.sprintf "%d.%d.%s" (int_of_nat p) (int_of_nat ns) (hex_of_z sz)
                                       | None -> "?") ol)
      | "wf" -> if heap_ok l h && ptr_ok h r then "OK 1" else "OK 0"
      | "all" ->
         let lay = String.concat ";" (List.map (fun (_, o) -> match layout_of l o with
                                       | Some ((p, ns), sz) -> Printf.sprintf "%d.%d.%s" (int_of_nat p) (int_of_nat ns) (hex_of_z sz)
                                       | None -> "?") ol) in
         let wf = if heap_ok l h && ptr_ok h r then "1" else "0" in
         (match mark l h r with
          | Err e -> "L " ^ lay ^ " | W " ^ wf ^ " | M ERR " ^ string_of_err e ^ " | G ERR"
          | Ok h1 ->
             let h2 = sweep h1 in
             let clear = PositiveMap.fold (fun _ o acc -> acc && not o.marked) h2 true in
             "L " ^ lay ^ " | W " ^ wf ^ " | M " ^ addrs_of h1 (fun o -> o.marked) ^ " | G " ^ (if clear then addrs_of h2 (fun _ -> true) else "ERR mark-left-set"))
      | _ -> "ERR unknown command")
  | ["gcmacros"] ->
     (* the regenerated macro table run through the extracted model: K:chain:release;...  chain = 1-based argument
        positions in the order the marker visits them, 0 = the caller's list, "?" = cyclic / unknown *)
     "OK " ^ String.concat ";" (List.map (fun (k, (ch, rel)) ->
       Printf.sprintf "%d:%s:%s" (int_of_nat k)
         (match ch with Some l -> String.concat "," (List.map (fun i -> string_of_int (int_of_nat i)) l) | None -> "?")
         (if rel then "1" else "0")) gc_macro_report)
  | ["pres"; ops] ->
     (* sexp_preserve_object / sexp_release_object: ops = p<id>,r<id>,... from the empty list; answer = ids on the list, head first *)
     let parse s = ((s.[0] = 'p'), nat_of_int (int_of_string (String.sub s 1 (String.length s - 1)))) in
     let l = run_ops (List.map parse (List.filter (fun s -> s <> "") (String.split_on_char ',' ops))) [] in
     "OK " ^ String.concat "," (List.map (fun i -> string_of_int (int_of_nat i)) l)
  | f -> "ERR bad request (" ^ string_of_int (List.length f) ^ " fields)"

let () = serve handle
