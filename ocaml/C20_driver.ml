(* C20 line protocol.
   sre (prefix tokens):  E | F | C <cset> | S a b | A a b | K g a | P a | O g a | R g m n a | U a
                         | N <bos|eos|bol|eol|bow|eow|nwb> | I a | J a      (g: 1 greedy / 0; n: number or i)
   cset:                 c HEX | r HEX HEX | a | o A B | n A B | ~ A | - A B | i A | j A
   string:               comma separated hex code points, "_" = empty
   spans:                comma separated  i-j  or  x (#f)
   requests:
     B <sre> | s1 | s2 ...      ->  "<has_nongreedy><count_subs>" then for each string
                                    "<matchb><searchb>:<search_span i-j or x>", space separated
     C <sre> | s | spans        ->  check_spans as 0/1
     G <sre> | s1 | s2 ...      ->  "<has_nongreedy><left_anchored>" then for each string the spans regexp-fold hands to
                                    kons: "i-j,i-j" or "_" (none), "!" = out of fuel
     A s1 | s2 ...              ->  for each string, for every position 0..len, the 7 values of anchor_ok
                                    (bos eos bol eol bow eow nwb) as 0/1, positions separated by ","
     X from to                  ->  expand_reps: c/C = copy without/with submatches, o/O = optional copy, S = star; to = number or i
     Q ng | v1 | v2             ->  match_ge ng 0 v1 v2 as 0/1; ng: comma separated slot numbers or "_"; a vector: comma separated
                                    numbers or x (not set)
     F HEX -> fold, W HEX -> is_word
   engine (coq/C20/Nfa.v) requests, xsre in prefix tokens:
     e | f | c <cset> | s <n> HEX*n | q a b | l a b | b a (a = an l-spine spelled with the alias of or) | k g b | p b | o g b | r g m n b | u b | m b | x b | w b
       | n <anchor> | i b | j b      (n-ary forms as spines: (seq a b) = q a q b e ; (or a b) = l a l b f)
     Y <xsre> | alphabet        ->  "<start> <nsave> <ngi or _> wf<wf_x><ngs> | id:kind:match:rule:n1:n2 ..."  the state table of compile_top;
                                    kind = A accept, E epsilon, G<anchor>, C<0/1 per alphabet character>; rule n/l/r/g; x = none
     Z <0|1 search> <xsre> | s [| orders]  ->  the snapshots of loop_tr_ord (orders: per step the state ids in the order the code
                                    walked searchers1, "," within a step, ";" between steps; absent = insertion order) "i;acc;q=vec q=vec ..." separated by " | ", then " # " and the
                                    vector regexp-run-offsets returns ("-" none); vec = comma separated positions, x = unset; "!" = fuel *)
open Model
open Common

exception Parse of string

let rec p_cset = function
  | "c" :: h :: r -> (CsChar (n_of_hex h), r)
  | "r" :: a :: b :: r -> (CsRange (n_of_hex a, n_of_hex b), r)
  | "a" :: r -> (CsAny, r)
  | "o" :: r -> let (a, r) = p_cset r in let (b, r) = p_cset r in (CsOr (a, b), r)
  | "n" :: r -> let (a, r) = p_cset r in let (b, r) = p_cset r in (CsAnd (a, b), r)
  | "~" :: r -> let (a, r) = p_cset r in (CsNot a, r)
  | "-" :: r -> let (a, r) = p_cset r in let (b, r) = p_cset r in (CsDiff (a, b), r)
  | "i" :: r -> let (a, r) = p_cset r in (CsNoCase a, r)
  | "j" :: r -> let (a, r) = p_cset r in (CsCase a, r)
  | t :: _ -> raise (Parse ("cset token " ^ t))
  | [] -> raise (Parse "cset: end of input")

let anchor_of = function
  | "bos" -> Bos | "eos" -> Eos | "bol" -> Bol | "eol" -> Eol
  | "bow" -> Bow | "eow" -> Eow | "nwb" -> Nwb
  | t -> raise (Parse ("anchor " ^ t))

let gb = function "1" -> true | "0" -> false | t -> raise (Parse ("flag " ^ t))

let rec p_sre = function
  | "E" :: r -> (Eps, r)
  | "F" :: r -> (Fail, r)
  | "C" :: r -> let (c, r) = p_cset r in (Chr c, r)
  | "S" :: r -> let (a, r) = p_sre r in let (b, r) = p_sre r in (Seq (a, b), r)
  | "A" :: r -> let (a, r) = p_sre r in let (b, r) = p_sre r in (Alt (a, b), r)
  | "K" :: g :: r -> let (a, r) = p_sre r in (Star (gb g, a), r)
  | "P" :: r -> let (a, r) = p_sre r in (Plus a, r)
  | "O" :: g :: r -> let (a, r) = p_sre r in (Opt (gb g, a), r)
  | "R" :: g :: m :: n :: r ->
      let (a, r) = p_sre r in
      let n' = if n = "i" then None else Some (nat_of_int (int_of_string n)) in
      (Rep (gb g, nat_of_int (int_of_string m), n', a), r)
  | "U" :: r -> let (a, r) = p_sre r in (Sub a, r)
  | "N" :: k :: r -> (Anc (anchor_of k), r)
  | "I" :: r -> let (a, r) = p_sre r in (NoCase a, r)
  | "J" :: r -> let (a, r) = p_sre r in (Case a, r)
  | t :: _ -> raise (Parse ("sre token " ^ t))
  | [] -> raise (Parse "sre: end of input")

let rec take_n n l = if n = 0 then ([], l) else match l with
  | h :: r -> let (a, b) = take_n (n - 1) r in (n_of_hex h :: a, b)
  | [] -> raise (Parse "string literal: end of input")

let rec p_x = function
  | "e" :: r -> (XEps, r)
  | "f" :: r -> (XFail, r)
  | "c" :: r -> let (c, r) = p_cset r in (XChr c, r)
  | "s" :: n :: r -> let (l, r) = take_n (int_of_string n) r in (XStr l, r)
  | "q" :: r -> let (a, r) = p_x r in let (b, r) = p_x r in (XSeq (a, b), r)
  | "l" :: r -> let (a, r) = p_x r in let (b, r) = p_x r in (XAlt (a, b), r)
  | "b" :: r -> let (a, r) = p_x r in (XBar a, r)
  | "k" :: g :: r -> let (a, r) = p_x r in (XStar (gb g, a), r)
  | "p" :: r -> let (a, r) = p_x r in (XPlus a, r)
  | "o" :: g :: r -> let (a, r) = p_x r in (XOpt (gb g, a), r)
  | "r" :: g :: m :: n :: r ->
      let (a, r) = p_x r in
      let n' = if n = "i" then None else Some (nat_of_int (int_of_string n)) in
      (XRep (gb g, nat_of_int (int_of_string m), n', a), r)
  | "u" :: r -> let (a, r) = p_x r in (XSub a, r)
  | "m" :: r -> let (a, r) = p_x r in (XNamed a, r)
  | "x" :: r -> let (a, r) = p_x r in (XNoCap a, r)
  | "w" :: r -> let (a, r) = p_x r in (XWord a, r)
  | "n" :: k :: r -> (XAnc (anchor_of k), r)
  | "i" :: r -> let (a, r) = p_x r in (XNoCase a, r)
  | "j" :: r -> let (a, r) = p_x r in (XCase a, r)
  | t :: _ -> raise (Parse ("xsre token " ^ t))
  | [] -> raise (Parse "xsre: end of input")

let oi = function None -> "x" | Some n -> string_of_int (int_of_nat n)
let vec_s (m : nat option list) = if m = [] then "_" else String.concat "," (List.map oi m)
let anchor_name = function Bos -> "bos" | Eos -> "eos" | Bol -> "bol" | Eol -> "eol" | Bow -> "bow" | Eow -> "eow" | Nwb -> "nwb"

let str_of = function
  | [s] -> if s = "_" then [] else List.map n_of_hex (String.split_on_char ',' s)
  | _ -> raise (Parse "string field")

let spans_of = function
  | [s] ->
      List.map (fun t ->
          if t = "x" then None
          else match String.split_on_char '-' t with
            | [a; b] -> Some (nat_of_int (int_of_string a), nat_of_int (int_of_string b))
            | _ -> raise (Parse ("span " ^ t)))
        (String.split_on_char ',' s)
  | _ -> raise (Parse "spans field")

(* split a token list at "|" *)
let rec split_bar acc cur = function
  | [] -> List.rev (List.rev cur :: acc)
  | "|" :: r -> split_bar (List.rev cur :: acc) [] r
  | t :: r -> split_bar acc (t :: cur) r

let b2s b = if b then "1" else "0"

let handle fields =
  try
    match fields with
    | "B" :: rest ->
        (match split_bar [] [] rest with
         | sre :: strs ->
             let (r, left) = p_sre sre in
             if left <> [] then "ERR trailing sre tokens" else
             String.concat " "
               ((b2s (has_nongreedy r) ^ string_of_int (int_of_nat (count_subs r))) ::
                List.map (fun f ->
                    let s = str_of f in
                    b2s (matchb r s) ^ b2s (searchb r s) ^ ":" ^
                    (match search_span r s with
                     | None -> "x"
                     | Some (i, j) -> string_of_int (int_of_nat i) ^ "-" ^ string_of_int (int_of_nat j))) strs)
         | [] -> "ERR empty")
    | "G" :: rest ->
        (match split_bar [] [] rest with
         | sre :: strs ->
             let (r, left) = p_sre sre in
             if left <> [] then "ERR trailing sre tokens" else
             String.concat " "
               ((b2s (has_nongreedy r) ^ b2s (left_anchored r)) ::
                List.map (fun f ->
                    match fold_spans r (str_of f) with
                    | None -> "!"
                    | Some [] -> "_"
                    | Some l -> String.concat "," (List.map (fun (i, j) ->
                          string_of_int (int_of_nat i) ^ "-" ^ string_of_int (int_of_nat j)) l)) strs)
         | [] -> "ERR empty")
    | "A" :: rest ->
        String.concat " "
          (List.map (fun f ->
               let s = str_of f in
               let rec go p l acc =
                 let n = match l with [] -> None | c :: _ -> Some c in
                 let bits = String.concat "" (List.map (fun k -> b2s (anchor_ok k p n)) [Bos; Eos; Bol; Eol; Bow; Eow; Nwb]) in
                 match l with
                 | [] -> List.rev (bits :: acc)
                 | c :: l' -> go (Some c) l' (bits :: acc) in
               String.concat "," (go None s []))
             (split_bar [] [] rest))
    | "C" :: rest ->
        (match split_bar [] [] rest with
         | [sre; s; sp] ->
             let (r, left) = p_sre sre in
             if left <> [] then "ERR trailing sre tokens" else
             b2s (check_spans r (str_of s) (spans_of sp))
         | _ -> "ERR fields")
    | "Q" :: rest ->
        let vec = function
          | [s] -> List.map (fun t -> if t = "x" then None else Some (nat_of_int (int_of_string t))) (String.split_on_char ',' s)
          | _ -> raise (Parse "vector field") in
        (match split_bar [] [] rest with
         | [ng; v1; v2] ->
             let ng = match ng with ["_"] -> [] | [s] -> List.map (fun t -> nat_of_int (int_of_string t)) (String.split_on_char ',' s)
                                    | _ -> raise (Parse "ng field") in
             b2s (match_ge ng O (vec v1) (vec v2))
         | _ -> "ERR fields")
    | ["X"; a; b] ->
        let t = if b = "i" then None else Some (nat_of_int (int_of_string b)) in
        let l = expand_reps (nat_of_int (int_of_string a)) t in
        if l = [] then "_" else
        String.concat "" (List.map (function
            | RCopy true -> "C" | RCopy false -> "c" | ROptc true -> "O" | ROptc false -> "o" | RStarc -> "S") l)
    | "Y" :: rest ->
        (match split_bar [] [] rest with
         | [x; al] ->
             let (x, left) = p_x x in
             if left <> [] then "ERR trailing xsre tokens" else
             let al = str_of al in
             let nf = compile_top x in
             let st i (s : state) =
               String.concat ":" [
                 string_of_int i;
                 (match s.s_kind with
                  | KAccept -> "A" | KEps -> "E" | KAnchor k -> "G" ^ anchor_name k
                  | KChar (ci, cs) -> "C" ^ String.concat "" (List.map (fun c -> b2s (cs_mem ci cs c)) al));
                 oi s.s_match;
                 (match s.s_rule with RNone -> "n" | RLeft -> "l" | RRight -> "r" | RNgLeft -> "g");
                 oi s.s_n1; oi s.s_n2 ] in
             String.concat " "
               ([string_of_int (int_of_nat nf.n_start); string_of_int (int_of_nat nf.n_nsave);
                 (if nf.n_ngi = [] then "_" else String.concat "," (List.map (fun n -> string_of_int (int_of_nat n)) nf.n_ngi));
                 "wf" ^ b2s (wf_x x) ^ b2s (ngs x); "|"]
                @ List.mapi st nf.n_tb)
         | _ -> "ERR fields")
    | "Z" :: sf :: rest ->
        (match split_bar [] [] rest with
         | x :: s :: ords ->
             let (x, left) = p_x x in
             if left <> [] then "ERR trailing xsre tokens" else
             let s = str_of s in
             let search = gb sf in
             let nf = compile_top x in
             (* optional third field: the order in which the code walked searchers1 at every step: steps separated by
                ";", state ids by ",", "_" = none *)
             let ords = match ords with
               | [] -> []
               | [[o]] -> List.map (fun st -> if st = "_" || st = "" then [] else
                                      List.map (fun t -> nat_of_int (int_of_string t)) (String.split_on_char ',' st))
                            (String.split_on_char ';' o)
               | _ -> raise (Parse "orders field") in
             (match loop_tr_ord ords search nf s (nat_of_int (List.length s)) O [] None with
              | None -> "!"
              | Some tr ->
                  let snap ((i, p), acc) =
                    String.concat ";" [string_of_int (int_of_nat i);
                                       (match acc with None -> "-" | Some m -> vec_s m);
                                       String.concat " " (List.map (fun (q, m) -> string_of_int (int_of_nat q) ^ "=" ^ vec_s m) p)] in
                  String.concat " | " (List.map snap tr) ^ " # " ^
                  (match result_of search s tr with Some m -> vec_s m | None -> "-"))
         | _ -> "ERR fields")
    | ["F"; h] -> hex_of_n (fold (n_of_hex h))
    | ["W"; h] -> b2s (is_word (n_of_hex h))
    | f -> "ERR unknown request " ^ String.concat " " f
  with Parse m -> "ERR parse " ^ m

let () = serve handle
