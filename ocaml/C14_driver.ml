(* C14 spec driver.  Line protocol (one request per line, S-expression syntax after the verb):
     graph ((name...) (iset...) (def...) ((ext int)...)) ...   -> "ok"        sets the current library graph
     denote <iset>                                              -> "ERR" | "n<TAB>m n<TAB>m ..." (| "_" when empty)
     origin (<iset> ...) (name ...)                             -> one token per name: O:<lib.with.dots>:<m> | U | A | E
     frames (<iset> ...)                                        -> Env.env_import folded over the import sets from one empty frame (the
                                                                   exporter binds every listed internal name): per frame, innermost first,
                                                                   "(k1 k2 ...)" = its rename keys in the order env-exports lists them; ERR on import error
     history ((lib (import ...)) ...) ((kind req) ...)          -> Importers.run from the booted world (libraries are numbers; kind = importer):
                                                                   one outcome per request D | S<l> | N<l> | F, then " | " and the
                                                                   libraries whose body was evaluated, oldest first
     closed (<iset> ...) (<wrapper> ...) (name ...)            -> SynClo.closed_probe: per name the definition a plain symbol resolves to in
                                                                   user code at the user-form position of the innermost wrapper (outermost first;
                                                                   wrapper = (mac <visible name of an wif/wifx/w0/erw macro>)): first token W:<kinds>, then
                                                                   O:<lib>:<m> | U | L (a template's local): Env.env_cell in the model environments
                                                                   built by env_import; "ERR NOTMACRO" when a wrapper name is not such a macro
     exports (imp ...) (form ...)                               -> ExportAll.env_exports of the top frame ExportAll.eval_body leaves: the names an
                                                                   (export-all) library exports once loaded, in env-exports order ("_" when none)
   Own text<->Coq string conversions: Model shadows OCaml's [string]. *)
type ostring = string
let olen = String.length
let oget = String.get
let osub = String.sub
let oconcat = String.concat
let omake = String.make
open Model

let coq_of_char (c : char) : ascii =
  let n = Char.code c in
  let b k = (n lsr k) land 1 = 1 in
  Ascii (b 0, b 1, b 2, b 3, b 4, b 5, b 6, b 7)
let char_of_coq (a : ascii) : char =
  match a with Ascii (b0, b1, b2, b3, b4, b5, b6, b7) ->
    let v b k = if b then 1 lsl k else 0 in
    Char.chr (v b0 0 + v b1 1 + v b2 2 + v b3 3 + v b4 4 + v b5 5 + v b6 6 + v b7 7)
let coq_of_ostring (s : ostring) : string =
  let r = ref EmptyString in
  for i = olen s - 1 downto 0 do r := String (coq_of_char (oget s i), !r) done; !r
let rec ostring_of_coq (s : string) : ostring =
  match s with EmptyString -> "" | String (a, r) -> omake 1 (char_of_coq a) ^ ostring_of_coq r

type sexp = A of ostring | L of sexp list

let parse (s : ostring) : sexp list =
  let n = olen s in
  let pos = ref 0 in
  let rec skip () = if !pos < n && (oget s !pos = ' ' || oget s !pos = '\t') then (incr pos; skip ()) in
  let rec one () : sexp =
    skip ();
    if !pos >= n then failwith "parse: eof";
    if oget s !pos = '(' then begin
      incr pos;
      let items = ref [] in
      let rec loop () =
        skip ();
        if !pos >= n then failwith "parse: unclosed";
        if oget s !pos = ')' then incr pos else (items := one () :: !items; loop ()) in
      loop (); L (List.rev !items)
    end else if oget s !pos = ')' then failwith "parse: )"
    else if oget s !pos = '|' then begin
      (* |...| symbol (the empty symbol is written ||) *)
      let st = !pos + 1 in
      pos := st;
      while !pos < n && oget s !pos <> '|' do incr pos done;
      let a = osub s st (!pos - st) in
      incr pos; A a
    end else begin
      let st = !pos in
      while !pos < n && (let c = oget s !pos in c <> ' ' && c <> '(' && c <> ')') do incr pos done;
      A (osub s st (!pos - st))
    end in
  let out = ref [] in
  let rec all () = skip (); if !pos < n then (out := one () :: !out; all ()) in
  all (); List.rev !out

let atom = function A a -> coq_of_ostring a | L _ -> failwith "expected a symbol"
let atoms = function L l -> List.map atom l | A _ -> failwith "expected a list"

let rec iset_of (x : sexp) : iset =
  match x with
  | L (A "only" :: (L _ as i) :: ids) -> IOnly (iset_of i, List.map atom ids)
  | L (A "except" :: (L _ as i) :: ids) -> IExcept (iset_of i, List.map atom ids)
  | L (A "rename" :: (L _ as i) :: prs) ->
      IRename (iset_of i, List.map (function L [a; b] -> (atom a, atom b) | _ -> failwith "rename pair") prs)
  | L [A "prefix"; (L _ as i); p] -> IPrefix (iset_of i, atom p)
  | L [A "drop-prefix"; (L _ as i); p] -> IDropPrefix (iset_of i, atom p)
  | L l -> ILib (List.map atom l)
  | A _ -> failwith "import set"

let libdef_of (x : sexp) : libdef =
  match x with
  | L [name; L imports; defs; L exports] ->
      { ld_name = atoms name; ld_imports = List.map iset_of imports; ld_defs = atoms defs;
        ld_exports = List.map (function L [a; b] -> (atom a, atom b) | _ -> failwith "export pair") exports }
  | _ -> failwith "libdef"

let graph : libdef list ref = ref []

let sym (s : string) : ostring =
  let o = ostring_of_coq s in
  if o = "" then "||" else o

let show_origin = function
  | Origin (l, m) -> "O:" ^ oconcat "." (List.map sym l) ^ ":" ^ sym m
  | Unbound -> "U"
  | Ambiguous -> "A"
  | ImportError -> "E"

let rec nat_of_int (i : int) : nat = if i <= 0 then O else S (nat_of_int (i - 1))
let rec int_of_nat = function O -> 0 | S m -> 1 + int_of_nat m
let num = function A a -> nat_of_int (int_of_string a) | L _ -> failwith "expected a number"
let show_outcome = function
  | Done -> "D"
  | SelfReference l -> "S" ^ string_of_int (int_of_nat l)
  | NotFound l -> "N" ^ string_of_int (int_of_nat l)
  | OutOfFuel -> "F"

let handle (line : ostring) : ostring =
  let sp = try String.index line ' ' with Not_found -> olen line in
  let verb = osub line 0 sp in
  let rest = if sp < olen line then osub line (sp + 1) (olen line - sp - 1) else "" in
  match verb, parse rest with
  | "graph", libs -> graph := List.map libdef_of libs; "ok"
  | "denote", [i] ->
      (match denote (world_of !graph) (iset_of i) with
       | None -> "ERR"
       | Some [] -> "_"
       | Some l -> oconcat " " (List.map (fun (a, b) -> sym a ^ "\t" ^ sym b) l))
  | "origin", [L isets; names] ->
      let is = List.map iset_of isets in
      oconcat " " (List.map (fun nm -> show_origin (program_origin !graph is nm)) (atoms names))
  | "frames", [L isets] ->
      let w = world_of !graph in
      let step to_ i =
        match denote w (iset_of i) with
        | None -> failwith "import-error"
        | Some ids ->
            let from = [ { f_renames = []; f_bindings = List.mapi (fun j (_, m) -> (m, nat_of_int j)) ids; f_immutable = false } ] in
            env_import to_ from (Some ids) true in
      let e = List.fold_left step [empty_frame] isets in
      oconcat " " (List.map (fun f -> "(" ^ oconcat " " (List.rev_map (fun (k, _) -> sym k) f.f_renames) ^ ")") e)
  | "closed", [L isets; L ws; names] ->
      let is = List.map iset_of isets in
      (* a wrapper is named by the VISIBLE name the program has for the macro; the SPEC says which library's
         definition that is, the definition's own name says which of the generated macros it is *)
      let kinds = ref [] in
      let wd = List.map (fun w ->
        match w with
        | L [A "mac"; nm] ->
            (match program_origin !graph is (atom nm) with
             | Origin (l, m) ->
                 let k = ostring_of_coq m in
                 kinds := k :: !kinds;
                 let c = coq_of_ostring in
                 (match k with
                  | "wif" -> DSc (l, [c "it"], [c "it"])
                  | "wifx" -> DSc (l, [c "it"; c "x"], [c "it"])
                  | "w0" -> DSc (l, [], [])
                  | "erw" -> DEr
                  | _ -> failwith "NOTMACRO")
             | _ -> failwith "NOTMACRO")
        | _ -> failwith "wrapper") ws in
      let st = int_of_nat stride in
      let show = function
        | None -> "U"
        | Some O -> "L"
        | Some (S k) ->
            let k = int_of_nat k in
            let j = k / st and d = k mod st in
            (match List.nth_opt !graph j with
             | Some ld -> (match List.nth_opt ld.ld_defs d with
                           | Some m -> "O:" ^ oconcat "." (List.map sym ld.ld_name) ^ ":" ^ sym m
                           | None -> "?")
             | None -> "?") in
      oconcat " " (("W:" ^ oconcat "," (List.rev !kinds)) :: List.map (fun nm -> show (closed_probe !graph is wd nm)) (atoms names))
  | "inside", [lib; names] ->
      (* Spec.lib_origin: what an internal name denotes INSIDE a library (the literals of its macros) *)
      let l = atoms lib in
      oconcat " " (List.map (fun nm -> show_origin (lib_origin !graph (nat_of_int (List.length !graph + 1)) l nm)) (atoms names))
  | "ideq", [L isets; mls; names] ->
      (* IdEq.literal_probe: per ml (visible name of an mlit/elit macro; the SPEC says which library D defines it) one group, per name
         four digits: identifier_eq of the name in the program against D's lit / else / => / ulit *)
      let is = List.map iset_of isets in
      (* the environments of the model hold no undefined cells; by theorem reference_does_not_change_identifier_eq the repaired
         function does not depend on the ones chibi's earlier references created *)
      let undef (_ : nat) : bool = false in
      let c = coq_of_ostring in
      oconcat " | " (List.map (fun ml ->
        match program_origin !graph is ml with
        | Origin (dl, _) ->
            oconcat " " (List.map (fun nm ->
              oconcat "" (List.map (fun lit -> if literal_probe undef !graph is dl (c lit) nm then "1" else "0") ["lit"; "else"; "=>"; "ulit"])) (atoms names))
        | _ -> oconcat " " (List.map (fun _ -> "????") (atoms names))) (atoms mls))
  | "history", [L defs; L reqs] ->
      (* Importers.run from the booted world: requests are (kind lib); the module table belongs to the world, so the
         kind of importer (second standard environments included) must not matter *)
      let d = List.map (function L [n; L imps] -> (num n, List.map num imps) | _ -> failwith "defs entry") defs in
      let kind = function
        | "environment" -> ByEnvironment | "interaction" -> ByEvalImport | "load-file" -> ByLoadFile | "load-port" -> ByLoadPort
        | "include" -> ByInclude | "program" -> ByProgram | "standard-env" -> ByNewStandardEnv | "library" -> ByLibrary
        | _ -> failwith "importer kind" in
      let rq = List.map (function L [A k; n] -> (kind k, num n) | (A _ as n) -> (ByEnvironment, num n) | _ -> failwith "request") reqs in
      let (w, os) = run (nat_of_int 64) d boot rq in
      let st = table_state w in
      oconcat "," (List.map show_outcome os) ^ " | " ^
      oconcat "," (List.rev_map (fun l -> string_of_int (int_of_nat l)) st.evals)
  | "exports", [imps; L forms] ->
      (* ExportAll.env_exports [] (ExportAll.eval_body imps forms): the export list of a loaded (export-all) library, in the order
         (env-exports (module-env mod)) lists it; forms: (define n (ref ...)) | (expr (ref ...)) *)
      let fm = function
        | L [A "define"; n; refs] -> FDefine (atom n, atoms refs)
        | L [A "expr"; refs] -> FExpr (atoms refs)
        | _ -> failwith "form" in
      (match env_exports [] (eval_body (atoms imps) (List.map fm forms)) with
       | [] -> "_"
       | l -> oconcat " " (List.map sym l))
  | _ -> "ERR bad request"

let () =
  (try
     while true do
       let line = input_line stdin in
       let out = try handle line with Failure m -> "ERR " ^ m | Not_found -> "ERR not_found" | Stack_overflow -> "ERR stack_overflow" in
       print_string out; print_char '\n'
     done
   with End_of_file -> ());
  flush stdout
