(* C16 line-protocol driver for the extracted collector model.
   heap    := obj (';' obj)*            (order of appearance = walk order)   | "-" for the empty heap
   obj     := addr '|' refs '|' w '|' refs '|' refs '|' b '|' kind
   refs    := "" | ref (',' ref)*       ref := 'i' | hexaddr
   kind    := 'p' | 'P' o n ':' (hexfd | '-') | 'F' o n ':' hexfd ':' hexcount
   requests:
     gc <fuel> <heap> <roots>           full collection from the roots
     pinned <fuel> <heap> <roots>       the collector without the ephemeron fixpoint
     after <fuel> <heap> <marked>       phases after marking from a given mark set (comma separated addrs)
     hist <nslots> <fuel> <ops>         ops := op (';' op)*, op := K,i | C,i,a,b | E,i,k,v | D,i | G | O,i | F,i | P,i,f | X,i | ... (see op_of)
     nhist <nslots> <fuel> <ops>        the same on the number-level machine (coq/C16/NumOs.v), plus YN,i (raw close)
   answers:
     OK <retained addrs> <weak objects: addr:weak:extra:broken;...> <close log> <ports/filenos: addr:Pon | addr:Fon:fd:count;...>  | ERR fuel *)
open Model
open Common

let pos_of_hex s = match z_of_hex s with Zpos p -> p | _ -> failwith ("bad address " ^ s)
let hex_of_addr p = hex_of_pos p
let nat_of_int_tr (i : int) : nat = let r = ref O in for _ = 1 to i do r := S !r done; !r

let ref_of s = if s = "i" then Imm else Ptr (pos_of_hex s)
let refs_of s = if s = "" then [] else List.map ref_of (String.split_on_char ',' s)
let string_of_ref = function Imm -> "i" | Ptr a -> hex_of_addr a
let string_of_refs l = String.concat "," (List.map string_of_ref l)
let bool_of c = c = '1'

let kind_of s =
  if s = "p" then KPlain
  else match s.[0] with
    | 'P' -> let st = String.sub s 4 (String.length s - 4) in
      KPort (bool_of s.[1], bool_of s.[2], (if st = "-" then None else Some (z_of_hex st)))
    | 'F' -> (match String.split_on_char ':' (String.sub s 4 (String.length s - 4)) with
        | [fd; c] -> KFileno (bool_of s.[1], bool_of s.[2], z_of_hex fd, z_of_hex c)
        | _ -> failwith "bad fileno kind")
    | _ -> failwith ("bad kind " ^ s)

let heap_of (s : string) : heap =
  if s = "-" then { objs = PositiveMap.empty; order = [] } else begin
    let m = ref PositiveMap.empty and ord = ref [] in
    List.iter (fun os ->
        match String.split_on_char '|' os with
        | [a; st; w; wk; ex; b; k] ->
          let a = pos_of_hex a in
          let o = { strong = refs_of st; weakp = (w = "1"); weak = refs_of wk; extra = refs_of ex;
                    brokenp = (b = "1"); kind = kind_of k } in
          m := PositiveMap.add a o !m; ord := a :: !ord
        | _ -> failwith ("bad object " ^ os)) (String.split_on_char ';' s);
    { objs = !m; order = List.rev !ord }
  end

let mset_of s =
  if s = "" || s = "-" then PositiveMap.empty
  else List.fold_left (fun m a -> madd (pos_of_hex a) m) PositiveMap.empty (String.split_on_char ',' s)

let string_of_log l = if l = [] then "-" else String.concat "," (List.map hex_of_z l)

let answer = function
  | None -> "ERR fuel"
  | Some ((h, log), _m) ->
    let retained = String.concat "," (List.map hex_of_addr h.order) in
    let wk = List.filter_map (fun a ->
        match PositiveMap.find a h.objs with
        | Some o when o.weakp ->
          Some (hex_of_addr a ^ ":" ^ string_of_refs o.weak ^ ":" ^ string_of_refs o.extra ^ ":" ^ (if o.brokenp then "1" else "0"))
        | _ -> None) h.order in
    let b x = if x then "1" else "0" in
    let kinds = List.filter_map (fun a ->
        match PositiveMap.find a h.objs with
        | Some o -> (match o.kind with
            | KPlain -> None
            | KPort (op, nc, _) -> Some (hex_of_addr a ^ ":P" ^ b op ^ b nc)
            | KFileno (op, nc, fd, c) -> Some (hex_of_addr a ^ ":F" ^ b op ^ b nc ^ ":" ^ hex_of_z fd ^ ":" ^ hex_of_z c))
        | None -> None) h.order in
    "OK " ^ (if retained = "" then "-" else retained) ^ " " ^ (if wk = [] then "-" else String.concat ";" wk) ^ " " ^ string_of_log log
    ^ " " ^ (if kinds = [] then "-" else String.concat ";" kinds)

(* ---- histories *)
let op_of s =
  let n x = nat_of_int (int_of_string x) in
  match String.split_on_char ',' s with
  | ["K"; i] -> [OKey (n i)]
  | ["B"; i; _] -> [OKey (n i)]           (* a big block: an ordinary fresh object *)
  | ["H"; i] -> [OKey (n i)]              (* a placeholder reserving an address (layout family): an ordinary fresh object *)
  | ["C"; i; a; b] -> [OCons (n i, n a, n b)]
  | ["E"; i; k; v] -> [OEph (n i, n k, n v)]
  | ["D"; i] -> [ODrop (n i)]
  | ["G"] -> [OGc]
  | ["O"; i] -> [OOpenFile (n i)]
  | ["F"; i] -> [OFileno (n i)]
  | ["P"; i; f] -> [OPortOn (n i, n f)]
  | ["X"; i] | ["XI"; i] | ["XO"; i] -> [OClose (n i)]     (* close-port / close-input-port / close-output-port *)
  | ["W"; i; f] -> [OPortOn (n i, n f)]                   (* open-output-file-descriptor: the same count++ *)
  | ["Q"; i; j] -> [OFileno (n i); OFileno (n j)]         (* open-pipe: two fresh descriptors, two fileno objects *)
  | ["Y"; i] -> [OCloseFd (n i)]                          (* close-file-descriptor on a fileno object *)
  | ["U"; i; f] -> [ODup (n i, n f)]                      (* duplicate-file-descriptor *)
  | ["T"; a; b] | ["R"; a; b] -> [ODupTo (n a, n b)]      (* duplicate-file-descriptor-to / renumber-file-descriptor *)
  | ["Z"; _; _] -> []                                     (* write through one port, read through another: no model state *)
  | ["N"] -> []                                           (* embedding only: the history starts in a fresh context *)
  | ["I"; i; _] -> [ODrop (n i)]                          (* R[i] := an immediate: Model.ref has one immediate, Imm; which one it was is
                                                             remembered beside the model (imm_of_slot) for printing only *)
  | ["S"; i; j] -> [OFileno (n i); OFileno (n j)]         (* socketpair: two fresh descriptors, two fileno objects *)
  | ["PS"; i; f] | ["WS"; i; f] -> [OPortOn (n i, n f)]   (* port opened with the shutdown flag: sexp_finalize_port then also calls
                                                             shutdown(2), which releases nothing: same ownership transitions *)
  | _ -> failwith ("bad op " ^ s)

(* fingerprint of a value, same rule as the Scheme side (harness/c16_hist.scm): depth-limited *)
let rec fp (h : heap) (d : int) (r : Model.ref) : string =
  match r with
  | Imm -> "#f"
  | Ptr a ->
    (match PositiveMap.find a h.objs with
     | None -> "DANGLING"
     | Some o ->
       if o.weakp then "e" ^ hex_of_addr a
       else match o.kind with
         | KPort _ -> "p"
         | KFileno _ -> "f"
         | KPlain ->
           (match o.strong with
            | [x; y] -> if d <= 0 then "_" else "(" ^ fp h (d - 1) x ^ " . " ^ fp h (d - 1) y ^ ")"
            | _ -> "k" ^ hex_of_addr a))

let distinct l = List.length (List.sort_uniq compare l)

(* Immediates other than #f.  The model has ONE immediate (Imm): an immediate weak slot is never reset (ref_live Imm = true,
   theorem immediate_key_never_broken), and the extras are reset exactly when the object is broken (one weak slot).  So what an
   immediate slot of an ephemeron reads is determined by the model state plus which immediate was stored at creation:
   key   = the original immediate (never reset);
   value = the original immediate while brokenp = false, #f afterwards.
   imm_of_slot: variable slot -> code (0 = #f / not an immediate); eph_imm: ephemeron address -> (key code, value code). *)
let imm_of_slot : (int, int) Hashtbl.t = Hashtbl.create 16
let eph_imm : (string, int * int) Hashtbl.t = Hashtbl.create 16
(* after an operation: a slot that holds a heap object no longer holds an immediate; D,i stores #f *)
let forget_overwritten (st : state) raw =
  List.iteri (fun i r -> match r with Ptr _ -> Hashtbl.remove imm_of_slot i | Imm -> ()) st.slots;
  match String.split_on_char ',' raw with
  | ["D"; i] -> Hashtbl.remove imm_of_slot (int_of_string i)
  | _ -> ()

(* is the descriptor of the owner in slot i still open for it?  a fileno object: its open flag; a port on a fileno:
   port open and fileno open; a stream port: port open; "-" when the slot holds no owner *)
let owner_state (st : state) (i : int) (r : Model.ref) : string option =
  let h = st.hp in
  match r with
  | Imm -> None
  | Ptr a ->
    (match PositiveMap.find a h.objs with
     | Some o ->
       (match o.kind with
        | KFileno (op, _, _, _) -> Some (string_of_int i ^ ":" ^ (if op then "o" else "c"))
        | KPort (op, _, Some _) -> Some (string_of_int i ^ ":" ^ (if op then "o" else "c"))
        | KPort (op, _, None) ->
          let fop = (match o.strong with
              | [_; _; Ptr f] -> (match PositiveMap.find f h.objs with
                  | Some fo -> (match fo.kind with KFileno (b, _, _, _) -> b | _ -> false)
                  | None -> false)
              | _ -> false) in
          Some (string_of_int i ^ ":" ^ (if op && fop then "o" else "c"))
        | KPlain -> None)
     | None -> None)

let observe (st : state) : string =
  let h = st.hp in
  let eph = List.rev_map (fun e ->
      match PositiveMap.find e h.objs with
      | None -> "e" ^ hex_of_addr e ^ "=GONE"
      | Some o ->
        let (kc, vc) = try Hashtbl.find eph_imm (hex_of_addr e) with Not_found -> (0, 0) in
        let key = match o.weak with [Imm] when kc > 0 -> "i" ^ string_of_int kc | [k] -> fp h 6 k | _ -> "?" in
        let v = match o.extra with [Imm] when vc > 0 && not o.brokenp -> "i" ^ string_of_int vc | [v] -> fp h 6 v | _ -> "?" in
        "e" ^ hex_of_addr e ^ "=" ^ (if o.brokenp then "1" else "0") ^ "," ^ key ^ "," ^ v) st.obs in
  let opened = int_of_z st.nextfd in
  let closed = distinct (List.map hex_of_z st.oslog) in
  let own = List.concat (List.mapi (fun i r -> match owner_state st i r with Some x -> [x] | None -> []) st.slots) in
  String.concat ";" eph ^ "|fds=" ^ string_of_int (opened - closed) ^ "|closes=" ^ string_of_int (List.length st.oslog) ^ ":" ^ string_of_int closed
  ^ "|own=" ^ String.concat "," own

(* round 4: a leading A on K / C / E = the allocation inside the operation triggers an automatic collection (no observation).
   Request ahist runs the history on AutoGc.run_sched's step with the pinned gate protocol (flag carried beside the state);
   request hist treats it as a silent collection in front of the operation (AutoGc.expand). *)
let strip_auto raw =
  match String.split_on_char ',' raw with
  | ("AK" | "AC" | "AE") :: _ -> (true, String.sub raw 1 (String.length raw - 1))
  | _ -> (false, raw)
let sched_mode = ref false
let gate_flag = ref false
let step_with auto o st =
  if !sched_mode then
    (match step_sched pinned_policy (auto, o) (!gate_flag, st) with
     | None -> None
     | Some (fl, s) -> gate_flag := fl; Some s)
  else if auto then (match step OGc st with None -> None | Some s -> step o s)
  else step o st

let hist nslots fuel ops =
  let ops = List.map (fun (raw, os) -> let (a, r) = strip_auto raw in ((a, r), os)) ops in
  gate_flag := false;
  let st = ref (init (nat_of_int nslots) (nat_of_int_tr fuel)) in
  Hashtbl.reset imm_of_slot; Hashtbl.reset eph_imm;
  let out = ref [] in
  let bad = ref None in
  (try
     List.iteri (fun k ((auto, raw), os) ->
         (match String.split_on_char ',' raw with
          | ["Z"; i; j] ->
            let sl x = let x = int_of_string x in
              match owner_state !st x (List.nth_opt !st.slots x |> Option.value ~default:Imm) with
              | Some t -> String.sub t (String.length t - 1) 1 | None -> "-" in
            out := ("Z" ^ sl i ^ sl j) :: !out
          | ["E"; _; kk; vv] ->
            let code x = try Hashtbl.find imm_of_slot (int_of_string x) with Not_found -> 0 in
            Hashtbl.replace eph_imm (hex_of_addr !st.next) (code kk, code vv)      (* the ephemeron gets the next fresh address *)
          | _ -> ());
         List.iter (fun o ->
             match step_with auto o !st with
             | None -> (match o with OGc -> out := "ERRFUEL" :: !out | _ -> bad := Some k); raise Exit
             | Some s -> st := s; (match o with OGc -> out := observe s :: !out | _ -> ())) os;
         forget_overwritten !st raw;
         (match String.split_on_char ',' raw with
          | ["I"; i; c] -> Hashtbl.replace imm_of_slot (int_of_string i) (int_of_string c)
          | _ -> ())) ops
   with Exit -> ());
  (match !bad with
   | Some k -> "DOMAIN " ^ string_of_int k        (* op number k works on the number of a fileno that is already closed *)
   | None -> "OK " ^ String.concat "/" (List.rev !out))


(* ---- number-level histories (coq/C16/NumOs.v): objects hold descriptor numbers, the OS table maps numbers to instances.
   nhist <nslots> <fuel> <ops>: the ops of hist plus YN,i = (close-file-descriptor N) with N the integer held by fileno R[i].
   Observations: as hist, with fds = number of open numbers, and an owner counts as open ("o") only if, besides being open at
   the object level, its number is open in the table and names the instance that was opened for it. *)
let nop_of s =
  match String.split_on_char ',' s with
  | ["YN"; i] -> [NRawClose (nat_of_int (int_of_string i))]
  | _ -> List.map (fun o -> NOp o) (op_of s)

let owner_addr (st : state) (r : Model.ref) : (Model.addr * z) option =
  (* the object that owns the descriptor R's object works on, and the number it holds *)
  match r with
  | Imm -> None
  | Ptr a ->
    (match PositiveMap.find a st.hp.objs with
     | Some o ->
       (match o.kind with
        | KFileno (_, _, fd, _) -> Some (a, fd)
        | KPort (_, _, Some fd) -> Some (a, fd)
        | KPort (_, _, None) ->
          (match o.strong with
           | [_; _; Ptr f] -> (match PositiveMap.find f st.hp.objs with
               | Some fo -> (match fo.kind with KFileno (_, _, fd, _) -> Some (f, fd) | _ -> None)
               | None -> None)
           | _ -> None)
        | KPlain -> None)
     | None -> None)

(* the instance a slot's owner number named when the slot was assigned (the harness records /proc/self/fd/<number> then) *)
let slot_inst : (int, z) Hashtbl.t = Hashtbl.create 16

let nowner_state (ns : nstate) (i : int) (r : Model.ref) : string option =
  match owner_state ns.ist i r with
  | None -> None
  | Some t ->
    let objopen = t.[String.length t - 1] = 'o' in
    let numok = (match owner_addr ns.ist r with
        | Some (_, n) -> (match names ns n, Hashtbl.find_opt slot_inst i with
            | Some inst, Some inst0 -> inst = inst0
            | _, _ -> false)
        | None -> false) in
    Some (string_of_int i ^ ":" ^ (if objopen && numok then "o" else "c"))

let record_slots (before : nstate) (after : nstate) (raw : string) =
  let relink = (match String.split_on_char ',' raw with
      | ["T"; a; b] | ["R"; a; b] ->
        (* the harness re-reads the link of every slot on b's number, when both arguments are fileno objects *)
        let fileno_num x = (match List.nth_opt after.ist.slots (int_of_string x) |> Option.value ~default:Imm with
            | Ptr p -> (match PositiveMap.find p after.ist.hp.objs with
                | Some o -> (match o.kind with KFileno (_, _, fd, _) -> Some fd | _ -> None)
                | None -> None)
            | Imm -> None) in
        (match fileno_num a, fileno_num b with Some _, Some nb -> Some nb | _, _ -> None)
      | _ -> None) in
  List.iteri (fun i r ->
      let old = List.nth_opt before.ist.slots i |> Option.value ~default:Imm in
      let num = (match owner_addr after.ist r with Some (_, n) -> Some n | None -> None) in
      let changed = (r <> old) || (match relink, num with Some nb, Some n -> nb = n | _ -> false) in
      if changed then
        (match num with
         | Some n -> (match names after n with Some inst -> Hashtbl.replace slot_inst i inst | None -> Hashtbl.remove slot_inst i)
         | None -> Hashtbl.remove slot_inst i)) after.ist.slots

let nobserve (ns : nstate) : string =
  let base = observe ns.ist in
  let eph = List.hd (String.split_on_char '|' base) in
  let own = List.concat (List.mapi (fun i r -> match nowner_state ns i r with Some x -> [x] | None -> []) ns.ist.slots) in
  eph ^ "|fds=" ^ string_of_int (List.length ns.tab) ^ "|rel=" ^ string_of_int (List.length ns.rel) ^ ":ebadf=" ^ string_of_int (int_of_nat ns.ebadf)
  ^ "|own=" ^ String.concat "," own

let nhist nslots fuel ops =
  let ns = ref (ninit (nat_of_int nslots) (nat_of_int_tr fuel)) in
  Hashtbl.reset imm_of_slot; Hashtbl.reset eph_imm; Hashtbl.reset slot_inst;
  let out = ref [] in
  (try
     List.iter (fun (raw, os) ->
         let before = !ns in
         (match String.split_on_char ',' raw with
          | ["Z"; i; j] ->
            let sl x = let x = int_of_string x in
              match nowner_state !ns x (List.nth_opt !ns.ist.slots x |> Option.value ~default:Imm) with
              | Some t -> String.sub t (String.length t - 1) 1 | None -> "-" in
            out := ("Z" ^ sl i ^ sl j) :: !out
          | ["E"; _; kk; vv] ->
            let code x = try Hashtbl.find imm_of_slot (int_of_string x) with Not_found -> 0 in
            Hashtbl.replace eph_imm (hex_of_addr !ns.ist.next) (code kk, code vv)
          | _ -> ());
         List.iter (fun o ->
             match nstep o !ns with
             | None -> out := "ERRFUEL" :: !out; raise Exit
             | Some s -> ns := s; (match o with NOp OGc -> out := nobserve s :: !out | _ -> ())) os;
         forget_overwritten !ns.ist raw;
         (match String.split_on_char ',' raw with
          | ["I"; i; c] -> Hashtbl.replace imm_of_slot (int_of_string i) (int_of_string c)
          | _ -> ());
         record_slots before !ns raw) ops
   with Exit -> ());
  "OK " ^ String.concat "/" (List.rev !out)

let handle = function
  | ["gc"; fuel; hp; roots] ->
    let f = nat_of_int_tr (int_of_string fuel) in
    answer (gc f f (heap_of hp) (refs_of (if roots = "-" then "" else roots)) [])
  | ["pinned"; fuel; hp; roots] ->
    let f = nat_of_int_tr (int_of_string fuel) in
    answer (gc_pinned f (heap_of hp) (refs_of (if roots = "-" then "" else roots)) [])
  | ["after"; fuel; hp; marked] ->
    let f = nat_of_int_tr (int_of_string fuel) in
    answer (gc_after_mark f f (heap_of hp) (mset_of marked) [])
  | ["hist"; nslots; fuel; ops] ->
    sched_mode := false;
    hist (int_of_string nslots) (int_of_string fuel) (List.map (fun r -> (r, op_of (snd (strip_auto r)))) (String.split_on_char ';' ops))
  | ["ahist"; nslots; fuel; ops] ->
    sched_mode := true;
    let r = hist (int_of_string nslots) (int_of_string fuel) (List.map (fun r -> (r, op_of (snd (strip_auto r)))) (String.split_on_char ';' ops)) in
    sched_mode := false;
    r
  | ["nhist"; nslots; fuel; ops] ->
    nhist (int_of_string nslots) (int_of_string fuel) (List.map (fun r -> (r, nop_of r)) (String.split_on_char ';' ops))
  | f -> "ERR unknown request " ^ (match f with x :: _ -> x | [] -> "")

let () = serve handle
