(* C06 line protocol.
   run|runimpl <fuel> <script tokens, Polish notation>  -> "<status> k:v k:v ..."   (status 1 = Done); run = machine over the SPEC wind script, runimpl = over the regenerated travel_to_point
   travel <d/p,d/p,...> <here> <target>             -> generated travel_to_point: "o3 o2 i4" | "NONE" | "-" (empty)
   script <d/p,d/p,...> <here> <target>             -> SPEC wind_script *)
open Model
open Common

let nat s = nat_of_int (int_of_string s)

let rec parse (t : string list) : exp * string list =
  match t with
  | "const" :: n :: r -> (Const (nat n), r)
  | "mark" :: n :: r -> (Mark (nat n), r)
  | "show" :: r -> let (a, r) = parse r in (Show a, r)
  | "seq" :: r -> let (a, r) = parse r in let (b, r) = parse r in (Seq (a, b), r)
  | "add" :: r -> let (a, r) = parse r in let (b, r) = parse r in (Add (a, b), r)
  | "wind" :: i :: r -> let (a, r) = parse r in (DynWind (nat i, a), r)
  | "callcc" :: k :: r -> let (a, r) = parse r in (CallCC (nat k, a), r)
  | "throw" :: k :: l :: r -> let (a, r) = parse r in (Throw (nat k, nat l, a), r)
  | "param" :: p :: r -> let (a, r) = parse r in let (b, r) = parse r in (Parameterize (nat p, a, b), r)
  | "pref" :: p :: r -> (PRef (nat p), r)
  | "handler" :: t :: r -> let (a, r) = parse r in let (b, r) = parse r in (WithHandler (nat t, a, b), r)
  | "raise" :: r -> let (a, r) = parse r in (Raise a, r)
  | "raisec" :: r -> let (a, r) = parse r in (RaiseC a, r)
  | "windp" :: i :: p :: r -> let (a, r) = parse r in (DynWindP (nat i, nat p, a), r)
  | "ccall" :: r -> let (a, r) = parse r in (CCall a, r)
  | "guard" :: o :: t :: r ->
     let only = if o = "_" then None else Some (nat o) in
     let (a, r) = parse r in let (b, r) = parse r in (Guard (only, nat t, a, b), r)
  | x :: _ -> failwith ("bad token " ^ x)
  | [] -> failwith "unexpected end of script"

let heap_of (s : string) : prec list =
  List.map (fun e -> match String.split_on_char '/' e with
                     | [d; p] -> { pdepth = nat d; pin = []; pout = []; pparent = nat p }
                     | _ -> failwith "bad heap entry") (String.split_on_char ',' s)

let show_wevs = function
  | [] -> "-"
  | l -> String.concat " " (List.map (function WIn p -> "i" ^ string_of_int (int_of_nat p)
                                              | WOut p -> "o" ^ string_of_int (int_of_nat p)) l)

let words_of (s : string) : word list =
  if s = "_" then [] else List.map (fun x -> WFix (nat x)) (String.split_on_char ',' s)
let rec padded n l = if List.length l >= n then l else l @ List.init (n - List.length l) (fun _ -> WFix O)
let show_words = function
  | [] -> "_"
  | l -> String.concat "," (List.map (function WFix n -> string_of_int (int_of_nat n) | WObj n -> "o" ^ string_of_int (int_of_nat n)) l)
let rec firstn_ k l = if k <= 0 then [] else match l with [] -> [] | x :: r -> x :: firstn_ (k - 1) r

let handle = function
  | ("run" | "runimpl" as w) :: fuel :: toks ->
     let (e, rest) = parse toks in
     if rest <> [] then failwith "trailing tokens" else
     let (st, evs) = (if w = "run" then run_script_spec else run_script_impl) (nat fuel) e in
     String.concat " " (string_of_int (int_of_nat st) ::
                        List.map (fun (k, v) -> string_of_int (int_of_nat k) ^ ":" ^ string_of_int (int_of_nat v)) evs)
  | "rundk" :: fuel :: toks ->
     (* the machine over the SPEC script, stepped here one step at a time: every event is annotated with the
        machine's (%dk) register AFTER the step that emitted it: "k:v:depth:point"; events of a step that ran
        before/after thunks (kinds 1, 2 and the parameter reads of DynWindP thunks) get "k:v:-1:-1" — while
        thunks run the register is in transit (dynamic-wind calls (in) before (%dk new), travel-to-point!
        runs before (%dk point)) *)
     let (e, rest) = parse toks in
     if rest <> [] then failwith "trailing tokens" else
     let i = int_of_nat in
     let rec go n s acc =
       if n <= 0 then (s, acc) else
       match s.st with
       | Running ->
          let s' = step_spec s in
          let evs = firstn_ (List.length s'.out - List.length s.out) s'.out in
          let thunky = List.exists (fun (k, _) -> i k = 1 || i k = 2) evs in
          let ann = List.map (fun (k, v) ->
                        if thunky then Printf.sprintf "%d:%d:-1:-1" (i k) (i v)
                        else Printf.sprintf "%d:%d:%d:%d" (i k) (i v) (i (depth s'.hp s'.dk)) (i s'.dk)) evs in
          go (n - 1) s' (ann @ acc)
       | _ -> (s, acc) in
     let (s, acc) = go (int_of_string fuel) (init e) [] in
     String.concat " " (string_of_int (i (status_code s.st)) :: List.rev acc)
  | ["travel"; h; a; b] ->
     let hp = heap_of h in
     (match travel_to_point hp (travel_fuel hp (nat a) (nat b)) (nat a) (nat b) with
      | None -> "NONE" | Some l -> show_wevs l)
  | ["script"; h; a; b] -> show_wevs (wind_script (heap_of h) (nat a) (nat b))
  | ["ssave"; pad; st; to_] ->
     (* stack = words padded with zeros to pad words; sexp_save_stack model *)
     show_words (save_stack (padded (int_of_string pad) (words_of st)) (nat to_))
  | ["srestore"; pad; st; saved] ->
     let s = padded (int_of_string pad) (words_of st) and sv = words_of saved in
     (match restore_stack s sv with
      | None -> "GROW"
      | Some (s', t) ->
         let k = (max (List.length (words_of st)) (List.length sv)) + 2 in
         string_of_int (int_of_nat t) ^ " " ^ show_words (firstn_ k s'))
  | ["srestoreg"; pad; st; saved; maxs] ->
     (* sexp_restore_stack with its growth branch (restore_stack_g): "<top> <first |saved| words> <stack length afterwards>" | "OOS" *)
     let w = words_of st in
     let s = padded (int_of_string pad) w and sv = words_of saved in
     (match restore_stack_g s (nat_of_int (List.length w)) sv (nat maxs) [] with
      | None -> "OOS"
      | Some ((s', t), _) ->
         string_of_int (int_of_nat t) ^ " " ^ show_words (firstn_ (List.length sv) s') ^ " " ^ string_of_int (List.length s'))
  | ["values"; how; ls] ->
     (* the argument list call-with-values applies its consumer to when the producer returned (values . ls) [how = v]
        or a continuation procedure was called with ls [how = k]; objects are numbers *)
     let l = if ls = "_" then [] else List.map (fun x -> MObj (nat x)) (String.split_on_char ',' ls) in
     let r = cwv_args (if how = "k" then cont_deliver l else values l) in
     "(" ^ String.concat " " (List.map (function MObj n -> string_of_int (int_of_nat n) | MTagged _ -> "T") r) ^ ")"
  | f -> "ERR unknown request " ^ String.concat " " f

let () = serve handle
