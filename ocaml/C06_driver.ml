(* C06 line protocol.
   run|runimpl <fuel> <script tokens, Polish notation>  -> "<status> k:v k:v ..."   (status 1 = Done); run = machine over the SPEC wind script, runimpl = over the regenerated travel_to_point
   travel <d/p,d/p,...> <here> <target>             -> generated travel_to_point: "o3 o2 i4" | "NONE" | "-" (empty)
   script <d/p,d/p,...> <here> <target>             -> SPEC wind_script *)
open Model
open Common

let nat s = nat_of_int (int_of_string s)

let rec parse (t : string list) : exp * string list =
  match t with
  | "const" :: n :: r -> (Const (nat n), r)
  | "mark" :: n :: r -> (Mark (nat n), r)
  | "show" :: r -> let (a, r) = parse r in (Show a, r)
  | "seq" :: r -> let (a, r) = parse r in let (b, r) = parse r in (Seq (a, b), r)
  | "add" :: r -> let (a, r) = parse r in let (b, r) = parse r in (Add (a, b), r)
  | "wind" :: i :: r -> let (a, r) = parse r in (DynWind (nat i, a), r)
  | "callcc" :: k :: r -> let (a, r) = parse r in (CallCC (nat k, a), r)
  | "throw" :: k :: l :: r -> let (a, r) = parse r in (Throw (nat k, nat l, a), r)
  | "param" :: p :: r -> let (a, r) = parse r in let (b, r) = parse r in (Parameterize (nat p, a, b), r)
  | "pref" :: p :: r -> (PRef (nat p), r)
  | "handler" :: t :: r -> let (a, r) = parse r in let (b, r) = parse r in (WithHandler (nat t, a, b), r)
  | "raise" :: r -> let (a, r) = parse r in (Raise a, r)
  | "raisec" :: r -> let (a, r) = parse r in (RaiseC a, r)
  | "windp" :: i :: p :: r -> let (a, r) = parse r in (DynWindP (nat i, nat p, a), r)
  | "ccall" :: r -> let (a, r) = parse r in (CCall a, r)
  | "guard" :: o :: t :: r ->
     let only = if o = "_" then None else Some (nat o) in
     let (a, r) = parse r in let (b, r) = parse r in (Guard (only, nat t, a, b), r)
  | x :: _ -> failwith ("bad token " ^ x)
  | [] -> failwith "unexpected end of script"

let heap_of (s : string) : prec list =
  List.map (fun e -> match String.split_on_char '/' e with
                     | [d; p] -> { pdepth = nat d; pin = []; pout = []; pparent = nat p }
                     | _ -> failwith "bad heap entry") (String.split_on_char ',' s)

let show_wevs = function
  | [] -> "-"
  | l -> String.concat " " (List.map (function WIn p -> "i" ^ string_of_int (int_of_nat p)
                                              | WOut p -> "o" ^ string_of_int (int_of_nat p)) l)

let words_of (s : string) : word list =
  if s = "_" then [] else List.map (fun x -> WFix (nat x)) (String.split_on_char ',' s)
let rec padded n l = if List.length l >= n then l else l @ List.init (n - List.length l) (fun _ -> WFix O)
let show_words = function
  | [] -> "_"
  | l -> String.concat "," (List.map (function WFix n -> string_of_int (int_of_nat n) | WObj n -> "o" ^ string_of_int (int_of_nat n)) l)
let rec firstn_ k l = if k <= 0 then [] else match l with [] -> [] | x :: r -> x :: firstn_ (k - 1) r

let handle = function
  | ("run" | "runimpl" as w) :: fuel :: toks ->
     let (e, rest) = parse toks in
     if rest <> [] then failwith "trailing tokens" else
     let (st, evs) = (if w = "run" then run_script_spec else run_script_impl) (nat fuel) e in
     String.concat " " (string_of_int (int_of_nat st) ::
                        List.map (fun (k, v) -> string_of_int (int_of_nat k) ^ ":" ^ string_of_int (int_of_nat v)) evs)
  | ["travel"; h; a; b] ->
     let hp = heap_of h in
     (match travel_to_point hp (travel_fuel hp (nat a) (nat b)) (nat a) (nat b) with
      | None -> "NONE" | Some l -> show_wevs l)
  | ["script"; h; a; b] -> show_wevs (wind_script (heap_of h) (nat a) (nat b))
  | ["ssave"; pad; st; to_] ->
     (* stack = words padded with zeros to pad words; sexp_save_stack model *)
     show_words (save_stack (padded (int_of_string pad) (words_of st)) (nat to_))
  | ["srestore"; pad; st; saved] ->
     let s = padded (int_of_string pad) (words_of st) and sv = words_of saved in
     (match restore_stack s sv with
      | None -> "GROW"
      | Some (s', t) ->
         let k = (max (List.length (words_of st)) (List.length sv)) + 2 in
         string_of_int (int_of_nat t) ^ " " ^ show_words (firstn_ k s'))
  | f -> "ERR unknown request " ^ String.concat " " f

let () = serve handle
