(* C08 line protocol.
     write <datum tokens…>   -> hex of the model writer's text
     swrite <datum tokens…>  -> hex of the text of the model of (scheme write) (lib/srfi/38.scm wr-one on a tree)
     read <hex text>         -> datum tokens | EOF | ERR <kind>      (+ " TRAIL" when input is left)
     decode <hex bytes>      -> sexp_decode_utf8_char on the C string (decimal)
   datum tokens (prefix notation): I<hex z> D<hex bits> C<hex> S<hexbytes> Y<hexbytes> T F N
     P <car> <cdr>   V<n> <n data>   B<hexbytes>
   The libc parameters of the model are supplied here: fmt_g = printf "%.*g", scan_g = strtod
   (float_of_string), dec2flo = strtod of "<whole>.<frac>e<exp>" (i.e. the correctly rounded value). *)
open Model
open Common

let bytes_of_hex h =
  let n = String.length h / 2 in
  List.init n (fun i -> z_of_int (int_of_string ("0x" ^ String.sub h (2 * i) 2)))
let hex_of_bytes l = String.concat "" (List.map (fun b -> Printf.sprintf "%02x" ((int_of_z b) land 255)) l)
let string_of_bytes l = String.concat "" (List.map (fun b -> String.make 1 (Char.chr ((int_of_z b) land 255))) l)
let bytes_of_string s = List.init (String.length s) (fun i -> z_of_int (Char.code s.[i]))

let zabs = function Zneg p -> Zpos p | z -> z
let int64_of_z b = Int64.of_string ("0x" ^ hex_of_z b)
let z_of_int64 i = z_of_hex (Printf.sprintf "%Lx" i)

let fmt_g p b = bytes_of_string (Printf.sprintf "%.*g" (int_of_z p) (Int64.float_of_bits (int64_of_z b)))
let scan_g t = match float_of_string_opt (string_of_bytes t) with
  | Some f -> Some (z_of_int64 (Int64.bits_of_float f))
  | None -> None
(* libc parameters of the repaired sexp_read_float_tail as modelled in C08/Model3.v (dec2flo_strtod):
   strtod on the collected digits, snprintf "%.0f", (double)(sexp_sint_t); outside the strtod path
   (>= 1100 digits, |exponent| >= 10^6) the old arithmetic is approximated by the correctly rounded value *)
let strtod t = match float_of_string_opt (string_of_bytes t) with
  | Some f -> z_of_int64 (Int64.bits_of_float f)
  | None -> z_of_int64 (Int64.bits_of_float nan)
let fmt_0f b = bytes_of_string (Printf.sprintf "%.0f" (Int64.float_of_bits (int64_of_z b)))
let i2d w = z_of_int64 (Int64.bits_of_float (float_of_string (string_of_bytes (write_nat w))))
let old_arith whole fr e =
  let w = float_of_string (string_of_bytes (write_nat whole)) in
  let ex = (match e with Zneg _ -> - (int_of_z (zabs e)) | _ -> int_of_z e) - List.length fr in
  let s = Printf.sprintf "%.0f" w ^ string_of_bytes fr ^ "e" ^ string_of_int ex in
  z_of_int64 (Int64.bits_of_float (float_of_string s))
let dec2flo = dec2flo_strtod strtod fmt_0f i2d old_arith

(* ---- the hypotheses of flonum_roundtrip_given (record libc_flonum of C08/FloProofs.v), tested on one
   finite double with the libc behind OCaml; texts are rebuilt with the EXTRACTED utext/stext/val *)
let is_digit c = c >= '0' && c <= '9'
let parse_shape (t : string) =
  let n = String.length t in
  let i = ref 0 in
  let neg = n > 0 && t.[0] = '-' in
  if neg then incr i;
  let span () = let j = !i in while !i < n && is_digit t.[!i] do incr i done; String.sub t j (!i - j) in
  let w = span () in
  let fr = if !i < n && t.[!i] = '.' then (incr i; let f = span () in if f = "" then raise Exit else f) else "" in
  let ex = if !i < n && t.[!i] = 'e' then begin
      incr i;
      if !i >= n || (t.[!i] <> '+' && t.[!i] <> '-') then raise Exit;
      let en = t.[!i] = '-' in incr i;
      let ed = span () in
      if ed = "" || String.length ed > 4 then raise Exit;
      Some (en, bytes_of_string ed) end else None in
  if !i <> n || w = "" || String.length w + String.length fr > 40 then raise Exit;
  (neg, bytes_of_string w, bytes_of_string fr, ex)

let flohyp b =
  let x = Int64.float_of_bits (int64_of_z b) in
  let fail what p t = failwith (Printf.sprintf "%s p=%d text=%s" what p (string_of_bytes t)) in
  try
    List.iter (fun p ->
      let t = fmt_g (z_of_int p) b in
      let (neg, w, fr, ex) = (try parse_shape (string_of_bytes t) with Exit -> fail "lf_shape" p t) in
      if neg <> (Int64.compare (Int64.bits_of_float x) 0L < 0) then fail "lf_shape:sign" p t;
      let u = utext w fr ex in
      if stext neg u <> t then fail "lf_shape:text" p t;
      if fmt_0f (i2d (dval w)) <> w then fail "lf_shape:%.0f" p t;
      (match scan_g t with Some r when r = strtod t -> () | _ -> fail "lf_scan" p t);
      if strtod (z_of_int 45 :: u) <> flip_sign (strtod u) then fail "lf_sign" p t;
      (match strtod u with Zneg _ -> fail "lf_pos" p t
                         | r -> if Int64.compare (int64_of_z r) 0L < 0 then fail "lf_pos" p t);
      (* lf_val on the two instances the reader can produce: digits collected as they are, and with ".0" appended *)
      let exv = (match ex with None -> 0 | Some (en, ed) -> let v = int_of_z (dval ed) in if en then - v else v) in
      let inst fr' =
        let k = exv - List.length fr' in
        if strtod (w @ fr' @ (z_of_int 101 :: write_int (z_of_int k))) <> strtod u then fail "lf_val" p t in
      inst fr;
      if patched fr ex then inst [z_of_int 48]) [15; 16; 17];
    if strtod (fmt_g (z_of_int 17) b) <> b then fail "lf_rt17" 17 (fmt_g (z_of_int 17) b);
    "OK"
  with Failure m -> "FAIL " ^ m

let rec parse toks = match toks with
  | [] -> failwith "datum tokens end early"
  | t :: r ->
    let a = String.sub t 1 (String.length t - 1) in
    (match t.[0] with
     | 'I' -> (Int (z_of_hex a), r)
     | 'D' -> (Flo (z_of_hex a), r)
     | 'C' -> (Chr (z_of_hex a), r)
     | 'S' -> (Str (bytes_of_hex a), r)
     | 'Y' -> (Sym (bytes_of_hex a), r)
     | 'T' -> (Bool true, r)
     | 'F' -> (Bool false, r)
     | 'N' -> (Nil, r)
     | 'B' -> (Bytes (bytes_of_hex a), r)
     | 'P' -> let (x, r1) = parse r in let (y, r2) = parse r1 in (Pair (x, y), r2)
     | 'V' ->
       let n = int_of_string a in
       let rec go k r acc = if k = 0 then (List.rev acc, r) else let (x, r1) = parse r in go (k - 1) r1 (x :: acc) in
       let (l, r1) = go n r [] in (Vec l, r1)
     | _ -> failwith ("bad datum token " ^ t))

let rec unparse d = match d with
  | Int z -> "I" ^ hex_of_z z
  | Flo b -> "D" ^ hex_of_z b
  | Chr c -> "C" ^ hex_of_z c
  | Str s -> "S" ^ hex_of_bytes s
  | Sym s -> "Y" ^ hex_of_bytes s
  | Bool true -> "T"
  | Bool false -> "F"
  | Nil -> "N"
  | Bytes l -> "B" ^ hex_of_bytes l
  | Pair (a, t) -> "P " ^ unparse a ^ " " ^ unparse t
  | Vec l -> String.concat " " (("V" ^ string_of_int (List.length l)) :: List.map unparse l)

(* ---- datum labels (C08/Labels.v).  Wire syntax of a graph in normal form (prefix):
     A<k>  N  P <car> <cdr>  V<n> <n items>  D<n> <body>  R<n>
   tokens of a text: ( ) . #( #N= #N# N *)
let rec gparse toks = match toks with
  | [] -> failwith "graph tokens end early"
  | t :: r ->
    let a = String.sub t 1 (String.length t - 1) in
    (match t.[0] with
     | 'A' -> (GAtom (z_of_int (int_of_string a)), r)
     | 'N' -> (GNil, r)
     | 'R' -> (GRef (z_of_int (int_of_string a)), r)
     | 'D' -> let (b, r1) = gparse r in (GDef (z_of_int (int_of_string a), b), r1)
     | 'P' -> let (x, r1) = gparse r in let (y, r2) = gparse r1 in (GPair (x, y), r2)
     | 'V' ->
       let n = int_of_string a in
       let rec go k r acc = if k = 0 then (List.rev acc, r) else let (x, r1) = gparse r in go (k - 1) r1 (x :: acc) in
       let (l, r1) = go n r [] in (GVec l, r1)
     | _ -> failwith ("bad graph token " ^ t))

let ltok_of_string t =
  let n = String.length t in
  if t = "(" then KOpen else if t = ")" then KClose else if t = "." then KDot else if t = "#(" then KVec
  else if n >= 3 && t.[0] = '#' && t.[n-1] = '=' then KDef (z_of_int (int_of_string (String.sub t 1 (n - 2))))
  else if n >= 3 && t.[0] = '#' && t.[n-1] = '#' then KRef (z_of_int (int_of_string (String.sub t 1 (n - 2))))
  else KAtom (z_of_int (int_of_string t))

(* the text of lib/srfi/38.scm: no space after "(" "#(" "#n=" nor before ")", one space elsewhere *)
let render toks =
  let b = Buffer.create 256 in
  let glue = ref true in
  List.iter (fun t ->
    let s = (match t with KOpen -> "(" | KClose -> ")" | KDot -> "." | KVec -> "#("
             | KDef n -> "#" ^ string_of_int (int_of_z n) ^ "=" | KRef n -> "#" ^ string_of_int (int_of_z n) ^ "#"
             | KAtom a -> string_of_int (int_of_z a)) in
    if not !glue && t <> KClose then Buffer.add_char b ' ';
    Buffer.add_string b s;
    glue := (match t with KOpen | KVec | KDef _ -> true | _ -> false)) toks;
  Buffer.contents b

(* first-visit encoding of the rebuilt graph, as harness/c08_driver.scm prints the real one:
   pairs and non-empty vectors are numbered when first met; a later visit prints R<id> *)
let lenc v =
  let labels : (int, lval) Hashtbl.t = Hashtbl.create 16 in     (* label -> object (LDef chain stripped) *)
  let ids : (int, int) Hashtbl.t = Hashtbl.create 16 in          (* label -> node id *)
  let count = ref 0 in
  let b = Buffer.create 256 in
  let first = ref true in
  let emit s = (if not !first then Buffer.add_char b ' '); first := false; Buffer.add_string b s in
  let rec strip v ls = match v with LDef (n, x) -> strip x (int_of_z n :: ls) | _ -> (v, ls) in
  let rec collect v = match v with
    | LDef (n, x) -> let (o, _) = strip v [] in Hashtbl.replace labels (int_of_z n) o; collect x
    | LPair (a, d) -> collect a; collect d
    | LVec l -> List.iter collect l
    | _ -> () in
  collect v;
  let rec go v =
    let (o, ls) = strip v [] in
    match o with
    | LAtom a -> emit ("I" ^ hex_of_z a)
    | LNil -> emit "N"
    | LVec [] -> emit "V0"
    | LPair (a, d) -> List.iter (fun l -> Hashtbl.replace ids l !count) ls; incr count; emit "P"; go a; go d
    | LVec l -> List.iter (fun l -> Hashtbl.replace ids l !count) ls; incr count;
      emit ("V" ^ string_of_int (List.length l)); List.iter go l
    | LHole n | LPtr n ->
      let n = int_of_z n in
      (match Hashtbl.find_opt ids n with
       | Some id -> emit ("R" ^ string_of_int id)
       | None ->
         (match Hashtbl.find_opt labels n with
          | Some (LAtom _ as x) | Some (LNil as x) | Some (LVec [] as x) -> go x
          | Some (LPtr m) when m <> z_of_int n -> go (LPtr m)
          | _ -> failwith "reference to an object not yet met"))
    | LDef _ -> failwith "impossible" in
  go v; Buffer.contents b

(* ---- exact ratios / complex numbers at token level (C08/Numbers.v); wire syntax as the plugin's enc:
     I<hex>  Q<hex num>/<hex den>  X <re> <im> *)
let enum_of_tok t =
  let a = String.sub t 1 (String.length t - 1) in
  (match t.[0] with
   | 'I' -> EInt (z_of_hex a)
   | 'Q' -> (match String.split_on_char '/' a with
             | [n; d] -> ERat (z_of_hex n, z_of_hex d)
             | _ -> failwith ("bad ratio token " ^ t))
   | _ -> failwith ("bad exact number token " ^ t))
let xnum_of_toks = function
  | ["X"; a; b] -> XCpx (enum_of_tok a, enum_of_tok b)
  | [a] -> XReal (enum_of_tok a)
  | l -> failwith ("bad number tokens " ^ String.concat " " l)
let tok_of_enum = function
  | EInt z -> "I" ^ hex_of_z z
  | ERat (n, d) -> "Q" ^ hex_of_z n ^ "/" ^ hex_of_z d
let toks_of_xnum = function
  | XReal r -> tok_of_enum r
  | XCpx (a, b) -> "X " ^ tok_of_enum a ^ " " ^ tok_of_enum b

let handle = function
  | "write" :: toks -> let (d, _) = parse toks in hex_of_bytes (write fmt_g scan_g d)
  | ["read"] | ["read"; ""] -> "EOF"
  | ["read"; h] ->
    let s = bytes_of_hex h in
    (match read_top dec2flo (nat_of_int (String.length h / 2 + 2)) s with
     | Ok (TDatum d, rest) ->
       (* anything but white space left after the datum? *)
       let trail = (match read_top dec2flo (nat_of_int (List.length rest + 2)) rest with Ok (TEof, _) -> "" | _ -> " TRAIL") in
       unparse d ^ trail
     | Ok (TEof, _) -> "EOF"
     | Ok (_, _) -> "ERR ReadErr"
     | Err ReadErr -> "ERR ReadErr"
     | Err Unmodelled -> "ERR Unmodelled"
     | Err OutOfFuel -> "ERR OutOfFuel")
  | ["swritec"; t] -> let (d, _) = parse [t] in (match d with Chr c -> hex_of_bytes (swrite_char c) | _ -> "ERR not a char")
  | ["flohyp"; t] -> let (d, _) = parse [t] in (match d with Flo b -> flohyp b | _ -> "ERR not a flonum")
  | "rt" :: toks ->
    (* the compound theorem on this datum: model reader (fuel = height + 2) on the model writer's text followed by ")" *)
    let (d, _) = parse toks in
    let rec canon d = (match d with
      | Flo b -> Flo (flo_canon b) | Pair (a, t) -> Pair (canon a, canon t) | Vec l -> Vec (List.map canon l) | x -> x) in
    let fuel = nat_of_int (int_of_nat (height d) + 2) in
    (* round 4: the same instance for the library writer's text (scheme_write_roundtrip), and writers_agree *)
    let one label text = (match read_raw dec2flo fuel (text @ [z_of_int 41]) with
     | Ok (TDatum d', rest) when d' = canon d && rest = [z_of_int 41] -> "OK"
     | Ok (TDatum d', _) -> "FAIL " ^ label ^ " " ^ unparse d'
     | _ -> "FAIL " ^ label ^ " ERR") in
    let tw = write fmt_g scan_g d and ts = swrite fmt_g scan_g d in
    (match one "write" tw with
     | "OK" -> (match one "swrite" ts with
                | "OK" -> if same_char_text d && ts <> tw then "FAIL writers_agree" else "OK"
                | m -> m)
     | m -> m)
  | ["sreadq"; h] ->
    (* C08/SRead.v: the library reader's string / |symbol| arm on a text that starts with a quote character *)
    (match sread_atom (bytes_of_hex h) with
     | Ok (TDatum d, rest) ->
       (* anything but white space / comments left after the datum? (as the harness: a second read must hit the end of input) *)
       let trail = (match read_top dec2flo (nat_of_int (List.length rest + 2)) rest with Ok (TEof, _) -> "" | _ -> " TRAIL") in
       unparse d ^ trail
     | Ok (_, _) -> "ERR ReadErr"
     | Err ReadErr -> "ERR ReadErr"
     | Err Unmodelled -> "ERR Unmodelled"
     | Err OutOfFuel -> "ERR OutOfFuel")
  | "swrite" :: toks -> let (d, _) = parse toks in hex_of_bytes (swrite fmt_g scan_g d)
  | "nwrite" :: toks -> hex_of_bytes (write_xnum (xnum_of_toks toks))
  | ["nread"; h] ->
    let s = bytes_of_hex h in
    (match read_num_token (nat_of_int (String.length h / 2 + 2)) s with
     | NOk (x, rest) ->
       let trail = (match read_top dec2flo (nat_of_int (List.length rest + 2)) rest with Ok (TEof, _) -> "" | _ -> " TRAIL") in
       toks_of_xnum x ^ trail
     | NErr ReadErr -> "ERR ReadErr"
     | NErr Unmodelled -> "ERR Unmodelled"
     | NErr OutOfFuel -> "ERR OutOfFuel")
  | "lwrite" :: toks -> let (g, _) = gparse toks in render (wr g)
  | "lread" :: toks ->
    (match read_labels (List.map ltok_of_string (List.filter (fun t -> t <> "") toks)) with
     | LOk (v, rest) -> (try lenc v ^ (if rest = [] then "" else " TRAIL") with Failure m -> "ERR enc " ^ m)
     | LErr LReadErr -> "ERR ReadErr"
     | LErr LUnmodelled -> "ERR Unmodelled"
     | LErr LOutOfFuel -> "ERR OutOfFuel")
  | ["decode"; h] ->
    let s = bytes_of_hex h in
    let nth k = (match List.nth_opt s k with Some b -> b | None -> Z0) in
    let v = sexp_decode_utf8_char (nth 0) (nth 1) (nth 2) (nth 3) (z_of_int (List.length s)) in
    (match v with Zneg _ -> "-" ^ string_of_int (int_of_z (zabs v)) | _ -> string_of_int (int_of_z v))
  | f -> "ERR unknown request " ^ String.concat " " f

let () = serve handle
