(* C08 line protocol.
     write <datum tokens…>   -> hex of the model writer's text
     read <hex text>         -> datum tokens | EOF | ERR <kind>      (+ " TRAIL" when input is left)
     decode <hex bytes>      -> sexp_decode_utf8_char on the C string (decimal)
   datum tokens (prefix notation): I<hex z> D<hex bits> C<hex> S<hexbytes> Y<hexbytes> T F N
     P <car> <cdr>   V<n> <n data>   B<hexbytes>
   The libc parameters of the model are supplied here: fmt_g = printf "%.*g", scan_g = strtod
   (float_of_string), dec2flo = strtod of "<whole>.<frac>e<exp>" (i.e. the correctly rounded value). *)
open Model
open Common

let bytes_of_hex h =
  let n = String.length h / 2 in
  List.init n (fun i -> z_of_int (int_of_string ("0x" ^ String.sub h (2 * i) 2)))
let hex_of_bytes l = String.concat "" (List.map (fun b -> Printf.sprintf "%02x" ((int_of_z b) land 255)) l)
let string_of_bytes l = String.concat "" (List.map (fun b -> String.make 1 (Char.chr ((int_of_z b) land 255))) l)
let bytes_of_string s = List.init (String.length s) (fun i -> z_of_int (Char.code s.[i]))

let zabs = function Zneg p -> Zpos p | z -> z
let int64_of_z b = Int64.of_string ("0x" ^ hex_of_z b)
let z_of_int64 i = z_of_hex (Printf.sprintf "%Lx" i)

let fmt_g p b = bytes_of_string (Printf.sprintf "%.*g" (int_of_z p) (Int64.float_of_bits (int64_of_z b)))
let scan_g t = match float_of_string_opt (string_of_bytes t) with
  | Some f -> Some (z_of_int64 (Int64.bits_of_float f))
  | None -> None
(* mirrors the repaired sexp_read_float_tail: the whole part arrives as a double (converted from the
   integer read so far), is printed back with "%.0f", the fraction digits are appended and the text
   "<digits>e<exp - #fraction digits>" goes through strtod *)
let dec2flo whole fr e =
  let w = float_of_string (string_of_bytes (write_nat whole)) in
  let ex = (match e with Zneg _ -> - (int_of_z (zabs e)) | _ -> int_of_z e) - List.length fr in
  let s = Printf.sprintf "%.0f" w ^ string_of_bytes fr ^ "e" ^ string_of_int ex in
  z_of_int64 (Int64.bits_of_float (float_of_string s))

let rec parse toks = match toks with
  | [] -> failwith "datum tokens end early"
  | t :: r ->
    let a = String.sub t 1 (String.length t - 1) in
    (match t.[0] with
     | 'I' -> (Int (z_of_hex a), r)
     | 'D' -> (Flo (z_of_hex a), r)
     | 'C' -> (Chr (z_of_hex a), r)
     | 'S' -> (Str (bytes_of_hex a), r)
     | 'Y' -> (Sym (bytes_of_hex a), r)
     | 'T' -> (Bool true, r)
     | 'F' -> (Bool false, r)
     | 'N' -> (Nil, r)
     | 'B' -> (Bytes (bytes_of_hex a), r)
     | 'P' -> let (x, r1) = parse r in let (y, r2) = parse r1 in (Pair (x, y), r2)
     | 'V' ->
       let n = int_of_string a in
       let rec go k r acc = if k = 0 then (List.rev acc, r) else let (x, r1) = parse r in go (k - 1) r1 (x :: acc) in
       let (l, r1) = go n r [] in (Vec l, r1)
     | _ -> failwith ("bad datum token " ^ t))

let rec unparse d = match d with
  | Int z -> "I" ^ hex_of_z z
  | Flo b -> "D" ^ hex_of_z b
  | Chr c -> "C" ^ hex_of_z c
  | Str s -> "S" ^ hex_of_bytes s
  | Sym s -> "Y" ^ hex_of_bytes s
  | Bool true -> "T"
  | Bool false -> "F"
  | Nil -> "N"
  | Bytes l -> "B" ^ hex_of_bytes l
  | Pair (a, t) -> "P " ^ unparse a ^ " " ^ unparse t
  | Vec l -> String.concat " " (("V" ^ string_of_int (List.length l)) :: List.map unparse l)

let handle = function
  | "write" :: toks -> let (d, _) = parse toks in hex_of_bytes (write fmt_g scan_g d)
  | ["read"] | ["read"; ""] -> "EOF"
  | ["read"; h] ->
    let s = bytes_of_hex h in
    (match read_top dec2flo (nat_of_int (String.length h / 2 + 2)) s with
     | Ok (TDatum d, rest) ->
       (* anything but white space left after the datum? *)
       let trail = (match read_top dec2flo (nat_of_int (List.length rest + 2)) rest with Ok (TEof, _) -> "" | _ -> " TRAIL") in
       unparse d ^ trail
     | Ok (TEof, _) -> "EOF"
     | Ok (_, _) -> "ERR ReadErr"
     | Err ReadErr -> "ERR ReadErr"
     | Err Unmodelled -> "ERR Unmodelled"
     | Err OutOfFuel -> "ERR OutOfFuel")
  | ["decode"; h] ->
    let s = bytes_of_hex h in
    let nth k = (match List.nth_opt s k with Some b -> b | None -> Z0) in
    let v = sexp_decode_utf8_char (nth 0) (nth 1) (nth 2) (nth 3) (z_of_int (List.length s)) in
    (match v with Zneg _ -> "-" ^ string_of_int (int_of_z (zabs v)) | _ -> string_of_int (int_of_z v))
  | f -> "ERR unknown request " ^ String.concat " " f

let () = serve handle
