open Model
open Common

(* fast conversions for bytes / code points *)
let rec int_of_pos = function XH -> 1 | XO p -> 2 * int_of_pos p | XI p -> 2 * int_of_pos p + 1
let int_of_zz = function Z0 -> 0 | Zpos p -> int_of_pos p | Zneg p -> - (int_of_pos p)
let rec pos_of_int i = if i = 1 then XH else if i land 1 = 0 then XO (pos_of_int (i lsr 1)) else XI (pos_of_int (i lsr 1))
let z_of_i i = if i = 0 then Z0 else if i > 0 then Zpos (pos_of_int i) else Zneg (pos_of_int (- i))
let ztab = Array.init 256 z_of_i

(* byte strings travel as hex, "_" = empty; code point lists as comma separated hex *)
let bytes_of_hex (s : string) : z list =
  if s = "_" then [] else begin
    let n = String.length s / 2 in
    let rec go i acc = if i < 0 then acc else go (i - 1) (ztab.(int_of_string ("0x" ^ String.sub s (2 * i) 2)) :: acc) in
    go (n - 1) [] end
let hex_of_bytes (l : z list) : string =
  if l = [] then "_" else begin
    let b = Buffer.create 64 in
    List.iter (fun x -> Buffer.add_string b (Printf.sprintf "%02x" (int_of_zz x))) l;
    Buffer.contents b end
let cps_of_string (s : string) : z list =
  if s = "_" then [] else List.map (fun h -> z_of_i (int_of_string ("0x" ^ h))) (String.split_on_char ',' s)
let string_of_cps (l : z list) : string =
  if l = [] then "_" else String.concat "," (List.map (fun x -> Printf.sprintf "%x" (int_of_zz x)) l)
let bool_of s = s = "1"
let nat_of s = nat_of_int (int_of_string s)

(* ---- JSON values on the wire (no spaces):
   n t f d  i<signed hex>  s<payload>  a(v;v;...)  o(k=v;...)
   payload of s: in requests (writer side) comma separated hex code points or _ ; in answers (reader side) hex bytes or _ *)
let parse_json (txt : string) : json =
  let n = String.length txt in
  let pos = ref 0 in
  let peek () = if !pos < n then txt.[!pos] else '\000' in
  let until_delim () =
    let st = !pos in
    while !pos < n && not (List.mem txt.[!pos] [';'; ')'; '=']) do incr pos done;
    String.sub txt st (!pos - st) in
  let rec value () =
    let c = peek () in incr pos;
    match c with
    | 'n' -> JNull | 't' -> JBool true | 'f' -> JBool false | 'd' -> JFloat
    | 'i' -> JInt (z_of_hex (until_delim ()))
    | 's' -> JStr (cps_of_string (until_delim ()))
    | 'a' -> incr pos; (* ( *)
        let items = ref [] in
        if peek () = ')' then incr pos else begin
          let continue = ref true in
          while !continue do
            items := value () :: !items;
            if peek () = ';' then incr pos else (incr pos; continue := false)
          done end;
        JArr (List.rev !items)
    | 'o' -> incr pos;
        let items = ref [] in
        if peek () = ')' then incr pos else begin
          let continue = ref true in
          while !continue do
            let k = value () in
            incr pos; (* = *)
            let v = value () in
            items := (k, v) :: !items;
            if peek () = ';' then incr pos else (incr pos; continue := false)
          done end;
        JObj (List.rev !items)
    | _ -> failwith "bad json wire text" in
  value ()

let rec show_json (v : json) : string = match v with
  | JNull -> "n" | JBool true -> "t" | JBool false -> "f" | JFloat -> "d"
  | JInt z -> "i" ^ hex_of_z z
  | JStr s -> "s" ^ hex_of_bytes s
  | JArr l -> "a(" ^ String.concat ";" (List.map show_json l) ^ ")"
  | JObj l -> "o(" ^ String.concat ";" (List.map (fun (k, v) -> show_key k ^ "=" ^ show_json v) l) ^ ")"
and show_key k = match k with
  | JNull -> "s6e756c6c"      (* the literal null as a key is the symbol null, like the string "null" *)
  | _ -> show_json k


(* ---- CSV wire format: grammar  seps:quote:dbl:esc:rs  (seps = dot separated hex code points, quote / esc = hex or n, dbl = 0/1,
   rs = lax | crlf | hex); table: rows joined by |, fields by ;, a field = comma separated hex code points or _ ; a row without
   fields = ~ ; no rows = - *)
let opt_of s = if s = "n" then None else Some (z_of_hex s)
let grammar_of (s : string) : grammar =
  match String.split_on_char ':' s with
  | [sp; q; d; e; r] ->
     { seps = (if sp = "" then [] else List.map z_of_hex (String.split_on_char '.' sp)); quote = opt_of q; dbl = (d = "1"); esc = opt_of e;
       rs = (if r = "lax" then RLax else if r = "crlf" then RCrlf else RChar (z_of_hex r)) }
  | _ -> failwith "bad grammar"
let rows_of (s : string) : z list list list =
  if s = "-" then [] else
  List.map (fun r -> if r = "~" then [] else List.map cps_of_string (String.split_on_char ';' r)) (String.split_on_char '|' s)
let string_of_rows (rows : z list list list) : string =
  if rows = [] then "-" else
  String.concat "|" (List.map (fun r -> if r = [] then "~" else String.concat ";" (List.map string_of_cps r)) rows)
let show_f64 (d : z) : string = if isnan64 d then "nan" else hex_of_z d
let rec upto a b = if a >= b then [] else a :: upto (a + 1) b

let handle = function
  | ["csvw"; g; rows] -> (match csv_write (grammar_of g) (rows_of rows) with Some t -> "S " ^ string_of_cps t | None -> "N")
  | ["csvr"; g; txt] -> (match csv_read (grammar_of g) (cps_of_string txt) with Some r -> "S " ^ string_of_rows r | None -> "N")
  | ["h2d"; h] -> show_f64 (gen_half_to_double (z_of_hex h))
  | ["d2h"; d] -> hex_of_z (gen_double_to_half (z_of_hex d))
  | ["q2d"; q] -> show_f64 (quarter_to_double (z_of_hex q))
  | ["d2q"; d] -> hex_of_z (double_to_quarter (z_of_hex d))
  | ["allh2d"] -> String.concat " " (List.map (fun i -> show_f64 (gen_half_to_double (z_of_i i))) (upto 0 65536))
  | ["allq2d"] -> String.concat " " (List.map (fun i -> show_f64 (quarter_to_double (z_of_i i))) (upto 0 256))
  | ["qpenc"; col; h] -> hex_of_bytes (qp_loop mAXCOL sEP (bytes_of_hex h) (z_of_i (int_of_string col)))
  | ["qpencx"; mc; sep; col; h] -> hex_of_bytes (qp_loop (z_of_i (int_of_string mc)) (bytes_of_hex sep) (bytes_of_hex h) (z_of_i (int_of_string col)))
  | ["qpdecm"; mime; h] -> let l = bytes_of_hex h in
     (match qp_dec (nat_of_int (List.length l + 1)) (bool_of mime) l with Some l -> "S " ^ hex_of_bytes l | None -> "N")
  | ["id"; h] -> h
  | ["qpdec"; h] -> (match qp_decode (bytes_of_hex h) with Some l -> "S " ^ hex_of_bytes l | None -> "N")
  | ["urienc"; plus; extl; cps] ->
     let ext = cps_of_string extl in
     let extf c = List.exists (fun e -> int_of_zz e = int_of_zz c) ext in
     string_of_cps (uri_encode extf (bool_of plus) (cps_of_string cps))
  | ["uridec"; plus; cps] -> (match uri_dec (bool_of plus) (cps_of_string cps) with Some l -> "S " ^ string_of_cps l | None -> "N")
  | ["jread"; h] -> (match json_read (bytes_of_hex h) with Ok v -> "V " ^ show_json v | Err -> "E" | Fuel -> "FUEL")
  | ["jwrite"; t] -> (match jwrite (parse_json t) with Some b -> "S " ^ hex_of_bytes b | None -> "N")
  | ["numok"; m; e; d; k; p] -> if num_accept (z_of_hex m) (z_of_hex e) (z_of_hex d) (z_of_hex k) (z_of_hex p) then "T" else "F"
  | ["jexpect"; t] -> "V " ^ show_json (utf8_val (parse_json t))
  | ["b64enc"; h] -> hex_of_bytes (b64_encode (bytes_of_hex h))
  | ["b64dec"; h] -> hex_of_bytes (b64_decode (bytes_of_hex h))
  | ["b64sdec"; n; h] -> (match b64_stream_decode (nat_of n) (bytes_of_hex h) with Some l -> "S " ^ hex_of_bytes l | None -> "FUEL")
  | ["b64senc"; n; h] -> (match b64_stream_encode (nat_of n) (bytes_of_hex h) with Some l -> "S " ^ hex_of_bytes l | None -> "FUEL")
  | ["b64hdr"; name; h; sc; mc; nl] ->
     hex_of_bytes (b64_header (bytes_of_hex name) (bytes_of_hex h) (z_of_i (int_of_string sc)) (z_of_i (int_of_string mc)) (bytes_of_hex nl))
  | ["intenc"; w; big; v] -> hex_of_bytes (encode_int (nat_of w) (bool_of big) (z_of_hex v))
  | ["intdec"; w; sg; big; h] -> hex_of_z (decode_int (nat_of w) (bool_of sg) (bool_of big) (bytes_of_hex h))
  | ["bvref"; w; sg; big; h; k] ->
     (match bv_ref (nat_of w) (bool_of sg) (bool_of big) (bytes_of_hex h) (z_of_hex k) with
      | None -> "N" | Some v -> "S " ^ hex_of_z v)
  | ["bvset"; w; big; h; k; v] ->
     (match bv_set (nat_of w) (bool_of big) (bytes_of_hex h) (z_of_hex k) (z_of_hex v) with
      | None -> "N" | Some l -> "S " ^ hex_of_bytes l)
  | f -> "ERR unknown request " ^ String.concat " " f

let () = serve handle
