(* C09 line protocol.  128-bit helpers: "<fn> <args>", a struct argument is "hi,lo" (hex words, hi of a
   sexp_lsint_t signed: "-1,ffff..."), a scalar is signed hex; answers in the same syntax. *)
open Model
open Common

let pr s = match String.split_on_char ',' s with
  | [h; l] -> (z_of_hex h, z_of_hex l)
  | _ -> failwith ("bad pair " ^ s)
let spr (h, l) = hex_of_z h ^ "," ^ hex_of_z l
let z = z_of_hex
let sz = hex_of_z

(* ---- (B) analysed core AST in prefix tokens (see harness/c09_simplify.scm); names, lambda ids, opcode numbers and
   tags of non-numeric constants are decimal integers here; integers constants are "i<signed hex>" ---- *)
let zi s = z_of_int (int_of_string s)
let iz x = string_of_int (int_of_z x)

let const_of s =
  if s = "t" then CBool true else if s = "f" then CBool false else if s = "v" then CVoid
  else if s.[0] = 'i' then CInt (z_of_hex (String.sub s 1 (String.length s - 1)))
  else if s.[0] = 'r' then
    (match String.split_on_char '/' (String.sub s 1 (String.length s - 1)) with
     | [n; d] -> (match z_of_hex d with Zpos p -> CRat (z_of_hex n, p) | _ -> failwith ("bad ratio " ^ s))
     | _ -> failwith ("bad ratio " ^ s))
  else if s.[0] = 'o' then COther (zi (String.sub s 1 (String.length s - 1)))
  else failwith ("bad constant " ^ s)

let string_of_const = function
  | CInt z -> "i" ^ hex_of_z z | CRat (n, d) -> "r" ^ hex_of_z n ^ "/" ^ hex_of_pos d | CBool true -> "t" | CBool false -> "f" | CVoid -> "v" | COther t -> "o" ^ iz t

let rec take n f toks = if n = 0 then ([], toks) else let (x, r) = f toks in let (xs, r') = take (n - 1) f r in (x :: xs, r')
let name = function t :: r -> (zi t, r) | [] -> failwith "eof"

let rec parse toks = match toks with
  | "I" :: c :: r -> (KImm (const_of c), r)
  | "L" :: c :: r -> (KLit (const_of c), r)
  | "B" :: c :: r -> (KObj (const_of c), r)
  | "R" :: x :: l :: r -> (KRef (zi x, zi l), r)
  | "S" :: x :: l :: r -> let (e, r') = parse r in (KSet (zi x, zi l, e), r')
  | "C" :: r -> let (t, r1) = parse r in let (a, r2) = parse r1 in let (b, r3) = parse r2 in (KCnd (t, a, b), r3)
  | "Q" :: n :: r -> let (es, r') = take (int_of_string n) parse r in (KSeq es, r')
  | "A" :: n :: r -> let (f, r1) = parse r in let (args, r2) = take (int_of_string n) parse r1 in (KApp (f, args), r2)
  | "O" :: o :: r -> (KOp (zi o), r)
  | "M" :: id :: n :: r ->
      let (ps, r1) = take (int_of_string n) name r in
      (match r1 with
       | rest :: m :: r2 ->
           let (sv, r3) = take (int_of_string m) name r2 in
           let (body, r4) = parse r3 in
           (KLam (zi id, ps, rest = "1", sv, body), r4)
       | _ -> failwith "bad lambda")
  | t :: _ -> failwith ("bad token " ^ t)
  | [] -> failwith "eof"

(* kinds kept: I = immediate, L = lit node, B = heap datum that is not a lit *)
let rec show e = match e with
  | KImm c -> "I " ^ string_of_const c
  | KLit c -> "L " ^ string_of_const c
  | KObj c -> "B " ^ string_of_const c
  | KRef (x, l) -> "R " ^ iz x ^ " " ^ iz l
  | KSet (x, l, e) -> "S " ^ iz x ^ " " ^ iz l ^ " " ^ show e
  | KCnd (t, a, b) -> "C " ^ show t ^ " " ^ show a ^ " " ^ show b
  | KSeq es -> String.concat " " (("Q " ^ string_of_int (List.length es)) :: List.map show es)
  | KApp (f, args) -> String.concat " " (("A " ^ string_of_int (List.length args)) :: show f :: List.map show args)
  | KOp o -> "O " ^ iz o
  | KLam (id, ps, rest, sv, body) ->
      String.concat " " (["M"; iz id; string_of_int (List.length ps)] @ List.map iz ps @ [(if rest then "1" else "0"); string_of_int (List.length sv)]
                         @ List.map iz sv @ [show body])

(* closure-free data of Sem3: a list is written with parentheses, "." before a non-nil tail, a vector as #( ... ) *)
let rec show_dat d = match d with
  | DC c -> string_of_const c
  | DV e -> "#( " ^ show_elems e ^ ")"
  | DP (_, _) -> "( " ^ show_elems d ^ ")"
and show_elems d = match d with
  | DC (COther t) when int_of_z t = 0 -> ""
  | DP (a, r) -> show_dat a ^ " " ^ show_elems r
  | x -> ". " ^ show_dat x ^ " "

(* the dynamic state of the compiling program: "-" = nothing installed, "<h>:<p>" = handler h and a parameter bound to p *)
let dyn_of s = if s = "-" then dyn0 else
  match String.split_on_char ':' s with
  | [h; p] -> { handler = Some (zi h); params = [(zi "1", CInt (zi p))] }
  | _ -> failwith ("bad dyn " ^ s)

let whole toks = match parse toks with (e, []) -> e | _ -> failwith "trailing tokens"

let handle = function
  | "simplify" :: d :: toks -> show (ksexp_simplify (dyn_of d) (whole toks))     (* the kind-exact model, under dynamic state d *)
  | "run" :: toks ->
      let (v, o) = run (erase (whole toks)) in
      (match v with None -> "NONE" | Some c -> "V " ^ string_of_const c) ^ " |" ^ String.concat "" (List.map (fun c -> " " ^ string_of_const c) o)
  | "wf" :: toks -> string_of_bool (wf (erase (whole toks)))
  | "simplify_body" :: toks -> show (ksimplify dyn0 (whole toks) [] true)
  | "erased_agree" :: d :: toks ->          (* instance of ksimplify_refines_simplify *)
      let e = whole toks in string_of_bool (erase (ksexp_simplify (dyn_of d) e) = sexp_simplify (erase e))
  | "simplifyN" :: d :: toks -> show (ksexp_simplifyN (dyn_of d) (whole toks))    (* exact pass order: a simplified operator that is a lambda gets the let handling *)
  | "simplify_bodyN" :: toks -> let e = whole toks in show (ksimpN (ksize e) dyn0 e [] true)
  | "becomes" :: toks ->          (* 1 = some operator only BECAME a lambda: the level-0 model differs *)
      let e = whole toks in string_of_bool (ksexp_simplifyN dyn0 e <> ksexp_simplify dyn0 e)
  | "stableN" :: toks ->          (* the level bound suffices: one more level changes nothing; and the kinded and plain models commute with erase *)
      let e = whole toks in
      string_of_bool (ksimpN (S (ksize e)) dyn0 e [] false = ksexp_simplifyN dyn0 e
                      && erase (ksexp_simplifyN dyn0 e) = sexp_simplifyN (erase e))
  | "run3" :: fuel :: toks ->
      (match run3 (nat_of_int (int_of_string fuel)) (erase (whole toks)) with
       | None -> "NONE |"
       | Some (v, o) ->
           (match v with None -> "V proc" | Some d -> "V " ^ show_dat d) ^ " |" ^ String.concat "" (List.map (fun d -> " ; " ^ show_dat d) o))
  | "restflags" :: toks ->        (* every lambda with a rest parameter, in preorder: id:repaired analysis:old analysis *)
      let rec walk e = match e with
        | Lam (id, ps, rest, sv, body) ->
            (if rest then [iz id ^ ":" ^ string_of_bool (rest_unused e) ^ ":" ^ string_of_bool (rest_unused_old e)] else []) @ walk body
        | SetE (_, _, v) -> walk v
        | Cnd (t, a, b) -> walk t @ walk a @ walk b
        | Seq es -> List.concat_map walk es
        | App (f, args) -> walk f @ List.concat_map walk args
        | _ -> [] in
      String.concat " " ("F" :: walk (erase (whole toks)))
  | "run2" :: fuel :: toks ->
      (match run2 (nat_of_int (int_of_string fuel)) (erase (whole toks)) with
       | None -> "NONE |"
       | Some (v, o) ->
           (match v with None -> "V proc" | Some c -> "V " ^ string_of_const c) ^ " |" ^ String.concat "" (List.map (fun c -> " " ^ string_of_const c) o))
  | ["lsint_lt_0"; a] -> sz (lsint_lt_0 (pr a))
  | ["sexp_lsint_fits_sint"; a] -> sz (sexp_lsint_fits_sint (pr a))
  | ["sexp_luint_fits_uint"; a] -> sz (sexp_luint_fits_uint (pr a))
  | ["luint_from_lsint"; a] -> spr (luint_from_lsint (pr a))
  | ["lsint_from_luint"; a] -> spr (lsint_from_luint (pr a))
  | ["lsint_from_sint"; a] -> spr (lsint_from_sint (z a))
  | ["luint_from_uint"; a] -> spr (luint_from_uint (z a))
  | ["lsint_to_sint"; a] -> sz (lsint_to_sint (pr a))
  | ["luint_to_uint"; a] -> sz (luint_to_uint (pr a))
  | ["lsint_to_sint_hi"; a] -> sz (lsint_to_sint_hi (pr a))
  | ["luint_to_uint_hi"; a] -> sz (luint_to_uint_hi (pr a))
  | ["lsint_negate"; a] -> spr (lsint_negate (pr a))
  | ["luint_eq"; a; b] -> sz (luint_eq (pr a) (pr b))
  | ["luint_lt"; a; b] -> sz (luint_lt (pr a) (pr b))
  | ["luint_shl"; a; s] -> spr (luint_shl (pr a) (z s))
  | ["luint_shr"; a; s] -> spr (luint_shr (pr a) (z s))
  | ["luint_add"; a; b] -> spr (luint_add (pr a) (pr b))
  | ["luint_add_uint"; a; b] -> spr (luint_add_uint (pr a) (z b))
  | ["luint_sub"; a; b] -> spr (luint_sub (pr a) (pr b))
  | ["luint_mul_uint"; a; b] -> spr (luint_mul_uint (pr a) (z b))
  | ["lsint_mul_sint"; a; b] -> spr (lsint_mul_sint (pr a) (z b))
  | ["luint_div"; a; b] -> spr (luint_div (pr a) (pr b))
  | ["luint_div_uint"; a; b] -> spr (luint_div_uint (pr a) (z b))
  | ["luint_and"; a; b] -> spr (luint_and (pr a) (pr b))
  | ["luint_is_fixnum"; a] -> sz (luint_is_fixnum (pr a))
  | ["lsint_is_fixnum"; a] -> sz (lsint_is_fixnum (pr a))
  | f -> "ERR unknown request " ^ String.concat " " f

let () = serve handle
