(* C05 line-protocol driver around the extracted model (AST reader shared in text with C03_driver.ml).
   Requests:  calls <ast>  -> per code body of compile_toplevel, in code order: ((t n) ..) with t = 1 for TAIL-CALL
              tail <ast>   -> tail_sites true of the annotated top-level form (the SPEC side of the top-level body)
              ensure <fixed 0|1> <top> <n> <len>  -> ENOUGH <len'> | OOS
              deep <k> <top> <per> <n> <len>      -> deep_outcome: ENOUGH <final len> | OOS   (k pending calls)
              grow <size> <min_size>              -> grow_stack (repaired): SOME <len> | NONE
              depths <ast>   -> per code body of compile_toplevel (order of calls): the room the body needs above its frame
                                header = max depth of its checked certificate (C05/Depth.v body_depth), X = no certificate
              rdepths <code> -> the same for a code given in the printed form (the real bytecode through wire_code)
              session <fixed 0|1> <c0> <per> <n> <top> <len> <k>..  -> session_z: per call "ok top len", separated by " ; "
   (original header of the C03 driver follows)
   Requests (one per line, ASTs are s-expressions in the format of harness/embed_c03.c with
   names replaced by numbers):
     annot <ast>            -> the AST with every lambda's fv recomputed by the model
     code <ast>             -> compile_toplevel: (code (NAME operand..) ..)
     wf <ast>               -> 1 | 0
     sem <fuel> <ast>..     -> V <value> | E <class> | OUT      (SPEC interpreter, whole program)
     vm <fuel> <ast>..      -> V <value> | E <class> | OUT      (model compiler + model VM)
     tail <ast>             -> C05: list of (tail? nargs) per general application, code order (spec side)
     calls <ast>            -> C05: the same list read off the generated code  *)
open Model
open Common

type sx = A of string | L of sx list

let tokenize (s : string) : string list =
  let toks = ref [] and buf = Buffer.create 16 in
  let flush () = if Buffer.length buf > 0 then (toks := Buffer.contents buf :: !toks; Buffer.clear buf) in
  String.iter (fun c -> match c with
    | '(' | ')' -> flush (); toks := String.make 1 c :: !toks
    | ' ' | '\t' | '\r' | '\n' -> flush ()
    | c -> Buffer.add_char buf c) s;
  flush ();
  List.rev !toks

let rec parse_one (toks : string list) : sx * string list =
  match toks with
  | [] -> failwith "parse: unexpected end"
  | "(" :: r -> let (items, r') = parse_list r [] in (L items, r')
  | ")" :: _ -> failwith "parse: unexpected )"
  | t :: r -> (A t, r)
and parse_list toks acc =
  match toks with
  | ")" :: r -> (List.rev acc, r)
  | [] -> failwith "parse: missing )"
  | _ -> let (x, r) = parse_one toks in parse_list r (x :: acc)

let rec parse_all toks = match toks with [] -> [] | _ -> let (x, r) = parse_one toks in x :: parse_all r

let nat_of_string s = nat_of_int (int_of_string s)
let name_of = function A n -> nat_of_string n | _ -> failwith "name"
let loc_of = function A "g" -> Global | A n -> Local (nat_of_string n) | _ -> failwith "loc"
let lit_of = function
  | L [A "int"; A z] -> LInt (z_of_int (int_of_string z))
  | L [A "bool"; A b] -> LBool (b = "1")
  | L [A "nil"] -> LNil | L [A "void"] -> LVoid | L [A "undef"] -> LUndef
  | L [A "sym"; A n] -> LSym (nat_of_string n)
  | _ -> failwith "unsupported literal"
let prim_of = function
  | "+" -> PAdd | "-" -> PSub | "*" -> PMul | "<" -> PLt | "<=" -> PLe | ">" -> PGt | ">=" -> PGe
  | "=" -> PEqn | "eq?" -> PEq | "cons" -> PCons | "car" -> PCar | "cdr" -> PCdr
  | "null?" -> PNullp | "pair?" -> PPairp | "not" -> PNot
  | s -> failwith ("unsupported primitive " ^ s)
let names_of = function L l -> List.map name_of l | _ -> failwith "names"
let rec ast_of (x : sx) : ast =
  match x with
  | L [A "lit"; l] -> Lit (lit_of l)
  | L [A "ref"; n; o] -> Ref (name_of n, loc_of o)
  | L [A "set"; n; o; v] -> SetV (name_of n, loc_of o, ast_of v)
  | L [A "cnd"; t; p; f] -> Cnd (ast_of t, ast_of p, ast_of f)
  | L (A "seq" :: es) -> Seq (List.map ast_of es)
  | L [A "lam"; id; ps; r; ls; sv; L fv; b] ->
      Lam (name_of id, names_of ps, (match r with A "#f" -> None | r -> Some (name_of r)), names_of ls, names_of sv,
           List.map (function L [n; o] -> (name_of n, loc_of o) | _ -> failwith "fv") fv, ast_of b)
  | L (A "app" :: f :: args) -> App (ast_of f, List.map ast_of args)
  | L (A "op" :: A p :: args) -> OpApp (prim_of p, List.map ast_of args)
  | _ -> failwith "unsupported ast node"

let si n = string_of_int (int_of_nat n)
let sz z = string_of_int (int_of_z z)
let pr_lit = function
  | LInt z -> "(int " ^ sz z ^ ")" | LBool b -> if b then "(bool 1)" else "(bool 0)"
  | LNil -> "(nil)" | LVoid -> "(void)" | LUndef -> "(undef)" | LSym n -> "(sym " ^ si n ^ ")"
let pr_loc = function Global -> "g" | Local n -> si n
let pr_prim = function
  | PAdd -> "+" | PSub -> "-" | PMul -> "*" | PLt -> "<" | PLe -> "<=" | PGt -> ">" | PGe -> ">="
  | PEqn -> "=" | PEq -> "eq?" | PCons -> "cons" | PCar -> "car" | PCdr -> "cdr"
  | PNullp -> "null?" | PPairp -> "pair?" | PNot -> "not"
let pr_names l = "(" ^ String.concat " " (List.map si l) ^ ")"
let rec pr_ast = function
  | Lit l -> "(lit " ^ pr_lit l ^ ")"
  | Ref (n, o) -> "(ref " ^ si n ^ " " ^ pr_loc o ^ ")"
  | SetV (n, o, v) -> "(set " ^ si n ^ " " ^ pr_loc o ^ " " ^ pr_ast v ^ ")"
  | Cnd (t, p, f) -> "(cnd " ^ pr_ast t ^ " " ^ pr_ast p ^ " " ^ pr_ast f ^ ")"
  | Seq es -> "(seq " ^ String.concat " " (List.map pr_ast es) ^ ")"
  | Lam (id, ps, r, ls, sv, fv, b) ->
      "(lam " ^ si id ^ " " ^ pr_names ps ^ " " ^ (match r with None -> "#f" | Some x -> si x) ^ " " ^ pr_names ls
      ^ " " ^ pr_names sv ^ " (" ^ String.concat " " (List.map (fun (n, o) -> "(" ^ si n ^ " " ^ pr_loc o ^ ")") fv)
      ^ ") " ^ pr_ast b ^ ")"
  | App (f, args) -> "(app " ^ String.concat " " (List.map pr_ast (f :: args)) ^ ")"
  | OpApp (p, args) -> "(op " ^ String.concat " " (pr_prim p :: List.map pr_ast args) ^ ")"

let opname = function
  | PAdd -> "ADD" | PSub -> "SUB" | PMul -> "MUL" | PLt | PGt -> "LT" | PLe | PGe -> "LE" | PEqn -> "EQN"
  | PEq -> "EQ" | PCons -> "CONS" | PCar -> "CAR" | PCdr -> "CDR" | PNullp -> "NULL?" | PPairp -> "PAIR?"
  | PNot -> "NOT"
let rec pr_code c = "(code " ^ String.concat " " (List.map pr_instr c) ^ ")"
and pr_instr = function
  | IPush l -> "(PUSH " ^ pr_lit l ^ ")"
  | IPushProc (f, n, c) -> "(PUSH (proc " ^ si f ^ " " ^ si n ^ " " ^ pr_code c ^ "))"
  | IMakeProc (f, n, c) -> "(MAKE-PROCEDURE " ^ si f ^ " " ^ si n ^ " " ^ pr_code c ^ ")"
  | ILocalRef k -> "(LOCAL-REF " ^ sz k ^ ")" | ILocalSet k -> "(LOCAL-SET " ^ sz k ^ ")"
  | IClosureRef k -> "(CLOSURE-REF " ^ si k ^ ")"
  | IGlobalRef g -> "(GLOBAL-REF " ^ si g ^ ")" | IPushCell g -> "(PUSH (cell " ^ si g ^ "))"
  | ICdr -> "(CDR)" | ISetCdr -> "(SET-CDR)" | ICons -> "(CONS)" | IMakeVector -> "(MAKE-VECTOR)"
  | IStackRef k -> "(STACK-REF " ^ si k ^ ")" | IVectorSet -> "(VECTOR-SET)" | IDrop -> "(DROP)"
  | IJumpUnless n -> "(JUMP-UNLESS " ^ si n ^ ")" | IJump n -> "(JUMP " ^ si n ^ ")"
  | ICall n -> "(CALL " ^ si n ^ ")" | ITailCall n -> "(TAIL-CALL " ^ si n ^ ")"
  | IRet -> "(RET)" | IDone -> "(DONE)"
  | IPrim p -> "(" ^ opname p ^ ")"

let asts_of_fields fields = List.map ast_of (parse_all (tokenize (String.concat " " fields)))
let one fields = match asts_of_fields fields with [a] -> a | _ -> failwith "expected one ast"

let pr_calls l = "(" ^ String.concat " " (List.map (fun (t, n) -> "(" ^ (if t then "1" else "0") ^ " " ^ si n ^ ")") l) ^ ")"

(* the printed code form (pr_code above; props/C03.py wire_code produces it from the real bytecode dump) back into
   model code.  Only what the depth certificate looks at matters: literals are kept when they parse, CDR / CONS are read
   as the VM instructions of the same stack effect as the primitives. *)
let rec code_of_sx = function
  | L (A "code" :: ins) -> List.map instr_of_sx ins
  | _ -> failwith "code"
and instr_of_sx = function
  | L [A "PUSH"; L [A "proc"; A f; A n; c]] -> IPushProc (nat_of_string f, nat_of_string n, code_of_sx c)
  | L [A "PUSH"; L [A "cell"; A g]] -> IPushCell (nat_of_string g)
  | L [A "PUSH"; l] -> IPush (try lit_of l with Failure _ -> LOpaque (nat_of_int 0))
  | L [A "MAKE-PROCEDURE"; A f; A n; c] -> IMakeProc (nat_of_string f, nat_of_string n, code_of_sx c)
  | L [A "LOCAL-REF"; A k] -> ILocalRef (z_of_int (int_of_string k))
  | L [A "LOCAL-SET"; A k] -> ILocalSet (z_of_int (int_of_string k))
  | L [A "CLOSURE-REF"; A k] -> IClosureRef (nat_of_string k)
  | L [A "GLOBAL-REF"; A g] -> IGlobalRef (nat_of_string g)
  | L [A "CDR"] -> ICdr | L [A "SET-CDR"] -> ISetCdr | L [A "CONS"] -> ICons | L [A "MAKE-VECTOR"] -> IMakeVector
  | L [A "STACK-REF"; A k] -> IStackRef (nat_of_string k)
  | L [A "VECTOR-SET"] -> IVectorSet | L [A "DROP"] -> IDrop
  | L [A "JUMP-UNLESS"; A n] -> IJumpUnless (nat_of_string n) | L [A "JUMP"; A n] -> IJump (nat_of_string n)
  | L [A "CALL"; A n] -> ICall (nat_of_string n) | L [A "TAIL-CALL"; A n] -> ITailCall (nat_of_string n)
  | L [A "RET"] -> IRet | L [A "DONE"] -> IDone
  | L [A "ADD"] -> IPrim PAdd | L [A "SUB"] -> IPrim PSub | L [A "MUL"] -> IPrim PMul | L [A "LT"] -> IPrim PLt
  | L [A "LE"] -> IPrim PLe | L [A "EQN"] -> IPrim PEqn | L [A "EQ"] -> IPrim PEq | L [A "CAR"] -> IPrim PCar
  | L [A "NULL?"] -> IPrim PNullp | L [A "PAIR?"] -> IPrim PPairp | L [A "NOT"] -> IPrim PNot
  | _ -> failwith "unsupported instruction"

let pr_depths l = String.concat " " (List.map (function Some n -> si n | None -> "X") l)

let handle = function
  | "depths" :: rest -> pr_depths (bodies_depth (nat_of_int 60) (compile_toplevel (one rest)))
  | "rdepths" :: rest ->
      (match parse_all (tokenize (String.concat " " rest)) with
       | [c] -> pr_depths (bodies_depth (nat_of_int 60) (code_of_sx c))
       | _ -> failwith "expected one code")
  | "calls" :: rest -> String.concat " " (List.map pr_calls (bodies_calls (nat_of_int 60) (compile_toplevel (one rest))))
  | "tail" :: rest -> pr_calls (tail_sites true (annotate (one rest)))
  | ["ensure"; fixed; top; n; len] ->
      (match ensure_stack (fixed = "1") (z_of_int (int_of_string top)) (z_of_int (int_of_string n)) (z_of_int (int_of_string len)) with
       | Enough l -> "ENOUGH " ^ sz l | OutOfStack -> "OOS")
  | ["deep"; k; top; per; n; len] ->
      let z x = z_of_int (int_of_string x) in
      (match deep_outcome (z k) (z top) (z per) (z n) (z len) with
       | Enough l -> "ENOUGH " ^ sz l | OutOfStack -> "OOS")
  | "session" :: fixed :: c0 :: per :: n :: top :: len :: ks ->
      (* sexp_apply called again and again on one context: per call "1|0 <context top> <stack length>" *)
      let z x = z_of_int (int_of_string x) in
      String.concat " ; " (List.map (fun (ok, c) -> (if ok then "1 " else "0 ") ^ sz c.ctop ^ " " ^ sz c.clen)
        (session_z (fixed = "1") (z c0) (z per) (z n) { ctop = z top; clen = z len } (List.map z ks)))
  | ["grow"; size; min_size] ->
      (match grow_stack true (z_of_int (int_of_string size)) (z_of_int (int_of_string min_size)) with
       | Some l -> "SOME " ^ sz l | None -> "NONE")
  | f -> "ERR unknown request " ^ String.concat " " f

let () = serve handle
