(* C11 line protocol.  The driver holds one scheduler state.
     reset <fixed 0|1>                      -> ok
     <op> ...                               -> <E0|E1> <result #t|#f> | <state>
   ops:  start t | term t | join t <tmo> <now> | sleep <0|1> <tmo> <now> | lock m <tmo> <now> <owner|-|self>
         | unlock m <cv|-> <tmo> <now> | signal c | bcast c | exit | sched <now1> <now2>
   tmo:  n | r<sec>.<usec> | c        now: <sec>.<usec>
   state: C c F a,b B b|- P x,y T <t:wtl:ev:sec.usec>* M <m:l:owner>*   for threads < NT, mutexes < NM
     (nthreads / nmutexes: "dims NT NM") *)
open Model
open Common

let fixed = ref true
let state = ref init
let nt = ref 8
let nm = ref 4

let nat i = nat_of_int i
let zi i = z_of_int i
let pair_of s =
  match String.split_on_char '.' s with
  | [a; b] -> (zi (int_of_string a), zi (int_of_string b))
  | _ -> failwith ("bad time " ^ s)
let tmo_of s =
  if s = "n" then TNone else if s = "c" then TSelf
  else if String.length s > 0 && s.[0] = 'r' then
    let (a, b) = pair_of (String.sub s 1 (String.length s - 1)) in TRel (a, b)
  else failwith ("bad timeout " ^ s)

let str_list l = if l = [] then "" else String.concat "," (List.map (fun t -> string_of_int (int_of_nat t)) l)
let str_ev = function
  | ENone -> "-" | EMutex m -> "M" ^ string_of_int (int_of_nat m)
  | ECond c -> "C" ^ string_of_int (int_of_nat c) | EThread t -> "T" ^ string_of_int (int_of_nat t)
let b01 b = if b then "1" else "0"
let dump s =
  let buf = Buffer.create 200 in
  Buffer.add_string buf (Printf.sprintf "C %d F %s B %s P %s T" (int_of_nat s.cur) (str_list s.front)
    (match s.back with Some t -> string_of_int (int_of_nat t) | None -> "-") (str_list s.paused));
  for t = 0 to !nt - 1 do
    let x = s.th (nat t) in
    Buffer.add_string buf (Printf.sprintf " %d:%s%s%s:%s:%d.%06d" t (b01 x.waitp) (b01 x.timeoutp) (b01 x.live) (str_ev x.ev)
      (int_of_z x.tsec) (int_of_z x.tusec))
  done;
  Buffer.add_string buf " M";
  for m = 0 to !nm - 1 do
    let x = s.mx (nat m) in
    Buffer.add_string buf (Printf.sprintf " %d:%s:%s" m (b01 x.locked)
      (match x.owner with Some t -> string_of_int (int_of_nat t) | None -> "-"))
  done;
  Buffer.contents buf

let do_op o =
  let e = enabled !state o in
  let (s', r) = step !fixed !state o in
  state := s';
  Printf.sprintf "%s %s | %s" (if e then "E1" else "E0") (if r then "#t" else "#f") (dump s')

let handle = function
  | ["reset"; f] -> fixed := (f = "1"); state := init; "ok"
  | ["dims"; a; b] -> nt := int_of_string a; nm := int_of_string b; "ok"
  | ["start"; t] -> do_op (OStart (nat (int_of_string t)))
  | ["term"; t] -> do_op (OTerminate (nat (int_of_string t)))
  | ["join"; t; tmo; now] -> do_op (OJoin (nat (int_of_string t), tmo_of tmo, pair_of now))
  | ["sleep"; f; tmo; now] -> do_op (OSleep (f = "1", (if f = "1" then TNone else tmo_of tmo), pair_of now))
  | ["lock"; m; tmo; now; o] ->
     let ow = if o = "-" then None else if o = "self" then Some (!state).cur else Some (nat (int_of_string o)) in
     do_op (OLock (nat (int_of_string m), tmo_of tmo, pair_of now, ow))
  | ["unlock"; m; cv; tmo; now] ->
     do_op (OUnlock (nat (int_of_string m), (if cv = "-" then None else Some (nat (int_of_string cv))), tmo_of tmo, pair_of now))
  | ["signal"; c] -> do_op (OSignal (nat (int_of_string c)))
  | ["bcast"; c] -> do_op (OBroadcast (nat (int_of_string c)))
  | ["exit"] -> do_op OExit
  | ["sched"; a; b] -> do_op (OSched (pair_of a, pair_of b))
  | ["state"] -> dump !state
  | f -> "ERR unknown request " ^ String.concat " " f

(* round 3: programs of coq/C11/Prog.v.
     prog <fuel> <sched> <program tokens>     -> PL<0|1> F <v,..> | <r,..>   or   PL<0|1> ABANDONED | LOCKFAILED | OUTOFFUEL
   sched: - (canonical: default quantum) | k1,k2,..  (slice lengths in micro-steps, clock advance 0)
   program tokens: <nvars> <mutex of var 0> .. <nthreads> then per thread: [ instr* ]
   instr: c m tmo [ instr* ] | w m cv tmo | s cv | b cv | y | z tmo | j t tmo | st t | a k | rd x | wr x k
   tmo: n | <microseconds> *)
let ptmo s = if s = "n" then TNone else let us = int_of_string s in TRel (zi (us / 1000000), zi (us mod 1000000))
let rec pinstrs toks acc = match toks with
  | "]" :: r -> (List.rev acc, r)
  | "c" :: m :: t :: "[" :: r -> let (b, r') = pinstrs r [] in pinstrs r' (ICrit (nat (int_of_string m), ptmo t, b) :: acc)
  | "w" :: m :: c :: t :: r -> pinstrs r (IWait (nat (int_of_string m), nat (int_of_string c), ptmo t) :: acc)
  | "s" :: c :: r -> pinstrs r (ISignal (nat (int_of_string c)) :: acc)
  | "b" :: c :: r -> pinstrs r (IBroadcast (nat (int_of_string c)) :: acc)
  | "y" :: r -> pinstrs r (IYield :: acc)
  | "z" :: t :: r -> pinstrs r (ISleep (ptmo t) :: acc)
  | "j" :: t :: tm :: r -> pinstrs r (IJoin (nat (int_of_string t), ptmo tm) :: acc)
  | "st" :: t :: r -> pinstrs r (IStart (nat (int_of_string t)) :: acc)
  | "a" :: k :: r -> pinstrs r (ILocal (zi (int_of_string k)) :: acc)
  | "rd" :: x :: r -> pinstrs r (IRead (nat (int_of_string x)) :: acc)
  | "wr" :: x :: k :: r -> pinstrs r (IWrite (nat (int_of_string x), zi (int_of_string k)) :: acc)
  | t :: _ -> failwith ("bad program token " ^ t)
  | [] -> failwith "program ends inside a thread"
let pprog toks =
  match toks with
  | nv :: r ->
     let nv = int_of_string nv in
     let rec take k l acc = if k = 0 then (List.rev acc, l) else (match l with x :: l' -> take (k - 1) l' (nat (int_of_string x) :: acc) | [] -> failwith "short") in
     let (vm, r) = take nv r [] in
     (match r with
      | nt :: r ->
         let nt = int_of_string nt in
         let rec threads k l acc = if k = 0 then List.rev acc else
           (match l with "[" :: l' -> let (c, l'') = pinstrs l' [] in threads (k - 1) l'' (c :: acc) | _ -> failwith "thread code expected") in
         { codes = threads nt r []; vmutex = vm }
      | [] -> failwith "short")
  | [] -> failwith "short"
let psched s = if s = "-" then canonical else List.map (fun k -> { len = nat (int_of_string k); adv = zi 0 }) (String.split_on_char ',' s)
let str_zs l = String.concat "," (List.map (fun v -> string_of_int (int_of_z v)) l)
let handle2 = function
  | "prog" :: fuel :: sc :: toks ->
     let p = pprog (List.filter (fun t -> t <> "") toks) in
     let pl = if prog_properly_locked p then "PL1" else "PL0" in
     (match prog_outcome (nat (int_of_string fuel)) (psched sc) p with
      | Finished (v, r) -> Printf.sprintf "%s F %s | %s" pl (str_zs v) (str_zs r)
      | Abandoned -> pl ^ " ABANDONED" | LockFailed -> pl ^ " LOCKFAILED" | OutOfFuel -> pl ^ " OUTOFFUEL")
  | f -> handle f

let () = serve handle2
