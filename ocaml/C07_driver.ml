(* C07 driver.  Stateful line protocol (every line gets exactly one answer line).

   Environment scripts (inner correspondence with harness/embed_c07.c):
     reset                         forget everything
     sym J S                       identifier slot J := symbol number S
     env K P                       environment K := new empty frame whose parent is environment P (-1: none)
     bind K J C                    push (identifier J . cell C) on the bindings of frame K
     ren K J C                     push (identifier J -> cell C) on the renames of frame K
     clo J K N f1 .. fN X          identifier slot J := closure number J over env K, free names f1..fN, expr X
     fv N it1 .. itN               context free-variable list; item iJ = identifier J, eK = environment K
     cell K J L                    -> cell number or "-"       (sexp_env_cell env K, identifier J, localp L)
     ideq K1 J1 K2 J2              -> 0 / 1                    (sexp_identifier_eq_op)
     name J                        -> symbol number of the stripped identifier
     form J N x1 .. xN             identifier slot J := the combination (x1 .. xN) of other slots
     xenv K2 K CE                  environment K2 := extend_synclo_env (current fv list) (env CE) (env K), a snapshot
     ana CE J                      -> the analysed form J in environment CE: ( .. ) application, cell number, "-" unbound
                                      (the model's resolve = analyze; closures around combinations enter_fv / enter_env)
     strip BOUND <datum>           -> strip_synclos BOUND datum; datum in prefix notation
                                      S<n> | L<n> | N | P a d | V<k> e1..ek | C e   (closures printed without identity)
   Environments are materialised at query time from the tables (the generator never makes a frame
   contain, as a key, a closure over that frame or a descendant, so this terminates).

   Analysis (model expander):
     global S kind [n]             global frame binding: symbol S -> cell; kind core n | macro n | other
     macro N arity <template>      macro number N (macro env = the global frame); template tokens:
                                   ( ) vI = pattern variable I, sN = identifier N, integer = literal
     analyze FUEL <form>           form tokens: ( ) sN integer      -> printed rterm or ERR ...
     analyze_swap FUEL A B <form>  same after swapping the bare symbols A and B in the form

   Renamer scripts (inner correspondence with the real make-renamer, harness/c07_renamer.scm):
     rn_reset | rn_sym J S | rn_new R K | rn_app J R I | rn_clo J K I
     rn_dump                       -> (class ...) (shape ...) as printed by c07_renamer.scm
   One global allocation counter; a renamer = its memo list + its macro environment K. *)
open Model
open Common

let n_of_int i = n_of_hex (Printf.sprintf "%x" i)
let int_of_n n = int_of_string ("0x" ^ hex_of_n n)

type idef = ISym of int | IClo of int * int list * int   (* env, fv slots, expr slot *)
          | IForm of int list
let idents : (int, idef) Hashtbl.t = Hashtbl.create 64
let envs : (int, int) Hashtbl.t = Hashtbl.create 64                  (* parent *)
let binds : (int, (int * int) list) Hashtbl.t = Hashtbl.create 64    (* newest first *)
let rens : (int, (int * int) list) Hashtbl.t = Hashtbl.create 64
let ctxfv : string list ref = ref []
let xenvs : (int, frame list) Hashtbl.t = Hashtbl.create 16       (* environments made by xenv (frozen values) *)

let mkc c = { cid = n_of_int c; cval = VOther }

let rec mk_ident j : sexp =
  match Hashtbl.find idents j with
  | ISym s -> Sym (n_of_int s)
  | IClo (k, fv, x) -> Clo (n_of_int j, mk_env k, List.map mk_ident fv, mk_ident x)
  | IForm l -> Lst (List.map mk_ident l)
and mk_env k : frame list =
  if k < 0 then [] else
  if Hashtbl.mem xenvs k then Hashtbl.find xenvs k else
    let al tbl = List.map (fun (j, c) -> (mk_ident j, mkc c)) (try Hashtbl.find tbl k with Not_found -> []) in
    Frame (al rens, al binds) :: mk_env (Hashtbl.find envs k)

let mk_fv () = List.map (fun it ->
    let n = int_of_string (String.sub it 1 (String.length it - 1)) in
    if it.[0] = 'i' then FvId (mk_ident n) else FvEnv (mk_env n)) !ctxfv

let push tbl k v = Hashtbl.replace tbl k (v :: (try Hashtbl.find tbl k with Not_found -> []))

(* ---- analysis part ---- *)
let globals : (sexp * cell) list ref = ref []
let macros : (int * int * tmpl) list ref = ref []
let next_gcell = ref 1

let rec parse_form toks : sexp * string list =
  match toks with
  | "(" :: r -> let (l, r') = parse_forms r in (Lst l, r')
  | t :: r when t.[0] = 's' -> (Sym (n_of_int (int_of_string (String.sub t 1 (String.length t - 1)))), r)
  | t :: r -> (Lit (n_of_int (int_of_string t)), r)
  | [] -> failwith "eof"
and parse_forms toks =
  match toks with
  | ")" :: r -> ([], r)
  | [] -> failwith "eof in list"
  | _ -> let (x, r) = parse_form toks in let (xs, r') = parse_forms r in (x :: xs, r')

let rec parse_tmpl toks : tmpl * string list =
  match toks with
  | "(" :: r -> let (l, r') = parse_tmpls r in (TLst l, r')
  | t :: r when t.[0] = 's' -> (TId (n_of_int (int_of_string (String.sub t 1 (String.length t - 1)))), r)
  | t :: r when t.[0] = 'v' -> (TVar (nat_of_int (int_of_string (String.sub t 1 (String.length t - 1)))), r)
  | t :: r -> (TLit (n_of_int (int_of_string t)), r)
  | [] -> failwith "eof"
and parse_tmpls toks =
  match toks with
  | ")" :: r -> ([], r)
  | [] -> failwith "eof in list"
  | _ -> let (x, r) = parse_tmpl toks in let (xs, r') = parse_tmpls r in (x :: xs, r')

let rec show_sexp = function
  | Sym s -> "s" ^ string_of_int (int_of_n s)
  | Lit n -> string_of_int (int_of_n n)
  | Lst l -> "(" ^ String.concat " " (List.map show_sexp l) ^ ")"
  | Clo (i, _, _, e) -> "#clo" ^ string_of_int (int_of_n i) ^ ":" ^ show_sexp e

let rec show = function
  | RRef c -> "(ref " ^ string_of_int (int_of_n c) ^ ")"
  | RUnbound x -> "(unb " ^ show_sexp x ^ ")"
  | RLit n -> "(lit " ^ string_of_int (int_of_n n) ^ ")"
  | RQuote d -> "(quote " ^ show_sexp d ^ ")"
  | RLam (ps, b) -> "(lam (" ^ String.concat " " (List.map (fun c -> string_of_int (int_of_n c)) ps) ^ ") " ^ show b ^ ")"
  | RVoid -> "(void)"
  | RIf (a, b, c) -> "(if " ^ show a ^ " " ^ show b ^ " " ^ show c ^ ")"
  | RSet (r, v) -> "(set " ^ show r ^ " " ^ show v ^ ")"
  | RApp l -> "(app " ^ String.concat " " (List.map show l) ^ ")"

let genv () : frame list = [Frame ([], List.rev !globals)]
let mtable () =
  let g = genv () in
  let sorted = List.sort compare !macros in
  List.map (fun (_, ar, t) -> { m_env = g; m_arity = nat_of_int ar; m_tmpl = t }) sorted

let do_analyze fuel form =
  match analyze (mtable ()) (nat_of_int fuel) (genv ()) form with
  | OK (_, t) -> show t
  | Err OutOfFuel -> "ERR fuel"
  | Err (BadSyntax n) -> "ERR syntax " ^ string_of_int (int_of_n n)
  | Err Escaped -> "ERR escaped"

(* ---- quoted data ---- *)
let rec parse_datum toks : datum * string list =
  match toks with
  | [] -> failwith "eof"
  | t :: r ->
    let num () = int_of_string (String.sub t 1 (String.length t - 1)) in
    (match t.[0] with
     | 'S' -> (DSym (n_of_int (num ())), r)
     | 'L' -> (DLit (n_of_int (num ())), r)
     | 'N' -> (DNil, r)
     | 'P' -> let (a, r1) = parse_datum r in let (d, r2) = parse_datum r1 in (DPair (a, d), r2)
     | 'C' -> let (e, r1) = parse_datum r in (DClo (n_of_int 0, e), r1)
     | 'V' ->
       let k = num () in
       let rec go i r acc = if i = 0 then (List.rev acc, r) else let (x, r') = parse_datum r in go (i - 1) r' (x :: acc) in
       let (l, r') = go k r [] in (DVec l, r')
     | _ -> failwith "bad datum token")

let show_datum d =
  let b = Buffer.create 256 in
  let rec go = function
    | DSym s -> Buffer.add_string b ("S" ^ string_of_int (int_of_n s))
    | DLit n -> Buffer.add_string b ("L" ^ string_of_int (int_of_n n))
    | DNil -> Buffer.add_string b "N"
    | DPair (a, d) -> Buffer.add_string b "P "; go a; Buffer.add_char b ' '; go d
    | DVec l -> Buffer.add_string b ("V" ^ string_of_int (List.length l)); List.iter (fun x -> Buffer.add_char b ' '; go x) l
    | DClo (_, e) -> Buffer.add_string b "C "; go e in
  go d; Buffer.contents b

let rec show_ana = function
  | RRef c -> string_of_int (int_of_n c)
  | RUnbound _ -> "-"
  | RApp l -> "(" ^ String.concat " " (List.map show_ana l) ^ ")"
  | _ -> "?"

(* ---- renamer part ---- *)
let rn_ids : (int, sexp) Hashtbl.t = Hashtbl.create 64
let rn_rens : (int, int * (sexp * sexp) list) Hashtbl.t = Hashtbl.create 16
let rn_next = ref 1
let rn_count = ref 0
let rn_env k : frame list = [Frame ([], [(Sym (n_of_int (9000 + k)), { cid = n_of_int k; cval = VOther })])]
let rn_env_index (e : frame list) = match e with
  | [Frame (_, [(_, c)])] -> int_of_n c.cid
  | _ -> -1
let rn_set j x = Hashtbl.replace rn_ids j x; if j + 1 > !rn_count then rn_count := j + 1
let rn_eq a b = match a, b with
  | Sym s, Sym t -> s = t
  | Clo (i, _, _, _), Clo (j, _, _, _) -> i = j
  | _ -> false
let rn_first pred = let rec go i = if i >= !rn_count then "#f" else if pred i then string_of_int i else go (i + 1) in go 0
let rn_dump () =
  let id j = Hashtbl.find rn_ids j in
  let js = List.init !rn_count (fun j -> j) in
  let classes = List.map (fun j -> rn_first (fun i -> rn_eq (id i) (id j))) js in
  let shapes = List.map (fun j -> match id j with
      | Sym _ -> "s"
      | Clo (_, e, _, x) -> "(c " ^ string_of_int (rn_env_index e) ^ " " ^ rn_first (fun i -> rn_eq (id i) x) ^ ")"
      | _ -> "?") js in
  "(" ^ String.concat " " classes ^ ") (" ^ String.concat " " shapes ^ ")"

(* round 4: expand-template (coq/C07/Template.v) *)
let rec parse_tm toks : tm * string list =
  match toks with
  | [] -> failwith "eof"
  | t :: r ->
    let num () = n_of_int (int_of_string (String.sub t 1 (String.length t - 1))) in
    (match t.[0] with
     | 'S' -> (TSym (num ()), r)
     | 'R' -> (TRen (num ()), r)
     | 'L' -> (TNum (num ()), r)
     | 'U' -> (TUser (num ()), r)
     | 'N' -> (TNil, r)
     | 'P' -> let (a, r1) = parse_tm r in let (d, r2) = parse_tm r1 in (TPair (a, d), r2)
     | 'V' -> let (l, r1) = parse_tm r in (TVec l, r1)
     | _ -> failwith "bad tm token")
let rec show_tm (t : tm) : string =
  match t with
  | TSym s -> "S" ^ string_of_int (int_of_n s)
  | TRen s -> "R" ^ string_of_int (int_of_n s)
  | TNum s -> "L" ^ string_of_int (int_of_n s)
  | TUser s -> "U" ^ string_of_int (int_of_n s)
  | TNil -> "N"
  | TPair (a, d) -> "P " ^ show_tm a ^ " " ^ show_tm d
  | TVec l -> "V " ^ show_tm l
let rec tm_size (t : tm) : int = match t with TPair (a, d) -> 1 + tm_size a + tm_size d | TVec l -> 1 + tm_size l | _ -> 1

let handle fields =
  let fields = List.filter (fun s -> s <> "") fields in
  let i = int_of_string in
  match fields with
  | ["reset"] ->
      Hashtbl.reset idents; Hashtbl.reset envs; Hashtbl.reset binds; Hashtbl.reset rens; ctxfv := []; Hashtbl.reset xenvs;
      globals := []; macros := []; next_gcell := 1; "ok"
  | ["sym"; j; s] -> Hashtbl.replace idents (i j) (ISym (i s)); "ok"
  | ["env"; k; p] -> Hashtbl.replace envs (i k) (i p); "ok"
  | ["bind"; k; j; c] -> push binds (i k) (i j, i c); "ok"
  | ["ren"; k; j; c] -> push rens (i k) (i j, i c); "ok"
  | "clo" :: j :: k :: n :: rest ->
      let n = i n in
      let fv = List.filteri (fun idx _ -> idx < n) rest in
      let x = List.nth rest n in
      Hashtbl.replace idents (i j) (IClo (i k, List.map i fv, i x)); "ok"
  | "fv" :: _ :: items -> ctxfv := items; "ok"
  | "form" :: j :: _ :: xs -> Hashtbl.replace idents (i j) (IForm (List.map i xs)); "ok"
  | ["xenv"; k2; k; ce] ->
      let v = extend_synclo_env (mk_fv ()) (mk_env (i ce)) (mk_env (i k)) in
      Hashtbl.replace xenvs (i k2) v; "ok"
  | ["ana"; ce; j] ->
      (match resolve [] [] (nat_of_int 200) ((n_of_int 100000, n_of_int 100000), []) (mk_fv ()) (mk_env (i ce)) (mk_ident (i j)) with
       | OK (_, t) -> show_ana t
       | Err _ -> "ERR")
  | "tmpl" :: ell :: off :: nv :: rest ->
      (* tmpl ELL OFF NVARS (s dim)* <template> NENV (s <value>)*  -> instantiated template | ERR few|many|other *)
      let i = int_of_string in
      let rec vars k r acc = if k = 0 then (List.rev acc, r) else
        (match r with s :: d :: r' -> vars (k - 1) r' ((n_of_int (i s), nat_of_int (i d)) :: acc) | _ -> failwith "vars") in
      let (vs, r1) = vars (i nv) rest [] in
      let (t, r2) = parse_tm r1 in
      let rec envl k r acc = if k = 0 then List.rev acc else
        (match r with s :: r' -> let (v, r'') = parse_tm r' in envl (k - 1) r'' ((n_of_int (i s), v) :: acc) | _ -> failwith "env") in
      let rho = (match r2 with ne :: r3 -> envl (i ne) r3 [] | [] -> []) in
      let c = { ell = n_of_int (i ell); ell_off = (off = "1") } in
      (match compile c vs (nat_of_int (tm_size t + 1)) t (nat_of_int 0) false with
       | TErr e -> (match int_of_n e with 1 -> "ERR few" | 2 -> "ERR many" | 3 -> "ERR fuel" | _ -> "ERR subset")
       | TOK k -> (match eval k rho with Some o -> show_tm o | None -> "ERR other"))
  | "strip" :: bound :: toks ->
      let (d, _) = parse_datum toks in show_datum (strip_synclos (nat_of_int (i bound)) d)
  | ["cell"; k; j; l] ->
      (match env_cell (mk_fv ()) (mk_env (i k)) (mk_ident (i j)) (l = "1") with
       | None -> "-"
       | Some c -> string_of_int (int_of_n c.cid))
  | ["ideq"; k1; j1; k2; j2] ->
      if identifier_eq (mk_fv ()) (mk_env (i k1)) (mk_ident (i j1)) (mk_env (i k2)) (mk_ident (i j2)) then "1" else "0"
  | ["name"; j] ->
      (match id_name (mk_ident (i j)) with Sym s -> string_of_int (int_of_n s) | _ -> "?")
  | "global" :: s :: kind :: rest ->
      let v = match kind, rest with
        | "core", [n] -> VCore (n_of_int (i n))
        | "macro", [n] -> VMacro (n_of_int (i n))
        | _ -> VOther in
      let c = { cid = n_of_int !next_gcell; cval = v } in
      incr next_gcell;
      globals := (Sym (n_of_int (i s)), c) :: !globals;
      string_of_int (int_of_n c.cid)
  | "macro" :: n :: arity :: toks ->
      let (t, _) = parse_tmpl toks in
      macros := (i n, i arity, t) :: !macros; "ok"
  | "analyze" :: fuel :: toks ->
      let (x, _) = parse_form toks in do_analyze (i fuel) x
  | "analyze_swap" :: fuel :: a :: b :: toks ->
      let (x, _) = parse_form toks in do_analyze (i fuel) (swapU (n_of_int (i a)) (n_of_int (i b)) x)
  | ["rn_reset"] -> Hashtbl.reset rn_ids; Hashtbl.reset rn_rens; rn_next := 1; rn_count := 0; "ok"
  | ["rn_sym"; j; s] -> rn_set (i j) (Sym (n_of_int (i s))); "ok"
  | ["rn_new"; r; k] -> Hashtbl.replace rn_rens (i r) (i k, []); "ok"
  | ["rn_app"; j; r; x] ->
      let (k, memo) = Hashtbl.find rn_rens (i r) in
      let ((next', memo'), c) = rename (rn_env k) (n_of_int !rn_next, memo) (Hashtbl.find rn_ids (i x)) in
      rn_next := int_of_n next'; Hashtbl.replace rn_rens (i r) (k, memo'); rn_set (i j) c; "ok"
  | ["rn_clo"; j; k; x] ->
      let c = Clo (n_of_int !rn_next, rn_env (i k), [], Hashtbl.find rn_ids (i x)) in
      incr rn_next; rn_set (i j) c; "ok"
  | ["rn_dump"] -> rn_dump ()
  | f -> "ERR unknown request " ^ String.concat " " f

let () = serve handle
