(* Conversions between the extracted inductive numbers (Model.positive / z / n / nat) and text.
   Numbers travel as signed hexadecimal ("-1f", "0"); lists as comma-separated items ("" = empty). *)
open Model

let rec pos_of_bits (s : Stdlib.String.t) (i : int) (acc : positive option) : positive option =
  (* s is a binary string, most significant first; builds the positive *)
  if i >= String.length s then acc
  else
    let b = s.[i] = '1' in
    let acc' = match acc with
      | None -> if b then Some XH else None
      | Some p -> Some (if b then XI p else XO p) in
    pos_of_bits s (i + 1) acc'

let bits_of_hex (h : Stdlib.String.t) : Stdlib.String.t =
  let b = Buffer.create (4 * String.length h) in
  String.iter (fun c ->
      let v = match c with
        | '0' .. '9' -> Char.code c - 48
        | 'a' .. 'f' -> Char.code c - 87
        | 'A' .. 'F' -> Char.code c - 55
        | _ -> failwith ("bad hex digit in " ^ h) in
      for k = 3 downto 0 do Buffer.add_char b (if (v lsr k) land 1 = 1 then '1' else '0') done) h;
  Buffer.contents b

let z_of_hex (s : Stdlib.String.t) : z =
  let neg = String.length s > 0 && s.[0] = '-' in
  let h = if neg then String.sub s 1 (String.length s - 1) else s in
  match pos_of_bits (bits_of_hex h) 0 None with
  | None -> Z0
  | Some p -> if neg then Zneg p else Zpos p

let hex_of_pos (p : positive) : Stdlib.String.t =
  (* collect bits least significant first *)
  let rec bits p acc = match p with
    | XH -> 1 :: acc
    | XO q -> bits q (0 :: acc)
    | XI q -> bits q (1 :: acc) in
  (* bits returns most-significant-first when accumulating like this? build lsb-first then reverse *)
  let rec lsb p = match p with XH -> [1] | XO q -> 0 :: lsb q | XI q -> 1 :: lsb q in
  ignore bits;
  let l = Array.of_list (lsb p) in
  let n = Array.length l in
  let nd = (n + 3) / 4 in
  let b = Bytes.create nd in
  for d = 0 to nd - 1 do
    let v = ref 0 in
    for k = 0 to 3 do
      let i = 4 * d + k in
      if i < n && l.(i) = 1 then v := !v lor (1 lsl k)
    done;
    Bytes.set b (nd - 1 - d) "0123456789abcdef".[!v]
  done;
  Bytes.to_string b

let hex_of_z (x : z) : Stdlib.String.t = match x with
  | Z0 -> "0"
  | Zpos p -> hex_of_pos p
  | Zneg p -> "-" ^ hex_of_pos p

let n_of_hex s = match z_of_hex s with Z0 -> N0 | Zpos p -> Npos p | Zneg _ -> failwith "negative N"
let hex_of_n = function N0 -> "0" | Npos p -> hex_of_pos p

let rec nat_of_int (i : int) : nat = if i <= 0 then O else S (nat_of_int (i - 1))
let rec int_of_nat (n : nat) : int = match n with O -> 0 | S m -> 1 + int_of_nat m
let int_of_z (x : z) : int = int_of_string ("0x0" ^ (match x with Zneg _ -> "" | _ -> "") ^ (let h = hex_of_z x in if h.[0] = '-' then String.sub h 1 (String.length h - 1) else h)) * (match x with Zneg _ -> -1 | _ -> 1)
let z_of_int (i : int) : z = z_of_hex (if i < 0 then Printf.sprintf "-%x" (-i) else Printf.sprintf "%x" i)

let split_on c s = if s = "" || s = "-" && false then [] else String.split_on_char c s
let zlist_of_string (s : Stdlib.String.t) : z list = if s = "" || s = "_" then [] else List.map z_of_hex (String.split_on_char ',' s)
let string_of_zlist (l : z list) : Stdlib.String.t = if l = [] then "_" else String.concat "," (List.map hex_of_z l)
let string_of_bool b = if b then "1" else "0"

(* main loop: one request per line, fields separated by single spaces *)
let serve (handle : Stdlib.String.t list -> Stdlib.String.t) : unit =
  (try
     while true do
       let line = input_line stdin in
       let fields = String.split_on_char ' ' line in
       let out = try handle fields with
         | Failure m -> "ERR " ^ m
         | Not_found -> "ERR not_found"
         | Stack_overflow -> "ERR stack_overflow" in
       print_string out; print_char '\n'
     done
   with End_of_file -> ());
  flush stdout
