(* C10 driver: keeps ONE model state and applies the extracted allocator functions to it.
   Requests (decimal numbers):
     init <size> <max>          -> "ok"
     load <max> <heaps>         -> "ok"   (start from a snapshot of the implementation's heap right after a sweep)
     A <size>                   -> "<hi> <off>" (try_alloc succeeded, state updated) | "none" (state unchanged)
     objs                       -> per heap "off:size:m,..." joined by "|"       (heap_objs)
     fl                         -> per heap "off:size,..." joined by "|"         (free_list)
     total                      -> total_size
     gc <marks>                 -> forced collection (Model.gc), state updated:  "R <mf> <sf> F <fl>" | "stuck"
     slow <size> <marks>        -> Model.alloc (the composed slow path), state updated:
                                   "R <mf> <sf> F <fl after the sweep> G <new heap size | -> A <hi> <off> | oom | stuck"
                                   R/F come from running Model.gc on the same pre-state; G from comparing heap counts
   <marks> = per heap the ascending offsets of marked objects "o,o,o" joined by "|" ("-" for none).
   round 3:
     image <free> <max> <sizes> -> the state of a loaded image (Image.packed_heap_make on the packed object sizes
                                   "s,s,s" ascending, requested free size <free>), state updated:
                                   "<malloc size> <heap size> F <free list>"
     roots reset                -> "ok"     (empty preservatives list, no frames)
     roots P h:o | R h:o | push h:o,h:o | pop   -> Image.rstep applied; answer = the preservatives list "h:o,h:o" (head first)
     roots fixed h:o,h:o        -> sets the other roots (the harness's own: its temp vector)
     roots frames               -> the frames, innermost first, "h:o,h:o|h:o"
     roots closure <graph>      -> the objects reachable from Image.root_list through <graph> = "h:o>h:o,h:o;..." , sorted *)
open Model
open Common

let rec pos_of_int (i : int) : positive =
  if i = 1 then XH else if i land 1 = 0 then XO (pos_of_int (i lsr 1)) else XI (pos_of_int (i lsr 1))
let zi (i : int) : z = if i = 0 then Z0 else if i > 0 then Zpos (pos_of_int i) else Zneg (pos_of_int (- i))
let rec int_of_pos = function XH -> 1 | XO p -> 2 * int_of_pos p | XI p -> 2 * int_of_pos p + 1
let iz = function Z0 -> 0 | Zpos p -> int_of_pos p | Zneg p -> - (int_of_pos p)
let soz x = string_of_int (iz x)

let st : state ref = ref (init (zi 64) (zi 0))

let parse_marks (s : string) : z list list =
  List.map (fun h -> if h = "-" || h = "" then [] else List.map (fun o -> zi (int_of_string o)) (String.split_on_char ',' h))
    (String.split_on_char '|' s)

let show_fl (s : state) : string =
  String.concat "|" (List.map (fun h ->
      let l = free_list h in
      if l = [] then "-" else String.concat "," (List.map (fun (o, sz) -> soz o ^ ":" ^ soz sz) l)) s.heaps)

let show_objs (s : state) : string =
  String.concat "|" (List.map (fun h ->
      let b = Buffer.create 65536 in
      List.iter (fun ((o, sz), m) ->
          if Buffer.length b > 0 then Buffer.add_char b ',';
          Buffer.add_string b (soz o); Buffer.add_char b ':'; Buffer.add_string b (soz sz);
          Buffer.add_char b ':'; Buffer.add_char b (if m then '1' else '0')) (heap_objs h);
      if Buffer.length b = 0 then "-" else Buffer.contents b) s.heaps)

(* "load <max> <hsize>;<off:size,..>;<off:size,..>|..." : the state whose free lists and (unmarked) objects are the
   given ones; every object is attached to the free-list node that precedes it *)
let pairs (s : string) : (int * int) list =
  if s = "-" || s = "" then [] else
    List.map (fun e -> match String.split_on_char ':' e with
        | [a; b] -> (int_of_string a, int_of_string b)
        | _ -> failwith "bad pair") (String.split_on_char ',' s)

let load_heap (d : string) : heap =
  match String.split_on_char ';' d with
  | [hs; fl; objs] ->
    let fl = (0, 0) :: pairs fl and objs = ref (pairs objs) in
    let rec build = function
      | [] -> []
      | (o, sz) :: rest ->
        let lim = (match rest with (o2, _) :: _ -> o2 | [] -> max_int) in
        let run = ref [] in
        let continue = ref true in
        while !continue do
          (match !objs with
           | (oo, os) :: t when oo < lim -> run := (zi os, false) :: !run; objs := t
           | _ -> continue := false)
        done;
        { noff = zi o; nsize = zi sz; nrun = !run } :: build rest in
    let nodes = build fl in
    { hsize = zi (int_of_string hs); hnodes = nodes }
  | _ -> failwith "bad heap"

let rts : roots ref = ref { pres = []; frames = []; fixed = [] }
let oaddr_of (t : string) : (z * z) = match String.split_on_char ':' t with
  | [a; b] -> (zi (int_of_string a), zi (int_of_string b))
  | _ -> failwith "bad address"
let oaddrs (t : string) : (z * z) list =
  if t = "-" || t = "" then [] else List.map oaddr_of (String.split_on_char ',' t)
let show_oaddrs (l : (z * z) list) : string =
  if l = [] then "-" else String.concat "," (List.map (fun (a, b) -> soz a ^ ":" ^ soz b) l)
let rec nat_of_int (i : int) : nat = let rec go acc i = if i <= 0 then acc else go (S acc) (i - 1) in go O i

let handle = function
  | ["image"; free; mx; sizes] ->
    let objs = if sizes = "-" then [] else List.map (fun t -> (zi (int_of_string t), false)) (String.split_on_char ',' sizes) in
    let (h, msize) = packed_heap_make objs (zi (int_of_string free)) in
    st := image_state objs (zi (int_of_string free)) (zi (int_of_string mx));
    soz msize ^ " " ^ soz h.hsize ^ " F " ^ show_fl !st
  | ["roots"; "reset"] -> rts := { pres = []; frames = []; fixed = [] }; "ok"
  | ["roots"; "P"; a] -> rts := rstep !rts (RPreserve (oaddr_of a)); show_oaddrs (!rts).pres
  | ["roots"; "R"; a] -> rts := rstep !rts (RRelease (oaddr_of a)); show_oaddrs (!rts).pres
  | ["roots"; "push"; l] -> rts := rstep !rts (RPush (oaddrs l)); show_oaddrs (!rts).pres
  | ["roots"; "fixed"; l] -> rts := { pres = (!rts).pres; frames = (!rts).frames; fixed = oaddrs l }; show_oaddrs (!rts).pres
  | ["roots"; "pop"] -> rts := rstep !rts RPop; show_oaddrs (!rts).pres
  | ["roots"; "frames"] -> String.concat "|" (List.map show_oaddrs (!rts).frames)
  | ["roots"; "closure"; g] ->
    let tbl = Hashtbl.create 64 in
    if g <> "-" then List.iter (fun e -> match String.split_on_char '>' e with
        | [a; l] -> Hashtbl.replace tbl (oaddr_of a) (oaddrs l)
        | _ -> failwith "bad graph") (String.split_on_char ';' g);
    let sl a = (try Hashtbl.find tbl a with Not_found -> []) in
    let n = Hashtbl.fold (fun _ l acc -> acc + 1 + List.length l) tbl 0 + List.length (root_list !rts) + 1 in
    let c = closure (nat_of_int (2 * n + 2)) sl (root_list !rts) [] in
    show_oaddrs (List.sort compare (List.map (fun (a, b) -> (iz a, iz b)) c) |> List.map (fun (a, b) -> (zi a, zi b)))
  | ["load"; mx; hs] ->
    st := { heaps = List.map load_heap (String.split_on_char '|' hs); max_size = zi (int_of_string mx) }; "ok"
  | ["init"; size; mx] -> st := init (zi (int_of_string size)) (zi (int_of_string mx)); "ok"
  | ["A"; size] ->
    (match try_alloc !st (zi (int_of_string size)) with
     | Some ((hi, off), s') -> st := s'; soz hi ^ " " ^ soz off
     | None -> "none")
  | ["objs"] -> show_objs !st
  | ["fl"] -> show_fl !st
  | ["total"] -> soz (total_size !st)
  | ["consts"] -> soz unit_sz ^ " " ^ soz hdr_sz ^ " " ^ soz min_obj
  | ["gc"; marks] ->
    (match gc !st (parse_marks marks) with
     | Some ((s', mf), sf) -> st := s'; "R " ^ soz mf ^ " " ^ soz sf ^ " F " ^ show_fl s'
     | None -> "stuck")
  | ["slow"; size; marks] ->
    let n = zi (int_of_string size) and ms = parse_marks marks in
    let mid = (match gc !st ms with
        | Some ((s1, mf), sf) -> "R " ^ soz mf ^ " " ^ soz sf ^ " F " ^ show_fl s1
        | None -> "R - - F -") in
    let nh0 = List.length (!st).heaps in
    let (s', r) = alloc !st n ms in
    st := s';
    let g = if List.length s'.heaps > nh0 then soz (List.nth s'.heaps nh0).hsize else "-" in
    mid ^ " G " ^ g ^ " A " ^ (match r with
        | AOk (hi, off) -> soz hi ^ " " ^ soz off
        | AOom -> "oom"
        | AStuck -> "stuck")
  | f -> "ERR unknown request " ^ String.concat " " (List.map (fun s -> if String.length s > 40 then String.sub s 0 40 else s) f)

let () = serve handle
