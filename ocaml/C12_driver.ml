(* C12 line-protocol driver over the extracted model (coq/Extract_C12.v).
   numbers: hex; byte lists / code point lists: comma separated hex, "_" = empty.
     leaf ibc <b> | leaf cbc <c> | leaf enc <c> | leaf dec <b0> <b1> <b2> <b3>
     len  <store> <off> <size>                 -> OK n | ERR kind
     i2c  <store> <off> <size> <index>         -> OK j | ERR kind
     c2i  <store> <off> <size> <cursor>        -> OK i | ERR kind
     ref  <store> <off> <size> <index>         -> OK c | ERR kind
     next <store> <off> <size> <cursor>        -> OK j
     prev <store> <off> <size> <cursor>        -> OK j | ERR kind
     set  <store> <off> <size> <cow> <index> <c> -> OK <id> <off> <size> <store0> <store1|->  | ERR kind
     sub  <store> <off> <size> <a> <b|_>       -> OK <size> <newstore> | ERR kind
     cat  <store> <off> <size> <store> <off> <size> -> OK <size> <newstore>
     join <n> <sepstore|#> <off> <size> {<store> <off> <size>}*n  -> OK <size> <newstore>   (string-concatenate with separator)
     mk   <n> <c>                              -> OK <size> <newstore>
     hist <op>;<op>;...   ops:  S v i c | U v a b|_ | A v,v,.. | C v | M n c | L c,c,..
          -> one field per step separated by " | ":  "E" (both raised) or
             "<var> <spec code points> <model slice bytes> <model length> <off> <id>"  or  "DIFF ..." *)
open Model
open Common

let nat_s s = nat_of_int (int_of_string ("0x" ^ s))
let s_nat n = Printf.sprintf "%x" (int_of_nat n)
let neg_ok s = z_of_hex s
let err_s = function RangeErr -> "range" | Utf8Err -> "utf8" | FuelErr -> "fuel"
let res_nat = function Ok n -> "OK " ^ s_nat n | Err e -> "ERR " ^ err_s e
let res_z = function Ok z -> "OK " ^ hex_of_z z | Err e -> "ERR " ^ err_s e
let mk store off size cow = ([zlist_of_string store], { sbytes = O; soff = nat_s off; ssize = nat_s size; scow = cow })
let store_of h k = match List.nth_opt h k with Some l -> string_of_zlist l | None -> "-"

let parse_op (s : string) : op =
  match String.split_on_char ' ' (String.trim s) with
  | ["S"; v; i; c] -> OSet (nat_s v, neg_ok i, z_of_hex c)
  | ["U"; v; a; b] -> OSubstring (nat_s v, neg_ok a, (if b = "_" then None else Some (neg_ok b)))
  | ["A"; vs] -> OAppend (List.map nat_s (if vs = "_" then [] else String.split_on_char ',' vs))
  | ["C"; v] -> OCopy (nat_s v)
  | ["M"; n; c] -> OMake (nat_s n, z_of_hex c)
  | ["L"; cs] -> OLit (zlist_of_string cs)
  | _ -> failwith ("bad op " ^ s)

let changed_var (o : op) (nvars : int) : int = match o with
  | OSet (v, _, _) -> int_of_nat v
  | _ -> nvars

let hist (ops : op list) : string =
  let st = ref { mheap = []; mvars = [] } and sp = ref [] and out = ref [] in
  List.iter (fun o ->
      let m = step !st o and s = spec_step !sp o in
      (match m, s with
       | None, None -> out := "E" :: !out
       | Some st', Some sp' ->
          let v = changed_var o (List.length !sp) in
          st := st'; sp := sp';
          let str = List.nth st'.mvars v and cs = List.nth sp' v in
          let len = match string_length st'.mheap str with Ok n -> s_nat n | Err e -> "ERR" ^ err_s e in
          out := (Printf.sprintf "%x %s %s %s %s %s" v (string_of_zlist cs) (string_of_zlist (slice st'.mheap str)) len
                    (s_nat str.soff) (s_nat str.sbytes)) :: !out
       | None, Some _ -> out := "DIFF model-raised" :: !out
       | Some _, None -> out := "DIFF spec-raised" :: !out)) ops;
  String.concat " | " (List.rev !out)

(* hist2 <op>;<op>;...  : the extended history (C12/HistModel2.v, xstep / xspec_step).  ops: those of hist, plus
     J v,v,..|_ sep|_        push (string-join (list v ...) [sep])        (sep: a variable index)
     F v c a|_ e|_           (string-fill! v c [a [e]])
     Y tv at fv a|_ e|_      (string-copy! tv at fv [a [e]])               (fv = tv: the string onto itself)
   -> same fields as hist, preceded by "P " when the step is outside the theorem's precondition xpreb *)
let parse_xop (s : string) : xop =
  let rng a e = if a = "_" then RNone else if e = "_" then RStart (neg_ok a) else RBoth (neg_ok a, neg_ok e) in
  match String.split_on_char ' ' (String.trim s) with
  | ["J"; vs; sep] -> XJoin (List.map nat_s (if vs = "_" then [] else String.split_on_char ',' vs), (if sep = "_" then None else Some (nat_s sep)))
  | ["F"; v; c; a; e] -> XFill (nat_s v, z_of_hex c, rng a e)
  | ["Y"; tv; at; fv; a; e] -> XCopyBang (nat_s tv, neg_ok at, nat_s fv, rng a e)
  | _ -> XBase (parse_op s)

let hist2 (ops : xop list) : string =
  let st = ref { mheap = []; mvars = [] } and sp = ref [] and out = ref [] in
  List.iter (fun o ->
      let pre = if xpreb !sp o then "" else "P " in
      let m = xstep !st o and s = xspec_step !sp o in
      (match m, s with
       | None, None -> out := (pre ^ "E") :: !out
       | Some st', Some sp' ->
          let v = (match o with XBase b -> changed_var b (List.length !sp) | XJoin _ -> List.length !sp
                                | XFill (v, _, _) -> int_of_nat v | XCopyBang (tv, _, _, _) -> int_of_nat tv) in
          st := st'; sp := sp';
          let str = List.nth st'.mvars v and cs = List.nth sp' v in
          let len = match string_length st'.mheap str with Ok n -> s_nat n | Err e -> "ERR" ^ err_s e in
          out := (pre ^ Printf.sprintf "%x %s %s %s %s %s" v (string_of_zlist cs) (string_of_zlist (slice st'.mheap str)) len
                    (s_nat str.soff) (s_nat str.sbytes)) :: !out
       | None, Some _ -> out := (pre ^ "DIFF model-raised") :: !out
       | Some _, None -> out := (pre ^ "DIFF spec-raised") :: !out)) ops;
  String.concat " | " (List.rev !out)

(* port <s|f|F> <bufsize> <bytes> <sched|_> <op,op,...>: character I/O on a buffered input port (C12/PortModel.v); F = FILE* port
   (C12/FilePortModel.v), the first schedule entry is then the pushback capacity of the C library (none = unbounded, as glibc) *)
(* RBad = the operation raised (invalid lead byte / sequence cut off by end of input): "E", as the Scheme harness prints *)
let rd_s = function RChar c -> "c" ^ hex_of_z c | REof -> "eof" | RBad -> "E"
let port_ops (p0 : iport) (ops : string list) : string =
  let p = ref p0 and out = ref [] in
  let emit x = out := x :: !out in
  List.iter (fun o ->
      if o = "r" then (let (r, p') = read_char !p in p := p'; emit (rd_s r))
      else if o = "p" then (let (r, p') = peek_char !p in p := p'; emit (rd_s r))
      else if o = "c" then emit "T"
      else if o = "u" then (let (b, p') = read_byte !p in p := p'; emit (if hex_of_z b = "-1" then "eof" else "u" ^ hex_of_z b))
      else if o = "l" then (let (r, p') = read_line (nat_of_int 8192) !p in p := p';
                            emit (match r with Ok None -> "eof" | Ok (Some l) -> "l:" ^ string_of_zlist l | Err _ -> "E"))
      else if o = "d" then begin
          let acc = ref [] and go = ref true and bad = ref false and fuel = ref 2000000 in
          while !go && !fuel > 0 do
            decr fuel;
            let (r, p') = read_char !p in p := p';
            (match r with RChar c -> acc := c :: !acc | REof -> go := false | RBad -> (go := false; bad := true))
          done;
          emit (if !bad then "E" else "d:" ^ string_of_zlist (List.rev !acc)) end
      else if String.length o > 1 && o.[0] = 's' then begin
          let k = int_of_string ("0x" ^ String.sub o 1 (String.length o - 1)) in
          if k = 0 then emit "s:_" else
            let (l, p') = read_string (nat_of_int k) !p in p := p';
            emit (match l with Err _ -> "E" | Ok [] -> "eof" | Ok l -> "s:" ^ string_of_zlist l) end
      else emit "?") ops;
  String.concat " | " (List.rev !out)

(* FILE* ports (C12/FilePortModel.v): getc / ungetc with a pushback capacity; read-line is fgets-based there and is not modelled *)
let fport_ops (p0 : fport) (ops : string list) : string =
  let p = ref p0 and out = ref [] in
  let emit x = out := x :: !out in
  List.iter (fun o ->
      if o = "r" then (let (r, p') = fread_char !p in p := p'; emit (rd_s r))
      else if o = "p" then (let (r, p') = fpeek_char !p in p := p'; emit (rd_s r))
      else if o = "c" then emit "T"
      else if o = "u" then (let (b, p') = fgetc !p in p := p'; emit (if hex_of_z b = "-1" then "eof" else "u" ^ hex_of_z b))
      else if o = "d" then begin
          let acc = ref [] and go = ref true and bad = ref false and fuel = ref 2000000 in
          while !go && !fuel > 0 do
            decr fuel;
            let (r, p') = fread_char !p in p := p';
            (match r with RChar c -> acc := c :: !acc | REof -> go := false | RBad -> (go := false; bad := true))
          done;
          emit (if !bad then "E" else "d:" ^ string_of_zlist (List.rev !acc)) end
      else if String.length o > 1 && o.[0] = 's' then begin
          let k = int_of_string ("0x" ^ String.sub o 1 (String.length o - 1)) in
          if k = 0 then emit "s:_" else
            let (l, p') = fread_string (nat_of_int k) !p in p := p';
            emit (match l with Err _ -> "E" | Ok [] -> "eof" | Ok l -> "s:" ^ string_of_zlist l) end
      else emit "?") ops;
  String.concat " | " (List.rev !out)

(* wport <bufsize> <c,c,...> : write-char of each character to a fresh string output port -> the bytes of get-output-string *)
let wport bufsize cs =
  match write_chars (open_output_string (nat_s bufsize)) (zlist_of_string cs) with
  | Ok o -> "OK " ^ string_of_zlist (out_bytes o) ^ " " ^ string_of_int (List.length o.ochunks)
  | Err e -> "ERR " ^ err_s e

(* round 3: optional range arguments.  A string holding the code points <cs> is built as a slice at offset 2 of a
   store with garbage before and after (as utf8->string! makes them).
     wrange <bufsize> <pre bytes> <cs> <a|_> <e|_>  pre bytes, then (write-string s port [a [e]]), then U+20AC -> b:<bytes> | E
     wstr   <bufsize> <pre bytes> <cs> <count|_>     the opcode itself, count in bytes (_ = #t)               -> b:<bytes> | E
     rfill  <cs> <c> <a|_> <e|_>                     string-fill!     -> <code points> <bytes> <length> | E
     rcopy  <to cs|=> <at> <from cs> <a|_> <e|_>     string-copy! (= : from is the target itself)            -> idem
     cmp    <cs1> <cs2>                              sign of string-cmp -> -1 | 0 | 1
     smap   <bufsize> <cs> <delta>                   string-map (c -> c + delta) -> <bytes> *)
let enc_all cs = List.concat_map encode cs
let shared_str (h : z list list) (cs : z list) : z list list * str =
  let b = enc_all cs in
  (h @ [[z_of_hex "c8"; z_of_hex "82"] @ b @ [z_of_hex "bf"; z_of_hex "42"]],
   { sbytes = nat_of_int (List.length h); soff = S (S O); ssize = nat_of_int (List.length b); scow = false })
let range_of a e = if a = "_" then RNone else if e = "_" then RStart (z_of_hex a) else RBoth (z_of_hex a, z_of_hex e)
let sobs h s =
  match string_length h s with
  | Err e -> "ERR " ^ err_s e
  | Ok n ->
     let k = int_of_nat n in
     let cs = List.init k (fun i -> match string_ref h s (z_of_hex (Printf.sprintf "%x" i)) with Ok c -> c | Err _ -> z_of_hex "-1") in
     Printf.sprintf "%s %s %x" (string_of_zlist cs) (string_of_zlist (slice h s)) k
(* smapn <bufsize> <cs>;<cs>;...  : n-ary string-map with f = max of the arguments (C12/MapModel.v) over strings built as slices
   at offset 2 of stores with garbage around -> <code points> <bytes> <length> (the result bytes re-read as a string) | E *)
let smapn bufsize (css : string list) : string =
  let (h, ss) = List.fold_left (fun (h, acc) cs ->
                    let b = List.concat_map encode (zlist_of_string cs) in
                    let h' = h @ [[z_of_hex "c8"; z_of_hex "82"] @ b @ [z_of_hex "bf"; z_of_hex "42"]] in
                    (h', acc @ [{ sbytes = nat_of_int (List.length h); soff = S (S O); ssize = nat_of_int (List.length b); scow = false }]))
                  ([], []) css in
  let zmax l = List.fold_left (fun a b -> if Stdlib.compare (int_of_string ("0x" ^ hex_of_z a)) (int_of_string ("0x" ^ hex_of_z b)) >= 0 then a else b) (List.hd l) l in
  match string_map_n (nat_s bufsize) h ss zmax with
  | Err _ -> "E"
  | Ok bytes -> sobs [bytes @ [z_of_hex "0"]] { sbytes = O; soff = O; ssize = nat_of_int (List.length bytes); scow = false }

let out_after bufsize pre (f : oport -> oport res) =
  match write_bytes (open_output_string (nat_s bufsize)) (zlist_of_string pre) with
  | Err _ -> "E"
  | Ok o -> (match f o with
             | Err _ -> "E"
             | Ok o' -> (match write_char o' (z_of_hex "20ac") with
                         | Ok o'' -> "b:" ^ string_of_zlist (out_bytes o'')
                         | Err _ -> "E"))

let handle = function
  | ["wrange"; bufsize; pre; cs; a; e] ->
     let (h, s) = shared_str [] (zlist_of_string cs) in
     out_after bufsize pre (fun o -> match write_string_io h s (range_of a e) o with Ok (_, o') -> Ok o' | Err x -> Err x)
  | ["wstr"; bufsize; pre; cs; count] ->
     let (h, s) = shared_str [] (zlist_of_string cs) in
     out_after bufsize pre (fun o -> op_write_string h s (if count = "_" then None else Some (z_of_hex count)) o)
  | ["rfill"; cs; c; a; e] ->
     let (h, s) = shared_str [] (zlist_of_string cs) in
     (match string_fill h s (z_of_hex c) (range_of a e) with Ok (h', s') -> sobs h' s' | Err _ -> "E")
  | ["rcopy"; t; at; f; a; e] ->
     let (h, from) = shared_str [] (zlist_of_string f) in
     let same = (t = "=") in
     let (h, to_) = if same then (h, from) else shared_str h (zlist_of_string t) in
     (match string_copy_bang h to_ (z_of_hex at) from same (range_of a e) with Ok (h', s') -> sobs h' s' | Err _ -> "E")
  | ["cmp"; a; b] ->
     let (h, s1) = shared_str [] (zlist_of_string a) in
     let (h, s2) = shared_str h (zlist_of_string b) in
     let d = string_cmp h s1 s2 in
     let ds = hex_of_z d in
     if ds = "0" then "0" else if String.length ds > 0 && ds.[0] = '-' then "-1" else "1"
  | ["smap"; bufsize; cs; delta] ->
     let (h, s) = shared_str [] (zlist_of_string cs) in
     let dz = z_of_hex delta in
     (match string_map (nat_s bufsize) h s (fun c -> Z.add c dz) with Ok b -> string_of_zlist b | Err e -> "ERR " ^ err_s e)
  | ["port"; kind; bufsize; bytes; sched; ops] ->
     let b = zlist_of_string bytes and sc = List.map (fun z -> nat_of_int (int_of_string ("0x" ^ z))) (if sched = "_" then [] else String.split_on_char ',' sched) in
     if kind = "F" then fport_ops (open_file_port (nat_of_int (match sc with [] -> 1000 | c :: _ -> int_of_nat c)) b) (String.split_on_char ',' ops)
     else
     let p = if kind = "s" then open_string_port b else open_fd_port (nat_s bufsize) b sc in
     port_ops p (String.split_on_char ',' ops)
  | ["wport"; bufsize; cs] -> wport bufsize cs
  | ["leaf"; "ibc"; b] -> hex_of_z (sexp_utf8_initial_byte_count (z_of_hex b))
  | ["leaf"; "cbc"; c] -> hex_of_z (sexp_utf8_char_byte_count (z_of_hex c))
  | ["leaf"; "enc"; c] -> string_of_zlist (encode (z_of_hex c))
  | ["leaf"; "dec"; b0; b1; b2; b3] ->
     (match decode_at [z_of_hex b0; z_of_hex b1; z_of_hex b2; z_of_hex b3] O (z_of_hex "4") with
      | Some c -> "OK " ^ hex_of_z c | None -> "ERR utf8")
  | ["leaf"; "dec"; b0; b1; b2; b3; size] ->   (* the string ends after [size] of the four bytes *)
     (match decode_at [z_of_hex b0; z_of_hex b1; z_of_hex b2; z_of_hex b3] O (z_of_hex size) with
      | Some c -> "OK " ^ hex_of_z c | None -> "ERR utf8")
  | ["len"; st; off; size] -> let (h, s) = mk st off size false in res_nat (string_length h s)
  | ["i2c"; st; off; size; i] -> let (h, s) = mk st off size false in res_nat (index_to_cursor h s (z_of_hex i))
  | ["c2i"; st; off; size; i] -> let (h, s) = mk st off size false in res_nat (cursor_to_index h s (z_of_hex i))
  | ["ref"; st; off; size; i] -> let (h, s) = mk st off size false in res_z (string_ref h s (z_of_hex i))
  | ["next"; st; off; size; i] -> let (h, s) = mk st off size false in "OK " ^ s_nat (cursor_next h s (nat_s i))
  | ["prev"; st; off; size; i] -> let (h, s) = mk st off size false in res_z (cursor_prev h s (nat_s i))
  | ["set"; st; off; size; cow; i; c] ->
     let (h, s) = mk st off size (cow = "1") in
     (match string_set h s (z_of_hex i) (z_of_hex c) with
      | Ok (h', s') -> Printf.sprintf "OK %s %s %s %s %s" (s_nat s'.sbytes) (s_nat s'.soff) (s_nat s'.ssize) (store_of h' 0) (store_of h' 1)
      | Err e -> "ERR " ^ err_s e)
  | ["sub"; st; off; size; a; b] ->
     let (h, s) = mk st off size false in
     (match substring h s (z_of_hex a) (if b = "_" then None else Some (z_of_hex b)) with
      | Ok (h', s') -> Printf.sprintf "OK %s %s" (s_nat s'.ssize) (store_of h' (int_of_nat s'.sbytes))
      | Err e -> "ERR " ^ err_s e)
  | ["cat"; st1; off1; size1; st2; off2; size2] ->
     let h = [zlist_of_string st1; zlist_of_string st2] in
     let s1 = { sbytes = O; soff = nat_s off1; ssize = nat_s size1; scow = false }
     and s2 = { sbytes = S O; soff = nat_s off2; ssize = nat_s size2; scow = false } in
     let (h', s') = string_append h [s1; s2] in
     Printf.sprintf "OK %s %s" (s_nat s'.ssize) (store_of h' (int_of_nat s'.sbytes))
  | "join" :: k :: sst :: soff :: ssz :: rest ->
     let sep_heap, sep = if sst = "#" then [], None
                         else [zlist_of_string sst], Some { sbytes = O; soff = nat_s soff; ssize = nat_s ssz; scow = false } in
     let rec go i acc_h acc_s = function
       | st :: off :: size :: tl ->
          go (i + 1) (zlist_of_string st :: acc_h)
            ({ sbytes = nat_of_int i; soff = nat_s off; ssize = nat_s size; scow = false } :: acc_s) tl
       | [] -> (List.rev acc_h, List.rev acc_s)
       | _ -> failwith "bad join" in
     let (hs, ss) = go (List.length sep_heap) [] [] rest in
     ignore k;
     let (h', s') = string_concatenate (sep_heap @ hs) ss sep in
     Printf.sprintf "OK %s %s" (s_nat s'.ssize) (store_of h' (int_of_nat s'.sbytes))
  | ["mk"; n; c] ->
     let (h', s') = make_string [] (nat_s n) (z_of_hex c) in
     Printf.sprintf "OK %s %s" (s_nat s'.ssize) (store_of h' (int_of_nat s'.sbytes))
  | "hist2" :: rest ->
     let txt = String.concat " " rest in
     hist2 (List.map parse_xop (List.filter (fun x -> String.trim x <> "") (String.split_on_char ';' txt)))
  (* ci <cs1> <cs2>: case-insensitive comparison (C12/CiModel.v) -> "<=?><<?><>?> <sign of the core string-cmp ci> <foldcase of cs1>" *)
  | ["ci"; a; b] ->
     let (h1, s1) = shared_str [] (zlist_of_string a) in
     let (h2, s2) = shared_str h1 (zlist_of_string b) in
     let sgn z = let t = hex_of_z z in if t = "0" then 0 else if t.[0] = '-' then -1 else 1 in
     let tf x = if x then "T" else "F" in
     let folded = string_foldcase_cps (zlist_of_string a) in
     (match string_ci_cmp_full (nat_s "3") h2 s1 s2, string_foldcase (nat_s "5") h2 s1 with
      | Ok z, Ok bytes when bytes = List.concat_map encode folded ->
         Printf.sprintf "%s%s%s %d %s" (tf (sgn z = 0)) (tf (sgn z < 0)) (tf (sgn z > 0)) (sgn (string_cmp_ci h2 s1 s2)) (string_of_zlist folded)
      | Ok _, Ok _ -> "DIFF string_foldcase bytes vs string_foldcase_cps"
      | _, _ -> "E")
  | ["fold"; c] -> string_of_zlist (fold_char (z_of_hex c)) ^ " " ^ hex_of_z (char_foldcase (z_of_hex c))
  | ["smapn"; bufsize; css] -> smapn bufsize (String.split_on_char ';' css)
  | "hist" :: rest ->
     let txt = String.concat " " rest in
     hist (List.map parse_op (List.filter (fun x -> String.trim x <> "") (String.split_on_char ';' txt)))
  | f -> "ERR unknown request " ^ String.concat " " f

let () = serve handle
