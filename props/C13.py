"""C13 — independent contexts are isolated and can run in parallel OS threads.   (PARTIAL: weakest proof share)
   (G)  gen/c13_statics.py: inventory of every writable object of every shared object of the hook-less build,
        with the functions that store to it / leak its address  ->  coq/Gen/C13_Statics.v
   (T)  coq/Properties_C13.v: generated obligation statics_all_classified (inventory covered by the reviewed
        allow-list coq/C13/Allowed.v) + noninterference / destroy_is_local / init_idempotent / commutation over the
        partition model coq/C13/Model.v
   (K)  harness/embed_c13.c: pthreads, 2-16 OS threads, each creating parent-less contexts, loading the standard
        environment and C-backed libraries, running differing workloads with collections, auditing the context's
        heaps for pointers that leave them, destroying the context; output per job == single-process baseline;
        sequential cross-context probes; the same under ThreadSanitizer as the failing-input search for races.
   (K inner, round 2) coq/C13/Res.v extracted (ocaml/C13_driver.ml) vs `embed_c13 ops`: process-wide OS resources (streams,
        descriptors, dlopen references) operation by operation; differential search per library (harness/scenarios_c13.py).
   (K inner, round 3) coq/C13/Sig.v (signal -> context table, delivery) and coq/C13/Tab.v (per-context heaps / type table / symbol
        table / globals / modules with the disjointness invariant) extracted, compared operation by operation with `embed_c13 ops`
        (ops raise / sigstate / tables / regtype / intern / define / lookup / find); oracle for tables = the context running alone."""
import os, re, subprocess, sys, json, shlex
from vlib import build as B

HERE = os.path.dirname(os.path.abspath(__file__))
HARNESS = os.path.join(HERE, "..", "harness", "embed_c13.c")
sys.path.insert(0, os.path.join(HERE, "..", "harness"))
import workloads_c13 as WL
import scenarios_c13 as SC
from gen import c13_statics, c13_imports

# hook-less ThreadSanitizer build: the verification hooks keep process-wide counters of their own (verif_alloc_no,
# verif_in_gc ...) which race by design; C13 is about the product code, so both of its builds are hook-less.
TSAN = "nohooks-tsan"
B.VARIANTS.setdefault(TSAN, dict(CPPFLAGS="", CC="clang", CFLAGS="-fsanitize=thread -fno-omit-frame-pointer -O1 -g",
                                 LDFLAGS="-fsanitize=thread"))


def _env(d, extra=None):
    e = B.chibi_env(d, extra)
    e.pop("CHIBI_VERIF_GC", None)
    return e


def _spec_text(works, threads):
    """works: {id: text}; threads: [(heapsize, jitter, [ids])]"""
    used = sorted({i for t in threads for i in t[2]})
    lines = ["W\t%d\t%s" % (i, works[i]) for i in used]
    lines += ["T\t%d\t%d\t%s" % (h, j, ",".join(map(str, ids))) for h, j, ids in threads]
    return "\n".join(lines) + "\n"


def _specdir():
    p = os.path.join(B.SCRATCH, "c13specs")
    os.makedirs(p, exist_ok=True)
    return p


def _run(emb, d, mode, spec_text, name, extra_args=(), timeout=900, tsan=False):
    path = os.path.join(_specdir(), name + ".spec")
    with open(path, "w") as fh:
        fh.write(spec_text)
    extra = {}
    if tsan:
        extra["TSAN_OPTIONS"] = "exitcode=0 halt_on_error=0 second_deadlock_stack=1 history_size=4"
    cmd = [emb, mode, path] + list(extra_args)
    rc, out, err = _run_group(cmd, _env(d, extra), timeout)
    replay = "CHIBI_IGNORE_SYSTEM_PATH=1 CHIBI_MODULE_PATH=%s/lib LD_LIBRARY_PATH=%s %s" % (d, d, " ".join(shlex.quote(c) for c in cmd))
    return rc, out, err, replay


def _run_group(cmd, env, timeout, stdin=None):
    """run cmd in a process group of its own; on exit or timeout kill whatever is left of the group (exports such as
    process->string fork children that outlive the harness process and keep forking: round-4 observation)"""
    import signal
    p = subprocess.Popen(cmd, stdout=subprocess.PIPE, stderr=subprocess.PIPE, stdin=stdin, env=env, start_new_session=True)
    try:
        out, err = p.communicate(timeout=timeout)
        rc = p.returncode
    except subprocess.TimeoutExpired:
        try:
            os.killpg(p.pid, signal.SIGKILL)
        except OSError:
            pass
        out, err = p.communicate()
        rc, err = "timeout", err + ("timeout after %ds" % timeout).encode()
    try:
        os.killpg(p.pid, signal.SIGKILL)      # stragglers of this run only (the group id is the pid of our own child)
    except OSError:
        pass
    return rc, out.decode("utf8", "replace"), err.decode("utf8", "replace")


def _parse_R(out):
    res = {}
    for line in out.split("\n"):
        if line.startswith("R "):
            f = line.split(" ", 6)
            if len(f) == 7:
                res[(int(f[1]), int(f[2]))] = (int(f[3]), f[4], f[5], f[6])
    return res


def _tsan_reports(err):
    """-> list of dict(kind, func, location, text)"""
    reps = []
    for block in err.split("=================="):
        m = re.search(r"WARNING: ThreadSanitizer: ([^\n(]+)", block)
        if not m:
            continue
        kind = m.group(1).strip()
        funcs = re.findall(r"#0 (\S+) ", block)
        # first frame that is chibi code rather than an interceptor
        frames = re.findall(r"#\d+ (\S+) (\S+)", block)
        func = next((f for f, where in frames if ("chibi" in where or "/lib/" in where or ".c:" in where) and "embed_c13.c" not in where), funcs[0] if funcs else "?")
        loc = re.search(r"Location is ([^\n]+)", block)
        locs = re.sub(r"0x[0-9a-f]+", "", loc.group(1)).strip() if loc else ""
        locs = re.sub(r"\s*\(.*$", "", locs)
        reps.append(dict(kind=kind, func=func, location=locs, text=block.strip()[:3000]))
    return reps


# ------------------------------------------------------------------ diagnostic replica of the Coq check

def _parse_allow():
    txt = open(os.path.join(HERE, "..", "coq", "C13", "Allowed.v")).read()
    txt = re.sub(r"\(\*.*?\*\)", "", txt, flags=re.S)
    ents = []
    lst = r"\[((?:\s*\"[^\"]*\"\s*;?)*)\s*\]"
    for m in re.finditer(r"mk_allow\s+(core|\"[^\"]*\")\s+\"([^\"]*)\"\s+(true|false)\s+(\w+)\s+(\d+)\s+" + lst + r"\s+" + lst, txt):
        lib = "libchibi-scheme.so" if m.group(1) == "core" else m.group(1).strip('"')
        ents.append(dict(lib=lib, name=m.group(2), prefix=m.group(3) == "true", cls=m.group(4), maxsize=int(m.group(5)),
                         writers=re.findall(r'"([^"]*)"', m.group(6)), addr=re.findall(r'"([^"]*)"', m.group(7))))
    return ents


def _diagnose(table):
    """which statics of the inventory the allow-list does not cover, and why (mirror of Defs.check_static)"""
    ents, probs = _parse_allow(), []
    for s in table:
        a = next((e for e in ents if (e["lib"] == "" or e["lib"] == s["lib"]) and
                  (s["name"].startswith(e["name"]) if e["prefix"] else s["name"] == e["name"])), None)
        where = "%s:%s (%s, %d bytes)" % (s["lib"], s["name"], s["sec"], s["size"])
        if a is None:
            probs.append(dict(static=where, problem="new process-wide writable object, not on the allow-list", writers=s["writers"], addr=s["addr"]))
            continue
        if a["maxsize"] and s["size"] > a["maxsize"]:
            probs.append(dict(static=where, problem="larger than reviewed (%d)" % a["maxsize"]))
        nw = [w for w in s["writers"] if w not in a["writers"]]
        na = [w for w in s["addr"] if w not in a["addr"]]
        if nw or (a["cls"] == "Immutable" and s["writers"]):
            probs.append(dict(static=where, problem="written by function(s) the allow-list does not name (class %s)" % a["cls"], new_writers=nw or s["writers"]))
        if na:
            probs.append(dict(static=where, problem="address escapes through function(s) the allow-list does not name", new_address_takers=na))
    return probs



# ------------------------------------------------------------------ round 2: scripted scenarios (embed_c13 ops)

def _ops(emb, d, script, name, timeout=120, tsan=False):
    path = os.path.join(_specdir(), name + ".ops")
    with open(path, "w") as fh:
        fh.write(script)
    cmd = [emb, "ops", path, os.path.join(_specdir(), name + ".cap")]
    rc, out, err = _run_group(cmd, _env(d), timeout, stdin=subprocess.DEVNULL)
    replay = "CHIBI_IGNORE_SYSTEM_PATH=1 CHIBI_MODULE_PATH=%s/lib LD_LIBRARY_PATH=%s %s </dev/null" % (d, d, " ".join(shlex.quote(c) for c in cmd))
    return rc, out, err, replay


def _resources(ctx, emb, d, exe):
    """(A) process-wide OS resources: extracted model coq/C13/Res.v vs the implementation, operation by operation"""
    rng = ctx.rng
    tmp = os.path.join(_specdir(), "files")
    os.makedirs(tmp, exist_ok=True)
    plans = [(3, 30), (4, 45), (5, 60), (3, 40), (6, 70)] if not ctx.thorough else [(rng.randrange(2, 9), rng.randrange(30, 140)) for _ in range(40)]
    nl = len(SC.RES_LIBS)
    for n, (nctx, nops) in enumerate(plans):
        ops, script, meta = SC.resources(rng, tmp, nctx, nops, "r%d" % n)
        lines = ctx.run_model(exe, ["rtrace 0 %d %s" % (nl, ";".join(ops)), "rtrace 1 %d %s" % (nl, ";".join(ops))])
        traces = []
        for ln in lines[:2]:
            tr = []
            for item in ln.split(";"):
                a, b, c = item.split("/")
                tr.append((a == "1", [int(x) for x in b.split(",") if x], [int(x) for x in c.split(",") if x]))
            traces.append(tr)
        if len(traces) != 2 or len(traces[1]) != len(ops):
            ctx.broken("resource-model:driver", "model driver answered %r" % lines[:2])
            return
        rc, out, err, rp = _ops(emb, d, script, "res%d" % n)
        probs = SC.judge_resources(traces[1], meta, out, nl)
        if rc != 0 and not any(p["sig"] == "crash:ops" for p in probs):
            probs.append(dict(kind="violation", sig="crash:ops", at=len(meta), detail="rc=%s %s" % (rc, err[-300:])))
        stays = sum(1 for p in probs if p["kind"] == "note")
        for p in probs:
            hist = " ; ".join(m["op"] for m in meta[:p["at"] + 1])
            if p["kind"] == "violation":
                ctx.violation(p["sig"], input="operations (model syntax, coq/C13/Res.v): " + hist, expected="the trace of the extracted model",
                              observed=p["detail"], replay=rp, script=script)
            elif p["kind"] == "broken":
                ctx.broken(p["sig"], p["detail"] + " | operations: " + hist, replay=rp, script=script)
        for m in meta:
            ctx.count(1, key=("res", n, m["op"], m["first_line"]), nontrivial=True)
            if not any(p["kind"] != "note" for p in probs):
                ctx.cov["traces_validated_against_impl"] += 1
        if n == 0:
            ctx.sample(dict(kind="resources", operations=";".join(ops)[:300], model_trace_tail=lines[1][-160:], libraries_never_unmapped=bool(stays)))
    ctx.note("resource scenarios: %d (contexts created as doc/chibi.scrbl shows: standard ports with no_close=1, and with 0 on private dup'ed descriptors); "
             "every operation compared with the extracted model (success, /proc/self/fd, /proc/self/maps, bytes that reached descriptors 1/2)" % len(plans))



def _signals(ctx, emb, d, exe):
    """(C, round 3) signal delivery: extracted model coq/C13/Sig.v vs the implementation, operation by operation"""
    rng = ctx.rng
    plans = [(3, 50), (4, 70), (3, 60), (5, 90)] if not ctx.thorough else [(rng.randrange(2, 6), rng.randrange(30, 200)) for _ in range(30)]
    for n, (nctx, nops) in enumerate(plans):
        ops, script, meta = SC.signals(rng, nctx, nops)
        lines = ctx.run_model(exe, ["strace %d %s" % (nctx + 2, ";".join(ops))])
        items = lines[0].split(";") if lines else []
        if len(items) != len(ops):
            ctx.broken("signal-model:driver", "model driver answered %r" % lines[:1])
            return
        rc, out, err, rp = _ops(emb, d, script, "sig%d" % n)
        probs = SC.judge_signals(items, meta, out)
        if rc != 0 and not any(p["sig"] in ("crash:ops", "signal:crash-on-delivery") for p in probs):
            probs.append(dict(kind="violation", sig="crash:ops", at=len(meta) - 1, detail="rc=%s %s" % (rc, err[-300:])))
        for p in probs[:6]:
            hist = " ; ".join(m["op"] for m in meta[:p["at"] + 1])
            if p["kind"] == "violation":
                ctx.violation(p["sig"], input="operations (model syntax, coq/C13/Sig.v: n new, h install handler, g ignore, r raise, u run, x destroy): " + hist,
                              expected="the trace of the extracted model", observed=p["detail"], replay=rp, script=script)
            else:
                ctx.broken(p["sig"], p["detail"] + " | operations: " + hist, replay=rp, script=script)
        for m in meta:
            ctx.count(1, key=("sig", n, m["op"], m["first_line"]), nontrivial=True)
            if not probs:
                ctx.cov["traces_validated_against_impl"] += 1
        if n == 0:
            ctx.sample(dict(kind="signals", operations=";".join(ops)[:300], model_trace_tail=lines[0][-160:]))
    ctx.note("signal scenarios: %d (2-5 parent-less contexts install Scheme handlers for signals, kill(getpid(), s), contexts run their schedulers; after every "
             "operation the pending mask and the handler log of EVERY live context are compared with the extracted model)" % len(plans))


def _tables(ctx, emb, d, exe):
    """(D, round 3) per-context tables: extracted model coq/C13/Tab.v vs the implementation, operation by operation"""
    rng = ctx.rng
    plans = [(3, 70), (4, 110)] if not ctx.thorough else [(rng.randrange(2, 7), rng.randrange(40, 260)) for _ in range(25)]

    def run_model(ncore, nids, mops):
        lines = ctx.run_model(exe, ["ttrace %d %d %s" % (ncore, nids, ";".join(mops))])
        return lines[0].split(";") if lines and not lines[0].startswith("ERR") else lines[:1]
    for n, (nctx, nops) in enumerate(plans):
        plan = SC.tables_plan(rng, nctx, nops)
        script, info = SC.tables_script(plan)
        rc, out, err, rp = _ops(emb, d, script, "tab%d" % n)
        alone = {}
        for i in sorted({p["ctx"] for p in plan}):
            sc_i, info_i = SC.tables_script(plan, only=i)
            rci, outi, erri, rpi = _ops(emb, d, sc_i, "tab%d-alone%d" % (n, i))
            alone[i] = (outi, info_i)
        probs = SC.judge_tables(plan, out, info, alone, run_model)
        if rc != 0 and not any(p["sig"] == "crash:ops" for p in probs):
            probs.append(dict(kind="violation", sig="crash:ops", at=len(plan) - 1, detail="rc=%s %s" % (rc, err[-300:])))
        for p in probs[:6]:
            hist = " ; ".join("%s:c%d%s" % (q["kind"], q["ctx"], "".join(":%s" % q[f] for f in ("key", "parent", "name", "value", "lib") if f in q)) for q in plan[:p["at"] + 1])
            if p["kind"] == "violation":
                ctx.violation(p["sig"], input="table operations of %d parent-less contexts: %s" % (len({q["ctx"] for q in plan}), hist[-1500:]),
                              expected="what the context shows when it runs the same operations alone (and the extracted model coq/C13/Tab.v)", observed=p["detail"], replay=rp, script=script)
            else:
                ctx.broken(p["sig"], p["detail"] + " | operations: " + hist[-800:], replay=rp, script=script)
        for k, q in enumerate(plan):
            ctx.count(1, key=("tab", n, k, q["kind"], q["ctx"]), nontrivial=True)
            if not probs:
                ctx.cov["traces_validated_against_impl"] += 1
        if n == 0:
            ctx.sample(dict(kind="tables", contexts=len(alone), operations=len(plan), first=[(q["kind"], q["ctx"]) for q in plan[:12]]))
    ctx.note("table scenarios: %d (interleaved type registrations with parents incl. bursts across the type-array doubling, symbol interning, global definitions, "
             "library imports, collections, destroys of 2-6 contexts; after every operation every live context's type-table length, type-array length, "
             "symbol-table occupancy, module count, table identities, heap regions and a pointer audit of its tables are dumped and compared with the "
             "extracted model and with the same context running alone)" % len(plans))


_SO_LIBS = None
# libraries the always-on sample of the differential search leaves out (terminals, sockets, processes, other platforms,
# compiler internals); a library whose static breaks the inventory obligation is searched regardless
DIFF_SKIP = re.compile(r"net|pty|stty|process|emscripten|win32|heap-stats|optimize|disasm|profile|system|filesystem|\(chibi io\)|\(chibi ast\)|weak|json|crypto|srfi 18\)|srfi 39")


def _so_libs(d):
    """{shared object relative to the build: [library names that include-shared it]}"""
    global _SO_LIBS
    if _SO_LIBS is None:
        m = {}
        for dp, dn, fn in os.walk(os.path.join(d, "lib")):
            for f in fn:
                if not f.endswith(".sld"):
                    continue
                p = os.path.join(dp, f)
                txt = open(p, errors="replace").read()
                for so in re.findall(r'\(include-shared\s+"([^"]+)"', txt):
                    rel = os.path.relpath(os.path.join(dp, so + ".so"), d)
                    name = "(" + " ".join(os.path.relpath(p, os.path.join(d, "lib"))[:-4].split(os.sep)) + ")"
                    m.setdefault(rel, []).append(name)
        _SO_LIBS = m
    return _SO_LIBS


def _exports(d, libs):
    """{library: [exported names bound to procedures]} (asked of the module system in a scout process)"""
    prog = ("(import (scheme base) (scheme write) (scheme eval) (only (meta) module-exports load-module))\n"
            "(for-each (lambda (l) (guard (e (#t (write (list l 'unavailable)) (newline)))\n"
            "  (let* ((ex (module-exports (load-module l))) (env (environment l)))\n"
            "    (write (cons l (let lp ((ls ex) (acc '())) (if (null? ls) (reverse acc)\n"
            "       (let ((name (if (pair? (car ls)) (cdr (car ls)) (car ls))))\n"
            "         (lp (cdr ls) (if (guard (e (#t #f)) (procedure? (eval name env))) (cons name acc) acc)))))))\n"
            "    (newline)))) '(%s))\n" % " ".join(libs))
    path = os.path.join(_specdir(), "scout.scm")
    open(path, "w").write(prog)
    out = {}
    try:
        r = B.run_chibi(d, [path], timeout=120)
    except subprocess.TimeoutExpired:
        return out
    for line in r.stdout.split("\n"):
        m = re.match(r"\((\([^)]*\))\s*(.*)\)$", line.strip())
        if m and "unavailable" not in m.group(2):
            out[m.group(1)] = m.group(2).split()
    return out


def _diffsearch(ctx, emb, d, libs, why, embt=None, dt=None):
    """(B) two parent-less contexts with different prior state import the library and call its exports; every
    difference from the single-context baselines is a concrete failing program"""
    rng = ctx.rng
    ex = _exports(d, libs)
    found = 0
    for lib in libs:
        names = [n for n in ex.get(lib, []) if not SC.DENY.search(n)]
        if not names:
            ctx.note("diffsearch %s: no callable exports (%s)" % (lib, "unavailable" if lib not in ex else "all filtered"))
            continue
        if len(names) > 40:
            names = sorted(rng.sample(names, 40))
        ka, kb = rng.choice([(0, 3), (0, 5), (2, 0), (1, 4)])
        sa, sb = rng.choice([(0, 40), (25, 0), (3, 300)])
        tag = re.sub(r"\W+", "-", lib).strip("-")
        for pool in (None, SC.POOL_MILD):
            two, pos_two, singA, posA, singB, posB = SC.diff_scripts(lib, names, ka, kb, sa, sb, pool)
            runs = {"a1": _ops(emb, d, singA, "diff-%s-a1" % tag, timeout=30)}     # normally 1-3 s
            if runs["a1"][0] == 0:
                break
            ctx.note("diffsearch %s: the single-context baseline itself dies (rc %s) when its exports get the %s argument pool" % (lib, runs["a1"][0], "mild" if pool else "full"))
            if runs["a1"][0] == "timeout":
                break              # an export that blocks in a single context blocks with the mild pool too
        if runs["a1"][0] != 0:
            continue
        import time as _t
        t0 = _t.time()
        for nm, sc in (("b1", singB), ("two", two)):
            runs[nm] = _ops(emb, d, sc, "diff-%s-%s" % (tag, nm), timeout=90)
        _t.sleep(max(0.0, 1.2 - (_t.time() - t0)))      # clock-seeded results (srfi 27) must differ between the two baselines
        runs["a2"] = _ops(emb, d, singA, "diff-%s-a2" % tag, timeout=90)
        if any(runs[k][0] != 0 for k in ("a1", "a2", "b1")):
            ctx.note("diffsearch %s: single-context baseline does not complete (rc %s); skipped" % (lib, [runs[k][0] for k in ("a1", "a2", "b1")]))
            continue

        def results(run, positions):
            O, C, ended = SC.parse_ops_output(run[1])
            return [SC.split_results(O.get(p, ("", "", ""))[2]) for p in positions], O
        a1, _ = results(runs["a1"], posA)
        a2, _ = results(runs["a2"], posA)
        b1, _ = results(runs["b1"], posB)
        unstable = {(ph, x[0]) for ph, (r1, r2) in enumerate(zip(a1, a2)) for x, y in zip(r1, r2) if x != y}
        unstable_names = {n for _, n in unstable}
        rc, out, err, rp = runs["two"]
        tA, O2 = results(runs["two"], pos_two["A"])
        tB, _ = results(runs["two"], pos_two["B"])
        ncall = 0
        diffs = []
        if rc != 0:
            done = max(O2) if O2 else 0
            sl = two.split("\n")
            diffs.append(("crash", "the script completes (each of the two programs completes in a context of its own)",
                          "rc=%s; the process died in script line %d: %s | last completed: %s | %s" %
                          (rc, done + 1, sl[done][:160] if done < len(sl) else "?", sl[done - 1][:100] if done else "-", err[-200:]), ""))
        for who, base, got in (("A", a1, tA), ("B", b1, tB)):
            for ph, (rb, rg) in enumerate(zip(base, got)):
                if len(rb) != len(rg) and rc == 0:
                    diffs.append(("%s phase %d" % (who, ph + 1), "number of results", len(rb), len(rg)))
                    continue
                for x, y in zip(rb, rg):
                    ncall += 1
                    kind_differs = x[1] != y[1] or (x[1] == "ERR" and x[2] != y[2])
                    if x[0] == y[0] and (kind_differs or (x[2] != y[2] and x[0] not in unstable_names)):
                        if kind_differs and x[0] in unstable_names and x[1] != "ERR" and y[1] != "ERR":
                            continue
                        diffs.append(("%s phase %d %s" % (who, ph + 1, x[0]), "%s|%s" % x[1:], "%s|%s" % y[1:], kind_differs))
        for ln in pos_two["audits"]:
            if O2.get(ln, ("", "", "ok"))[2] != "ok":
                diffs.append(("heap audit line %d" % ln, "ok", O2[ln][2], True))
        ctx.count(ncall, key=("diffsearch", lib, ka, kb, sa, sb), nontrivial=True)
        hard = [x for x in diffs if x[0] == "crash" or x[3] is True or x[1] == "number of results"]
        soft = [x for x in diffs if x not in hard]
        if soft and not hard:
            # value-only differences: confirm by running the two-context script again (clock / entropy dependent values)
            rc2, out2, _, _ = _ops(emb, d, two, "diff-%s-two2" % tag, timeout=90)
            O3, _, _ = SC.parse_ops_output(out2)
            again = {(w, i): SC.split_results(O3.get(p, ("", "", ""))[2]) for w in ("A", "B") for i, p in enumerate(pos_two[w])}
            first = {(w, i): r for w, got in (("A", tA), ("B", tB)) for i, r in enumerate(got)}
            soft = [x for x in soft if all(dict((c[0], c) for c in again.get(k, [])).get(x[0].split(" ")[-1]) == dict((c[0], c) for c in first[k]).get(x[0].split(" ")[-1])
                                           for k in first if ("%s phase %d" % (k[0], k[1] + 1)) in x[0])]
        for x in (hard + soft)[:6]:
            found += 1
            call = x[0].split(" ")[-1]
            ctx.violation("diffsearch:%s:%s" % (lib, re.sub(r"[#@].*$", "", call)), input="two parent-less contexts, A after %d record types / %d symbols, B after %d / %d, both (import %s); then %s" % (ka, sa, kb, sb, lib, x[0]),
                          expected="as in a single context: %s" % (x[1],), observed=str(x[2])[:400], reason=why, replay=rp, script=two)
        if not diffs:
            ctx.cov["traces_validated_against_impl"] += 1
        # concurrently: the same two programs on 4 OS threads (and under ThreadSanitizer when asked)
        wa = " ".join([SC.shift_text(ka, sa), SC.HELPERS, "(import %s)" % lib, SC.use_text(names, 1, pool)])
        wb = " ".join([SC.shift_text(kb, sb), SC.HELPERS, "(import %s)" % lib, SC.use_text(names, 1, pool)])
        works = {0: wa, 1: wb}
        th = [(0, 0, [0, 1]), (0, 200, [1, 0]), (1 << 20, 0, [0, 0]), (0, 0, [1, 1])]
        spec = _spec_text(works, th)
        for label, e_, d_, ts in (("concurrent", emb, d, False),) + ((("concurrent-tsan", embt, dt, True),) if embt else ()):
            rc, out, err, rp = _run(e_, d_, "run", spec, "diffc-%s-%s" % (tag, label), timeout=200, tsan=ts)
            R = _parse_R(out)
            if rc != 0:
                ctx.violation("diffsearch:%s:%s:crash" % (lib, label), input=spec[:2000], expected="exit 0", observed="rc=%s %s" % (rc, err[-400:]), reason=why, replay=rp, spec=spec)
                continue
            for t, (h, j, ids) in enumerate(th):
                for k, i in enumerate(ids):
                    got = SC.split_results(R.get((t, k), (0, "", "", ""))[3])
                    base = (a1 if i == 0 else b1)[0]
                    ctx.count(1, key=("diffsearch", label, lib, t, k), nontrivial=True)
                    bad = [(x, y) for x, y in zip(base, got) if x[0] == y[0] and (x[1] != y[1] or (x[1] == "ERR" and x[2] != y[2])) and
                           not (x[0] in unstable_names and x[1] != "ERR" and y[1] != "ERR")]
                    if len(got) != len(base):
                        bad.append((("results", len(base), ""), ("results", len(got), "")))
                    if R.get((t, k), (0, "ok"))[1] != "ok":
                        bad.append((("heap-audit", "ok", ""), ("heap-audit", R[(t, k)][1], "")))
                    for x, y in bad[:2]:
                        found += 1
                        ctx.violation("diffsearch:%s:%s:%s" % (lib, label, re.sub(r"[#@].*$", "", x[0])), input="4 OS threads, contexts with different prior state, all (import %s); call %s" % (lib, x[0]),
                                      expected="%s|%s" % x[1:], observed="%s|%s" % y[1:], reason=why, replay=rp, spec=spec)
            if ts:
                for rep in _tsan_reports(err):
                    found += 1
                    ctx.violation("tsan:%s:%s" % (rep["kind"].replace(" ", "-"), rep["func"]), input=spec[:2000], expected="no report from ThreadSanitizer",
                                  observed=rep["text"], location=rep["location"], reason=why, replay=rp + "   # TSAN build", spec=spec)
    return found



# ------------------------------------------------------------------ round 4: libc imports, creation sites, library-call stream

def _parse_libc_allow():
    base = os.path.join(HERE, "..", "coq", "C13")
    strip = lambda t: re.sub(r"\(\*.*?\*\)", "", t, flags=re.S)
    lst = r"\[((?:\s*\"[^\"]*\"\s*;?)*)\s*\]"
    al = strip(open(os.path.join(base, "AllowedLibc.v")).read())
    tb = strip(open(os.path.join(base, "Libc.v")).read())
    unsafe = {m.group(1): m.group(2) for m in re.finditer(r'mk_unsafe\s+"([^"]+)"\s+\w+\s+\w+\s+"([^"]*)"', tb)}
    ia = {}
    for m in re.finditer(r'mk_iallow\s+(core|"[^"]*")\s+"([^"]*)"\s+' + lst, al):
        lib = "libchibi-scheme.so" if m.group(1) == "core" else m.group(1).strip('"')
        ia[(lib, m.group(2))] = re.findall(r'"([^"]*)"', m.group(3))
    sa = {(m.group(1), m.group(2), m.group(3)) for m in re.finditer(r'mk_sallow\s+"([^"]*)"\s+"([^"]*)"\s+"([^"]*)"', al)}
    return unsafe, ia, sa


def _diagnose_libc(imps, sts):
    """which imports / creation sites the reviewed lists do not cover (mirror of Libc.check_import / check_site; the Coq
    obligations are the authority, this names the culprit)"""
    unsafe, ia, sa = _parse_libc_allow()
    probs = []
    for r in imps:
        if r["sym"] not in unsafe:
            continue
        where = "%s imports %s [%s]" % (r["lib"], r["sym"], unsafe[r["sym"]])
        a = ia.get((r["lib"], r["sym"]))
        if a is None:
            probs.append(dict(kind="import", lib=r["lib"], sym=r["sym"], callers=r["callers"],
                              problem=where + ", called by %s: not on the reviewed list of this shared object" % r["callers"]))
        elif [c for c in r["callers"] if c not in a] or not r["callers"]:
            probs.append(dict(kind="import", lib=r["lib"], sym=r["sym"], callers=r["callers"],
                              problem=where + ": referenced by function(s) the reviewed entry does not name: %s" % [c for c in r["callers"] if c not in a]))
    for t in sts:
        key = (t["file"], t["form"], t["kind"])
        if t["kind"] == "open-flags":
            if "open/exclusive" in t["flags"]:
                continue
            if t["generated"]:
                probs.append(dict(kind="site", file=t["file"], form=t["form"], problem="%s (%s): a file whose name is derived from process id / clock is created with flags %s, "
                                  "without open/exclusive: two contexts of one process derive the same name and share the file" % (t["file"], t["form"], t["flags"])))
            elif key not in sa:
                probs.append(dict(kind="site", file=t["file"], form=t["form"], problem="%s (%s): new non-exclusive creation site, flags %s" % (t["file"], t["form"], t["flags"])))
        elif key not in sa:
            probs.append(dict(kind="site", file=t["file"], form=t["form"], problem="%s (%s): %s on a generated name, not reviewed" % (t["file"], t["form"], t["kind"])))
    return probs


# shared object -> library-call template that exercises it (a suspect import there triples that template's volume)
LC_FOR_SO = {"lib/chibi/time.so": "libc-time", "lib/scheme/time.so": "libc-time", "lib/chibi/system.so": "libc-system",
             "lib/chibi/filesystem.so": "libc-filesystem", "lib/chibi/ast.so": "libc-errno-math-env", "lib/srfi/144/math.so": "libc-errno-math-env",
             "lib/srfi/98/env.so": "libc-errno-math-env"}


def _lc_sig(name, expected, observed):
    if name != "ns-temp-file":
        return "libcall:%s:foreign-result" % name
    m = re.search(r"temp-dirs \((.*)\)\)$", observed)
    if re.search(r"read-back-at-(once|end) \([^)]", observed):
        return "namespace:temp-file:foreign-data"
    if "scratch-files ((raised" in observed:
        return "namespace:temp-file:raised"
    if m and m.group(1):
        return "namespace:temp-dir:raised"
    return "namespace:temp-file:result-differs"


def _libcalls(ctx, emb, d, boost):
    """(E, round 4) the same library call with context-specific arguments on N OS threads (loops started together by the
    harness's (c13-barrier)); each context's result == the result of the same program alone in its own process"""
    import pwd, grp
    from concurrent.futures import ThreadPoolExecutor
    rng = ctx.rng
    base = os.path.join(_specdir(), "lcdirs")
    dirs = []
    for k in range(16):
        p = os.path.join(base, "d%02d" % k)
        os.makedirs(p, exist_ok=True)
        dirs.append(p)
        for j in range(8 + 2 * k):
            fp = os.path.join(p, "ctx%02d-file%02d" % (k, j))
            if not os.path.exists(fp):
                open(fp, "w").write("x" * (k * 100 + j))
    uids = sorted({p.pw_uid for p in pwd.getpwall()}) or [0]
    gids = sorted({g.gr_gid for g in grp.getgrall()}) or [0]
    env = dict(uids=uids, gids=gids, dirs=dirs, token="c13-%06d" % rng.randrange(10 ** 6))
    total = 0
    for tmpl in WL.LIBCALLS:
        T = (6 if tmpl in (WL.lc_time, WL.lc_tempfile) else 4) if not ctx.thorough else rng.choice([8, 12, 16])
        reps = 2 if not ctx.thorough else 3
        probe_name = tmpl(__import__("random").Random(0), 0, 1, env)[0]
        scale = (1 if not ctx.thorough else 3) * (3 if probe_name in boost else 1)
        if probe_name in boost:
            reps += 2
        env["threads"] = T
        wl = WL.make_libcalls(rng, tmpl, T, scale, env)
        name = wl[0][0]
        works = {i: t for i, (n, t) in enumerate(wl)}
        with ThreadPoolExecutor(4) as ex:
            futs = {i: ex.submit(_run, emb, d, "run", _spec_text(works, [(0, 0, [i])]), "lc-%s-base%d" % (name, i), (), 120) for i in works}
        alone = {}
        for i in works:
            rc, out, err, rp = futs[i].result()
            R = _parse_R(out)
            if rc != 0 or (0, 0) not in R or R[(0, 0)][3].startswith("ERR:"):
                ctx.broken("baseline:" + name, "library-call workload does not run alone: rc=%s %s %s" % (rc, R.get((0, 0), ("", "", "", ""))[3][:200], err[-200:]), replay=rp)
                continue
            alone[i] = R[(0, 0)][3]
        if len(alone) < len(works):
            continue
        if name == "ns-temp-file" and any("(raised" in v or "#f" in v for v in alone.values()):
            ctx.broken("baseline:" + name, "temp-file workload fails alone: %s" % list(alone.values())[:1])
            continue
        th = [(rng.choice([0, 0, 1 << 20]), 0, [i]) for i in works]
        spec = _spec_text(works, th)
        failed = False
        for rep in range(reps):
            rc, out, err, rp = _run(emb, d, "run", spec, "lc-%s-conc%d" % (name, rep), timeout=180 if not ctx.thorough else 600)
            R = _parse_R(out)
            if rc != 0:
                ctx.violation("%s:libcall:%s" % ("hang" if rc == "timeout" else "crash", name), input=spec[:3000], expected="exit 0", observed="rc=%s %s" % (rc, err[-400:]), replay=rp, spec=spec)
                failed = True
                break
            for t, i in enumerate(works):
                got = R.get((t, 0), (0, "missing", "", "MISSING"))
                ctx.count(1, key=("libcall", name, rep, works[i]), nontrivial=True)
                total += 1
                if got[1] != "ok":
                    ctx.violation("heap-not-closed:libcall:%s" % name, input=works[i], expected="ok", observed=got[1], threads=T, replay=rp, spec=spec)
                    failed = True
                if got[3] != alone[i]:
                    ctx.violation(_lc_sig(name, alone[i], got[3]), input="%d OS threads, one parent-less context each, same library calls with context-specific arguments; context %d evaluates: %s" % (T, t, works[i][:1500]),
                                  expected="as alone in its own process: " + alone[i][:700], observed=got[3][:900], threads=T, thread=t, replay=rp, spec=spec)
                    failed = True
                else:
                    ctx.cov["traces_validated_against_impl"] += 1
            if failed:
                break
        if name == "ns-temp-file":
            import glob, shutil
            for f in glob.glob("/tmp/%s*" % env["token"]):      # files a failed / killed run left behind
                try:
                    shutil.rmtree(f) if os.path.isdir(f) and not os.path.islink(f) else os.unlink(f)
                except OSError:
                    pass
        if tmpl is WL.LIBCALLS[0]:
            ctx.sample(dict(kind="libcall", template=name, threads=T, workload=works[0][:400], alone_result=alone[0][:300]))
    ctx.note("library-call stream: %d context runs (templates %s; N OS threads start their loops together; per argument the list of DISTINCT results must equal "
             "the single-process result; temp files / temp dirs from ONE template shared by all contexts must read back their owner's data)" % (total, [t.__name__ for t in WL.LIBCALLS]))



def _nsprobe(ctx, d):
    """(F, round 4) deterministic lost-creation-race probe (harness/ns_probe_c13.scm) in a single context"""
    tdir = os.path.join(_specdir(), "nstargets")
    os.makedirs(tdir, exist_ok=True)
    src = open(os.path.join(HERE, "..", "harness", "ns_probe_c13.scm")).read()
    path = os.path.join(_specdir(), "ns_probe.scm")
    open(path, "w").write(src.replace("TOKEN", "%06d" % ctx.rng.randrange(10 ** 6)).replace("TARGETDIR", tdir))
    rp = "CHIBI_IGNORE_SYSTEM_PATH=1 CHIBI_MODULE_PATH=%s/lib LD_LIBRARY_PATH=%s %s/chibi-scheme %s" % (d, d, d, path)
    try:
        r = B.run_chibi(d, [path], timeout=120)
        out, rc = r.stdout.strip(), r.returncode
    except subprocess.TimeoutExpired:
        out, rc = "", "timeout"
    want = "(temp-file (fresh-name #t) foreign-targets-created 0 temp-dir (fresh-name #t) foreign-targets-created 0)"
    ctx.count(2, key=("nsprobe", "dangling-link-at-first-candidate"), nontrivial=True)
    if out == want:
        ctx.cov["traces_validated_against_impl"] += 2
        return
    m = re.match(r"\(temp-file (\(.*?\)) foreign-targets-created (\d+) temp-dir (\(.*?\)) foreign-targets-created (\d+)\)$", out)
    if not m:
        ctx.broken("nsprobe", "probe program did not complete: rc=%s %s" % (rc, out[-300:]), replay=rp)
        return
    for what, res, nt in (("temp-file", m.group(1), m.group(2)), ("temp-dir", m.group(3), m.group(4))):
        if res == "(fresh-name #t)" and nt == "0":
            continue
        sig = "namespace:%s:%s" % (what, "raised-on-lost-race" if res.startswith("(raised") else "created-through-foreign-name")
        ctx.violation(sig, input="call-with-%s while the first candidate name /tmp/<template>-<pid>-<second>-0 is a dangling symbolic link (= the view of a context that lost the creation race: "
                      "stat says absent, atomic creation says EEXIST)" % what, expected="(fresh-name #t), no file created at the link's target (coq/C13/Ns.v: Opening i fails -> Testing (i+1))",
                      observed="%s, %s file(s) created at link targets" % (res, nt), replay=rp, script=open(path).read())


# ------------------------------------------------------------------ the check

def run(ctx):
    rng = ctx.rng
    ctx.cov["rule"] = ("a case = one parent-less context created on an OS thread, standard environment + libraries loaded, one workload "
                       "evaluated (13 templates: srfi 69 / 151 / 95 / 18 / 144 / 160, (chibi io string ast process time system filesystem), "
                       "bignums, symbols+records, GC churn, continuations, eval/environments; parameters drawn per run), collected, heap-audited, "
                       "destroyed, and compared with the same workload run alone in its own process; distinct by (mode, thread count, "
                       "position, workload text); non-trivial when at least one other context was alive in the process (sequential "
                       "predecessor or concurrent thread); plus the cross-context probes, one case each; plus (round 2) resource scenarios: "
                       "one case per operation of a random interleaving of creations (plain / documented standard ports / private dup'ed "
                       "streams), opens, writes, imports, calls and destroys of 2-8 contexts, compared with the extracted model; plus the "
                       "differential search: one case per export call of a library in two contexts with different prior state; plus (round 3) signal "
                       "scenarios (one case per install / ignore / raise / run / destroy of a random history, every live context's pending mask and "
                       "handler log compared with the extracted model) and table scenarios (one case per type registration / intern / define / "
                       "import / destroy of an interleaving of 2-6 contexts, every live context's tables dumped and compared with the extracted "
                       "model and with the context running alone); plus (round 4) the library-call stream: one case per context run of N OS threads calling the same "
                       "C-backed library procedures ((chibi time system filesystem ast temp-file), srfi 144 / 98) with context-specific arguments, loops started "
                       "together, per argument the list of distinct results compared with the single-process run; and the deterministic lost-creation-race probe")
    d = ctx.build("nohooks")
    # ---------------------------------------------------------------- (G) inventory + (T) theorems
    table, stats, sos = c13_statics.regen(ctx, d)
    ctx.note("inventory: %d writable objects in %d shared objects (%d instructions scanned, %d data references attributed)" %
             (len(table), len(sos), stats["insns"], stats["refs"]))
    probs = _diagnose(table)
    imps, sts = c13_imports.regen(ctx, d)
    lprobs = _diagnose_libc(imps, sts)
    ctx.note("imports: %d undefined dynamic symbols over %d shared objects, %d of them on the not-thread-safe / process-attribute table; %d creation sites in the Scheme libraries" %
             (len(imps), len(sos), sum(1 for r in imps if r["callers"]), len(sts)))
    coq_ok = ctx.coq_obligations("Properties_C13")
    if lprobs:
        for u in ctx.unproved:
            if u["name"] == "Properties_C13":
                u["libc_import_or_creation_site_problems"] = lprobs[:20]
        if coq_ok:
            ctx.broken("libc-inventory-diagnosis", "python replica of the import / creation-site check disagrees with Coq: %s" % lprobs[:3])
        ctx.note("import / creation-site lists not covering the build: %s" % json.dumps(lprobs[:10]))
    if probs:
        # the generated obligation is the authority; this only says which static/function broke it
        for u in ctx.unproved:
            if u["name"] == "Properties_C13":
                u["inventory_problems"] = probs[:20]
        if coq_ok:
            ctx.broken("inventory-diagnosis", "python replica of the allow-list check disagrees with Coq: %s" % probs[:3])
        ctx.note("allow-list not covering the build: %s" % json.dumps(probs[:10]))
    ctx.trust("gen/c13_statics.py: objdump/readelf disassembly scan attributing stores and address-taking to functions (conservative: "
              "rip-relative, lea- and GOT-derived operands with local register tracking; a store through a pointer that escaped is "
              "attributed to the function that leaked the address, which must be on the allow-list)")
    ctx.trust("ThreadSanitizer (clang) as the race oracle; the harness's heap audit as the disjoint-heaps oracle")
    ctx.assume("embedding protocol of doc/chibi.scrbl: sexp_scheme_init() is called once before the first context is created "
               "(the two init flags are unsynchronised; first-use from several threads at once is outside the claim)")
    ctx.assume("signal handlers (set-signal-action!) are inside the claim with the documented limitation, stated in coq/C13/Sig.v: one context per "
               "signal number process-wide (registering s in context j re-routes s to j; different signals are independent), a context must "
               "set its handled signals to ignore/default before it is destroyed, signals are raised while no OS thread is inside the registrant; "
               "no failing heap-image load/save (static message buffer gc_heap.c:10); the executable main.c is not part of the claim")
    ctx.assume("of what the operating system shares between threads of one process, stdio streams / file descriptors and dlopen "
               "references are inside the claim (model coq/C13/Res.v, ownership = the port's no_close flag); cwd, environment "
               "variables and signal dispositions stay outside; the C library's own state is inside as far as the import inventory goes (round 4: no shared "
               "object of the build imports a function of the not-thread-safe table coq/C13/Libc.v without a reviewed entry); names in the file system "
               "derived from pid + clock are inside (atomic creation; model coq/C13/Ns.v)")
    ctx.trust("coq/C13/Libc.v mt_unsafe: transcription of the MT-Unsafe annotations of glibc's manual / man-pages attributes(7) and of the POSIX.1-2017 2.9.1 list "
              "(a function missing from the table is invisible to the import obligation); gen/c13_imports.py: nm -D / objdump -d, and a tokenizer-level scan of lib/**/*.scm, *.sld")

    # ---------------------------------------------------------------- (K) harness
    emb = B.cc_embed(d, HARNESS, os.path.join(d, "embed_c13"))
    # (K inner, round 2) process-wide OS resources: extracted model vs implementation, operation by operation
    boost = {LC_FOR_SO.get(pr.get("lib")) for pr in lprobs if pr["kind"] == "import"} | ({"ns-temp-file"} if any(pr["kind"] == "site" for pr in lprobs) else set())
    _nsprobe(ctx, d)
    _libcalls(ctx, emb, d, boost - {None})
    exe = ctx.extract("C13")
    if exe is not None:
        _resources(ctx, emb, d, exe)
        _signals(ctx, emb, d, exe)
        _tables(ctx, emb, d, exe)
    # libraries whose shared object holds a static the allow-list does not cover: failing-input search below
    so_libs = _so_libs(d)
    suspects = {}
    for pr in probs:
        rel = pr["static"].split(":")[0]
        for lib in so_libs.get(rel, []):
            suspects.setdefault(lib, []).append("%s: %s" % (pr["static"], pr["problem"]))
    nW = 26 if not ctx.thorough else 52
    wl = WL.make(rng, nW)
    works = {i: t for i, (n, t) in enumerate(wl)}
    tname = {i: n for i, (n, t) in enumerate(wl)}

    # baseline: every workload alone in its own process
    base = {}
    from concurrent.futures import ThreadPoolExecutor
    with ThreadPoolExecutor(4) as ex:      # four baseline processes at a time (each is one context on one thread)
        futs = {i: ex.submit(_run, emb, d, "run", _spec_text(works, [(0, 0, [i])]), "base%d" % i, (), 120) for i in works}
    for i in works:
        rc, out, err, rp = futs[i].result()
        R = _parse_R(out)
        if rc != 0 or (0, 0) not in R:
            ctx.broken("baseline:" + tname[i], "workload does not run alone: rc=%s %s" % (rc, err[-300:]), replay=rp)
            continue
        _, iso, nobj, res = R[(0, 0)]
        if iso != "ok":
            ctx.violation("heap-not-closed:baseline:" + tname[i], input=works[i], expected="ok", observed=iso, replay=rp)
        if res.startswith("ERR:"):
            ctx.broken("baseline:" + tname[i], "workload raises alone: %s" % res[:200], replay=rp)
        base[i] = (iso, nobj, res)
        ctx.count(1, key=("base", works[i]), nontrivial=False)
    ctx.sample(dict(kind="baseline", workload=tname.get(0), text=works[0][:300], result=base.get(0, ("", "", ""))[2][:200]))

    def compare(mode, nthreads, threads, rc, out, err, replay, spec, delta=0):
        R = _parse_R(out)
        nbad = 0
        if rc == "timeout":
            ctx.violation("hang:%s" % mode, input=spec, expected="the run ends", observed=err, replay=replay, spec=spec)
            nbad += 1
        elif rc != 0:
            ctx.violation("crash:%s" % mode, input=spec, expected="exit 0", observed="rc=%s %s" % (rc, err[-600:]), replay=replay, spec=spec)
            nbad += 1
        for t, (h, j, ids) in enumerate(threads):
            for k, i in enumerate(ids):
                ctx.count(1, key=(mode, nthreads, t, k, works[i]), nontrivial=(nthreads > 1 or k > 0))
                if i not in base:
                    continue
                got = R.get((t, k))
                if got is None:
                    if rc == 0:
                        ctx.violation("missing-output:%s" % mode, input=spec, expected=base[i][2][:300], observed="no R line for thread %d job %d" % (t, k), replay=replay, spec=spec)
                    nbad += 1
                    continue
                _, iso, nobj, res = got
                if iso != "ok":
                    ctx.violation("heap-not-closed:%s:%s" % (mode, tname[i]), input=works[i], expected="every traced slot points into the context's own heaps",
                                  observed=iso, threads=nthreads, replay=replay, spec=spec)
                    nbad += 1
                if res != base[i][2]:
                    ctx.violation("output-differs:%s:%s" % (mode, tname[i]), input=works[i], expected=base[i][2][:500], observed=res[:500],
                                  threads=nthreads, thread=t, job=k, replay=replay, spec=spec)
                    nbad += 1
                elif int(nobj) != int(base[i][1]) + delta:
                    ctx.violation("live-objects-differ:%s:%s" % (mode, tname[i]), input=works[i], expected=base[i][1], observed=nobj,
                                  threads=nthreads, thread=t, job=k, replay=replay, spec=spec)
                    nbad += 1
                else:
                    ctx.cov["traces_validated_against_impl"] += 1
        return nbad

    ids_all = sorted(base)
    if not ids_all:
        return
    # sequential: one thread, all workloads, forwards then backwards (state left behind by a destroyed context)
    seq = [(0, 0, ids_all + ids_all[::-1])]
    spec = _spec_text(works, seq)
    rc, out, err, rp = _run(emb, d, "run", spec, "seq", timeout=300 if not ctx.thorough else 900)
    compare("sequential", 1, seq, rc, out, err, rp, spec)

    # probes
    rc, out, err, rp = _run(emb, d, "probe", _spec_text(works, []), "probe", timeout=120)
    np_ = 0
    for line in out.split("\n"):
        if line.startswith("P "):
            f = line.split(" ", 3)
            np_ += 1
            ctx.count(1, key=("probe", f[1]), nontrivial=True)
            if f[2] != "ok":
                ctx.violation("probe:" + f[1], input="harness/embed_c13.c probes(): " + f[1], expected="ok", observed=(f[3] if len(f) > 3 else "FAIL"), replay=rp)
    if rc != 0 or np_ < 30:
        ctx.violation("crash:probe", input="probe sequence", expected="all probes run", observed="rc=%s, %d probes, %s" % (rc, np_, err[-500:]), replay=rp)
    ctx.sample(dict(kind="probes", count=np_, first=out.split("\n")[0][:200]))

    # concurrent
    def schedule(T, jobs, same_first=None):
        th = []
        for t in range(T):
            ids = [rng.choice(ids_all) for _ in range(jobs)]
            if same_first is not None:
                # all threads load the same C-backed libraries at the same moment (instances of one template differ in
                # parameters and in how many types they register first)
                ids[0] = rng.choice([i for i in ids_all if tname[i] == tname[same_first]])
            th.append((rng.choice([0, 0, 1 << 20, 3 << 20]), rng.choice([0, 0, 200, 2000]), ids))
        return th

    sys_ids = [i for i in ids_all if tname[i] in ("system-libs", "hash-srfi69", "green-threads-srfi18", "strings-io")]
    if not ctx.thorough:
        plans = [(2, 3, None), (4, 3, rng.choice(sys_ids) if sys_ids else None), (8, 2, None), (16, 2, rng.choice(sys_ids) if sys_ids else None)]
    else:
        plans = [(T, rng.randrange(3, 6), (rng.choice(sys_ids) if sys_ids and rng.random() < 0.5 else None))
                 for T in [2, 3, 4, 5, 6, 8, 10, 12, 14, 16, 16, 16, 2, 7, 9, 16]]
    for n, (T, jobs, sf) in enumerate(plans):
        th = schedule(T, jobs, sf)
        spec = _spec_text(works, th)
        # every second plan: contexts created exactly as doc/chibi.scrbl shows (standard ports on the host's streams,
        # no_close = 1), destroyed concurrently; the host's descriptors 0 1 2 must survive
        sp = n % 2 == 1
        rc, out, err, rp = _run(emb, d, "run", spec, "conc%d" % n, extra_args=(["stdports"] if sp else []), timeout=240 if not ctx.thorough else 600)
        compare("concurrent", T, th, rc, out, err, rp, spec, delta=3 if sp else 0)     # the three port objects
        m = re.search(r"^S stdfds (\S+) (\d+)", out, re.M)
        if rc == 0 and (m is None or m.group(1) != "ok"):
            ctx.violation("resource:concurrent:std-stream-closed", input=spec, expected="descriptors 0 1 2 of the process unchanged after %d threads created and destroyed contexts" % T,
                          observed=(m.group(0) if m else "no S line"), replay=rp, spec=spec)
        if n == 0:
            ctx.sample(dict(kind="concurrent", threads=T, jobs=[[tname[i] for i in t[2]] for t in th], first_line=out.split("\n")[0][:200]))

    # ThreadSanitizer: failing-input search for races (small in quick, wide in thorough)
    try:
        dt = ctx.build(TSAN)
        embt = B.cc_embed(dt, HARNESS, os.path.join(dt, "embed_c13"))
    except B.BuildError as e:
        ctx.broken("build:" + TSAN, str(e)[-800:])
        return
    if not ctx.thorough:
        tplans = [(4, 2, rng.choice(sys_ids) if sys_ids else None)]
    else:
        tplans = [(2, 3, None), (4, 3, None), (8, 2, None), (16, 2, None)] + [(4, 2, s) for s in sys_ids] + [(16, 1, s) for s in sys_ids[:2]]
    nrep = 0
    for n, (T, jobs, sf) in enumerate(tplans):
        th = schedule(T, jobs, sf)
        spec = _spec_text(works, th)
        rc, out, err, rp = _run(embt, dt, "run", spec, "tsan%d" % n, timeout=300 if not ctx.thorough else 900, tsan=True)
        compare("concurrent-tsan", T, th, rc, out, err, rp, spec)
        for rep in _tsan_reports(err):
            nrep += 1
            ctx.violation("tsan:%s:%s" % (rep["kind"].replace(" ", "-"), rep["func"]), input=spec, expected="no report from ThreadSanitizer",
                          observed=rep["text"], location=rep["location"], threads=T, replay=rp + "   # TSAN build", spec=spec)
    ctx.note("ThreadSanitizer runs: %d, reports: %d" % (len(tplans), nrep))
    # (B) differential search: always for a sample of the C-backed libraries, and (with ThreadSanitizer) for every
    # library whose shared object broke the inventory obligation
    cand = sorted({l for so, ls in so_libs.items() for l in ls if not DIFF_SKIP.search(l)})
    sample = cand if ctx.thorough else rng.sample(cand, min(2, len(cand)))
    if suspects:
        n = _diffsearch(ctx, emb, d, sorted(suspects), "inventory obligation: " + "; ".join(sum(suspects.values(), []))[:600], embt, dt)
        ctx.note("differential search for %s (static not covered by the allow-list): %d failing program(s)" % (sorted(suspects), n))
    _diffsearch(ctx, emb, d, [l for l in sample if l not in suspects], "sample")
    if ctx.thorough:
        # protocol-violation probe (recorded, not a finding): every thread calls sexp_scheme_init() itself
        th = schedule(4, 1, None)
        rc, out, err, rp = _run(embt, dt, "run", _spec_text(works, th), "tsan-initrace", extra_args=["initrace"], timeout=600, tsan=True)
        reps = _tsan_reports(err)
        ctx.note("first-use probe (sexp_scheme_init called concurrently from 4 threads, outside the documented protocol): %d TSan report(s): %s" %
                 (len(reps), sorted({r["location"] for r in reps})))


def replay(ctx, data):
    """re-run the replay commands of a replay file"""
    rc = 0
    for case in data.get("failing_cases", []):
        spec, cmd = case.get("spec"), case.get("replay", "")
        m = re.search(r"(\S+\.spec)", cmd)
        if spec and m:
            os.makedirs(os.path.dirname(m.group(1)), exist_ok=True)
            open(m.group(1), "w").write(spec)
        print("$ " + cmd)
        r = subprocess.run(cmd.split("   #")[0], shell=True, capture_output=True, text=True, errors="replace")
        print(r.stdout[-3000:])
        print(r.stderr[-3000:])
        rc = 1
    return rc
